//! C16 / C17: the match-arm tables of `data/point_group.rs`, `identify/point_group.rs` and the
//! derived range table `ITA_NUMBER_TO_UNI_NUMBERS` as the *running* code reports them
//! (validation of tools/translate_c16.py and of the Lean model `Moyo.TableSpec.uniNumberRange`).
//!   c16-gen <out>   lines `request ||| expected` for the driver commands
//!     georep <name>  variant of `GeometricCrystalClass`: name, centring and rotations of the
//!                    generators of `from_geometric_crystal_class`, order of the generated group
//!     arithrep <k>   centring and `primitive_generators()` of `from_arithmetic_crystal_class(k)`
//!     pgident <h>    arithmetic number found by `PointGroup::new` for the primitive rotations of Hall number h
//!     unirange <n>   `uni_number_range(n)`
use crate::util::*;
use moyo::data::{GeometricCrystalClass, HallSymbol};
use moyo::verif::base::{project_rotations, traverse};
use moyo::verif::data::{uni_number_range, PointGroupRepresentative};
use moyo::verif::identify::PointGroup;

fn rots_str(rots: &[nalgebra::Matrix3<i32>]) -> String {
    rots.iter()
        .map(|r| {
            let mut v = vec![];
            for i in 0..3 {
                for j in 0..3 {
                    v.push(r[(i, j)].to_string());
                }
            }
            v.join(" ")
        })
        .collect::<Vec<_>>()
        .join(" | ")
}

pub fn gen(out: &str) {
    let mut w = CaseWriter::create(out);
    use GeometricCrystalClass::*;
    let classes = [
        C1, Ci, C2, C1h, C2h, D2, C2v, D2h, C4, S4, C4h, D4, C4v, D2d, D4h, C3, C3i, D3, C3v, D3d, C6, C3h, C6h, D6, C6v,
        D3h, D6h, T, Th, O, Td, Oh,
    ];
    for class in classes.into_iter() {
        let exp = match catch(move || {
            let pg = PointGroupRepresentative::from_geometric_crystal_class(class);
            let order = traverse(&pg.generators).len();
            format!("{:?} {:?} {} ; {}", class, pg.centering, order, rots_str(&pg.generators))
        }) {
            Ok(s) => s,
            Err(m) => format!("PANIC {}", m),
        };
        w.case(&format!("georep {:?}", class), &exp);
    }
    w.case("georep X9", "none");
    for k in 1..=73 {
        let exp = match catch(move || {
            let pg = PointGroupRepresentative::from_arithmetic_crystal_class(k);
            format!("{:?} ; {}", pg.centering, rots_str(&pg.primitive_generators()))
        }) {
            Ok(s) => s,
            Err(m) => format!("PANIC {}", m),
        };
        w.case(&format!("arithrep {}", k), &exp);
    }
    for h in 1..=530 {
        let exp = match catch(move || {
            let hs = HallSymbol::from_hall_number(h).unwrap();
            let rots = project_rotations(&hs.primitive_traverse());
            match PointGroup::new(&rots) {
                Ok(pg) => format!("{}", pg.arithmetic_number),
                Err(e) => format!("Err({:?})", e),
            }
        }) {
            Ok(s) => s,
            Err(m) => format!("PANIC {}", m),
        };
        w.case(&format!("pgident {}", h), &exp);
    }
    for n in -2..=233 {
        let exp = match catch(move || uni_number_range(n)) {
            Ok(Some(r)) => format!("{} {}", r.start(), r.end()),
            Ok(None) => "none".to_string(),
            Err(m) => format!("PANIC {}", m),
        };
        w.case(&format!("unirange {}", n), &exp);
    }
    w.finish();
}

pub fn dispatch(args: &[String], _seed: u64) -> bool {
    match args[1].as_str() {
        "c16-gen" => {
            gen(&args[2]);
            true
        }
        _ => false,
    }
}
