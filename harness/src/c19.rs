//! C19: cells, magnetic cells, datasets and magnetic datasets round-trip through serde_json.
//!
//! For every value x built from an input *spec* (a small JSON object: constructor arguments):
//!   s = serde_json::to_string(x);  y = serde_json::from_str(s);
//!   dump(x) and dump(y) are compared leaf by leaf (ints/strings/chars/bools/lengths/variants exactly,
//!   floats to 1e-15 relative).  `dump` is hand-written: it reads the Rust fields directly (matrices
//!   through `m[(i, j)]`, row by row) and never goes through serde, so it is an independent account of
//!   what the value contains.
//! One case line per value:  `c19 <TAB> type <TAB> dump tokens <TAB> s ||| rust verdict`.
//! The Lean driver decodes `s` against the regenerated schema, re-encodes it, and compares the decoded
//! value with the dump tokens.  A second file (`.py.jsonl`) carries spec + s for the Python side.
use crate::util::*;
use moyo::base::{
    AngleTolerance, Cell, Collinear, Lattice, MagneticCell, MagneticMoment, MagneticOperation, NonCollinear, Operation,
    RotationMagneticMomentAction,
};
use moyo::data::{HallSymbol, MagneticHallSymbol, Setting};
use moyo::{MoyoDataset, MoyoMagneticDataset};
use nalgebra::{Matrix3, Vector3};
use serde::de::DeserializeOwned;
use serde::Serialize;
use serde_json::{json, Value};
use std::io::Write;

// ------------------------------------------------------------------------------------------------
// independent dump

#[derive(Clone, Debug)]
pub enum Leaf {
    I(i128),
    F(f64),
    S(String),
    C(char),
    B(bool),
    N(usize),
    V(&'static str),
}

impl Leaf {
    fn token(&self) -> String {
        match self {
            Leaf::I(i) => format!("i:{}", i),
            Leaf::F(x) => format!("f:{}", fx(*x)),
            Leaf::S(s) => format!("s:{}", s.bytes().map(|b| format!("{:02x}", b)).collect::<String>()),
            Leaf::C(c) => format!("c:{}", *c as u32),
            Leaf::B(b) => format!("b:{}", if *b { 1 } else { 0 }),
            Leaf::N(n) => format!("n:{}", n),
            Leaf::V(v) => format!("v:{}", v),
        }
    }
    /// property C19's notion of equality of one leaf
    fn same(&self, other: &Leaf) -> bool {
        match (self, other) {
            (Leaf::I(a), Leaf::I(b)) => a == b,
            (Leaf::F(a), Leaf::F(b)) => {
                if a.is_nan() || b.is_nan() {
                    return false;
                }
                use std::sync::atomic::Ordering::Relaxed;
                FLOATS.fetch_add(1, Relaxed);
                if a.to_bits() == b.to_bits() {
                    return true;
                }
                FLOATS_INEXACT.fetch_add(1, Relaxed);
                if a == b {
                    return true;
                }
                let rel = (a - b).abs() / a.abs().max(b.abs());
                // non-negative f64 order = order of the bit patterns
                MAX_REL_BITS.fetch_max(rel.to_bits(), Relaxed);
                (a - b).abs() <= 1e-15 * a.abs().max(b.abs())
            }
            (Leaf::S(a), Leaf::S(b)) => a == b,
            (Leaf::C(a), Leaf::C(b)) => a == b,
            (Leaf::B(a), Leaf::B(b)) => a == b,
            (Leaf::N(a), Leaf::N(b)) => a == b,
            (Leaf::V(a), Leaf::V(b)) => a == b,
            _ => false,
        }
    }
}

/// floats compared / floats not bit-identical after the round trip / largest relative deviation seen (as bits)
pub static FLOATS: std::sync::atomic::AtomicU64 = std::sync::atomic::AtomicU64::new(0);
pub static FLOATS_INEXACT: std::sync::atomic::AtomicU64 = std::sync::atomic::AtomicU64::new(0);
pub static MAX_REL_BITS: std::sync::atomic::AtomicU64 = std::sync::atomic::AtomicU64::new(0);

#[derive(Default)]
pub struct Dump {
    pub leaves: Vec<(String, Leaf)>,
    path: Vec<String>,
}

impl Dump {
    fn at<T: Dumpable + ?Sized>(&mut self, name: &str, x: &T) {
        self.path.push(name.to_string());
        x.dump(self);
        self.path.pop();
    }
    fn leaf(&mut self, l: Leaf) {
        self.leaves.push((self.path.join("."), l));
    }
    pub fn tokens(&self) -> String {
        self.leaves.iter().map(|(_, l)| l.token()).collect::<Vec<_>>().join(" ")
    }
}

pub trait Dumpable {
    fn dump(&self, d: &mut Dump);
}

impl Dumpable for i32 {
    fn dump(&self, d: &mut Dump) {
        d.leaf(Leaf::I(*self as i128));
    }
}
impl Dumpable for usize {
    fn dump(&self, d: &mut Dump) {
        d.leaf(Leaf::I(*self as i128));
    }
}
impl Dumpable for f64 {
    fn dump(&self, d: &mut Dump) {
        d.leaf(Leaf::F(*self));
    }
}
impl Dumpable for bool {
    fn dump(&self, d: &mut Dump) {
        d.leaf(Leaf::B(*self));
    }
}
impl Dumpable for char {
    fn dump(&self, d: &mut Dump) {
        d.leaf(Leaf::C(*self));
    }
}
impl Dumpable for String {
    fn dump(&self, d: &mut Dump) {
        d.leaf(Leaf::S(self.clone()));
    }
}
impl<T: Dumpable> Dumpable for Vec<T> {
    fn dump(&self, d: &mut Dump) {
        d.leaf(Leaf::N(self.len()));
        for (i, x) in self.iter().enumerate() {
            d.at(&i.to_string(), x);
        }
    }
}
/// matrices are dumped in reading order: entry (i, j) for i = 0..3, j = 0..3 (row by row)
impl<T: Dumpable + nalgebra::Scalar> Dumpable for Matrix3<T> {
    fn dump(&self, d: &mut Dump) {
        for i in 0..3 {
            for j in 0..3 {
                d.at(&format!("{}.{}", i, j), &self[(i, j)]);
            }
        }
    }
}
impl<T: Dumpable + nalgebra::Scalar> Dumpable for Vector3<T> {
    fn dump(&self, d: &mut Dump) {
        for i in 0..3 {
            d.at(&format!("{}.0", i), &self[i]);
        }
    }
}
impl Dumpable for Lattice {
    fn dump(&self, d: &mut Dump) {
        let Lattice { basis } = self;
        d.at("basis", basis);
    }
}
impl Dumpable for Cell {
    fn dump(&self, d: &mut Dump) {
        let Cell { lattice, positions, numbers } = self;
        d.at("lattice", lattice);
        d.at("positions", positions);
        d.at("numbers", numbers);
    }
}
impl Dumpable for Collinear {
    fn dump(&self, d: &mut Dump) {
        let Collinear(m) = self;
        m.dump(d);
    }
}
impl Dumpable for NonCollinear {
    fn dump(&self, d: &mut Dump) {
        let NonCollinear(m) = self;
        m.dump(d);
    }
}
impl<M: MagneticMoment + Dumpable> Dumpable for MagneticCell<M> {
    fn dump(&self, d: &mut Dump) {
        let MagneticCell { cell, magnetic_moments } = self;
        d.at("cell", cell);
        d.at("magnetic_moments", magnetic_moments);
    }
}
impl Dumpable for Operation {
    fn dump(&self, d: &mut Dump) {
        let Operation { rotation, translation } = self;
        d.at("rotation", rotation);
        d.at("translation", translation);
    }
}
impl Dumpable for MagneticOperation {
    fn dump(&self, d: &mut Dump) {
        let MagneticOperation { operation, time_reversal } = self;
        d.at("operation", operation);
        d.at("time_reversal", time_reversal);
    }
}
impl Dumpable for AngleTolerance {
    fn dump(&self, d: &mut Dump) {
        match self {
            AngleTolerance::Radian(x) => {
                d.leaf(Leaf::V("Radian"));
                d.at("Radian", x);
            }
            AngleTolerance::Default => d.leaf(Leaf::V("Default")),
        }
    }
}
impl Dumpable for MoyoDataset {
    fn dump(&self, d: &mut Dump) {
        let MoyoDataset {
            number,
            hall_number,
            operations,
            orbits,
            wyckoffs,
            site_symmetry_symbols,
            std_cell,
            std_linear,
            std_origin_shift,
            std_rotation_matrix,
            pearson_symbol,
            prim_std_cell,
            prim_std_linear,
            prim_std_origin_shift,
            mapping_std_prim,
            symprec,
            angle_tolerance,
        } = self;
        d.at("number", number);
        d.at("hall_number", hall_number);
        d.at("operations", operations);
        d.at("orbits", orbits);
        d.at("wyckoffs", wyckoffs);
        d.at("site_symmetry_symbols", site_symmetry_symbols);
        d.at("std_cell", std_cell);
        d.at("std_linear", std_linear);
        d.at("std_origin_shift", std_origin_shift);
        d.at("std_rotation_matrix", std_rotation_matrix);
        d.at("pearson_symbol", pearson_symbol);
        d.at("prim_std_cell", prim_std_cell);
        d.at("prim_std_linear", prim_std_linear);
        d.at("prim_std_origin_shift", prim_std_origin_shift);
        d.at("mapping_std_prim", mapping_std_prim);
        d.at("symprec", symprec);
        d.at("angle_tolerance", angle_tolerance);
    }
}
impl<M: MagneticMoment + Dumpable> Dumpable for MoyoMagneticDataset<M> {
    fn dump(&self, d: &mut Dump) {
        let MoyoMagneticDataset {
            uni_number,
            magnetic_operations,
            orbits,
            std_mag_cell,
            std_linear,
            std_origin_shift,
            std_rotation_matrix,
            prim_std_mag_cell,
            prim_std_linear,
            prim_std_origin_shift,
            mapping_std_prim,
            symprec,
            angle_tolerance,
            mag_symprec,
        } = self;
        d.at("uni_number", uni_number);
        d.at("magnetic_operations", magnetic_operations);
        d.at("orbits", orbits);
        d.at("std_mag_cell", std_mag_cell);
        d.at("std_linear", std_linear);
        d.at("std_origin_shift", std_origin_shift);
        d.at("std_rotation_matrix", std_rotation_matrix);
        d.at("prim_std_mag_cell", prim_std_mag_cell);
        d.at("prim_std_linear", prim_std_linear);
        d.at("prim_std_origin_shift", prim_std_origin_shift);
        d.at("mapping_std_prim", mapping_std_prim);
        d.at("symprec", symprec);
        d.at("angle_tolerance", angle_tolerance);
        d.at("mag_symprec", mag_symprec);
    }
}

fn dump_of<T: Dumpable>(x: &T) -> Dump {
    let mut d = Dump::default();
    x.dump(&mut d);
    d
}

/// "ok" or the first difference between the value and the value read back
fn compare_dumps(a: &Dump, b: &Dump) -> String {
    if a.leaves.len() != b.leaves.len() {
        // find the first divergence for the message
        for (k, ((pa, la), (pb, lb))) in a.leaves.iter().zip(b.leaves.iter()).enumerate() {
            if pa != pb || !la.same(lb) {
                return format!("rust-mismatch leaf {} {}={} read back as {}={}", k, pa, la.token(), pb, lb.token());
            }
        }
        return format!("rust-mismatch leaf-count {} read back as {}", a.leaves.len(), b.leaves.len());
    }
    for (k, ((pa, la), (pb, lb))) in a.leaves.iter().zip(b.leaves.iter()).enumerate() {
        if pa != pb || !la.same(lb) {
            return format!("rust-mismatch leaf {} {}={} read back as {}={}", k, pa, la.token(), pb, lb.token());
        }
    }
    "ok".to_string()
}

/// One value through the round trip.  Returns (request line, rust verdict, serialized string).
fn round_trip<T: Serialize + DeserializeOwned + Dumpable>(ty: &str, x: &T) -> (String, String, String) {
    let dx = dump_of(x);
    let s = match serde_json::to_string(x) {
        Ok(s) => s,
        Err(e) => return (format!("c19\t{}\t{}\tnull", ty, dx.tokens()), format!("serialize-error {}", e), "null".into()),
    };
    let verdict = match serde_json::from_str::<T>(&s) {
        Ok(y) => compare_dumps(&dx, &dump_of(&y)),
        Err(e) => format!("deserialize-error {}", e).replace('\n', " "),
    };
    (format!("c19\t{}\t{}\t{}", ty, dx.tokens(), s), verdict, s)
}

// ------------------------------------------------------------------------------------------------
// specs (constructor arguments as JSON) <-> values

fn rows_of(basis: &Matrix3<f64>) -> Value {
    // row i of the constructor argument = i-th basis vector = column i of `basis`
    json!([
        [basis[(0, 0)], basis[(1, 0)], basis[(2, 0)]],
        [basis[(0, 1)], basis[(1, 1)], basis[(2, 1)]],
        [basis[(0, 2)], basis[(1, 2)], basis[(2, 2)]]
    ])
}

fn cell_spec(cell: &Cell) -> Value {
    json!({
        "basis": rows_of(&cell.lattice.basis),
        "positions": cell.positions.iter().map(|p| vec![p[0], p[1], p[2]]).collect::<Vec<_>>(),
        "numbers": cell.numbers,
    })
}

fn fl(v: &Value) -> f64 {
    v.as_f64().expect("number in spec")
}

fn vec3(v: &Value) -> Vector3<f64> {
    Vector3::new(fl(&v[0]), fl(&v[1]), fl(&v[2]))
}

fn cell_from(v: &Value) -> Cell {
    let b = &v["basis"];
    let rows = [
        [fl(&b[0][0]), fl(&b[0][1]), fl(&b[0][2])],
        [fl(&b[1][0]), fl(&b[1][1]), fl(&b[1][2])],
        [fl(&b[2][0]), fl(&b[2][1]), fl(&b[2][2])],
    ];
    let positions = v["positions"].as_array().expect("positions").iter().map(vec3).collect();
    let numbers = v["numbers"].as_array().expect("numbers").iter().map(|n| n.as_i64().unwrap() as i32).collect();
    Cell::new(Lattice::from_basis(rows), positions, numbers)
}

fn collinear_from(v: &Value) -> MagneticCell<Collinear> {
    let m = v["magnetic_moments"].as_array().expect("moments").iter().map(|x| Collinear(fl(x))).collect();
    MagneticCell::from_cell(cell_from(v), m)
}

fn noncollinear_from(v: &Value) -> MagneticCell<NonCollinear> {
    let m = v["magnetic_moments"].as_array().expect("moments").iter().map(|x| NonCollinear(vec3(x))).collect();
    MagneticCell::from_cell(cell_from(v), m)
}

fn angle_from(v: &Value) -> AngleTolerance {
    if v.is_null() {
        AngleTolerance::Default
    } else {
        AngleTolerance::Radian(fl(v))
    }
}

fn setting_from(v: &Value) -> Setting {
    match v {
        Value::String(s) if s == "standard" => Setting::Standard,
        Value::Object(o) => Setting::HallNumber(o["hall_number"].as_i64().unwrap() as i32),
        _ => Setting::Spglib,
    }
}

pub enum Outcome {
    /// request, rust verdict, serialized
    Case(String, String, String),
    /// the constructor returned Err / panicked: nothing to serialize
    NoValue(String),
}

/// Build the value a spec describes and push it through the round trip.
pub fn eval_spec(spec: &Value) -> Outcome {
    let ty = spec["type"].as_str().unwrap_or("").to_string();
    let c = &spec["cell"];
    let symprec = spec.get("symprec").and_then(|x| x.as_f64()).unwrap_or(1e-4);
    let angle = angle_from(spec.get("angle_tolerance").unwrap_or(&Value::Null));
    let mag_symprec = spec.get("mag_symprec").and_then(|x| x.as_f64());
    let action = if spec.get("is_axial").and_then(|x| x.as_bool()).unwrap_or(false) {
        RotationMagneticMomentAction::Axial
    } else {
        RotationMagneticMomentAction::Polar
    };
    let pack = |r: (String, String, String)| Outcome::Case(r.0, r.1, r.2);
    match ty.as_str() {
        "Cell" => pack(round_trip("Cell", &cell_from(c))),
        "MagneticCell<Collinear>" => pack(round_trip(&ty, &collinear_from(c))),
        "MagneticCell<NonCollinear>" => pack(round_trip(&ty, &noncollinear_from(c))),
        "MoyoDataset" => {
            let cell = cell_from(c);
            let setting = setting_from(spec.get("setting").unwrap_or(&Value::Null));
            match catch(move || MoyoDataset::new(&cell, symprec, angle, setting)) {
                Ok(Ok(ds)) => pack(round_trip("MoyoDataset", &ds)),
                Ok(Err(e)) => Outcome::NoValue(format!("Err({:?})", e)),
                Err(p) => Outcome::NoValue(format!("PANIC {}", p)),
            }
        }
        "MoyoMagneticDataset<Collinear>" => {
            let mc = collinear_from(c);
            match catch(move || MoyoMagneticDataset::new(&mc, symprec, angle, mag_symprec, action)) {
                Ok(Ok(ds)) => pack(round_trip(&ty, &ds)),
                Ok(Err(e)) => Outcome::NoValue(format!("Err({:?})", e)),
                Err(p) => Outcome::NoValue(format!("PANIC {}", p)),
            }
        }
        "MoyoMagneticDataset<NonCollinear>" => {
            let mc = noncollinear_from(c);
            match catch(move || MoyoMagneticDataset::new(&mc, symprec, angle, mag_symprec, action)) {
                Ok(Ok(ds)) => pack(round_trip(&ty, &ds)),
                Ok(Err(e)) => Outcome::NoValue(format!("Err({:?})", e)),
                Err(p) => Outcome::NoValue(format!("PANIC {}", p)),
            }
        }
        other => Outcome::NoValue(format!("unknown spec type {}", other)),
    }
}

// ------------------------------------------------------------------------------------------------
// generators

fn rem1(x: f64) -> f64 {
    x.rem_euclid(1.0)
}

fn conv_ops(h: i32) -> Vec<Operation> {
    let hs = HallSymbol::from_hall_number(h).expect("hall number");
    let coset = hs.traverse();
    let mut ops = vec![];
    for t in hs.centering.lattice_points() {
        for o in coset.iter() {
            ops.push(Operation::new(o.rotation, (o.translation + t).map(rem1)));
        }
    }
    ops
}

fn conv_mag_ops(uni: i32) -> Option<Vec<MagneticOperation>> {
    let hs = MagneticHallSymbol::from_uni_number(uni)?;
    let coset = hs.traverse();
    let mut ops = vec![];
    for t in hs.centering.lattice_points() {
        for o in coset.iter() {
            ops.push(MagneticOperation::new(o.operation.rotation, (o.operation.translation + t).map(rem1), o.time_reversal));
        }
    }
    Some(ops)
}

/// Basis (columns) of a lattice whose metric is a random SPD matrix averaged over the rotations:
/// generic within the lattice system the rotations allow, for every axis setting.
fn generic_lattice(rotations: &[Matrix3<i32>], rng: &mut Rng) -> Matrix3<f64> {
    let a = Matrix3::<f64>::from_fn(|_, _| rng.uniform(-1.0, 1.0));
    let g0 = a.transpose() * a + Matrix3::identity() * 0.5;
    let mut g = Matrix3::zeros();
    for r in rotations {
        let r = r.map(|e| e as f64);
        g += r.transpose() * g0 * r;
    }
    g /= rotations.len() as f64;
    let l = g.cholesky().expect("SPD").l();
    // a rigid rotation so that the basis matrix is a full (non-triangular, non-symmetric) matrix
    let q = random_rotation(rng);
    q * l.transpose() * rng.uniform(3.0, 6.0)
}

fn random_rotation(rng: &mut Rng) -> Matrix3<f64> {
    let m = Matrix3::<f64>::from_fn(|_, _| rng.normal());
    let qr = m.qr();
    let mut q = qr.q();
    if q.determinant() < 0.0 {
        q = -q;
    }
    q
}

fn same_site(a: &Vector3<f64>, b: &Vector3<f64>) -> bool {
    let d = (a - b).map(|e| e - e.round());
    d.norm() < 1e-6
}

fn crystal(h: i32, rng: &mut Rng, norb: usize) -> Cell {
    let ops = conv_ops(h);
    let rots: Vec<_> = ops.iter().map(|o| o.rotation).collect();
    let basis = generic_lattice(&rots, rng);
    let mut pos: Vec<Vector3<f64>> = vec![];
    let mut nums = vec![];
    for k in 0..norb {
        let x = Vector3::new(rng.uniform(0.05, 0.95), rng.uniform(0.05, 0.95), rng.uniform(0.05, 0.95));
        let mut orb: Vec<Vector3<f64>> = vec![];
        for o in &ops {
            let y = (o.rotation.map(|e| e as f64) * x + o.translation).map(rem1);
            if !orb.iter().any(|z| same_site(z, &y)) {
                orb.push(y);
            }
        }
        let z = rng.range(1, 92) as i32 + k as i32;
        for y in orb {
            pos.push(y);
            nums.push(z);
        }
    }
    Cell::new(Lattice { basis }, pos, nums)
}

/// Magnetic crystal of the magnetic space group `uni`: one generic site with a generic moment,
/// propagated by every operation (R, t, theta): m' = theta * det(R) * (A R A^-1) m (axial vector).
/// Returns the non-collinear cell and a collinear one (scalar rule m' = theta * m).
fn mag_crystal(uni: i32, rng: &mut Rng) -> Option<(MagneticCell<NonCollinear>, MagneticCell<Collinear>)> {
    let ops = conv_mag_ops(uni)?;
    let rots: Vec<_> = ops.iter().map(|o| o.operation.rotation).collect();
    let basis = generic_lattice(&rots, rng);
    let binv = basis.try_inverse()?;
    let mut pos: Vec<Vector3<f64>> = vec![];
    let mut nums: Vec<i32> = vec![];
    let mut vm: Vec<Vec<Vector3<f64>>> = vec![];
    let mut sm: Vec<Vec<f64>> = vec![];
    for k in 0..2 {
        let x = Vector3::new(rng.uniform(0.05, 0.95), rng.uniform(0.05, 0.95), rng.uniform(0.05, 0.95));
        let m = Vector3::new(rng.uniform(-2.0, 2.0), rng.uniform(-2.0, 2.0), rng.uniform(-2.0, 2.0));
        let s = rng.uniform(-3.0, 3.0);
        let start = pos.len();
        let z = rng.range(1, 92) as i32;
        for o in &ops {
            let r = o.operation.rotation.map(|e| e as f64);
            let y = (r * x + o.operation.translation).map(rem1);
            let theta = if o.time_reversal { -1.0 } else { 1.0 };
            let rc = basis * r * binv;
            let my = rc * m * (theta * rc.determinant().round());
            let sy = theta * s;
            match (start..pos.len()).find(|&i| same_site(&pos[i], &y)) {
                Some(i) => {
                    vm[i].push(my);
                    sm[i].push(sy);
                }
                None => {
                    pos.push(y);
                    nums.push(z + k);
                    vm.push(vec![my]);
                    sm.push(vec![sy]);
                }
            }
        }
    }
    let moments_nc = vm.iter().map(|l| NonCollinear(l.iter().fold(Vector3::zeros(), |a, b| a + b) / l.len() as f64)).collect();
    let moments_c = sm.iter().map(|l| Collinear(l.iter().sum::<f64>() / l.len() as f64)).collect();
    let cell = Cell::new(Lattice { basis }, pos, nums);
    Some((MagneticCell::from_cell(cell.clone(), moments_nc), MagneticCell::from_cell(cell, moments_c)))
}

/// Same crystal in another description: unimodular change of basis (random word in elementary
/// matrices) and an origin shift.  Makes `std_linear`, `prim_std_linear` full non-symmetric matrices.
fn redescribe(cell: &Cell, rng: &mut Rng) -> Cell {
    let mut u = Matrix3::<i32>::identity();
    let mut uinv = Matrix3::<i32>::identity();
    for _ in 0..rng.range(2, 5) {
        let i = rng.range(0, 2) as usize;
        let mut j = rng.range(0, 2) as usize;
        if i == j {
            j = (j + 1) % 3;
        }
        let m = *rng.pick(&[-2, -1, 1, 2]);
        let mut e = Matrix3::<i32>::identity();
        e[(i, j)] = m;
        let mut einv = Matrix3::<i32>::identity();
        einv[(i, j)] = -m;
        u *= e;
        uinv = einv * uinv;
    }
    let shift = Vector3::new(rng.uniform(0.0, 1.0), rng.uniform(0.0, 1.0), rng.uniform(0.0, 1.0));
    let uf = u.map(|e| e as f64);
    let uinvf = uinv.map(|e| e as f64);
    let pos = cell.positions.iter().map(|p| (uinvf * (p + shift)).map(rem1)).collect();
    Cell::new(Lattice { basis: cell.lattice.basis * uf }, pos, cell.numbers.clone())
}

fn random_triclinic(rng: &mut Rng) -> Cell {
    let basis = loop {
        let b = Matrix3::<f64>::from_fn(|_, _| rng.uniform(-6.0, 6.0));
        if b.determinant() > 20.0 {
            break b;
        }
    };
    let n = rng.range(1, 6) as usize;
    let pos = (0..n).map(|_| Vector3::new(rng.unit(), rng.unit(), rng.unit())).collect();
    let nums = (0..n).map(|_| rng.range(1, 100) as i32).collect();
    Cell::new(Lattice { basis }, pos, nums)
}

fn generic_symprec(rng: &mut Rng) -> f64 {
    // a 17-significant-digit value near 1e-4
    1e-4 * rng.uniform(0.5, 1.5)
}

fn angle_spec(k: usize, rng: &mut Rng) -> Value {
    if k % 2 == 0 {
        Value::Null
    } else {
        json!(rng.uniform(0.005, 0.05))
    }
}

fn with_moments(cell: &Cell, rng: &mut Rng) -> (Value, Value) {
    let mut c = cell_spec(cell);
    let mut n = c.clone();
    let k = cell.positions.len();
    c["magnetic_moments"] = json!((0..k).map(|_| rng.uniform(-3.0, 3.0)).collect::<Vec<_>>());
    n["magnetic_moments"] =
        json!((0..k).map(|_| vec![rng.uniform(-2.0, 2.0), rng.uniform(-2.0, 2.0), rng.uniform(-2.0, 2.0)]).collect::<Vec<_>>());
    (c, n)
}

fn mag_cell_spec<M: MagneticMoment>(mc: &MagneticCell<M>, f: impl Fn(&M) -> Value) -> Value {
    let mut c = cell_spec(&mc.cell);
    c["magnetic_moments"] = Value::Array(mc.magnetic_moments.iter().map(f).collect());
    c
}

/// All specs of one tier, in a fixed order determined by the seed.
pub fn specs(tier: &str, seed: u64) -> Vec<Value> {
    let thorough = tier == "thorough";
    let mut rng = Rng::new(seed ^ 0xC19);
    let mut out: Vec<Value> = vec![];
    let mut k = 0usize;

    // --- the 13 structures of moyo/tests/assets
    let dir = "/repo/moyo/tests/assets";
    let mut names: Vec<String> = std::fs::read_dir(dir)
        .map(|rd| rd.filter_map(|e| e.ok()).map(|e| e.file_name().to_string_lossy().to_string()).filter(|n| n.ends_with(".json")).collect())
        .unwrap_or_default();
    names.sort();
    for name in names {
        // read by hand (not through the derived Deserialize, which is what is being checked):
        // {"lattice":{"basis":[9 numbers, column-major]},"positions":[[x,y,z],..],"numbers":[..]}
        let text = std::fs::read_to_string(format!("{}/{}", dir, name)).unwrap_or_default();
        let v: Value = match serde_json::from_str(&text) {
            Ok(v) => v,
            Err(_) => continue,
        };
        let b = match v["lattice"]["basis"].as_array() {
            Some(b) if b.len() == 9 && b.iter().all(|x| x.is_number()) => b.clone(),
            _ => continue,
        };
        let (positions, numbers) = match (v["positions"].as_array(), v["numbers"].as_array()) {
            (Some(p), Some(n)) if p.len() == n.len() => (p.clone(), n.clone()),
            _ => continue,
        };
        // basis vector i = column i of the stored matrix = elements 3i..3i+3 of the flat list
        let c = json!({"basis": [[b[0], b[1], b[2]], [b[3], b[4], b[5]], [b[6], b[7], b[8]]], "positions": positions, "numbers": numbers});
        let cell = match catch({
            let c = c.clone();
            move || cell_from(&c)
        }) {
            Ok(cell) => cell,
            Err(_) => continue,
        };
        out.push(json!({"type": "Cell", "origin": format!("asset {}", name), "cell": c}));
        out.push(json!({"type": "MoyoDataset", "origin": format!("asset {}", name), "cell": c, "symprec": 1e-4,
            "angle_tolerance": angle_spec(k, &mut rng), "setting": "spglib"}));
        let (mc, mn) = with_moments(&cell, &mut rng);
        out.push(json!({"type": "MagneticCell<Collinear>", "origin": format!("asset {}", name), "cell": mc}));
        out.push(json!({"type": "MagneticCell<NonCollinear>", "origin": format!("asset {}", name), "cell": mn}));
        k += 1;
    }

    // --- edge cases of the representation: empty sequences, extreme integers, floats whose shortest
    //     decimal form uses an exponent, negative zero, integral floats, very large / very small values
    let specials: Vec<f64> = vec![
        0.0, -0.0, 1.0, -1.0, 0.1 + 0.2, 1.0 / 3.0, 2.0 / 3.0, 1e-7, 1.5e-10, 1e16, 1.2345678901234567e21, 1e22, 123456789012345680.0,
        9007199254740993.0, 4.35e-5, 1e-300, 1.7976931348623157e308, 2.2250738585072014e-308, -6.610122181503525e-16,
        0.30000000000000004, 5e-2, 0.99999999999999989, 1.0000000000000002,
    ];
    {
        let b = [[specials[4], specials[7], specials[9]], [specials[1], specials[10], specials[15]], [specials[16], specials[17], specials[21]]];
        let pos: Vec<Vec<f64>> = specials.chunks(3).filter(|c| c.len() == 3).map(|c| c.to_vec()).collect();
        let n = pos.len();
        let nums: Vec<i32> = (0..n).map(|i| [i32::MIN, i32::MAX, 0, -1, 1, 118][i % 6]).collect();
        let c = json!({"basis": b, "positions": pos, "numbers": nums});
        out.push(json!({"type": "Cell", "origin": "edge special numbers", "cell": c}));
        let mut mc = c.clone();
        mc["magnetic_moments"] = json!(specials[..n].to_vec());
        out.push(json!({"type": "MagneticCell<Collinear>", "origin": "edge special numbers", "cell": mc}));
        let mut mn = c.clone();
        mn["magnetic_moments"] = json!((0..n).map(|i| vec![specials[i], specials[(i + 5) % specials.len()], specials[(i + 11) % specials.len()]]).collect::<Vec<_>>());
        out.push(json!({"type": "MagneticCell<NonCollinear>", "origin": "edge special numbers", "cell": mn}));
        let e = json!({"basis": [[1.0, 0.0, 0.0], [0.5, 1.0, 0.0], [0.25, 0.125, 1.0]], "positions": [], "numbers": [], "magnetic_moments": []});
        out.push(json!({"type": "Cell", "origin": "edge empty", "cell": e}));
        out.push(json!({"type": "MagneticCell<Collinear>", "origin": "edge empty", "cell": e}));
        out.push(json!({"type": "MagneticCell<NonCollinear>", "origin": "edge empty", "cell": e}));
        // one atom: the smallest datasets, with both tolerance variants and a generic angle value
        let one = json!({"basis": [[3.0, 0.1, 0.2], [0.3, 3.1, 0.4], [0.5, 0.6, 3.2]], "positions": [[0.1, 0.2, 0.3]], "numbers": [1],
            "magnetic_moments": [0.7]});
        out.push(json!({"type": "MoyoDataset", "origin": "edge one atom", "cell": one, "symprec": 1e-4, "angle_tolerance": Value::Null, "setting": "spglib"}));
        out.push(json!({"type": "MoyoDataset", "origin": "edge one atom", "cell": one, "symprec": 1e-5, "angle_tolerance": 1e-2, "setting": "standard"}));
        out.push(json!({"type": "MoyoMagneticDataset<Collinear>", "origin": "edge one atom", "cell": one, "symprec": 1e-4,
            "angle_tolerance": 0.017453292519943295, "mag_symprec": Value::Null, "is_axial": false}));
    }

    // --- crystals of the Hall settings
    let hall: Vec<i32> = if thorough {
        (1..=530).collect()
    } else {
        // every third setting, offset by the seed, plus a fixed set covering every lattice system
        let off = (seed % 3) as i32;
        let mut v: Vec<i32> = (1..=530).filter(|h| h % 3 == off).collect();
        for h in [1, 2, 4, 64, 108, 227, 349, 430, 435, 438, 446, 454, 462, 489, 523, 525, 530] {
            if !v.contains(&h) {
                v.push(h);
            }
        }
        v.sort();
        v
    };
    for h in hall {
        let mut r = rng.fork();
        let cell = crystal(h, &mut r, 2);
        let origin = format!("hall {}", h);
        let c = cell_spec(&cell);
        out.push(json!({"type": "Cell", "origin": origin, "cell": c}));
        let setting = match k % 3 {
            0 => json!("spglib"),
            1 => json!("standard"),
            _ => json!({"hall_number": h}),
        };
        out.push(json!({"type": "MoyoDataset", "origin": origin, "cell": c, "symprec": generic_symprec(&mut r),
            "angle_tolerance": angle_spec(k, &mut r), "setting": setting}));
        if k % 2 == 0 {
            let rc = redescribe(&cell, &mut r);
            let c2 = cell_spec(&rc);
            out.push(json!({"type": "Cell", "origin": format!("{} redescribed", origin), "cell": c2}));
            out.push(json!({"type": "MoyoDataset", "origin": format!("{} redescribed", origin), "cell": c2,
                "symprec": generic_symprec(&mut r), "angle_tolerance": angle_spec(k / 2, &mut r), "setting": "spglib"}));
        }
        if k % 4 == 1 {
            // generic moments on a symmetric structure: magnetic symmetry is low, every number is generic
            let (mc, mn) = with_moments(&cell, &mut r);
            out.push(json!({"type": "MagneticCell<Collinear>", "origin": origin, "cell": mc}));
            out.push(json!({"type": "MagneticCell<NonCollinear>", "origin": origin, "cell": mn}));
            if cell.positions.len() <= 48 {
                out.push(json!({"type": "MoyoMagneticDataset<Collinear>", "origin": origin, "cell": mc, "symprec": generic_symprec(&mut r),
                    "angle_tolerance": angle_spec(k / 4, &mut r), "mag_symprec": Value::Null, "is_axial": false}));
                out.push(json!({"type": "MoyoMagneticDataset<NonCollinear>", "origin": origin, "cell": mn, "symprec": generic_symprec(&mut r),
                    "angle_tolerance": angle_spec(k / 4 + 1, &mut r), "mag_symprec": json!(r.uniform(1e-5, 1e-3)), "is_axial": true}));
            }
        }
        k += 1;
    }

    // --- magnetic crystals of the magnetic space-group types
    let stride = if thorough { 1 } else { 28 };
    let off = (seed % stride as u64) as i32;
    for uni in (1..=1651).filter(|u| u % stride == off) {
        let mut r = rng.fork();
        let (nc, co) = match mag_crystal(uni, &mut r) {
            Some(x) => x,
            None => continue,
        };
        let origin = format!("uni {}", uni);
        let sn = mag_cell_spec(&nc, |m| json!([m.0[0], m.0[1], m.0[2]]));
        let sc = mag_cell_spec(&co, |m| json!(m.0));
        out.push(json!({"type": "MagneticCell<NonCollinear>", "origin": origin, "cell": sn}));
        out.push(json!({"type": "MagneticCell<Collinear>", "origin": origin, "cell": sc}));
        out.push(json!({"type": "MoyoMagneticDataset<NonCollinear>", "origin": origin, "cell": sn, "symprec": generic_symprec(&mut r),
            "angle_tolerance": angle_spec(k, &mut r), "mag_symprec": if k % 3 == 0 { Value::Null } else { json!(r.uniform(1e-5, 1e-3)) },
            "is_axial": true}));
        out.push(json!({"type": "MoyoMagneticDataset<Collinear>", "origin": origin, "cell": sc, "symprec": generic_symprec(&mut r),
            "angle_tolerance": angle_spec(k + 1, &mut r), "mag_symprec": Value::Null, "is_axial": false}));
        k += 1;
    }

    // --- random triclinic cells with generic moments (full, non-symmetric matrices everywhere)
    for _ in 0..(if thorough { 200 } else { 30 }) {
        let mut r = rng.fork();
        let cell = random_triclinic(&mut r);
        let c = cell_spec(&cell);
        let (mc, mn) = with_moments(&cell, &mut r);
        out.push(json!({"type": "Cell", "origin": "triclinic", "cell": c}));
        out.push(json!({"type": "MoyoDataset", "origin": "triclinic", "cell": c, "symprec": generic_symprec(&mut r),
            "angle_tolerance": angle_spec(k, &mut r), "setting": "spglib"}));
        out.push(json!({"type": "MagneticCell<Collinear>", "origin": "triclinic", "cell": mc}));
        out.push(json!({"type": "MagneticCell<NonCollinear>", "origin": "triclinic", "cell": mn}));
        out.push(json!({"type": "MoyoMagneticDataset<Collinear>", "origin": "triclinic", "cell": mc, "symprec": generic_symprec(&mut r),
            "angle_tolerance": angle_spec(k + 1, &mut r), "mag_symprec": Value::Null, "is_axial": k % 2 == 0}));
        out.push(json!({"type": "MoyoMagneticDataset<NonCollinear>", "origin": "triclinic", "cell": mn, "symprec": generic_symprec(&mut r),
            "angle_tolerance": angle_spec(k, &mut r), "mag_symprec": json!(r.uniform(1e-5, 1e-3)), "is_axial": k % 2 == 1}));
        k += 1;
    }
    out
}

/// `c19-gen <tier> <cases> <pyfile> [threads]`
pub fn gen(tier: &str, seed: u64, cases: &str, pyfile: &str, threads: usize) {
    let specs = specs(tier, seed);
    let n = specs.len();
    let threads = threads.max(1).min(n.max(1));
    let specs = std::sync::Arc::new(specs);
    let mut handles = vec![];
    for t in 0..threads {
        let specs = specs.clone();
        handles.push(std::thread::spawn(move || {
            let mut res = vec![];
            let mut i = t;
            while i < specs.len() {
                let sp = specs[i].clone();
                let o = match catch(move || eval_spec(&sp)) {
                    Ok(o) => o,
                    Err(p) => Outcome::NoValue(format!("PANIC {}", p)),
                };
                res.push((i, o));
                i += threads;
            }
            res
        }));
    }
    let mut all: Vec<(usize, Outcome)> = handles.into_iter().flat_map(|h| h.join().expect("worker")).collect();
    all.sort_by_key(|(i, _)| *i);
    let mut w = CaseWriter::create(cases);
    let mut py = std::io::BufWriter::new(std::fs::File::create(pyfile).expect("create py file"));
    let mut no_value = 0usize;
    let mut reasons: std::collections::BTreeMap<String, usize> = Default::default();
    for (i, o) in all {
        match o {
            Outcome::Case(req, verdict, s) => {
                w.case(&req, &verdict);
                let line = json!({"index": w.count - 1, "spec": specs[i], "json": s});
                writeln!(py, "{}", line).unwrap();
            }
            Outcome::NoValue(why) => {
                no_value += 1;
                let mut key: String = why.chars().take(80).collect();
                if why.starts_with("PANIC") {
                    // a panic in a constructor is C08's business; say where so that it can be followed up
                    key = format!("{} [{} {}]", key, specs[i]["type"].as_str().unwrap_or(""), specs[i]["origin"].as_str().unwrap_or(""));
                }
                *reasons.entry(key).or_insert(0) += 1;
            }
        }
    }
    let count = w.count;
    w.finish();
    py.flush().unwrap();
    use std::sync::atomic::Ordering::Relaxed;
    println!(
        "stats specs={} values={} no_value={} floats={} floats_not_bit_identical={} max_rel_dev={:e}",
        n,
        count,
        no_value,
        FLOATS.load(Relaxed),
        FLOATS_INEXACT.load(Relaxed),
        f64::from_bits(MAX_REL_BITS.load(Relaxed))
    );
    for (k, v) in reasons {
        println!("no_value {} : {}", v, k);
    }
}

/// `c19-spec <file>`: evaluate the spec stored in a replay file (a line starting with `spec: `).
pub fn replay(path: &str) {
    let text = std::fs::read_to_string(path).expect("read replay");
    for line in text.lines() {
        if let Some(rest) = line.strip_prefix("spec: ") {
            match serde_json::from_str::<Value>(rest) {
                Ok(spec) => match catch(move || eval_spec(&spec)) {
                    Ok(Outcome::Case(req, verdict, _)) => println!("{} ||| {}", req, verdict),
                    Ok(Outcome::NoValue(why)) => println!("novalue ||| {}", why),
                    Err(p) => println!("novalue ||| PANIC {}", p),
                },
                Err(e) => println!("novalue ||| bad spec {}", e),
            }
        }
    }
}

pub fn dispatch(args: &[String], seed: u64) -> bool {
    match args[1].as_str() {
        "c19-gen" => {
            let threads = args.get(5).and_then(|s| s.parse().ok()).unwrap_or(1);
            gen(&args[2], seed, &args[3], &args[4], threads);
            true
        }
        "c19-spec" => {
            replay(&args[2]);
            true
        }
        _ => false,
    }
}
