//! Shared helpers: seeded PRNG (SplitMix64), exact float encoding, case-file writer.
use std::fs::File;
use std::io::{BufWriter, Write};

#[derive(Clone)]
pub struct Rng(pub u64);
#[allow(dead_code)]
impl Rng {
    pub fn new(seed: u64) -> Self {
        Rng(seed ^ 0x9E37_79B9_7F4A_7C15)
    }
    pub fn next_u64(&mut self) -> u64 {
        self.0 = self.0.wrapping_add(0x9E37_79B9_7F4A_7C15);
        let mut z = self.0;
        z = (z ^ (z >> 30)).wrapping_mul(0xBF58_476D_1CE4_E5B9);
        z = (z ^ (z >> 27)).wrapping_mul(0x94D0_49BB_1331_11EB);
        z ^ (z >> 31)
    }
    /// uniform in [lo, hi] inclusive
    pub fn range(&mut self, lo: i64, hi: i64) -> i64 {
        let span = (hi - lo + 1) as u64;
        lo + (self.next_u64() % span) as i64
    }
    pub fn unit(&mut self) -> f64 {
        (self.next_u64() >> 11) as f64 / (1u64 << 53) as f64
    }
    pub fn uniform(&mut self, lo: f64, hi: f64) -> f64 {
        lo + (hi - lo) * self.unit()
    }
    pub fn chance(&mut self, p: f64) -> bool {
        self.unit() < p
    }
    pub fn pick<'a, T>(&mut self, xs: &'a [T]) -> &'a T {
        &xs[(self.next_u64() % xs.len() as u64) as usize]
    }
    pub fn fork(&mut self) -> Rng {
        Rng(self.next_u64())
    }
    /// standard normal (Box-Muller)
    pub fn normal(&mut self) -> f64 {
        let u1 = self.unit().max(1e-300);
        let u2 = self.unit();
        (-2.0 * u1.ln()).sqrt() * (2.0 * std::f64::consts::PI * u2).cos()
    }
}

/// Exact encoding of a finite f64 as `M@E` (value = M * 2^E).
pub fn fx(x: f64) -> String {
    if x.is_nan() {
        return "nan".to_string();
    }
    if x.is_infinite() {
        return if x > 0.0 { "inf".into() } else { "-inf".into() };
    }
    if x == 0.0 {
        return "0@0".to_string();
    }
    let bits = x.to_bits();
    let sign: i64 = if bits >> 63 == 0 { 1 } else { -1 };
    let mut exponent: i64 = ((bits >> 52) & 0x7ff) as i64;
    let mut mantissa: u64 = if exponent == 0 {
        (bits & 0xfffffffffffff) << 1
    } else {
        (bits & 0xfffffffffffff) | 0x10000000000000
    };
    exponent -= 1075;
    while mantissa & 1 == 0 {
        mantissa >>= 1;
        exponent += 1;
    }
    format!("{}@{}", sign * mantissa as i64, exponent)
}

#[allow(dead_code)]
pub fn fxs<'a, I: IntoIterator<Item = &'a f64>>(xs: I) -> String {
    xs.into_iter().map(|x| fx(*x)).collect::<Vec<_>>().join(" ")
}

pub fn ints<I: IntoIterator<Item = i64>>(xs: I) -> String {
    xs.into_iter().map(|x| x.to_string()).collect::<Vec<_>>().join(" ")
}

/// A case file: one line per case, `request ||| expected`.
pub struct CaseWriter {
    w: BufWriter<File>,
    pub count: usize,
}
impl CaseWriter {
    pub fn create(path: &str) -> Self {
        CaseWriter { w: BufWriter::new(File::create(path).expect("create case file")), count: 0 }
    }
    pub fn case(&mut self, request: &str, expected: &str) {
        writeln!(self.w, "{} ||| {}", request, expected).unwrap();
        self.count += 1;
    }
    #[allow(dead_code)]
    pub fn raw(&mut self, line: &str) {
        writeln!(self.w, "{}", line).unwrap();
    }
    pub fn finish(mut self) {
        self.w.flush().unwrap();
    }
}

/// Run a closure, turning a panic into Err(message).
pub fn catch<T, F: FnOnce() -> T + std::panic::UnwindSafe>(f: F) -> Result<T, String> {
    match std::panic::catch_unwind(f) {
        Ok(v) => Ok(v),
        Err(e) => {
            let msg = if let Some(s) = e.downcast_ref::<&str>() {
                s.to_string()
            } else if let Some(s) = e.downcast_ref::<String>() {
                s.clone()
            } else {
                "panic".to_string()
            };
            Err(msg.replace('\n', " "))
        }
    }
}
