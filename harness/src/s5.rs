//! Stage S5 (space-group identification) — exhaustive table run and targeted streams for the Lean model
//! `Moyo/Model/StageIdentify.lean`.
//!   s5-table <tier> <out>   lines `request ||| expected`:
//!     `s5 <tag> ; nops k ; ops … ; setting … ; epsilon e ||| ok ; number n ; hallnum h ; ulinear … ; ushift …` (or `err V` / `PANIC m`)
//!       - for every Hall number h: `primitive_traverse()` of h under Spglib, Standard, HallNumber(h)      (tags t<h>-…; these
//!         requests carry `; row h` and the model also checks its answer against the tabulated number / convention Hall number)
//!       - requests of a neighbouring Hall number (honoured when it is another setting of the type, else refused),
//!         out-of-range Hall numbers, operations with translations perturbed around epsilon (both verdicts),
//!         re-based operations (random unimodular change of basis + origin shift; thorough tier: more of each)
//!     `s5pg <tag> ; nrot k ; rots … ||| ok ; arith a ; ptm <9 ints>` : `PointGroup::new` alone on the same rotations.
use crate::gen::setting_str;
use crate::pipeline::{err_name, imat_row_major, vec3s};
use crate::stages::ops_str;
use crate::util::*;
use moyo::base::Operation;
use moyo::data::{HallSymbol, Setting};
use moyo::verif::base::{project_rotations, UnimodularTransformation};
use moyo::verif::identify::{PointGroup, SpaceGroup};
use nalgebra::{Matrix3, Vector3};

fn emit(w: &mut CaseWriter, tag: &str, ops: &[Operation], setting: Setting, epsilon: f64) {
    emit_row(w, tag, ops, setting, epsilon, None)
}

/// `row`: Hall number whose tabulated operations these are; the model then also checks the answer against the tables.
fn emit_row(w: &mut CaseWriter, tag: &str, ops: &[Operation], setting: Setting, epsilon: f64, row: Option<i32>) {
    let rowseg = row.map(|h| format!(" ; row {}", h)).unwrap_or_default();
    let req = format!("s5 {} ; nops {} ; ops {} ; setting {} ; epsilon {}{}", tag, ops.len(), ops_str(ops), setting_str(setting), fx(epsilon), rowseg);
    let o = ops.to_vec();
    let exp = match catch(move || SpaceGroup::new(&o, setting, epsilon)) {
        Ok(Ok(sg)) => format!(
            "ok ; number {} ; hallnum {} ; ulinear {} ; ushift {}",
            sg.number,
            sg.hall_number,
            imat_row_major(&sg.transformation.linear),
            vec3s(&sg.transformation.origin_shift)
        ),
        Ok(Err(e)) => format!("err {}", err_name(&e)),
        Err(m) => format!("PANIC {}", m),
    };
    w.case(&req, &exp);
}

fn emit_pg(w: &mut CaseWriter, tag: &str, ops: &[Operation]) {
    let rots = project_rotations(&ops.to_vec());
    let req = format!("s5pg {} ; nrot {} ; rots {}", tag, rots.len(), rots.iter().map(imat_row_major).collect::<Vec<_>>().join(" "));
    let exp = match catch(move || PointGroup::new(&rots)) {
        Ok(Ok(pg)) => format!("ok ; arith {} ; ptm {}", pg.arithmetic_number, imat_row_major(&pg.prim_trans_mat)),
        Ok(Err(e)) => format!("err {}", err_name(&e)),
        Err(m) => format!("PANIC {}", m),
    };
    w.case(&req, &exp);
}

/// Random unimodular matrix: product of `n` elementary shears / signed permutations.
fn random_unimodular(rng: &mut Rng, n: usize) -> Matrix3<i32> {
    let mut u = Matrix3::<i32>::identity();
    for _ in 0..n {
        let mut e = Matrix3::<i32>::identity();
        if rng.chance(0.7) {
            let i = rng.range(0, 2) as usize;
            let mut j = rng.range(0, 2) as usize;
            if i == j {
                j = (j + 1) % 3;
            }
            e[(i, j)] = *rng.pick(&[-1, 1]);
        } else {
            // cyclic permutation (det +1) or a double sign flip
            if rng.chance(0.5) {
                e = Matrix3::new(0, 0, 1, 1, 0, 0, 0, 1, 0);
            } else {
                let k = rng.range(0, 2) as usize;
                for d in 0..3 {
                    if d != k {
                        e[(d, d)] = -1;
                    }
                }
            }
        }
        u *= e;
    }
    u
}

fn rebase(ops: &[Operation], u: &Matrix3<i32>, shift: &Vector3<f64>) -> Vec<Operation> {
    UnimodularTransformation::new(*u, *shift).transform_operations(ops)
}

pub fn gen(tier: &str, seed: u64, out: &str) {
    let thorough = tier == "thorough";
    let mut w = CaseWriter::create(out);
    let mut rng = Rng::new(seed ^ 0x55_7AB1E);
    for h in 1..=530i32 {
        let hs = HallSymbol::from_hall_number(h).unwrap();
        let ops = hs.primitive_traverse();
        // exhaustive part
        emit_row(&mut w, &format!("t{}-spglib", h), &ops, Setting::Spglib, 1e-8, Some(h));
        emit_row(&mut w, &format!("t{}-standard", h), &ops, Setting::Standard, 1e-8, Some(h));
        emit_row(&mut w, &format!("t{}-hall", h), &ops, Setting::HallNumber(h), 1e-8, Some(h));
        emit_pg(&mut w, &format!("t{}", h), &ops);
        // a neighbouring request
        let mut others: Vec<i32> = vec![];
        let nb = if rng.chance(0.5) { h - 1 } else { h + 1 };
        if (1..=530).contains(&nb) {
            others.push(nb);
        }
        if thorough {
            let nb2 = 2 * h - nb;
            if (1..=530).contains(&nb2) {
                others.push(nb2);
            }
            others.push(rng.range(1, 530) as i32);
        }
        for (k, o) in others.iter().enumerate() {
            emit(&mut w, &format!("t{}-req{}-{}", h, o, k), &ops, Setting::HallNumber(*o), 1e-8);
        }
        // perturbed translations around epsilon
        let nnoise = if thorough { 3 } else { 1 };
        for k in 0..nnoise {
            let eps = *rng.pick(&[1e-6, 1e-4, 1e-3]);
            let amp = *rng.pick(&[0.05, 0.3, 1.0, 4.0]) * eps;
            let noisy: Vec<Operation> = ops
                .iter()
                .map(|o| Operation::new(o.rotation, o.translation + Vector3::new(rng.uniform(-amp, amp), rng.uniform(-amp, amp), rng.uniform(-amp, amp))))
                .collect();
            let st = *rng.pick(&[Setting::Spglib, Setting::Standard, Setting::HallNumber(h)]);
            emit(&mut w, &format!("t{}-noise{}", h, k), &noisy, st, eps);
        }
        // re-based operations
        let nre = if thorough { 3 } else { 1 };
        for k in 0..nre {
            let nel = rng.range(1, 4) as usize;
            let u = random_unimodular(&mut rng, nel);
            let shift = Vector3::new(rng.uniform(-0.5, 0.5), rng.uniform(-0.5, 0.5), rng.uniform(-0.5, 0.5));
            let re = rebase(&ops, &u, &shift);
            let st = *rng.pick(&[Setting::Spglib, Setting::Standard, Setting::HallNumber(h)]);
            emit(&mut w, &format!("t{}-re{}", h, k), &re, st, 1e-8);
            emit_pg(&mut w, &format!("t{}-re{}", h, k), &re);
        }
        // out-of-range requests
        if h % 53 == 1 {
            for (k, bad) in [0, -5, 531, i32::MAX, i32::MIN].iter().enumerate() {
                emit(&mut w, &format!("t{}-bad{}", h, k), &ops, Setting::HallNumber(*bad), 1e-8);
            }
        }
    }
    w.finish();
}

pub fn dispatch(args: &[String], seed: u64) -> bool {
    match args[1].as_str() {
        "s5-table" => {
            gen(&args[2], seed, &args[3]);
            true
        }
        _ => false,
    }
}
