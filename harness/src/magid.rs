//! Stage-wise dumps of the two remaining magnetic stages (DESIGN §2.3, S5m and S6m), one line per stage and case,
//!   `<stage> <tag> ; <input segments, exact floats> ||| <output segments>`
//! for the Lean stage models `Moyo/Model/StageMagIdentify.lean`, `Moyo/Model/StageMagStd.lean` (driver
//! `Moyo/Model/DriverMagId.lean`):
//!   s5m  `MagneticSpaceGroup::new(prim_mag_operations, epsilon)`
//!          request : nops k ; mops <k x (9 ints, 3 floats, flag)> ; epsilon e [; row u]
//!          expected: ok ; uni u ; ctype c ; ulinear 9 ; ushift 3 ; nxsg a ; nfsg b ; type2 0|1      (or `err <variant> ; nxsg …`, `PANIC m`)
//!          (`nxsg`, `nfsg`, `type2`: the separately called `primitive_maximal_space_subgroup_…` / `family_space_group_…`)
//!   s6m  `StandardizedMagneticCell::new(prim_mag_cell, search, magnetic_space_group, symprec, mag_symprec, epsilon, action)`
//!          request : lat 9 ; n k ; pos ; num ; mom ; kind ; action ; nops ; mops ; perms ; uni ; ulinear ; ushift ; symprec ;
//!                    magsymprec ; epsilon
//!          expected: ok ; primlat … primmom … ; ptlinear ; ushift ; stdlat … stdmom … ; tlinear ; tshift ; rot ; sitemap
//!
//!   mag-id-gen <tier> <out> [<part> <nparts>]
//!   mag-id-noisy <uni> <radius/symprec> [<combo 0..3>]   (probe, not used by a check: a generated crystal of the UNI number
//!        with every atom displaced by at most radius, through the real `MoyoMagneticDataset::new`; prints the `mds` line
//!        that the Lean oracles of C11-C13 judge)
//! Cases (every random choice from a generator seeded by (seed, uni): partitioned runs give the same lines):
//!   table part, for EVERY UNI number u = 1..1651: the tabulated primitive operations (`t<u>`, with `row u`), the same
//!     operations re-based by a random unimodular matrix and origin shift with the translations reduced into [0, 1)
//!     (`t<u>-re0`) resp. (-0.5, 0.5] (`t<u>-re1`; `row u`; thorough: both for every number plus an unreduced `-raw` row for
//!     every second one; quick: seed-dependent third / sixth), with translations perturbed
//!     around epsilon (`-noise`), with an operation dropped / a time-reversal flag flipped / all flags set / no operation at all
//!     (the error branches);
//!   crystal part, for a seed-dependent sixth of the UNI numbers plus the first entry of every construct type x centering
//!     class (quick) / for ALL 1651 UNI numbers (thorough): the magnetic crystals of `magpipe::cases_of_uni` (own,
//!     re-described, reversed, zero moments, supercells; collinear and non-collinear, both actions) taken through
//!     PrimitiveMagneticCell -> PrimitiveMagneticSymmetrySearch, then `s5m` on the found operations and `s6m` on the primitive
//!     magnetic cell; plus `s6m` twins with positions / moments displaced by a fraction of the tolerances (so that the
//!     symmetrisation moves something) and twins standardised with another UNI number of the same family (other branch of
//!     `reference_symmetry_operations_and_permutations`).
use crate::maggen::*;
use crate::magpipe::{cases_of_uni, selected_unis, MomDump};
use crate::magstages::mops_str;
use crate::pipeline::{cell_segments, err_name, imat_row_major, mat_row_major, vec3s};
use crate::stages::perms_str;
use crate::util::*;
use moyo::base::{AngleTolerance, Collinear, MagneticCell, MagneticOperation, NonCollinear, RotationMagneticMomentAction};
use moyo::data::{get_magnetic_space_group_type, MagneticHallSymbol};
use moyo::verif::base::UnimodularTransformation;
use moyo::verif::data::uni_number_range;
use moyo::verif::identify::{
    family_space_group_from_magnetic_space_group, primitive_maximal_space_subgroup_from_magnetic_space_group, MagneticSpaceGroup,
};
use moyo::verif::search::{PrimitiveMagneticCell, PrimitiveMagneticSymmetrySearch};
use moyo::verif::symmetrize::StandardizedMagneticCell;
use nalgebra::Vector3;

fn moms<M: MomDump>(ms: &[M]) -> String {
    ms.iter().flat_map(|m| m.comps()).map(fx).collect::<Vec<_>>().join(" ")
}

fn mcell<M: MomDump>(prefix: &str, mc: &MagneticCell<M>) -> String {
    format!("{} ; {}mom {}", cell_segments(prefix, &mc.cell), prefix, moms(&mc.magnetic_moments))
}

/// One `s5m` line.  Returns the identified group.
pub fn emit_s5m(w: &mut CaseWriter, tag: &str, mops: &[MagneticOperation], epsilon: f64, row: Option<i32>) -> Option<MagneticSpaceGroup> {
    let rowseg = row.map(|u| format!(" ; row {}", u)).unwrap_or_default();
    let req = format!("s5m {} ; nops {} ; mops {} ; epsilon {}{}", tag, mops.len(), mops_str(mops), fx(epsilon), rowseg);
    let v = mops.to_vec();
    let (xsg, _) = primitive_maximal_space_subgroup_from_magnetic_space_group(&v);
    let (fsg, is_type2, _) = family_space_group_from_magnetic_space_group(&v, epsilon);
    let parts = format!("nxsg {} ; nfsg {} ; type2 {}", xsg.len(), fsg.len(), if is_type2 { 1 } else { 0 });
    match catch(move || MagneticSpaceGroup::new(&v, epsilon)) {
        Ok(Ok(g)) => {
            w.case(
                &req,
                &format!(
                    "ok ; uni {} ; ctype {} ; ulinear {} ; ushift {} ; {}",
                    g.uni_number,
                    construct_type_of(g.uni_number),
                    imat_row_major(&g.transformation.linear),
                    vec3s(&g.transformation.origin_shift),
                    parts
                ),
            );
            Some(g)
        }
        Ok(Err(e)) => {
            w.case(&req, &format!("err {} ; {}", err_name(&e), parts));
            None
        }
        Err(m) => {
            w.case(&req, &format!("PANIC {}", m));
            None
        }
    }
}

/// One `s6m` line.
#[allow(clippy::too_many_arguments)]
pub fn emit_s6m<M>(
    w: &mut CaseWriter,
    tag: &str,
    prim: &PrimitiveMagneticCell<M>,
    search: &PrimitiveMagneticSymmetrySearch,
    msg: &MagneticSpaceGroup,
    kind: Kind,
    action: RotationMagneticMomentAction,
    symprec: f64,
    msp: f64,
    epsilon: f64,
) where
    M: MomDump,
{
    let req = format!(
        "s6m {} ; {} ; kind {} ; action {} ; nops {} ; mops {} ; perms {} ; uni {} ; ulinear {} ; ushift {} ; symprec {} ; magsymprec {} ; epsilon {}",
        tag,
        mcell("", &prim.magnetic_cell),
        kind_str(kind),
        action_str(action),
        search.magnetic_operations.len(),
        mops_str(&search.magnetic_operations),
        perms_str(&search.permutations),
        msg.uni_number,
        imat_row_major(&msg.transformation.linear),
        vec3s(&msg.transformation.origin_shift),
        fx(symprec),
        fx(msp),
        fx(epsilon)
    );
    let r = catch(std::panic::AssertUnwindSafe(|| StandardizedMagneticCell::new(prim, search, msg, symprec, msp, epsilon, action)));
    match r {
        Ok(Ok(s)) => w.case(
            &req,
            &format!(
                "ok ; {} ; ptlinear {} ; ushift {} ; {} ; tlinear {} ; tshift {} ; rot {} ; sitemap {}",
                mcell("prim", &s.prim_mag_cell),
                imat_row_major(&s.prim_transformation.linear),
                vec3s(&s.prim_transformation.origin_shift),
                mcell("std", &s.mag_cell),
                imat_row_major(&s.transformation.linear),
                vec3s(&s.transformation.origin_shift),
                mat_row_major(&s.rotation_matrix),
                ints(s.site_mapping.iter().map(|&x| x as i64))
            ),
        ),
        Ok(Err(e)) => w.case(&req, &format!("err {}", err_name(&e))),
        Err(m) => w.case(&req, &format!("PANIC {}", m)),
    }
}

fn unit_rng(seed: u64, u: i32, salt: u64) -> Rng {
    Rng::new(seed ^ salt ^ (u as u64).wrapping_mul(0x9E37_79B9_7F4A_7C15))
}

fn rand_shift(rng: &mut Rng) -> Vector3<f64> {
    Vector3::new(rng.uniform(-0.5, 0.5), rng.uniform(-0.5, 0.5), rng.uniform(-0.5, 0.5))
}

/// Table part for one UNI number.
fn table_cases(w: &mut CaseWriter, u: i32, tier: &str, seed: u64) {
    let thorough = tier == "thorough";
    let mut rng = unit_rng(seed, u, 0x7AB1_E5D1);
    let s = (u as u64).wrapping_add(seed);
    let ops = MagneticHallSymbol::from_uni_number(u).unwrap().primitive_traverse();
    emit_s5m(w, &format!("t{}", u), &ops, 1e-8, Some(u));
    // re-based: random unimodular change of basis and origin shift; the translations are reduced modulo 1 as the symmetry
    // search hands them to `MagneticSpaceGroup::new`: `-re0` into [0, 1), `-re1` (a second re-basing) into (-0.5, 0.5];
    // thorough also keeps an unreduced row (`-raw`).  quick: `-re0` for a seed-dependent third, `-re1` for a sixth.
    let rebased = |rng: &mut Rng| -> Vec<MagneticOperation> {
        let len = rng.range(1, 5) as usize;
        let p = crate::gen::random_unimodular(rng, len, 3);
        let shift = rand_shift(rng);
        UnimodularTransformation::new(p, shift).transform_magnetic_operations(&ops)
    };
    let reduce = |v: &[MagneticOperation], f: &dyn Fn(f64) -> f64| -> Vec<MagneticOperation> {
        v.iter().map(|o| MagneticOperation::new(o.operation.rotation, o.operation.translation.map(f), o.time_reversal)).collect()
    };
    if thorough || s % 3 == 0 {
        let re = rebased(&mut rng);
        emit_s5m(w, &format!("t{}-re0", u), &reduce(&re, &|e| e - e.floor()), 1e-8, Some(u));
    }
    if thorough || s % 6 == 1 {
        let re = rebased(&mut rng);
        emit_s5m(w, &format!("t{}-re1", u), &reduce(&re, &|e| e - (e - 0.5).ceil()), 1e-8, Some(u));
    }
    if thorough && s % 2 == 0 {
        let re = rebased(&mut rng);
        emit_s5m(w, &format!("t{}-raw", u), &re, 1e-8, Some(u));
    }
    // translations perturbed around epsilon (both verdicts of every comparison)
    if thorough || s % 4 == 1 {
        let eps = *rng.pick(&[1e-6, 1e-4, 1e-3]);
        let amp = *rng.pick(&[0.05, 0.3, 1.0, 4.0]) * eps;
        let noisy: Vec<MagneticOperation> = ops
            .iter()
            .map(|o| {
                MagneticOperation::new(
                    o.operation.rotation,
                    o.operation.translation + Vector3::new(rng.uniform(-amp, amp), rng.uniform(-amp, amp), rng.uniform(-amp, amp)),
                    o.time_reversal,
                )
            })
            .collect();
        emit_s5m(w, &format!("t{}-noise", u), &noisy, eps, None);
    }
    // damaged lists: the error branches
    if (thorough || s % 8 == 2) && ops.len() > 1 {
        let k = rng.range(1, ops.len() as i64 - 1) as usize;
        let mut d = ops.clone();
        d.remove(k);
        emit_s5m(w, &format!("t{}-drop", u), &d, 1e-8, None);
    }
    if (thorough || s % 8 == 5) && ops.len() > 1 {
        let k = rng.range(0, ops.len() as i64 - 1) as usize;
        let mut d = ops.clone();
        d[k] = MagneticOperation::new(d[k].operation.rotation, d[k].operation.translation, !d[k].time_reversal);
        emit_s5m(w, &format!("t{}-flip", u), &d, 1e-8, None);
    }
    if s % 64 == 7 {
        let d: Vec<MagneticOperation> = ops.iter().map(|o| MagneticOperation::new(o.operation.rotation, o.operation.translation, true)).collect();
        emit_s5m(w, &format!("t{}-allprimed", u), &d, 1e-8, None);
        emit_s5m(w, &format!("t{}-empty", u), &[], 1e-8, None);
    }
}

/// Another UNI number with the same family space-group number (the next one in the range, cyclically).
fn sibling_uni(u: i32) -> Option<i32> {
    let number = get_magnetic_space_group_type(u)?.number;
    let range = uni_number_range(number)?;
    let (lo, hi) = (*range.start(), *range.end());
    if lo == hi {
        return None;
    }
    Some(if u == hi { lo } else { u + 1 })
}

/// Crystal part: one generated magnetic crystal through the stages up to identification and standardization.
fn crystal_case<M>(w: &mut CaseWriter, tag: &str, c: &MagCrystal, symprec: f64, mag_symprec: Option<f64>, rng: &mut Rng)
where
    M: MomDump + std::panic::RefUnwindSafe + std::panic::UnwindSafe + 'static,
{
    let at = AngleTolerance::Default;
    let action = c.action;
    let ms: Vec<M> = c.moments().iter().map(M::from_vec).collect();
    let mc = MagneticCell::from_cell(c.cell().clone(), ms);
    let msp = mag_symprec.unwrap_or(symprec);
    let prim = match catch(move || PrimitiveMagneticCell::new(&mc, symprec, msp)) {
        Ok(Ok(p)) => p,
        _ => return,
    };
    let pmc = MagneticCell::from_cell(prim.magnetic_cell.cell.clone(), prim.magnetic_cell.magnetic_moments.clone());
    let search = match catch(move || PrimitiveMagneticSymmetrySearch::new(&pmc, symprec, at, msp, action)) {
        Ok(Ok(s)) => s,
        _ => return,
    };
    let epsilon = symprec / prim.magnetic_cell.cell.lattice.volume().powf(1.0 / 3.0);
    let msg = match emit_s5m(w, tag, &search.magnetic_operations, epsilon, None) {
        Some(g) => g,
        None => return,
    };
    emit_s6m(w, tag, &prim, &search, &msg, c.kind, action, symprec, msp, epsilon);
    // twin: positions and moments displaced by a fraction of the tolerances
    if rng.chance(0.5) {
        let f = *rng.pick(&[0.02, 0.1, 0.3]);
        let mut cell = prim.magnetic_cell.cell.clone();
        let inv = cell.lattice.basis.try_inverse().unwrap();
        for x in cell.positions.iter_mut() {
            let d = Vector3::new(rng.uniform(-1.0, 1.0), rng.uniform(-1.0, 1.0), rng.uniform(-1.0, 1.0)) * (f * symprec / 3f64.sqrt());
            *x += inv * d;
        }
        let mm: Vec<M> = prim
            .magnetic_cell
            .magnetic_moments
            .iter()
            .map(|m| {
                let v = m.comps();
                let mut q = Vector3::new(v[0], *v.get(1).unwrap_or(&0.0), *v.get(2).unwrap_or(&0.0));
                for k in 0..v.len() {
                    q[k] += rng.uniform(-1.0, 1.0) * f * msp / 3f64.sqrt();
                }
                M::from_vec(&q)
            })
            .collect();
        let p2 = PrimitiveMagneticCell {
            magnetic_cell: MagneticCell::from_cell(cell, mm),
            linear: prim.linear,
            site_mapping: prim.site_mapping.clone(),
            translations: prim.translations.clone(),
            permutations: prim.permutations.clone(),
        };
        emit_s6m(w, &format!("{}-disp", tag), &p2, &search, &msg, c.kind, action, symprec, msp, epsilon);
    }
    // twin: standardised with a sibling UNI number (same reference group, possibly another construct type)
    if rng.chance(0.2) {
        if let Some(v) = sibling_uni(msg.uni_number) {
            let other = MagneticSpaceGroup { uni_number: v, transformation: msg.transformation.clone() };
            emit_s6m(w, &format!("{}-sib{}", tag, v), &prim, &search, &other, c.kind, action, symprec, msp, epsilon);
        }
    }
}

fn crystal_cases(w: &mut CaseWriter, u: i32, tier: &str, seed: u64) {
    let mut rng = unit_rng(seed, u, 0x4D49_4453);
    let mut todo: Vec<(String, MagCrystal, f64, Option<f64>)> = vec![];
    cases_of_uni(u, tier, seed, &mut |tag, c, sp, msp| todo.push((tag, c.clone(), sp, msp)), &mut |_| {});
    for (tag, c, sp, msp) in todo {
        if c.cell().num_atoms() > 120 {
            continue;
        }
        match c.kind {
            Kind::Collinear => crystal_case::<Collinear>(w, &tag, &c, sp, msp, &mut rng),
            Kind::NonCollinear => crystal_case::<NonCollinear>(w, &tag, &c, sp, msp, &mut rng),
        }
    }
}

/// `mag-id-gen <tier> <out> [<part> <nparts>]`
pub fn gen(tier: &str, seed: u64, out: &str, part: usize, nparts: usize) {
    let mut w = CaseWriter::create(out);
    let thorough = tier == "thorough";
    for u in 1..=1651i32 {
        if (u as usize) % nparts == part {
            table_cases(&mut w, u, tier, seed);
        }
    }
    let modulus: u64 = if thorough { 1 } else { 6 };
    let firsts: std::collections::BTreeSet<i32> = {
        let mut seen = std::collections::BTreeSet::new();
        (1..=1651).filter(|&u| seen.insert((construct_type_of(u), centering_of(u)))).collect()
    };
    for u in selected_unis(if thorough { "thorough" } else { "quick" }, seed) {
        if (u as usize) % nparts != part {
            continue;
        }
        if !(firsts.contains(&u) || (u as u64 + seed) % modulus == 0) {
            continue;
        }
        crystal_cases(&mut w, u, tier, seed);
    }
    w.finish();
}

/// `mag-id-noisy <uni> <radius/symprec> [<combo 0..3>]`: a generated crystal of the UNI number with atoms displaced by at
/// most radius (and the lattice strained by the same relative size, `gen::Crystal::noise`), through the real pipeline;
/// prints the `mds` line for the Lean oracles.
fn noisy(seed: u64, u: i32, rel: f64, combo: usize) {
    use moyo::base::RotationMagneticMomentAction as A;
    let combos = [(Kind::NonCollinear, A::Axial), (Kind::Collinear, A::Polar), (Kind::NonCollinear, A::Polar), (Kind::Collinear, A::Axial)];
    let (kind, action) = combos[combo % 4];
    let mut rng = unit_rng(seed, u, 0x4E4F_4953);
    let base = mag_crystal(u, kind, action, &mut rng, 1, 12).expect("premise");
    let symprec = 1e-4;
    let mut c = base.clone();
    c.c = base.c.noise(&mut rng, rel * symprec);
    println!("{}", crate::magpipe::mag_case_line(&format!("u{}-noisy", u), &c, symprec, Some(1e-4)));
}

pub fn dispatch(args: &[String], seed: u64) -> bool {
    match args[1].as_str() {
        "mag-id-noisy" => {
            noisy(seed, args[2].parse().unwrap(), args[3].parse().unwrap(), args.get(4).map(|x| x.parse().unwrap()).unwrap_or(0));
            true
        }
        "mag-id-gen" => {
            let (part, nparts) = if args.len() >= 6 { (args[4].parse().unwrap(), args[5].parse().unwrap()) } else { (0, 1) };
            gen(&args[2], seed, &args[3], part, nparts);
            true
        }
        _ => false,
    }
}
