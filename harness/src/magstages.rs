//! Stage-wise dumps of the magnetic pipeline (DESIGN §2.3, stages S8m–S10m): `MoyoMagneticDataset::new` is run stage
//! by stage through the `verif` exports and each stage's inputs and outputs are written with exact floats,
//!   `<stage> <tag> ; <input segments> ||| <output segments>`
//! for the Lean stage models (`Moyo/Model/StageMag.lean`, driver `Moyo/Model/DriverMagStage.lean`):
//!   s8m   PrimitiveMagneticCell::new            (inputs: magnetic cell + the translations/permutations of the non-magnetic S1)
//!   s9m   PrimitiveMagneticSymmetrySearch::new  (inputs: primitive magnetic cell + the candidate operations of the non-magnetic search)
//!   s4m   magnetic_operations_in_magnetic_cell
//!   s10m  glue of `MoyoMagneticDataset::new`; expected output = what the real pipeline returns for the same input
//!         (dataflow check; `skip retry n` when the real pipeline needed tolerance retries).
//!
//!   mag-stage-gen <tier> <out>
use crate::maggen::*;
use crate::magpipe::{cases_of_uni, mag_dataset_segments, selected_unis, MomDump};
use crate::pipeline::{cell_segments, err_name, imat_row_major, mat_row_major, vec3s};
use crate::stages::{ops_str, perms_str};
use crate::util::*;
use moyo::base::{AngleTolerance, Collinear, MagneticCell, MagneticOperation, NonCollinear};
use moyo::verif::identify::MagneticSpaceGroup;
use moyo::verif::search::{
    magnetic_operations_in_magnetic_cell, operations_in_cell, PrimitiveCell, PrimitiveMagneticCell, PrimitiveMagneticSymmetrySearch,
    PrimitiveSymmetrySearch,
};
use moyo::verif::symmetrize::{orbits_in_cell, StandardizedMagneticCell};
use moyo::MoyoMagneticDataset;

fn moms<M: MomDump>(ms: &[M]) -> String {
    ms.iter().flat_map(|m| m.comps()).map(fx).collect::<Vec<_>>().join(" ")
}

fn mcell<M: MomDump>(prefix: &str, mc: &MagneticCell<M>) -> String {
    format!("{} ; {}mom {}", cell_segments(prefix, &mc.cell), prefix, moms(&mc.magnetic_moments))
}

pub fn mops_str(ops: &[MagneticOperation]) -> String {
    ops.iter()
        .map(|o| format!("{} {} {}", imat_row_major(&o.operation.rotation), vec3s(&o.operation.translation), if o.time_reversal { 1 } else { 0 }))
        .collect::<Vec<_>>()
        .join(" ")
}

fn outcome<T>(w: &mut CaseWriter, req: &str, r: Result<Result<T, moyo::base::MoyoError>, String>) -> Option<T> {
    match r {
        Ok(Ok(v)) => Some(v),
        Ok(Err(e)) => {
            w.case(req, &format!("err {}", err_name(&e)));
            None
        }
        Err(m) => {
            w.case(req, &format!("PANIC {}", m));
            None
        }
    }
}

/// Run the stages of `MoyoMagneticDataset::<M>::new` one by one and emit one line per stage.
pub fn dump_mag_stages<M>(w: &mut CaseWriter, tag: &str, c: &MagCrystal, symprec: f64, mag_symprec: Option<f64>)
where
    M: MomDump + std::panic::RefUnwindSafe + std::panic::UnwindSafe + 'static,
{
    let at = AngleTolerance::Default;
    let action = c.action;
    let kind = kind_str(c.kind);
    let ms: Vec<M> = c.moments().iter().map(M::from_vec).collect();
    let mc = MagneticCell::from_cell(c.cell().clone(), ms);
    let msp = mag_symprec.unwrap_or(symprec);
    // ---- S8m: primitive magnetic cell.  Candidates: translations + permutations of the non-magnetic S1 (same call as inside).
    let cc = mc.cell.clone();
    let s1 = match catch(move || PrimitiveCell::new(&cc, symprec)) {
        Ok(Ok(p)) => format!(
            "s1 ok ; ntrans {} ; trans {} ; perms {}",
            p.translations.len(),
            p.translations.iter().map(vec3s).collect::<Vec<_>>().join(" "),
            perms_str(&p.permutations)
        ),
        Ok(Err(e)) => format!("s1 err {}", err_name(&e)),
        Err(_) => "s1 panic".to_string(),
    };
    let s8req = format!("s8m {} ; {} ; kind {} ; magsymprec {} ; {}", tag, mcell("", &mc), kind, fx(msp), s1);
    let mc2 = MagneticCell::from_cell(mc.cell.clone(), mc.magnetic_moments.clone());
    let prim = match outcome(w, &s8req, catch(move || PrimitiveMagneticCell::new(&mc2, symprec, msp))) {
        Some(p) => p,
        None => {
            // the real pipeline retries with other tolerances: the glue line is not compared, but counted
            w.case(&format!("s10m {} ; none", tag), "skip retry s8m");
            return;
        }
    };
    let trans: Vec<String> = prim.translations.iter().map(vec3s).collect();
    w.case(
        &s8req,
        &format!(
            "ok ; {} ; linear {} ; sitemap {} ; ntrans {} ; trans {} ; perms {}",
            mcell("p", &prim.magnetic_cell),
            imat_row_major(&prim.linear),
            ints(prim.site_mapping.iter().map(|&x| x as i64)),
            prim.translations.len(),
            trans.join(" "),
            perms_str(&prim.permutations)
        ),
    );
    // ---- S9m: magnetic symmetry search in the primitive magnetic cell.  Candidates: operations of the non-magnetic search.
    let pc = prim.magnetic_cell.cell.clone();
    let cand = match catch(move || {
        let pn = PrimitiveCell::new(&pc, symprec)?;
        let ps = PrimitiveSymmetrySearch::new(&pn.cell, symprec, at)?;
        Ok::<_, moyo::base::MoyoError>(operations_in_cell(&pn, &ps.operations))
    }) {
        Ok(Ok(ops)) => format!("cand ok ; ncand {} ; cands {}", ops.len(), ops_str(&ops)),
        Ok(Err(e)) => format!("cand err {}", err_name(&e)),
        Err(_) => "cand panic".to_string(),
    };
    let s9req = format!(
        "s9m {} ; {} ; kind {} ; action {} ; symprec {} ; magsymprec {} ; {}",
        tag,
        mcell("", &prim.magnetic_cell),
        kind,
        action_str(action),
        fx(symprec),
        fx(msp),
        cand
    );
    let pmc = MagneticCell::from_cell(prim.magnetic_cell.cell.clone(), prim.magnetic_cell.magnetic_moments.clone());
    let search = match outcome(w, &s9req, catch(move || PrimitiveMagneticSymmetrySearch::new(&pmc, symprec, at, msp, action))) {
        Some(s) => s,
        None => {
            w.case(&format!("s10m {} ; none", tag), "skip retry s9m");
            return;
        }
    };
    w.case(
        &s9req,
        &format!("ok ; nops {} ; mops {} ; perms {}", search.magnetic_operations.len(), mops_str(&search.magnetic_operations), perms_str(&search.permutations)),
    );
    // ---- S4m: magnetic operations in the input cell
    let mops = magnetic_operations_in_magnetic_cell(&prim, &search.magnetic_operations);
    w.case(
        &format!(
            "s4m {} ; linear {} ; ntrans {} ; trans {} ; nops {} ; mops {}",
            tag,
            imat_row_major(&prim.linear),
            prim.translations.len(),
            trans.join(" "),
            search.magnetic_operations.len(),
            mops_str(&search.magnetic_operations)
        ),
        &format!("nout {} ; out {}", mops.len(), mops_str(&mops)),
    );
    // ---- identification and standardization (not modelled stage-wise; their outputs feed the glue)
    let epsilon = symprec / prim.magnetic_cell.cell.lattice.volume().powf(1.0 / 3.0);
    let so = search.magnetic_operations.clone();
    let msg = match catch(move || MagneticSpaceGroup::new(&so, epsilon)) {
        Ok(Ok(g)) => g,
        _ => return,
    };
    let std = {
        let (p, s, g) = (&prim, &search, &msg);
        match catch(std::panic::AssertUnwindSafe(|| StandardizedMagneticCell::new(p, s, g, symprec, msp, epsilon, action))) {
            Ok(Ok(s)) => s,
            _ => return,
        }
    };
    let orbits = orbits_in_cell(prim.magnetic_cell.num_atoms(), &search.permutations, &prim.site_mapping);
    // ---- S10m: glue + dataflow
    let s10req = format!(
        "s10m {} ; linear {} ; sitemap {} ; pn {} ; ntrans {} ; trans {} ; nops {} ; mops {} ; perms {} ; uni {} ; kind {} ; {} ; {} ; tlinear {} ; tshift {} ; ptlinear {} ; ptshift {} ; rot {} ; s7orbits {} ; symprec {} ; magsymprec {} ; angtol {}",
        tag,
        imat_row_major(&prim.linear),
        ints(prim.site_mapping.iter().map(|&x| x as i64)),
        prim.magnetic_cell.num_atoms(),
        prim.translations.len(),
        trans.join(" "),
        search.magnetic_operations.len(),
        mops_str(&search.magnetic_operations),
        perms_str(&search.permutations),
        msg.uni_number,
        kind,
        mcell("std", &std.mag_cell),
        mcell("prim", &std.prim_mag_cell),
        imat_row_major(&std.transformation.linear),
        vec3s(&std.transformation.origin_shift),
        imat_row_major(&std.prim_transformation.linear),
        vec3s(&std.prim_transformation.origin_shift),
        mat_row_major(&std.rotation_matrix),
        ints(orbits.iter().map(|&x| x as i64)),
        fx(symprec),
        fx(msp),
        crate::gen::angtol_str(at)
    );
    let _ = moyo::verif::trace::take();
    let mc3 = MagneticCell::from_cell(mc.cell.clone(), mc.magnetic_moments.clone());
    let real = catch(move || MoyoMagneticDataset::<M>::new(&mc3, symprec, at, mag_symprec, action));
    let retries = moyo::verif::trace::take().iter().filter(|e| e.starts_with("update ")).count();
    if retries > 0 {
        w.case(&s10req, &format!("skip retry {}", retries));
    } else {
        w.case(&s10req, &mag_dataset_segments(&real));
    }
}

fn dump_any(w: &mut CaseWriter, tag: &str, c: &MagCrystal, symprec: f64, mag_symprec: Option<f64>) {
    match c.kind {
        Kind::Collinear => dump_mag_stages::<Collinear>(w, tag, c, symprec, mag_symprec),
        Kind::NonCollinear => dump_mag_stages::<NonCollinear>(w, tag, c, symprec, mag_symprec),
    }
}

/// `mag-stage-gen <tier> <out>`: the magnetic crystals of `magpipe::cases_of_uni` (own, re-described, reversed, zero
/// moments, supercells) for a seed-dependent selection of UNI numbers (quick: about one in six plus the first entry of
/// every construct type x centering class; thorough: one in three), cells of at most 120 atoms, plus perturbed twins
/// (one moment changed by 0.5 x / 2 x mag_symprec, all moments noisy by 0.02 x mag_symprec) so that the filters refuse something.
pub fn gen(tier: &str, seed: u64, out: &str) {
    let mut w = CaseWriter::create(out);
    let thorough = tier == "thorough";
    let modulus: u64 = if thorough { 3 } else { 6 };
    let firsts: std::collections::BTreeSet<i32> = {
        let mut seen = std::collections::BTreeSet::new();
        (1..=1651).filter(|&u| seen.insert((construct_type_of(u), centering_of(u)))).collect()
    };
    let mut rng = Rng::new(seed ^ 0x4D53_5447);
    for u in selected_unis(if thorough { "thorough" } else { "quick" }, seed) {
        if !(firsts.contains(&u) || (u as u64 + seed) % modulus == 0) {
            continue;
        }
        let mut todo: Vec<(String, MagCrystal, f64, Option<f64>)> = vec![];
        cases_of_uni(u, tier, seed, &mut |tag, c, sp, msp| todo.push((tag, c.clone(), sp, msp)), &mut |_| {});
        for (tag, c, sp, msp) in todo {
            if c.cell().num_atoms() > 120 {
                continue;
            }
            dump_any(&mut w, &tag, &c, sp, msp);
            // perturbed twins: moments off by a fraction / a multiple of mag_symprec
            if rng.chance(0.35) && !c.base_moments.is_empty() {
                let m = msp.unwrap_or(sp);
                let f = *rng.pick(&[0.5, 2.0]);
                let mut p = c.clone();
                let k = rng.range(0, p.base_moments.len() as i64 - 1) as usize;
                p.base_moments[k][0] += f * m;
                let eps = 0.02 * m;
                for v in p.base_moments.iter_mut() {
                    let n = if c.kind == Kind::Collinear { 1 } else { 3 };
                    for q in 0..n {
                        v[q] += rng.uniform(-eps, eps);
                    }
                }
                dump_any(&mut w, &format!("{}-pert{}", tag, if f < 1.0 { "lo" } else { "hi" }), &p, sp, msp);
            }
        }
    }
    w.finish();
}

pub fn dispatch(args: &[String], seed: u64) -> bool {
    match args[1].as_str() {
        "mag-stage-gen" => {
            gen(&args[2], seed, &args[3]);
            true
        }
        _ => false,
    }
}
