//! C18: determinism — the same input must give byte-identical `serde_json` output
//!   (i)   repeated in-process,
//!   (ii)  after random histories of other calls (other inputs, table lookups, Hall-symbol parsing,
//!         failed / panicking analyses),
//!   (iii) from N threads concurrently, the lazily initialised tables being touched for the first
//!         time under contention (fresh process, all threads released by one barrier),
//!   (iv)  in fresh processes (every process draws new `RandomState` hash seeds).
//!
//! One process (`c18-run ref`) writes the reference file `idx \t spec \t output`; every other mode is
//! a fresh process that recomputes and compares **byte-for-byte** against that file, so every
//! comparison is also a cross-process comparison.  The input set is a pure function of
//! (VERIF_SEED, count, focus); each input is described by a `spec` string from which it can be
//! rebuilt (`c18-one`), which is the replay.
use crate::util::*;
use moyo::base::{
    AngleTolerance, Cell, Collinear, Lattice, MagneticCell, MagneticMoment, NonCollinear, Operation,
    RotationMagneticMomentAction,
};
use moyo::data::{
    arithmetic_crystal_class_entry, get_magnetic_space_group_type, hall_symbol_entry, magnetic_hall_symbol_entry,
    ConstructType, HallSymbol, MagneticHallSymbol, Setting,
};
use moyo::{MoyoDataset, MoyoMagneticDataset};
use nalgebra::{Matrix3, Vector3};
use std::io::Write;
use std::sync::atomic::{AtomicU64, Ordering};
use std::sync::{Arc, Barrier, Mutex};
use std::time::{Duration, Instant};

const ASSET_DIR: &str = "/repo/moyo/tests/assets";

// ------------------------------------------------------------------------------------------------
// input descriptions

#[derive(Clone, Debug, PartialEq)]
pub enum Spec {
    /// crystal generated from a Hall number: generic lattice of the family, `norb` generic orbits
    Hall { h: i32, norb: usize, variant: u32, setting: String, seed: u64 },
    /// JSON asset
    Asset { name: String, setting: String, symprec_exp: i32 },
    /// magnetic crystal generated from a UNI number; `col`: collinear moments
    Mag { uni: i32, col: bool, norb: usize, variant: u32, seed: u64 },
    /// a digest of table lookups (touches ITA_NUMBER_TO_UNI_NUMBERS directly)
    Tables,
}

impl Spec {
    pub fn to_string(&self) -> String {
        match self {
            Spec::Hall { h, norb, variant, setting, seed } => format!("hall:{}:{}:{}:{}:{}", h, norb, variant, setting, seed),
            Spec::Asset { name, setting, symprec_exp } => format!("asset:{}:{}:{}", name, setting, symprec_exp),
            Spec::Mag { uni, col, norb, variant, seed } => {
                format!("mag:{}:{}:{}:{}:{}", uni, if *col { "col" } else { "nc" }, norb, variant, seed)
            }
            Spec::Tables => "tables".to_string(),
        }
    }
    pub fn parse(s: &str) -> Option<Spec> {
        let p: Vec<&str> = s.split(':').collect();
        match p[0] {
            "hall" if p.len() == 6 => Some(Spec::Hall {
                h: p[1].parse().ok()?,
                norb: p[2].parse().ok()?,
                variant: p[3].parse().ok()?,
                setting: p[4].to_string(),
                seed: p[5].parse().ok()?,
            }),
            "asset" if p.len() == 4 => {
                Some(Spec::Asset { name: p[1].to_string(), setting: p[2].to_string(), symprec_exp: p[3].parse().ok()? })
            }
            "mag" if p.len() == 6 => Some(Spec::Mag {
                uni: p[1].parse().ok()?,
                col: p[2] == "col",
                norb: p[3].parse().ok()?,
                variant: p[4].parse().ok()?,
                seed: p[5].parse().ok()?,
            }),
            "tables" => Some(Spec::Tables),
            _ => None,
        }
    }
    fn is_mag(&self) -> bool {
        matches!(self, Spec::Mag { .. })
    }
}

fn parse_setting(s: &str) -> Setting {
    match s {
        "spglib" => Setting::Spglib,
        "standard" => Setting::Standard,
        _ => Setting::HallNumber(s.trim_start_matches("hall").parse().unwrap_or(0)),
    }
}

pub enum Input {
    Cell { cell: Cell, symprec: f64, angle: AngleTolerance, setting: Setting },
    MagNC { cell: MagneticCell<NonCollinear>, symprec: f64 },
    MagCol { cell: MagneticCell<Collinear>, symprec: f64 },
    Tables,
}

// ------------------------------------------------------------------------------------------------
// generators (G-hall / G-mag of DESIGN §2.6, self-contained copy of notes/spike_gen_main.rs.txt)

fn conv_ops(h: i32) -> Vec<Operation> {
    let hs = HallSymbol::from_hall_number(h).expect("hall number");
    let coset = hs.traverse();
    let mut ops = vec![];
    for t in hs.centering.lattice_points() {
        for o in coset.iter() {
            ops.push(Operation::new(o.rotation, (o.translation + t).map(|e| e.rem_euclid(1.0))));
        }
    }
    ops
}

/// Cholesky factor of a random SPD metric averaged over the point group (basis vectors = columns).
fn generic_lattice(rotations: &[Matrix3<i32>], rng: &mut Rng) -> Matrix3<f64> {
    let a = Matrix3::<f64>::from_fn(|_, _| rng.uniform(-1.0, 1.0));
    let g0 = a.transpose() * a + Matrix3::identity() * 0.5;
    let mut g = Matrix3::zeros();
    for r in rotations {
        let r = r.map(|e| e as f64);
        g += r.transpose() * g0 * r;
    }
    g /= rotations.len() as f64;
    let l = g.cholesky().expect("SPD").l();
    l.transpose() * 4.0
}

fn close_mod1(a: &Vector3<f64>, b: &Vector3<f64>) -> bool {
    (a - b).map(|e| e - e.round()).norm() < 1e-6
}

fn random_unimodular(rng: &mut Rng, len: usize) -> Matrix3<i32> {
    let mut m = Matrix3::<i32>::identity();
    for _ in 0..len {
        let i = rng.range(0, 2) as usize;
        let mut j = rng.range(0, 2) as usize;
        if i == j {
            j = (j + 1) % 3;
        }
        let k = if rng.chance(0.5) { 1 } else { -1 };
        let mut e = Matrix3::<i32>::identity();
        e[(i, j)] = k;
        m = m * e;
    }
    m
}

/// Re-describe (basis, positions): basis' = basis·M, x' = M⁻¹(x + s) mod 1 (variant 1); small noise (variant 2).
fn redescribe(basis: &mut Matrix3<f64>, pos: &mut Vec<Vector3<f64>>, variant: u32, rng: &mut Rng) {
    match variant {
        1 => {
            let m = random_unimodular(rng, 4);
            let mf = m.map(|e| e as f64);
            let minv = mf.try_inverse().expect("unimodular");
            let s = Vector3::new(rng.uniform(0.0, 1.0), rng.uniform(0.0, 1.0), rng.uniform(0.0, 1.0));
            for p in pos.iter_mut() {
                *p = (minv * (*p + s)).map(|e| e.rem_euclid(1.0));
            }
            *basis = *basis * mf;
        }
        2 => {
            // displacement of at most 1e-5 Å per coordinate (symprec is 1e-4)
            let inv = basis.try_inverse().expect("basis");
            for p in pos.iter_mut() {
                let d = Vector3::new(rng.uniform(-1.0, 1.0), rng.uniform(-1.0, 1.0), rng.uniform(-1.0, 1.0)) * 5e-6;
                *p += inv * d;
            }
        }
        _ => {}
    }
}

fn hall_crystal(h: i32, norb: usize, variant: u32, seed: u64) -> Cell {
    let mut rng = Rng::new(seed);
    let ops = conv_ops(h);
    let rots: Vec<_> = ops.iter().map(|o| o.rotation).collect();
    let mut basis = generic_lattice(&rots, &mut rng);
    let mut pos: Vec<Vector3<f64>> = vec![];
    let mut nums = vec![];
    for k in 0..norb {
        let x = Vector3::new(rng.uniform(0.05, 0.95), rng.uniform(0.05, 0.95), rng.uniform(0.05, 0.95));
        let mut orb: Vec<Vector3<f64>> = vec![];
        for o in &ops {
            let y = (o.rotation.map(|e| e as f64) * x + o.translation).map(|e| e.rem_euclid(1.0));
            if !orb.iter().any(|z| close_mod1(z, &y)) {
                orb.push(y);
            }
        }
        for y in orb {
            pos.push(y);
            nums.push(k as i32 + 1);
        }
    }
    redescribe(&mut basis, &mut pos, variant, &mut rng);
    Cell::new(Lattice { basis }, pos, nums)
}

/// Magnetic crystal of the magnetic space group `uni`: a generic moment on a generic site propagated by
/// every (R, t, θ) with the axial rule; type-II groups get zero moments.
fn mag_sites(uni: i32, norb: usize, variant: u32, seed: u64) -> (Matrix3<f64>, Vec<Vector3<f64>>, Vec<i32>, Vec<Vector3<f64>>, Vec<f64>) {
    let mut rng = Rng::new(seed);
    let mhs = MagneticHallSymbol::from_uni_number(uni).expect("uni number");
    let coset = mhs.traverse();
    let grey = magnetic_hall_symbol_entry(uni).map(|e| e.construct_type() == ConstructType::Type2).unwrap_or(false);
    let rots: Vec<_> = coset.iter().map(|o| o.operation.rotation).collect();
    let mut basis = generic_lattice(&rots, &mut rng);
    let lattice = Lattice { basis };
    let mut pos = vec![];
    let mut nums = vec![];
    let mut vecs = vec![];
    let mut scal = vec![];
    for k in 0..norb {
        let x = Vector3::new(rng.uniform(0.05, 0.95), rng.uniform(0.05, 0.95), rng.uniform(0.05, 0.95));
        let m0 = if grey || k > 0 {
            Vector3::zeros()
        } else {
            Vector3::new(rng.uniform(-1.0, 1.0), rng.uniform(-1.0, 1.0), rng.uniform(0.3, 1.0))
        };
        let s0 = if grey || k > 0 { 0.0 } else { rng.uniform(0.3, 1.0) };
        let mut orb: Vec<Vector3<f64>> = vec![];
        for t in mhs.centering.lattice_points() {
            for o in coset.iter() {
                let y = (o.operation.rotation.map(|e| e as f64) * x + o.operation.translation + t).map(|e| e.rem_euclid(1.0));
                if orb.iter().any(|z| close_mod1(z, &y)) {
                    continue;
                }
                orb.push(y);
                let cr = o.operation.cartesian_rotation(&lattice);
                let m = NonCollinear(m0).act_magnetic_operation(&cr, o.time_reversal, RotationMagneticMomentAction::Axial);
                let s = Collinear(s0).act_magnetic_operation(&cr, o.time_reversal, RotationMagneticMomentAction::Axial);
                pos.push(y);
                nums.push(k as i32 + 1);
                vecs.push(m.0);
                scal.push(s.0);
            }
        }
    }
    if variant == 1 {
        // re-basing: moments are Cartesian, the Cartesian lattice is unchanged, so they stay as they are
        redescribe(&mut basis, &mut pos, 1, &mut rng);
    }
    (basis, pos, nums, vecs, scal)
}

pub fn build(spec: &Spec) -> Result<Input, String> {
    match spec {
        Spec::Hall { h, norb, variant, setting, seed } => {
            let (h, norb, variant, seed) = (*h, *norb, *variant, *seed);
            let cell = catch(move || hall_crystal(h, norb, variant, seed))?;
            Ok(Input::Cell { cell, symprec: 1e-4, angle: AngleTolerance::Default, setting: parse_setting(setting) })
        }
        Spec::Asset { name, setting, symprec_exp } => {
            let txt = std::fs::read_to_string(format!("{}/{}", ASSET_DIR, name)).map_err(|e| e.to_string())?;
            let cell: Cell = serde_json::from_str(&txt).map_err(|e| e.to_string())?;
            Ok(Input::Cell {
                cell,
                symprec: 10f64.powi(*symprec_exp),
                angle: AngleTolerance::Default,
                setting: parse_setting(setting),
            })
        }
        Spec::Mag { uni, col, norb, variant, seed } => {
            let (uni, norb, variant, seed) = (*uni, *norb, *variant, *seed);
            let (basis, pos, nums, vecs, scal) = catch(move || mag_sites(uni, norb, variant, seed))?;
            if *col {
                let m = scal.into_iter().map(Collinear).collect();
                Ok(Input::MagCol { cell: MagneticCell::new(Lattice { basis }, pos, nums, m), symprec: 1e-4 })
            } else {
                let m = vecs.into_iter().map(NonCollinear).collect();
                Ok(Input::MagNC { cell: MagneticCell::new(Lattice { basis }, pos, nums, m), symprec: 1e-4 })
            }
        }
        Spec::Tables => Ok(Input::Tables),
    }
}

/// The input set: a pure function of (seed, count, focus).  focus ∈ all | mag | nonmag.
pub fn specs(seed: u64, count: usize, focus: &str) -> Vec<Spec> {
    let mut rng = Rng::new(seed ^ 0xC18);
    let mut out = vec![Spec::Tables];
    let mut assets: Vec<String> = std::fs::read_dir(ASSET_DIR)
        .map(|d| d.filter_map(|e| e.ok()).map(|e| e.file_name().to_string_lossy().to_string()).filter(|n| n.ends_with(".json")).collect())
        .unwrap_or_default();
    assets.sort(); // directory order is not deterministic
    let want_mag = focus != "nonmag";
    let want_nonmag = focus != "mag";
    if want_nonmag {
        let rounds = if count >= 1000 { 3 } else { 1 };
        for r in 0..rounds {
            for name in &assets {
                let (setting, e) = match r {
                    0 => ("spglib", -4),
                    1 => ("standard", -4),
                    _ => ("spglib", -2),
                };
                out.push(Spec::Asset { name: name.clone(), setting: setting.into(), symprec_exp: e });
            }
        }
    }
    let remaining = count.saturating_sub(out.len());
    let n_mag = if !want_mag { 0 } else if !want_nonmag { remaining } else { remaining * 3 / 10 };
    let n_hall = if !want_nonmag { 0 } else { remaining - n_mag };
    // Hall numbers: evenly spread with a seeded offset; every pass over 1..=530 uses a new variant
    let stride = if n_hall == 0 { 1.0 } else { (530.0 / n_hall as f64).max(1.0) };
    let off = rng.uniform(0.0, stride.max(1.0));
    for k in 0..n_hall {
        let pass = (k as f64 * stride / 530.0).floor() as u32;
        let h = 1 + (((k as f64 * stride + off) as i64).rem_euclid(530)) as i32;
        let variant = (pass + (k as u32 % 3)) % 3;
        let setting = match (k + pass as usize) % 5 {
            0 => "standard".to_string(),
            1 => format!("hall{}", h),
            _ => "spglib".to_string(),
        };
        let order = conv_ops_len(h);
        let norb = if order > 96 { 1 } else { 2 };
        out.push(Spec::Hall { h, norb, variant, setting, seed: rng.next_u64() >> 1 });
    }
    let mstride = if n_mag == 0 { 1.0 } else { (1651.0 / n_mag as f64).max(1.0) };
    let moff = rng.uniform(0.0, mstride.max(1.0));
    for k in 0..n_mag {
        let uni = 1 + (((k as f64 * mstride + moff) as i64).rem_euclid(1651)) as i32;
        out.push(Spec::Mag { uni, col: k % 3 == 2, norb: 1 + (k % 2), variant: (k as u32 / 2) % 2, seed: rng.next_u64() >> 1 });
    }
    out
}

fn conv_ops_len(h: i32) -> usize {
    HallSymbol::from_hall_number(h).map(|hs| hs.traverse().len() * hs.centering.order()).unwrap_or(1)
}

// ------------------------------------------------------------------------------------------------
// the observed function

fn clean(s: String) -> String {
    s.replace('\n', " ").replace('\t', " ")
}

fn tables_digest() -> String {
    let mut s = String::new();
    for n in 1..=230 {
        s.push_str(&format!("{:?};", moyo::verif::data::uni_number_range(n)));
    }
    for n in [0, 231, -1] {
        let r = catch(move || format!("{:?}", moyo::verif::data::uni_number_range(n)));
        s.push_str(&format!("{:?};", r));
    }
    for h in (1..=530).step_by(7) {
        s.push_str(&format!("{:?};", hall_symbol_entry(h).map(|e| (e.number, e.hall_symbol))));
    }
    for u in (1..=1651).step_by(13) {
        s.push_str(&format!("{:?};", get_magnetic_space_group_type(u).map(|e| (e.number, e.bns_number, e.construct_type))));
        s.push_str(&format!("{:?};", magnetic_hall_symbol_entry(u).map(|e| e.magnetic_hall_symbol)));
    }
    for a in 1..=73 {
        s.push_str(&format!("{:?};", arithmetic_crystal_class_entry(a).map(|e| e.symbol)));
    }
    s
}

/// Analyse the input and serialise the result; Err and panics are results too.
pub fn compute(inp: &Input) -> String {
    let inp = std::panic::AssertUnwindSafe(inp);
    let r = catch(move || match *inp {
        Input::Cell { cell, symprec, angle, setting } => match MoyoDataset::new(cell, *symprec, *angle, *setting) {
            Ok(ds) => serde_json::to_string(&ds).unwrap_or_else(|e| format!("SERDE-ERR {}", e)),
            Err(e) => format!("ERR {:?}", e),
        },
        Input::MagNC { cell, symprec } => {
            match MoyoMagneticDataset::new(cell, *symprec, AngleTolerance::Default, None, RotationMagneticMomentAction::Axial) {
                Ok(ds) => serde_json::to_string(&ds).unwrap_or_else(|e| format!("SERDE-ERR {}", e)),
                Err(e) => format!("ERR {:?}", e),
            }
        }
        Input::MagCol { cell, symprec } => {
            match MoyoMagneticDataset::new(cell, *symprec, AngleTolerance::Default, None, RotationMagneticMomentAction::Axial) {
                Ok(ds) => serde_json::to_string(&ds).unwrap_or_else(|e| format!("SERDE-ERR {}", e)),
                Err(e) => format!("ERR {:?}", e),
            }
        }
        Input::Tables => tables_digest(),
    });
    match r {
        Ok(s) => clean(s),
        Err(m) => clean(format!("PANIC {}", m)),
    }
}

/// A case is non-trivial for C18 when a dataset came back with at least two operations.
fn nontrivial(output: &str) -> bool {
    output.starts_with('{') && output.matches("\"rotation\"").count() >= 2
}

// ------------------------------------------------------------------------------------------------
// histories: calls that must leave nothing behind

fn history_call(rng: &mut Rng, inputs: &[Option<Input>]) -> &'static str {
    match rng.range(0, 5) {
        0 | 1 => {
            // another analysis
            let j = rng.range(0, inputs.len() as i64 - 1) as usize;
            if let Some(inp) = &inputs[j] {
                let _ = compute(inp);
            }
            "other-input"
        }
        2 => {
            for _ in 0..8 {
                let h = rng.range(-2, 535) as i32;
                let u = rng.range(-2, 1660) as i32;
                let n = rng.range(-2, 233) as i32;
                let _ = catch(move || {
                    let _ = hall_symbol_entry(h);
                    let _ = magnetic_hall_symbol_entry(u);
                    let _ = get_magnetic_space_group_type(u);
                    let _ = moyo::verif::data::uni_number_range(n);
                    let _ = arithmetic_crystal_class_entry(n);
                    let _ = Setting::Spglib.hall_number(n);
                    let _ = Setting::Standard.hall_numbers();
                });
            }
            "table-lookups"
        }
        3 => {
            // Hall-symbol parsing, also of damaged strings (None or a caught panic)
            for _ in 0..4 {
                let h = rng.range(1, 530) as i32;
                let u = rng.range(1, 1651) as i32;
                let mut s = hall_symbol_entry(h).map(|e| e.hall_symbol.to_string()).unwrap_or_default();
                let mut ms = magnetic_hall_symbol_entry(u).map(|e| e.magnetic_hall_symbol.to_string()).unwrap_or_default();
                if rng.chance(0.5) && !s.is_empty() {
                    let cut = rng.range(0, s.len() as i64 - 1) as usize;
                    s.truncate(cut);
                    ms.push_str(" 9z");
                }
                let _ = catch(move || {
                    if let Some(hs) = HallSymbol::new(&s) {
                        let _ = hs.traverse();
                        let _ = hs.primitive_traverse();
                    }
                });
                let _ = catch(move || {
                    if let Some(hs) = MagneticHallSymbol::new(&ms) {
                        let _ = hs.primitive_traverse();
                    }
                });
            }
            "hall-parsing"
        }
        _ => {
            // failed analyses: a refused / out-of-range Hall setting (Err or caught panic after a full analysis)
            let j = rng.range(0, inputs.len() as i64 - 1) as usize;
            if let Some(Input::Cell { cell, symprec, angle, .. }) = &inputs[j] {
                let h = *rng.pick(&[0, -7, 531, 1, 17, 230, 400, 529]);
                let c = std::panic::AssertUnwindSafe(cell);
                let (sp, an) = (*symprec, *angle);
                let _ = catch(move || MoyoDataset::new(*c, sp, an, Setting::HallNumber(h)).map(|d| d.number));
            }
            "failed-analysis"
        }
    }
}

// ------------------------------------------------------------------------------------------------
// watchdog: a stuck analysis must not stall the check

struct Watch {
    slots: Vec<(AtomicU64, AtomicU64)>, // (start ms since t0 + 1, idx); 0 = idle
    t0: Instant,
}
impl Watch {
    fn new(n: usize) -> Arc<Watch> {
        Arc::new(Watch { slots: (0..n).map(|_| (AtomicU64::new(0), AtomicU64::new(0))).collect(), t0: Instant::now() })
    }
    fn enter(&self, slot: usize, idx: usize) {
        self.slots[slot].1.store(idx as u64, Ordering::SeqCst);
        self.slots[slot].0.store(self.t0.elapsed().as_millis() as u64 + 1, Ordering::SeqCst);
    }
    fn leave(&self, slot: usize) {
        self.slots[slot].0.store(0, Ordering::SeqCst);
    }
    /// calls `on_timeout(idx)` (which must not return normally for long) when a slot is busy for > limit
    fn spawn<F: Fn(usize) + Send + 'static>(self: &Arc<Self>, limit: Duration, on_timeout: F) {
        let w = self.clone();
        std::thread::spawn(move || loop {
            std::thread::sleep(Duration::from_millis(200));
            let now = w.t0.elapsed().as_millis() as u64 + 1;
            for s in &w.slots {
                let st = s.0.load(Ordering::SeqCst);
                if st != 0 && now.saturating_sub(st) > limit.as_millis() as u64 {
                    on_timeout(s.1.load(Ordering::SeqCst) as usize);
                }
            }
        });
    }
}

// ------------------------------------------------------------------------------------------------
// reference file

pub struct RefEntry {
    pub idx: usize,
    pub spec: String,
    pub out: String,
}

pub fn read_ref(path: &str) -> Vec<RefEntry> {
    let txt = std::fs::read_to_string(path).expect("read reference file");
    let mut v = vec![];
    for line in txt.lines() {
        let mut it = line.splitn(3, '\t');
        let (a, b, c) = (it.next(), it.next(), it.next());
        if let (Some(a), Some(b), Some(c)) = (a, b, c) {
            if let Ok(idx) = a.parse() {
                v.push(RefEntry { idx, spec: b.to_string(), out: c.to_string() });
            }
        }
    }
    v
}

fn first_diff(a: &str, b: &str) -> String {
    let (ab, bb) = (a.as_bytes(), b.as_bytes());
    let n = ab.len().min(bb.len());
    let mut k = 0;
    while k < n && ab[k] == bb[k] {
        k += 1;
    }
    let lo = k.saturating_sub(60);
    let ex = |s: &[u8]| String::from_utf8_lossy(&s[lo.min(s.len())..(k + 60).min(s.len())]).to_string();
    format!("len {} vs {}; first difference at byte {}: ...{}... vs ...{}...", ab.len(), bb.len(), k, ex(ab), ex(bb))
}

struct Report {
    lines: Mutex<Vec<String>>,
    mismatches: AtomicU64,
    evaluations: AtomicU64,
    dump_prefix: String,
}
impl Report {
    fn mismatch(&self, mode: &str, detail: &str, e: &RefEntry, got: &str) {
        let k = self.mismatches.fetch_add(1, Ordering::SeqCst);
        if k < 20 {
            let a = format!("{}.{}.{}.ref", self.dump_prefix, e.idx, k);
            let b = format!("{}.{}.{}.got", self.dump_prefix, e.idx, k);
            let _ = std::fs::write(&a, &e.out);
            let _ = std::fs::write(&b, got);
            self.lines.lock().unwrap().push(format!(
                "MISMATCH\tmode={}\t{}\tidx={}\tspec={}\t{}\tref_dump={}\tgot_dump={}",
                mode,
                detail,
                e.idx,
                e.spec,
                first_diff(&e.out, got),
                a,
                b
            ));
        }
    }
}

// ------------------------------------------------------------------------------------------------
// modes

/// Inputs of the reference file; entries that timed out or could not be built there are never analysed
/// again (neither compared nor used inside a history).
fn build_all(refs: &[RefEntry]) -> Vec<Option<Input>> {
    refs.iter().map(|e| if usable(e) { Spec::parse(&e.spec).and_then(|s| build(&s).ok()) } else { None }).collect()
}

/// `ref`: compute every input once, append `idx \t spec \t output` (resumable after a timeout).
fn mode_ref(seed: u64, count: usize, focus: &str, ref_path: &str, start: usize, limit_ms: u64) {
    let sp = specs(seed, count, focus);
    let mut f = std::fs::OpenOptions::new().create(true).append(true).open(ref_path).expect("open ref");
    let watch = Watch::new(1);
    let cur_spec = Arc::new(Mutex::new(String::new()));
    {
        let cur = cur_spec.clone();
        let path = ref_path.to_string();
        watch.spawn(Duration::from_millis(limit_ms), move |idx| {
            let mut f = std::fs::OpenOptions::new().append(true).open(&path).expect("open ref");
            let _ = writeln!(f, "{}\t{}\tTIMEOUT", idx, cur.lock().unwrap());
            let _ = f.flush();
            std::process::exit(3);
        });
    }
    for (idx, s) in sp.iter().enumerate() {
        if idx < start {
            continue;
        }
        let ss = s.to_string();
        *cur_spec.lock().unwrap() = ss.clone();
        let out = match build(s) {
            Ok(inp) => {
                watch.enter(0, idx);
                let o = compute(&inp);
                watch.leave(0);
                o
            }
            Err(e) => clean(format!("BUILD-ERR {}", e)),
        };
        writeln!(f, "{}\t{}\t{}", idx, ss, out).unwrap();
    }
    f.flush().unwrap();
}

fn usable(e: &RefEntry) -> bool {
    e.out != "TIMEOUT" && !e.out.starts_with("BUILD-ERR")
}

/// Sequential modes: `proc` (one pass), `repeat` (three passes in the same process), `history`.
fn mode_seq(mode: &str, seed: u64, refs: &[RefEntry], rep: &Report, watch: &Arc<Watch>) {
    let inputs = build_all(refs);
    let mut rng = Rng::new(seed ^ 0x4157);
    let passes = if mode == "repeat" { 3 } else { 1 };
    let mut first: Vec<Option<String>> = vec![None; refs.len()];
    for pass in 0..passes {
        for (k, e) in refs.iter().enumerate() {
            if !usable(e) {
                continue;
            }
            let inp = match &inputs[k] {
                Some(i) => i,
                None => continue,
            };
            let mut hist = vec![];
            if mode == "history" {
                let n = rng.range(1, 3);
                for _ in 0..n {
                    watch.enter(0, e.idx);
                    hist.push(history_call(&mut rng, &inputs));
                    watch.leave(0);
                }
            }
            watch.enter(0, e.idx);
            let got = compute(inp);
            watch.leave(0);
            rep.evaluations.fetch_add(1, Ordering::SeqCst);
            if got != e.out {
                rep.mismatch(mode, &format!("pass={} history={:?} vs=reference-process", pass, hist), e, &got);
            }
            if let Some(f0) = &first[k] {
                if *f0 != got {
                    let e2 = RefEntry { idx: e.idx, spec: e.spec.clone(), out: f0.clone() };
                    rep.mismatch(mode, &format!("pass={} vs=first-result-in-this-process", pass), &e2, &got);
                }
            } else {
                first[k] = Some(got);
            }
        }
    }
}

/// `threads`: all threads are released by one barrier in a process that has not touched moyo's lazies;
/// phase A: everybody analyses the same monoclinic input (first touch of UNIMODULAR3_RANGE1), then the
/// table digest (first touch of ITA_NUMBER_TO_UNI_NUMBERS), then the same magnetic input;
/// phase B (unless `firsttouch`): every thread analyses every input, each in its own order.
fn mode_threads(mode: &str, seed: u64, refs: Arc<Vec<RefEntry>>, nthreads: usize, rep: Arc<Report>, watch: Arc<Watch>) {
    // building inputs uses only HallSymbol / table constants, none of the two lazies
    let inputs = Arc::new(build_all(&refs));
    let is_mono = |e: &RefEntry| match Spec::parse(&e.spec) {
        Some(Spec::Hall { h, .. }) => (3..=107).contains(&h),
        _ => false,
    };
    let mut phase_a: Vec<usize> = vec![];
    if let Some(k) = refs.iter().position(|e| usable(e) && is_mono(e)) {
        phase_a.push(k);
    }
    if let Some(k) = refs.iter().position(|e| e.spec == "tables") {
        phase_a.push(k);
    }
    if let Some(k) = refs.iter().position(|e| usable(e) && Spec::parse(&e.spec).map(|s| s.is_mag()).unwrap_or(false)) {
        phase_a.push(k);
    }
    let phase_a = Arc::new(phase_a);
    let barrier = Arc::new(Barrier::new(nthreads));
    let mut handles = vec![];
    for t in 0..nthreads {
        let (refs, inputs, rep, watch, barrier, phase_a) =
            (refs.clone(), inputs.clone(), rep.clone(), watch.clone(), barrier.clone(), phase_a.clone());
        let mode = mode.to_string();
        handles.push(std::thread::spawn(move || {
            let run = |k: usize, phase: &str| {
                let e = &refs[k];
                if !usable(e) {
                    return;
                }
                if let Some(inp) = &inputs[k] {
                    watch.enter(t, e.idx);
                    let got = compute(inp);
                    watch.leave(t);
                    rep.evaluations.fetch_add(1, Ordering::SeqCst);
                    if got != e.out {
                        rep.mismatch(&mode, &format!("thread={} phase={} vs=reference-process", t, phase), e, &got);
                    }
                }
            };
            for &k in phase_a.iter() {
                barrier.wait();
                run(k, "first-touch");
            }
            if mode == "firsttouch" {
                return;
            }
            barrier.wait();
            let mut order: Vec<usize> = (0..refs.len()).collect();
            if t > 0 {
                let mut rng = Rng::new(seed ^ (0x7000 + t as u64));
                for i in (1..order.len()).rev() {
                    let j = rng.range(0, i as i64) as usize;
                    order.swap(i, j);
                }
            }
            for k in order {
                run(k, "concurrent");
            }
        }));
    }
    for h in handles {
        let _ = h.join();
    }
}

/// c18-run <mode> <count> <focus> <ref> <report> [start|nthreads]
fn run(args: &[String], seed: u64) {
    let mode = args[2].as_str();
    let count: usize = args[3].parse().expect("count");
    let focus = args[4].as_str();
    let ref_path = args[5].as_str();
    let report_path = args[6].as_str();
    let extra: usize = args.get(7).and_then(|s| s.parse().ok()).unwrap_or(0);
    let t0 = Instant::now();
    if mode == "ref" {
        // an input that needs more than 20 s is C08's business: it is marked TIMEOUT and skipped by every mode
        // (VERIF_C18_LIMIT_MS only exists to exercise this path in tests)
        let limit_ms = std::env::var("VERIF_C18_LIMIT_MS").ok().and_then(|s| s.parse().ok()).unwrap_or(20_000u64);
        mode_ref(seed, count, focus, ref_path, extra, limit_ms);
        let refs = read_ref(ref_path);
        let mut kinds = std::collections::BTreeMap::new();
        let mut outcomes = std::collections::BTreeMap::new();
        let mut nt = 0;
        let mut distinct = std::collections::BTreeSet::new();
        for e in &refs {
            *kinds.entry(e.spec.split(':').next().unwrap_or("").to_string()).or_insert(0usize) += 1;
            let oc = if e.out.starts_with('{') {
                "dataset".to_string()
            } else {
                e.out.split(|c| c == ' ' || c == '(').next().unwrap_or("").chars().take(24).collect()
            };
            *outcomes.entry(oc).or_insert(0usize) += 1;
            if nontrivial(&e.out) && distinct.insert(e.out.clone()) {
                nt += 1;
            }
        }
        let mut f = std::fs::File::create(report_path).expect("report");
        writeln!(f, "SUMMARY\tmode=ref\tinputs={}\tdistinct_nontrivial={}\tkinds={:?}\toutcomes={:?}\twall_s={:.2}", refs.len(), nt, kinds, outcomes, t0.elapsed().as_secs_f64()).unwrap();
        return;
    }
    let refs = read_ref(ref_path);
    let nthreads = if extra == 0 { 16 } else { extra };
    let rep = Arc::new(Report {
        lines: Mutex::new(vec![]),
        mismatches: AtomicU64::new(0),
        evaluations: AtomicU64::new(0),
        dump_prefix: report_path.to_string(),
    });
    let threaded = mode == "threads" || mode == "firsttouch";
    let watch = Watch::new(if threaded { nthreads } else { 1 });
    {
        let (rp, m) = (report_path.to_string(), mode.to_string());
        watch.spawn(Duration::from_secs(300), move |idx| {
            let _ = std::fs::write(&rp, format!("TIMEOUT\tmode={}\tidx={}\n", m, idx));
            std::process::exit(4);
        });
    }
    if threaded {
        mode_threads(mode, seed, Arc::new(refs), nthreads, rep.clone(), watch.clone());
    } else {
        mode_seq(mode, seed, &refs, &rep, &watch);
    }
    let mut f = std::fs::File::create(report_path).expect("report");
    for l in rep.lines.lock().unwrap().iter() {
        writeln!(f, "{}", l).unwrap();
    }
    writeln!(
        f,
        "SUMMARY\tmode={}\tevaluations={}\tmismatches={}\twall_s={:.2}",
        mode,
        rep.evaluations.load(Ordering::SeqCst),
        rep.mismatches.load(Ordering::SeqCst),
        t0.elapsed().as_secs_f64()
    )
    .unwrap();
}

/// c18-one <spec> [repeat]: print the output of one input (replay); with repeat, also compare in-process.
fn one(args: &[String]) {
    let spec = Spec::parse(&args[2]).expect("spec");
    let inp = build(&spec).expect("build");
    let a = compute(&inp);
    println!("{}", a);
    let n: usize = args.get(3).and_then(|s| s.parse().ok()).unwrap_or(0);
    for _ in 0..n {
        let b = compute(&inp);
        if a != b {
            println!("IN-PROCESS-DIFFERENCE {}", first_diff(&a, &b));
            std::process::exit(1);
        }
    }
}

/// c18-input <spec>: print the input itself as JSON (for replay files)
fn print_input(args: &[String]) {
    let spec = Spec::parse(&args[2]).expect("spec");
    match build(&spec) {
        Ok(Input::Cell { cell, symprec, setting, .. }) => {
            println!("{{\"symprec\":{},\"setting\":\"{:?}\",\"cell\":{}}}", symprec, setting, serde_json::to_string(&cell).unwrap())
        }
        Ok(Input::MagNC { cell, symprec }) => {
            println!("{{\"symprec\":{},\"action\":\"Axial\",\"magnetic_cell\":{}}}", symprec, serde_json::to_string(&cell).unwrap())
        }
        Ok(Input::MagCol { cell, symprec }) => {
            println!("{{\"symprec\":{},\"action\":\"Axial\",\"magnetic_cell\":{}}}", symprec, serde_json::to_string(&cell).unwrap())
        }
        Ok(Input::Tables) => println!("\"tables\""),
        Err(e) => println!("BUILD-ERR {}", e),
    }
}

pub fn dispatch(args: &[String], seed: u64) -> bool {
    match args[1].as_str() {
        "c18-run" => run(args, seed),
        "c18-one" => one(args),
        "c18-input" => print_input(args),
        _ => return false,
    }
    true
}
