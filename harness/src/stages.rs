//! Stage-wise dumps (DESIGN §2.3): the pipeline is run stage by stage through the `verif` exports and
//! each stage's inputs and outputs are written with exact floats, one line per stage and case:
//!   `<stage> <tag> ; <input segments> ||| <output segments>`
//! so that the Lean stage models can be compared stage by stage (refinement per stage).
use crate::gen::*;
use crate::pipeline::{cell_segments, err_name, imat_row_major, mat_row_major, vec3s};
use crate::util::*;
use moyo::base::{AngleTolerance, Cell, Operation, Permutation};
use moyo::data::Setting;
use moyo::verif::base::UnimodularTransformation;
use moyo::verif::identify::SpaceGroup;
use moyo::verif::search::{operations_in_cell, PrimitiveCell, PrimitiveSymmetrySearch};
use moyo::verif::symmetrize::{orbits_in_cell, StandardizedCell};
use nalgebra::Matrix3;

pub fn ops_str(ops: &[Operation]) -> String {
    ops.iter().map(|o| format!("{} {}", imat_row_major(&o.rotation), vec3s(&o.translation))).collect::<Vec<_>>().join(" ")
}

pub fn perm_str(p: &Permutation) -> String {
    (0..p.size()).map(|i| p.apply(i).to_string()).collect::<Vec<_>>().join(" ")
}

pub fn perms_str(ps: &[Permutation]) -> String {
    ps.iter().map(perm_str).collect::<Vec<_>>().join(" , ")
}

fn utrans_str(t: &UnimodularTransformation) -> String {
    format!("{} ; ushift {}", imat_row_major(&t.linear), vec3s(&t.origin_shift))
}

/// Run the stages of `MoyoDataset::new` one by one on `cell` and emit one line per stage.
pub fn dump_stages(w: &mut CaseWriter, tag: &str, cell: &Cell, symprec: f64, at: AngleTolerance, setting: Setting) {
    let c = cell.clone();
    // S1: primitive cell (the proposals of the float heuristics, recorded by the hooks, go into the request: s13.rs)
    let (r1, ev1) = crate::s13::with_detail(move || catch(move || PrimitiveCell::new(&c, symprec)));
    let s1req = format!("s1 {} ; {} ; symprec {} ; {}", tag, cell_segments("", cell), fx(symprec), crate::s13::h1_segments(&ev1));
    let prim = match r1 {
        Ok(Ok(p)) => p,
        Ok(Err(e)) => {
            w.case(&s1req, &format!("err {}", err_name(&e)));
            w.case(&format!("s9 {} ; none", tag), "skip retry s1"); // the real pipeline retries with other tolerances: not compared, counted
            return;
        }
        Err(m) => {
            w.case(&s1req, &format!("PANIC {}", m));
            return;
        }
    };
    let trans: Vec<String> = prim.translations.iter().map(vec3s).collect();
    w.case(
        &s1req,
        &format!(
            "ok ; {} ; linear {} ; sitemap {} ; ntrans {} ; trans {} ; perms {}",
            cell_segments("p", &prim.cell),
            imat_row_major(&prim.linear),
            ints(prim.site_mapping.iter().map(|&x| x as i64)),
            prim.translations.len(),
            trans.join(" "),
            perms_str(&prim.permutations)
        ),
    );
    // S2: Bravais group of the primitive (Minkowski-reduced) lattice
    crate::s13::dump_s2(w, tag, &prim.cell.lattice, symprec, at);
    // S3: symmetry search in the primitive cell
    let pc = prim.cell.clone();
    let (r3, ev3) = crate::s13::with_detail(move || catch(move || PrimitiveSymmetrySearch::new(&pc, symprec, at)));
    let s3req = format!("s3 {} ; {} ; symprec {} ; angtol {} ; {}", tag, cell_segments("", &prim.cell), fx(symprec), angtol_str(at), crate::s13::h3_segments(&ev3));
    let search = match r3 {
        Ok(Ok(s)) => s,
        Ok(Err(e)) => {
            w.case(&s3req, &format!("err {}", err_name(&e)));
            w.case(&format!("s9 {} ; none", tag), "skip retry s3");
            return;
        }
        Err(m) => {
            w.case(&s3req, &format!("PANIC {}", m));
            return;
        }
    };
    w.case(
        &s3req,
        &format!("ok ; nops {} ; ops {} ; perms {}", search.operations.len(), ops_str(&search.operations), perms_str(&search.permutations)),
    );
    // S4: operations in the input cell
    let ops = operations_in_cell(&prim, &search.operations);
    w.case(
        &format!(
            "s4 {} ; linear {} ; ntrans {} ; trans {} ; nops {} ; ops {}",
            tag,
            imat_row_major(&prim.linear),
            prim.translations.len(),
            trans.join(" "),
            search.operations.len(),
            ops_str(&search.operations)
        ),
        &format!("nout {} ; out {}", ops.len(), ops_str(&ops)),
    );
    // S5: space-group identification
    let epsilon = symprec / prim.cell.lattice.volume().powf(1.0 / 3.0);
    let sops = search.operations.clone();
    let s5req = format!("s5 {} ; nops {} ; ops {} ; setting {} ; epsilon {}", tag, search.operations.len(), ops_str(&search.operations), setting_str(setting), fx(epsilon));
    let sg = match catch(move || SpaceGroup::new(&sops, setting, epsilon)) {
        Ok(Ok(s)) => s,
        Ok(Err(e)) => {
            w.case(&s5req, &format!("err {}", err_name(&e)));
            return;
        }
        Err(m) => {
            w.case(&s5req, &format!("PANIC {}", m));
            return;
        }
    };
    w.case(&s5req, &format!("ok ; number {} ; hallnum {} ; ulinear {}", sg.number, sg.hall_number, utrans_str(&sg.transformation)));
    // S6: standardisation
    let s6req = format!(
        "s6 {} ; {} ; nops {} ; ops {} ; perms {} ; hallnum {} ; ulinear {} ; symprec {} ; epsilon {}",
        tag,
        cell_segments("", &prim.cell),
        search.operations.len(),
        ops_str(&search.operations),
        perms_str(&search.permutations),
        sg.hall_number,
        utrans_str(&sg.transformation),
        fx(symprec),
        fx(epsilon)
    );
    let (pc2, so2, sp2) = (prim.cell.clone(), search.operations.clone(), search.permutations.clone());
    let sg2 = SpaceGroup::from_hall_number_and_transformation(sg.hall_number, sg.transformation.clone()).unwrap();
    let std = match catch(move || StandardizedCell::new(&pc2, &so2, &sp2, &sg2, symprec, epsilon)) {
        Ok(Ok(s)) => s,
        Ok(Err(e)) => {
            w.case(&s6req, &format!("err {}", err_name(&e)));
            return;
        }
        Err(m) => {
            w.case(&s6req, &format!("PANIC {}", m));
            return;
        }
    };
    let wy: Vec<String> = std.wyckoffs.iter().map(|x| format!("{}:{}:{}", x.letter, x.multiplicity, x.site_symmetry)).collect();
    w.case(
        &s6req,
        &format!(
            "ok ; {} ; ptlinear {} ; {} ; tlinear {} ; tshift {} ; rot {} ; sitemap {} ; wyck {}",
            cell_segments("prim", &std.prim_cell),
            utrans_str(&std.prim_transformation),
            cell_segments("std", &std.cell),
            imat_row_major(&std.transformation.linear),
            vec3s(&std.transformation.origin_shift),
            mat_row_major(&std.rotation_matrix),
            ints(std.site_mapping.iter().map(|&x| x as i64)),
            wy.join(" ")
        ),
    );
    // S7: orbit lifting
    let orbits = orbits_in_cell(prim.cell.num_atoms(), &search.permutations, &prim.site_mapping);
    w.case(
        &format!("s7 {} ; natoms {} ; perms {} ; sitemap {}", tag, prim.cell.num_atoms(), perms_str(&search.permutations), ints(prim.site_mapping.iter().map(|&x| x as i64))),
        &format!("orbits {}", ints(orbits.iter().map(|&x| x as i64))),
    );
    // S9: glue of `MoyoDataset::new` + dataflow. Inputs: the outputs of the separately called stages above; expected output:
    // what the real pipeline returns for the same input. If the real pipeline needed tolerance retries its stage inputs
    // differ from the ones dumped here: the comparison is skipped for the case (and counted).
    let wy9: Vec<String> = std.wyckoffs.iter().map(|x| format!("{}:{}:{}", x.letter, x.multiplicity, x.site_symmetry)).collect();
    let s9req = format!(
        "s9 {} ; linear {} ; sitemap {} ; pn {} ; ntrans {} ; trans {} ; nops {} ; ops {} ; perms {} ; number {} ; hallnum {} ; {} ; {} ; tlinear {} ; tshift {} ; ptlinear {} ; ptshift {} ; rot {} ; ssitemap {} ; wyck {} ; symprec {} ; angtol {}",
        tag,
        imat_row_major(&prim.linear),
        ints(prim.site_mapping.iter().map(|&x| x as i64)),
        prim.cell.num_atoms(),
        prim.translations.len(),
        trans.join(" "),
        search.operations.len(),
        ops_str(&search.operations),
        perms_str(&search.permutations),
        sg.number,
        sg.hall_number,
        cell_segments("std", &std.cell),
        cell_segments("prim", &std.prim_cell),
        imat_row_major(&std.transformation.linear),
        vec3s(&std.transformation.origin_shift),
        imat_row_major(&std.prim_transformation.linear),
        vec3s(&std.prim_transformation.origin_shift),
        mat_row_major(&std.rotation_matrix),
        ints(std.site_mapping.iter().map(|&x| x as i64)),
        wy9.join(" "),
        fx(symprec),
        angtol_str(at)
    );
    let _ = moyo::verif::trace::take();
    let real = crate::pipeline::run_dataset(cell, symprec, at, setting);
    let retries = moyo::verif::trace::take().iter().filter(|e| e.starts_with("update ")).count();
    if retries > 0 {
        w.case(&s9req, &format!("skip retry {}", retries));
    } else {
        w.case(&s9req, &crate::pipeline::dataset_segments(&real));
    }
    let _ = Matrix3::<f64>::identity();
}

/// `stage-gen <tier> <out>`: stage dumps for crystals of all settings (own + re-described + supercell + noise).
pub fn gen(tier: &str, seed: u64, out: &str) {
    let mut w = CaseWriter::create(out);
    let mut rng = Rng::new(seed ^ 0x57A6E);
    let thorough = tier == "thorough";
    let n = if thorough { 530 * 4 } else { 265 };
    for k in 0..n {
        let h = if thorough { (k % 530) as i32 + 1 } else { rng.range(1, 530) as i32 };
        let base = crystal(h, &mut rng, 2);
        let sp = *rng.pick(&[1e-5, 1e-4, 1e-3, 1e-2]);
        let at = if rng.chance(0.7) { AngleTolerance::Default } else { AngleTolerance::Radian(rng.uniform(2e-3, 2e-2)) };
        let st = *rng.pick(&[Setting::Spglib, Setting::Standard, Setting::HallNumber(h)]);
        let sup = if rng.chance(0.35) && base.cell.num_atoms() <= 64 {
            let idx = rng.range(2, 4) as i32;
            Some(*rng.pick(&hnfs_of_index(idx)))
        } else {
            None
        };
        let lvl = rng.range(0, 2) as u32;
        let mut c = redescribe(&base, &mut rng, lvl, sup);
        if rng.chance(0.3) {
            c = c.noise(&mut rng, 0.05 * sp);
        }
        dump_stages(&mut w, &format!("h{}k{}", h, k), &c.cell, sp, at, st);
    }
    // extra S1-S3 lines on inputs the acceptance logic has to refuse (s13.rs)
    crate::s13::stress(&mut w, &mut rng.fork(), tier);
    w.finish();
}
