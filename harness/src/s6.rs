//! Extra stage dumps aimed at stage S6 (`StandardizedCell::new`), complementing `stage-gen` (whose crystals have
//! atoms on general positions only and hit the triclinic branch twice in 265 cases):
//!   s6-gen <tier> <out>   lines `<stage> <tag> ; <inputs> ||| <outputs>` written by `stages::dump_stages` for
//!     - crystals with one species on a tabulated *special* Wyckoff position (rows drawn over the whole table) plus a
//!       general-position species, re-described, a third of them with noise <= 5 % symprec        (tags w…)
//!     - triclinic crystals (Hall 1, 2; half with an extra species on a special point), strongly re-based and shifted,
//!       some as supercells                                                                        (tags t…)
//!     - monoclinic crystals of all settings (Hall 3..107) with a special-position species, re-based  (tags m…)
//! The Lean model answers the `s6` / `s7` lines of the file (checks/stages_s6.py).
use crate::gen::*;
use crate::stages::dump_stages;
use crate::util::*;
use crate::wyckoff::{table_rows, wyckoff_crystal};
use moyo::base::AngleTolerance;
use moyo::data::Setting;

pub fn gen(tier: &str, seed: u64, out: &str) {
    let mut w = CaseWriter::create(out);
    let mut rng = Rng::new(seed ^ 0x56_57AD);
    let thorough = tier == "thorough";
    let symprecs = [1e-5, 1e-4, 1e-3, 1e-2];
    // special Wyckoff positions
    let rows = table_rows();
    let mut general = vec![0usize; 531];
    for r in rows.iter().rev() {
        general[r.hall as usize] = r.idx;
    }
    let nrows = if thorough { 1200 } else { 70 };
    for k in 0..nrows {
        let r = &rows[rng.range(0, rows.len() as i64 - 1) as usize];
        let nops = conv_ops(r.hall).len();
        if !thorough && nops > 48 {
            continue; // keep the quick tier cheap: no F/I-centred cubic cells with 96+ operations
        }
        let base = match wyckoff_crystal(r, general[r.hall as usize], &mut rng) {
            Some(c) => c,
            None => continue,
        };
        let sp = *rng.pick(&symprecs);
        let lvl = rng.range(0, 2) as u32;
        let mut c = redescribe(&base, &mut rng, lvl, None);
        if rng.chance(0.33) {
            c = c.noise(&mut rng, 0.05 * sp);
        }
        let st = *rng.pick(&[Setting::Spglib, Setting::Standard, Setting::HallNumber(r.hall)]);
        dump_stages(&mut w, &format!("w{}h{}{}k{}", r.idx, r.hall, r.letter, k), &c.cell, sp, AngleTolerance::Default, st);
    }
    // triclinic
    let ntri = if thorough { 200 } else { 24 };
    for k in 0..ntri {
        let h = 1 + (k % 2) as i32;
        let base = if rng.chance(0.5) { crystal_special(h, &mut rng, 0.2) } else { crystal(h, &mut rng, 2) };
        let sp = *rng.pick(&symprecs);
        let sup = if rng.chance(0.3) {
            let idx = rng.range(2, 3) as i32;
            Some(*rng.pick(&hnfs_of_index(idx)))
        } else {
            None
        };
        let mut c = redescribe(&base, &mut rng, 2, sup);
        if rng.chance(0.3) {
            c = c.noise(&mut rng, 0.05 * sp);
        }
        dump_stages(&mut w, &format!("t{}k{}", h, k), &c.cell, sp, AngleTolerance::Default, *rng.pick(&[Setting::Spglib, Setting::Standard]));
    }
    // monoclinic
    let nmono = if thorough { 420 } else { 40 };
    for k in 0..nmono {
        let h = if thorough { 3 + (k % 105) as i32 } else { rng.range(3, 107) as i32 };
        let base = crystal_special(h, &mut rng, 0.2);
        let sp = *rng.pick(&symprecs);
        let lvl = rng.range(1, 2) as u32;
        let mut c = redescribe(&base, &mut rng, lvl, None);
        if rng.chance(0.3) {
            c = c.noise(&mut rng, 0.05 * sp);
        }
        let st = *rng.pick(&[Setting::Spglib, Setting::Standard, Setting::HallNumber(h)]);
        dump_stages(&mut w, &format!("m{}k{}", h, k), &c.cell, sp, AngleTolerance::Default, st);
    }
    w.finish();
}

pub fn dispatch(args: &[String], seed: u64) -> bool {
    match args[1].as_str() {
        // s6-gen <tier> <out>
        "s6-gen" => {
            gen(&args[2], seed, &args[3]);
            true
        }
        _ => false,
    }
}
