//! Pipeline cases: generated crystals through `MoyoDataset::new`, dumped with exact floats and the
//! ground truth of the generator, one line per case, for the Lean oracles.
use crate::gen::*;
use crate::util::*;
use moyo::base::{AngleTolerance, Cell, MoyoError};
use moyo::data::Setting;
use moyo::MoyoDataset;
use nalgebra::{Matrix3, Vector3};
#[allow(unused_imports)]
use crate::gen::{hnfs_of_index, random_rotation, random_unimodular};

pub fn mat_row_major(m: &Matrix3<f64>) -> String {
    let mut v = vec![];
    for i in 0..3 {
        for j in 0..3 {
            v.push(fx(m[(i, j)]));
        }
    }
    v.join(" ")
}
pub fn imat_row_major(m: &Matrix3<i32>) -> String {
    let mut v = vec![];
    for i in 0..3 {
        for j in 0..3 {
            v.push(m[(i, j)].to_string());
        }
    }
    v.join(" ")
}
pub fn vec3s(v: &Vector3<f64>) -> String {
    format!("{} {} {}", fx(v[0]), fx(v[1]), fx(v[2]))
}

pub fn cell_segments(prefix: &str, cell: &Cell) -> String {
    let pos: Vec<String> = cell.positions.iter().map(vec3s).collect();
    format!(
        "{p}lat {} ; {p}n {} ; {p}pos {} ; {p}num {}",
        mat_row_major(&cell.lattice.basis),
        cell.num_atoms(),
        pos.join(" "),
        ints(cell.numbers.iter().map(|&x| x as i64)),
        p = prefix
    )
}

pub fn err_name(e: &MoyoError) -> String {
    format!("{:?}", e)
}

pub fn dataset_segments(r: &Result<Result<MoyoDataset, MoyoError>, String>) -> String {
    match r {
        Err(msg) => format!("out panic ; msg {}", msg.replace(';', ",")),
        Ok(Err(e)) => format!("out err ; errname {}", err_name(e)),
        Ok(Ok(d)) => {
            let ops: Vec<String> = d
                .operations
                .iter()
                .map(|o| format!("{} {}", imat_row_major(&o.rotation), vec3s(&o.translation)))
                .collect();
            let at = match d.angle_tolerance {
                AngleTolerance::Default => "default".to_string(),
                AngleTolerance::Radian(r) => format!("radian {}", fx(r)),
            };
            format!(
                "out ok ; number {} ; hallnum {} ; nops {} ; ops {} ; orbits {} ; wyck {} ; sitesym {} ; {} ; stdlinear {} ; stdshift {} ; stdrot {} ; pearson {} ; {} ; primlinear {} ; primshift {} ; mapping {} ; osymprec {} ; oangtol {}",
                d.number,
                d.hall_number,
                d.operations.len(),
                ops.join(" "),
                ints(d.orbits.iter().map(|&x| x as i64)),
                d.wyckoffs.iter().map(|c| c.to_string()).collect::<Vec<_>>().join(" "),
                d.site_symmetry_symbols.join(" "),
                cell_segments("std", &d.std_cell),
                mat_row_major(&d.std_linear),
                vec3s(&d.std_origin_shift),
                mat_row_major(&d.std_rotation_matrix),
                d.pearson_symbol,
                cell_segments("prim", &d.prim_std_cell),
                mat_row_major(&d.prim_std_linear),
                vec3s(&d.prim_std_origin_shift),
                ints(d.mapping_std_prim.iter().map(|&x| x as i64)),
                fx(d.symprec),
                at
            )
        }
    }
}

pub fn truth_segments(t: &Truth) -> String {
    format!(
        "thall {} ; tP {} ; tshift {} ; tscale {} ; torbit {} ; twyck {} ; tnoisy {} ; tmirror {} ; torigin {} ; tsteps {}",
        t.hall,
        imat_row_major(&t.p),
        vec3s(&t.shift),
        fx(t.scale),
        ints(t.orbit_id.iter().map(|&x| x as i64)),
        ints(t.wyckoff_row.iter().cloned()),
        if t.noisy { 1 } else { 0 },
        if t.mirrored { 1 } else { 0 },
        ints(t.origin_atom.iter().map(|&x| x as i64)),
        if t.steps.is_empty() { "none".to_string() } else { t.steps.join(",") }
    )
}

pub fn run_dataset(cell: &Cell, symprec: f64, at: AngleTolerance, setting: Setting) -> Result<Result<MoyoDataset, MoyoError>, String> {
    let c = cell.clone();
    catch(move || MoyoDataset::new(&c, symprec, at, setting))
}

/// One full case line: `ds <tag> ; input ; params ; truth ; output`.
pub fn case_line(tag: &str, c: &Crystal, symprec: f64, at: AngleTolerance, setting: Setting) -> String {
    let _ = moyo::verif::trace::take();
    let r = run_dataset(&c.cell, symprec, at, setting);
    // tolerance-handler events recorded by the `verif` hook during this call
    let events = moyo::verif::trace::take();
    let mut errs: Vec<String> = vec![];
    let mut syms: Vec<String> = vec![];
    for e in events.iter() {
        // "update <Err> from SymmetryTolerances { symprec: <x>, angle_tolerance: ... }"
        let parts: Vec<&str> = e.split_whitespace().collect();
        if parts.len() >= 2 && parts[0] == "update" {
            errs.push(parts[1].to_string());
            if let Some(i) = e.find("symprec: ") {
                let rest = &e[i + 9..];
                let num: String = rest.chars().take_while(|c| *c != ',' && *c != ' ').collect();
                if let Ok(x) = num.parse::<f64>() {
                    syms.push(fx(x));
                }
            }
        }
    }
    format!(
        "ds {} ; {} ; symprec {} ; angtol {} ; setting {} ; {} ; terrs {} ; tsyms {} ; {}",
        tag,
        cell_segments("", &c.cell),
        fx(symprec),
        angtol_str(at),
        setting_str(setting),
        truth_segments(&c.truth),
        if errs.is_empty() { "none".to_string() } else { errs.join(" ") },
        if syms.is_empty() { "none".to_string() } else { syms.join(" ") },
        dataset_segments(&r)
    )
}

/// Plan of cases for the pipeline properties.  `mode` selects the emphasis.
pub fn gen_one(mode: &str, tier: &str, seed: u64, tag: &str) {
    ONLY_TAG.with(|t| *t.borrow_mut() = Some(tag.to_string()));
    gen_cases(mode, tier, seed, "/dev/null");
}

thread_local! {
    static ONLY_TAG: std::cell::RefCell<Option<String>> = std::cell::RefCell::new(None);
}

pub fn gen_cases(mode: &str, tier: &str, seed: u64, out: &str) {
    let mut w = CaseWriter::create(out);
    let mut rng = Rng::new(seed ^ 0xC0FFEE);
    let thorough = tier == "thorough";
    let symprecs = [1e-5, 1e-4, 1e-3, 1e-2];
    let settings = [Setting::Spglib, Setting::Standard];
    let emit = |w: &mut CaseWriter, tag: String, c: &Crystal, sp: f64, at: AngleTolerance, st: Setting| {
        let only = ONLY_TAG.with(|t| t.borrow().clone());
        match only {
            None => w.raw(&case_line(&tag, c, sp, at, st)),
            Some(t) => {
                if t == tag {
                    println!("{}", case_line(&tag, c, sp, at, st));
                }
            }
        }
    };
    match mode {
        // every Hall setting, own cell + re-described, both conventions
        "hall" => {
            let reps = if thorough { 12 } else { 1 };
            for h in 1..=530 {
                for rep in 0..reps {
                    let base = crystal(h, &mut rng, 2);
                    let sp = *rng.pick(&symprecs);
                    let at = if rng.chance(0.7) { AngleTolerance::Default } else { AngleTolerance::Radian(rng.uniform(1e-3, 2e-2)) };
                    let st = settings[(h as usize + rep) % 2];
                    if rep == 0 && !thorough {
                        emit(&mut w, format!("h{}-own", h), &base, sp, at, st);
                    }
                    let lvl = 1 + (rng.range(0, 1) as u32);
                    let c = redescribe(&base, &mut rng, lvl, None);
                    emit(&mut w, format!("h{}-re{}", h, rep), &c, sp, at, settings[(h as usize + rep + 1) % 2]);
                }
            }
        }
        // many cheap low-symmetry cases: triclinic and monoclinic settings in strongly skewed descriptions
        "lowsym" => {
            let n = if thorough { 1500 } else { 220 };
            for k in 0..n {
                let h = if k % 3 == 0 { 2 } else if k % 3 == 1 { rng.range(1, 107) as i32 } else { rng.range(1, 2) as i32 };
                let base = if k % 2 == 0 { crystal_special(h, &mut rng, 0.2) } else { crystal(h, &mut rng, 2) };
                let sp = *rng.pick(&symprecs);
                let at = if rng.chance(0.7) { AngleTolerance::Default } else { AngleTolerance::Radian(rng.uniform(1e-3, 2e-2)) };
                let sup = if rng.chance(0.3) {
                    let idx = rng.range(2, 5) as i32;
                    Some(*rng.pick(&hnfs_of_index(idx)))
                } else {
                    None
                };
                let lvl = 1 + (rng.range(0, 1) as u32);
                let c = redescribe(&base, &mut rng, lvl, sup);
                emit(&mut w, format!("h{}k{}-low", h, k), &c, sp, at, settings[k % 2]);
            }
        }
        // supercells: every HNF of index 2..4 (quick: on a sample of settings), random up to 12
        "super" => {
            let nsettings = if thorough { 530 } else { 90 };
            for k in 0..nsettings {
                let h = if thorough { k + 1 } else { rng.range(1, 530) as i32 };
                let base = crystal(h, &mut rng, 2);
                let mut mats: Vec<Matrix3<i32>> = vec![];
                let idx = rng.range(2, if thorough { 6 } else { 4 }) as i32;
                let all = hnfs_of_index(idx);
                for _ in 0..(if thorough { 6 } else { 2 }) {
                    mats.push(*rng.pick(&all));
                }
                if rng.chance(0.5) {
                    let idx2 = rng.range(5, 12) as i32;
                    let all2 = hnfs_of_index(idx2);
                    mats.push(*rng.pick(&all2));
                }
                // the skew supercell family that exposed the conjugation defect
                if k % 10 == 0 {
                    mats.push(Matrix3::new(1, 0, 0, 1, 1, 0, 0, 2, rng.range(2, 5) as i32));
                }
                for (i, m) in mats.iter().enumerate() {
                    if base.cell.num_atoms() * (m[(0, 0)] * m[(1, 1)] * m[(2, 2)]) as usize > 400 {
                        continue;
                    }
                    let sp = *rng.pick(&symprecs);
                    let lvl = rng.range(0, 2) as u32;
                    let c = redescribe(&base, &mut rng, lvl, Some(*m));
                    emit(&mut w, format!("h{}k{}-s{}", h, k, i), &c, sp, AngleTolerance::Default, *rng.pick(&settings));
                }
            }
        }
        // noise: undistorted and noisy twins at the same symprec
        "noise" => {
            let n = if thorough { 530 } else { 130 };
            for k in 0..n {
                let h = if thorough { k + 1 } else { rng.range(1, 530) as i32 };
                let base = if k % 2 == 0 { crystal_special(h, &mut rng, 0.2) } else { crystal(h, &mut rng, 2) };
                let sp = *rng.pick(&[1e-5, 1e-4, 1e-3, 1e-2]);
                let at = if rng.chance(0.6) { AngleTolerance::Default } else { AngleTolerance::Radian(rng.uniform(5e-3, 2e-2)) };
                let lvl = rng.range(0, 2) as u32;
                // every fourth crystal as a supercell of index 2..4 (noise is added afterwards, independently on every copy):
                // translation groups with elements of order 4 arise from centred cells
                let sup = if k % 4 == 1 && base.cell.num_atoms() <= 40 {
                    let idx = rng.range(2, 4) as i32;
                    Some(*rng.pick(&hnfs_of_index(idx)))
                } else {
                    None
                };
                let c = redescribe(&base, &mut rng, lvl, sup);
                let st = *rng.pick(&settings);
                emit(&mut w, format!("h{}k{}-clean", h, k), &c, sp, at, st);
                for r in 0..(if thorough { 4 } else { 2 }) {
                    let nz = c.noise(&mut rng, 0.05 * sp);
                    emit(&mut w, format!("h{}k{}-noisy{}", h, k, r), &nz, sp, at, st);
                }
                // uniform scaling of all lengths together with symprec (angle tolerance unchanged)
                let f = *rng.pick(&[1e-2, 0.1, 0.5, 3.0, 10.0, 1e3]);
                let sc = c.scale(f);
                emit(&mut w, format!("h{}k{}-scaled", h, k), &sc, sp * f, at, st);
                // explicit (radian) angle tolerance just wide enough for the allowed strain: one shear entry using the whole
                // budget of the noise premise, angle tolerance 6..12 x the resulting change of the inter-axial angle
                if k % 3 == 0 {
                    let sp2 = *rng.pick(&[1e-3, 1e-2]);
                    let (nz, dev) = c.noise_shear(&mut rng, 0.05 * sp2);
                    let at2 = AngleTolerance::Radian(rng.uniform(6.0, 12.0) * dev);
                    emit(&mut w, format!("h{}k{}-clean", h, k + 5000), &c, sp2, at2, st);
                    emit(&mut w, format!("h{}k{}-noisy0", h, k + 5000), &nz, sp2, at2, st);
                }
            }
        }
        // pseudo-symmetric crystals (C01 soundness): one axis stretched by 5..12 symprec (at most 0.8 x its length x symprec...),
        // fractional coordinates kept: operations that move that axis map atoms onto atoms but change lengths by more than
        // the tolerance; whatever subgroup is reported, every reported operation must preserve the metric
        "pseudo" => {
            let n = if thorough { 530 } else { 150 };
            for k in 0..n {
                // orthorhombic and higher settings (Hall 108..530) plus some monoclinic ones
                let h = if thorough { k + 1 } else if k % 10 == 0 { rng.range(3, 107) as i32 } else { rng.range(108, 530) as i32 };
                let base0 = crystal(h, &mut rng, 2);
                // all axes at least 8..12 A long, so that a change of length between the oracle's slack (8 symprec / shortest
                // axis on |Q^T Q - I|) and `length x symprec` exists (a tolerance applied relatively would accept it)
                let lens0: Vec<f64> = (0..3).map(|i| base0.cell.lattice.basis.column(i).norm()).collect();
                let lmin0 = lens0.iter().cloned().fold(f64::INFINITY, f64::min);
                let base = base0.scale(rng.uniform(8.0, 12.0) / lmin0);
                let sp = *rng.pick(&[1e-4, 1e-3, 1e-2]);
                let at = if rng.chance(0.7) { AngleTolerance::Default } else { AngleTolerance::Radian(rng.uniform(5e-3, 2e-2)) };
                let axis = rng.range(0, 2) as usize;
                let lens: Vec<f64> = (0..3).map(|i| base.cell.lattice.basis.column(i).norm()).collect();
                let lmin = lens.iter().cloned().fold(f64::INFINITY, f64::min);
                let (lo, hi) = (4.5 * lens[axis] / lmin, 0.9 * lens[axis]);
                let delta = (if lo < hi { rng.uniform(lo, hi) } else { rng.uniform(5.0, 12.0) }) * sp * if rng.chance(0.5) { 1.0 } else { -1.0 };
                let c0 = base.stretch_axis(axis, delta);
                let lvl = rng.range(0, 2) as u32;
                let sup = if rng.chance(0.25) && c0.cell.num_atoms() <= 48 { Some(*rng.pick(&hnfs_of_index(2))) } else { None };
                let c = redescribe(&c0, &mut rng, lvl, sup);
                let st = *rng.pick(&settings);
                emit(&mut w, format!("h{}k{}-pseudo", h, k), &c, sp, at, st);
            }
        }
        // requested Hall setting (C10): matching type, own and re-described
        "hallreq" => {
            for h in 1..=530 {
                let base = crystal(h, &mut rng, 2);
                let sp = 1e-4;
                emit(&mut w, format!("h{}-req-own", h), &base, sp, AngleTolerance::Default, Setting::HallNumber(h));
                if thorough || h % 3 == 0 {
                    let c = redescribe(&base, &mut rng, 2, None);
                    emit(&mut w, format!("h{}-req-re", h), &c, sp, AngleTolerance::Default, Setting::HallNumber(h));
                }
                // non-matching requests: a Hall number of another type (neighbouring entries share the
                // arithmetic class most often, which is the hard case), and out-of-range numbers
                if thorough || h % 2 == 0 {
                    let own = moyo::data::hall_symbol_entry(h).unwrap().number;
                    let mut other = h;
                    for d in 1..40 {
                        let cand = if rng.chance(0.5) { h + d } else { h - d };
                        if (1..=530).contains(&cand) && moyo::data::hall_symbol_entry(cand).unwrap().number != own {
                            other = cand;
                            break;
                        }
                    }
                    if other != h {
                        emit(&mut w, format!("h{}-req-other{}", h, other), &base, sp, AngleTolerance::Default, Setting::HallNumber(other));
                    }
                }
                if h % 53 == 0 {
                    for bad in [0, -5, 531, i32::MAX, i32::MIN] {
                        emit(&mut w, format!("h{}-req-bad{}", h, bad), &base, sp, AngleTolerance::Default, Setting::HallNumber(bad));
                    }
                }
            }
        }
        // inputs on which the first attempt fails, so that the tolerance handler has to adjust (C09 / S12):
        // noise of the order of symprec, pairs of atoms closer than symprec, oversized symprec
        "adjust" => {
            let n = if thorough { 1500 } else { 260 };
            for k in 0..n {
                let h = rng.range(1, 530) as i32;
                let base = crystal(h, &mut rng, 2);
                let sp = *rng.pick(&[1e-5, 1e-4, 1e-3]);
                let at = if rng.chance(0.6) { AngleTolerance::Default } else { AngleTolerance::Radian(rng.uniform(2e-3, 2e-2)) };
                let lvl = rng.range(0, 1) as u32;
                let sup = if rng.chance(0.4) && base.cell.num_atoms() <= 48 { Some(*rng.pick(&hnfs_of_index(2))) } else { None };
                let c = redescribe(&base, &mut rng, lvl, sup);
                let amp = *rng.pick(&[0.3, 0.6, 0.9, 1.2, 2.0, 4.0]);
                let mut nz = c.noise(&mut rng, amp * sp);
                nz.truth.steps.push("bignoise".into());
                let spx = if rng.chance(0.15) { sp * 3000.0 } else { sp };
                emit(&mut w, format!("h{}k{}-adj", h, k), &nz, spx, at, settings[k % 2]);
            }
        }
        // metamorphic pairs (C04): a base description and a random word of re-descriptions of the same crystal
        "meta" => {
            let n = if thorough { 530 * 3 } else { 170 };
            for k in 0..n {
                let h = if thorough { (k % 530) as i32 + 1 } else { rng.range(1, 530) as i32 };
                let base = crystal(h, &mut rng, 2);
                let sp = *rng.pick(&[1e-5, 1e-4, 1e-3]);
                let at = if rng.chance(0.7) { AngleTolerance::Default } else { AngleTolerance::Radian(rng.uniform(2e-3, 2e-2)) };
                let st = *rng.pick(&settings);
                emit(&mut w, format!("h{}k{}-A", h, k), &base, sp, at, st);
                let mut c = base.clone();
                let mut sp2 = sp;
                let nsteps = rng.range(1, 5);
                let mut did_super = false;
                for _ in 0..nsteps {
                    match rng.range(0, 7) {
                        0 => {
                            let len = rng.range(1, 8) as usize;
                            let u = random_unimodular(&mut rng, len, 6);
                            c = c.transform(&u, "rebase");
                        }
                        1 => c = c.shift_origin(&Vector3::new(rng.uniform(-1.0, 1.0), rng.uniform(-1.0, 1.0), rng.uniform(-1.0, 1.0))),
                        2 => c = c.rotate(&random_rotation(&mut rng)),
                        3 => c = c.permute(&mut rng),
                        4 => c = c.add_integers(&mut rng),
                        5 => {
                            let f = *rng.pick(&[1e-2, 0.1, 0.5, 3.0, 10.0, 1e3]);
                            c = c.scale(f);
                            sp2 *= f;
                        }
                        6 => {
                            if !did_super && c.cell.num_atoms() <= 100 {
                                let idx = rng.range(2, 4) as i32;
                                let all = hnfs_of_index(idx);
                                let m = *rng.pick(&all);
                                c = c.transform(&m, "supercell");
                                did_super = true;
                            }
                        }
                        _ => c = c.mirror(),
                    }
                }
                emit(&mut w, format!("h{}k{}-B", h, k), &c, sp2, at, st);
            }
            // distorted pairs: atoms displaced by 0.25..0.45 symprec (lattice exact), premise validated by brute force
            // (`residual_profile`): every operation of the generating group has a best-fit residual < 0.8 symprec and a
            // pivot-anchored residual < 1.6 symprec for every choice of pivot (the code accepts at < symprec resp. < 2 symprec),
            // nothing else below 1.3 symprec; the re-description always contains a reordering of the atoms.
            let nd = if thorough { 530 } else { 90 };
            let mut made = 0;
            let mut k = 100000;
            while made < nd {
                k += 1;
                let h = if thorough { ((k - 100001) % 530) as i32 + 1 } else { rng.range(1, 530) as i32 };
                let nops = conv_ops(h).len();
                if nops > 48 {
                    continue; // keeps the O(n^2) premise validation cheap (at most 96 atoms)
                }
                let exact = crystal(h, &mut rng, 2);
                let sp = *rng.pick(&[1e-4, 1e-3, 1e-2]);
                let mut found = None;
                for _try in 0..12 {
                    let cand = exact.noise_atoms(&mut rng, 0.25 * sp, 0.45 * sp, 0.5);
                    let prof = residual_profile(&cand.cell, 0.1);
                    let good: Vec<&(f64, f64)> = prof.iter().filter(|x| x.0 < 0.8 * sp).collect();
                    let near = prof.iter().filter(|x| x.0 < 1.3 * sp).count();
                    if good.len() == nops && near == nops && good.iter().all(|x| x.1 < 1.6 * sp) {
                        let rough = good.iter().any(|x| x.1 > 1.05 * sp);
                        found = Some((cand, rough));
                        break;
                    }
                }
                let (mut base, rough) = match found {
                    Some(x) => x,
                    None => continue,
                };
                base.truth.steps.push(if rough { "distort-rough".into() } else { "distort".into() });
                made += 1;
                let at = AngleTolerance::Default;
                let st = *rng.pick(&settings);
                emit(&mut w, format!("h{}k{}-A", h, k), &base, sp, at, st);
                let mut c = base.permute(&mut rng);
                let mut sp2 = sp;
                for _ in 0..rng.range(0, 3) {
                    match rng.range(0, 5) {
                        0 => {
                            let len = rng.range(1, 6) as usize;
                            let u = random_unimodular(&mut rng, len, 4);
                            c = c.transform(&u, "rebase");
                        }
                        1 => c = c.shift_origin(&Vector3::new(rng.uniform(-1.0, 1.0), rng.uniform(-1.0, 1.0), rng.uniform(-1.0, 1.0))),
                        2 => c = c.rotate(&random_rotation(&mut rng)),
                        3 => c = c.add_integers(&mut rng),
                        4 => {
                            let f = *rng.pick(&[0.1, 0.5, 3.0, 10.0]);
                            c = c.scale(f);
                            sp2 *= f;
                        }
                        _ => c = c.permute(&mut rng),
                    }
                }
                emit(&mut w, format!("h{}k{}-B", h, k), &c, sp2, at, st);
            }
            // face scan: distorted crystals whose pivot-anchored residual reaches 1.2..1.6 symprec; description B moves the origin
            // so that one atom lies just inside / outside a cell face.  All atoms x axes x 6 offsets (in units of the padding with
            // which the neighbour search keeps periodic images) are evaluated natively (number, operation count); B is the first
            // placement whose answer differs from A's, or a random one when none differs; the pair is judged like every other pair.
            let nscan = if thorough { 500 } else { 120 };
            let mut made = 0;
            let mut k = 200000;
            while made < nscan {
                k += 1;
                let h = rng.range(16, 530) as i32;
                let nops = conv_ops(h).len();
                if nops > 16 || nops < 4 {
                    continue;
                }
                let exact = crystal(h, &mut rng, 2);
                let sp = *rng.pick(&[1e-3, 1e-2]);
                let mut found = None;
                for _try in 0..12 {
                    let cand = exact.noise_atoms(&mut rng, 0.3 * sp, 0.45 * sp, 0.6);
                    let prof = residual_profile(&cand.cell, 0.1);
                    let good: Vec<&(f64, f64)> = prof.iter().filter(|x| x.0 < 0.8 * sp).collect();
                    let near = prof.iter().filter(|x| x.0 < 1.3 * sp).count();
                    if good.len() == nops && near == nops && good.iter().all(|x| x.1 < 1.6 * sp) && good.iter().any(|x| x.1 > 1.2 * sp) {
                        found = Some(cand);
                        break;
                    }
                }
                let mut base = match found {
                    Some(x) => x,
                    None => continue,
                };
                made += 1;
                base.truth.steps.push("distort-rough".into());
                let st = Setting::Spglib;
                let at = AngleTolerance::Default;
                let only = ONLY_TAG.with(|t| t.borrow().clone());
                let tag_a = format!("h{}k{}-A", h, k);
                let tag_b = format!("h{}k{}-B", h, k);
                if let Some(t) = &only {
                    if *t != tag_a && *t != tag_b {
                        // replay of another case: keep the random stream in step without evaluating the scan
                        let _ = (rng.range(0, base.cell.num_atoms() as i64 - 1), rng.range(0, 2), rng.range(0, 5));
                        continue;
                    }
                }
                emit(&mut w, tag_a, &base, sp, at, st);
                let key = |c: &Crystal| match run_dataset(&c.cell, sp, at, st) {
                    Ok(Ok(d)) => format!("{} {}", d.number, d.operations.len()),
                    Ok(Err(e)) => format!("err {}", err_name(&e)),
                    Err(m) => format!("panic {}", m),
                };
                let k0 = key(&base);
                let bb = base.cell.lattice.basis;
                let padding = 2.0 * (2.0 * sp) / (3.0 * (bb * bb.transpose()).trace()).sqrt();
                let offsets = [1.05, 1.3, 1.6, 1.9, -0.8, -0.4];
                let place = |j: usize, axis: usize, f: f64| {
                    let mut s = Vector3::zeros();
                    s[axis] = base.cell.positions[j][axis] - f * padding;
                    base.shift_origin(&s)
                };
                let mut chosen = None;
                let mut scanned = 0;
                'scan: for j in 0..base.cell.num_atoms() {
                    for axis in 0..3 {
                        for f in offsets {
                            scanned += 1;
                            let c = place(j, axis, f);
                            if key(&c) != k0 {
                                chosen = Some(c);
                                break 'scan;
                            }
                        }
                    }
                }
                let (rj, ra, rf) = (rng.range(0, base.cell.num_atoms() as i64 - 1) as usize, rng.range(0, 2) as usize, rng.range(0, 5) as usize);
                let mut cb = chosen.unwrap_or_else(|| place(rj, ra, offsets[rf]));
                cb.truth.steps.push(format!("facescan{}", scanned));
                emit(&mut w, tag_b, &cb, sp, at, st);
            }
        }
        // atoms on tabulated Wyckoff positions (C07, C16(i)): generator in wyckoff.rs
        "wyckoff" => crate::wyckoff::gen_cases(thorough, seed, &mut rng, &mut |tag, c, sp, at, st| emit(&mut w, tag, c, sp, at, st)),
        _ => panic!("unknown mode"),
    }
    w.finish();
}

/// `face-probe <n>`: development probe (not used by a check).  Distorted crystals as in the `meta` mode (premise validated by
/// `residual_profile`); for each, the origin is moved so that one atom lies just INSIDE a cell face by 1.05..1.9 x the kd-tree
/// padding; prints the cases whose (number, operation count) differ from the unshifted description.
pub fn face_probe(seed: u64, n: usize) {
    let mut rng = Rng::new(seed ^ 0xFACE);
    let mut done = 0;
    let mut bad = 0;
    while done < n {
        let h = rng.range(16, 230 + 300) as i32 % 530 + 1;
        let nops = conv_ops(h).len();
        if nops > 16 {
            continue;
        }
        let exact = crystal(h, &mut rng, 2);
        let sp = *rng.pick(&[1e-3, 1e-2]);
        let mut found = None;
        for _try in 0..12 {
            let cand = exact.noise_atoms(&mut rng, 0.3 * sp, 0.45 * sp, 0.6);
            let prof = residual_profile(&cand.cell, 0.1);
            let good: Vec<&(f64, f64)> = prof.iter().filter(|x| x.0 < 0.8 * sp).collect();
            let near = prof.iter().filter(|x| x.0 < 1.3 * sp).count();
            if good.len() == nops && near == nops && good.iter().all(|x| x.1 < 1.6 * sp) && good.iter().any(|x| x.1 > 1.2 * sp) {
                found = Some(cand);
                break;
            }
        }
        let base = match found {
            Some(x) => x,
            None => continue,
        };
        done += 1;
        let r0 = run_dataset(&base.cell, sp, AngleTolerance::Default, Setting::Spglib);
        let key = |r: &Result<Result<MoyoDataset, MoyoError>, String>| match r {
            Ok(Ok(d)) => format!("{} {}", d.number, d.operations.len()),
            Ok(Err(e)) => format!("err {:?}", e),
            Err(m) => format!("panic {}", m),
        };
        let k0 = key(&r0);
        let bb = base.cell.lattice.basis;
        let padding = 2.0 * (2.0 * sp) / (3.0 * (bb * bb.transpose()).trace()).sqrt();
        'search: for j in 0..base.cell.num_atoms() {
            for axis in 0..3 {
                for f in [1.05, 1.3, 1.6, 1.9, -0.8, -0.4] {
                    let mut s = Vector3::zeros();
                    s[axis] = base.cell.positions[j][axis] - f * padding;
                    let c = base.shift_origin(&s);
                    let k = key(&run_dataset(&c.cell, sp, AngleTolerance::Default, Setting::Spglib));
                    if k != k0 {
                        bad += 1;
                        println!("DIFF hall {} sp {} atom {} axis {} f {}: base [{}] shifted [{}]", h, sp, j, axis, f, k0, k);
                        println!("{}", case_line(&format!("probe{}", done), &c, sp, AngleTolerance::Default, Setting::Spglib).chars().take(300).collect::<String>());
                        break 'search;
                    }
                }
            }
        }
    }
    println!("face-probe: {} crystals, {} with a description-dependent answer", done, bad);
}
