//! S11 / translator validation: Hall-symbol parser on all table strings and on a malformed
//! stream; table rows as the *running* code reports them (to validate tools/translate.py).
use crate::util::*;
use moyo::base::{MagneticOperation, Operation};
use moyo::data::{
    arithmetic_crystal_class_entry, get_magnetic_space_group_type, hall_symbol_entry, magnetic_hall_symbol_entry,
    ConstructType, HallSymbol, MagneticHallSymbol, Setting,
};

fn t12(x: f64) -> String {
    let y = x * 12.0;
    let r = y.round();
    if (y - r).abs() < 1e-9 {
        format!("{}", r as i64)
    } else {
        format!("NONINT({})", x)
    }
}

pub fn op_str(o: &Operation, tr: bool) -> String {
    let r = &o.rotation;
    let mut v: Vec<String> = vec![];
    for i in 0..3 {
        for j in 0..3 {
            v.push(r[(i, j)].to_string());
        }
    }
    for i in 0..3 {
        v.push(t12(o.translation[i]));
    }
    v.push(if tr { "1".into() } else { "0".into() });
    v.join(" ")
}

fn ops_str(ops: &[Operation]) -> String {
    ops.iter().map(|o| op_str(o, false)).collect::<Vec<_>>().join(" | ")
}
fn mops_str(ops: &[MagneticOperation]) -> String {
    ops.iter().map(|o| op_str(&o.operation, o.time_reversal)).collect::<Vec<_>>().join(" | ")
}

pub fn hall_expected(sym: &str) -> String {
    let s = sym.to_string();
    match catch(move || {
        HallSymbol::new(&s).map(|hs| {
            format!(
                "{:?} ; {} ; {} ; {} ; {}",
                hs.centering,
                ops_str(&hs.generators),
                ops_str(&hs.traverse()),
                ops_str(&hs.primitive_generators()),
                ops_str(&hs.primitive_traverse())
            )
        })
    }) {
        Ok(Some(s)) => s,
        Ok(None) => "none".into(),
        Err(m) => format!("PANIC {}", m),
    }
}

pub fn mhall_expected(sym: &str) -> String {
    let s = sym.to_string();
    match catch(move || {
        MagneticHallSymbol::new(&s).map(|hs| {
            format!(
                "{:?} ; {} ; {} ; {} ; {}",
                hs.centering,
                mops_str(&hs.generators),
                mops_str(&hs.traverse()),
                mops_str(&hs.primitive_generators()),
                mops_str(&hs.primitive_traverse())
            )
        })
    }) {
        Ok(Some(s)) => s,
        Ok(None) => "none".into(),
        Err(m) => format!("PANIC {}", m),
    }
}

/// All table strings through the parser (exhaustive), plus the rows of every table as reported by
/// the running code.
pub fn gen_tables(out: &str) {
    let mut w = CaseWriter::create(out);
    for h in 1..=530 {
        let e = hall_symbol_entry(h).unwrap();
        w.case(&format!("hall {}", e.hall_symbol), &hall_expected(e.hall_symbol));
        w.case(
            &format!("hallentry {}", h),
            &format!(
                "{} {} {} |{}|{}|{}|{}|{:?}",
                e.hall_number, e.number, e.arithmetic_number, e.setting, e.hall_symbol, e.hm_short, e.hm_full, e.centering
            ),
        );
    }
    w.case("hallentry 0", &fmt_none(catch(|| hall_symbol_entry(0).is_none())));
    w.case("hallentry 531", &fmt_none(catch(|| hall_symbol_entry(531).is_none())));
    for u in 1..=1651 {
        let e = magnetic_hall_symbol_entry(u).unwrap();
        w.case(&format!("mhall {}", e.magnetic_hall_symbol), &mhall_expected(e.magnetic_hall_symbol));
        let t = get_magnetic_space_group_type(u).unwrap();
        let ct = match t.construct_type {
            ConstructType::Type1 => 1,
            ConstructType::Type2 => 2,
            ConstructType::Type3 => 3,
            ConstructType::Type4 => 4,
        };
        w.case(
            &format!("magentry {}", u),
            &format!(
                "{} |{}| {} {} |{}|{}| {} {}",
                e.uni_number, e.magnetic_hall_symbol, t.uni_number, t.litvin_number, t.bns_number, t.og_number, t.number, ct
            ),
        );
    }
    w.case("magentry 0", &fmt_none(catch(|| magnetic_hall_symbol_entry(0).is_none() && get_magnetic_space_group_type(0).is_none())));
    w.case("magentry 1652", &fmt_none(catch(|| magnetic_hall_symbol_entry(1652).is_none() && get_magnetic_space_group_type(1652).is_none())));
    for a in 1..=73 {
        let e = arithmetic_crystal_class_entry(a).unwrap();
        w.case(
            &format!("arithentry {}", a),
            &format!("{} |{}| {:?} {:?}", e.arithmetic_number, e.symbol, e.geometric_crystal_class, e.bravais_class),
        );
    }
    let sp = Setting::Spglib.hall_numbers();
    let st = Setting::Standard.hall_numbers();
    w.case("settings spglib", &ints(sp.iter().map(|&x| x as i64)));
    w.case("settings standard", &ints(st.iter().map(|&x| x as i64)));
    w.finish();
}

fn fmt_none(r: Result<bool, String>) -> String {
    match r {
        Ok(true) => "none".into(),
        Ok(false) => "some".into(),
        Err(m) => format!("PANIC {}", m),
    }
}

/// Grammar-directed mutations of valid strings (malformed stream for the Hall-symbol entry points).
pub fn gen_malformed(seed: u64, count: usize, out: &str) {
    let mut w = CaseWriter::create(out);
    let mut rng = Rng::new(seed);
    let alphabet: Vec<char> = "PABCIRFH-123456xyz^=*abcnuvwd'() 0789q".chars().collect();
    let fixed = [
        "", " ", "-", "P", "P -", "-P", "P 2q", "P 2 (a b c)", "P 2 (0 0)", "P 2 (0 0 1 2)", "P 7", "P 3 3 3 3", "H 3",
        "P 2 2 2 2", "P -", "P 1 (0 0 0", "P 4 2 3 (1 1 1)", "(0 0 1)", "P (0 0 1)", "P 2^", "P 2=", "P 2*", "P 31'",
        "P 4n'", "P 6 6", "P 1 1 1 1", "-I 4bd 2c 3", "P 2 2 (0 0 0)", "P 2  2", "\tP 2", "P 23", "P 2 ()",
    ];
    for s in fixed.iter() {
        w.raw(&format!("hall {}", s));
        w.raw(&format!("mhall {}", s));
    }
    for _ in 0..count {
        let base = if rng.chance(0.5) {
            hall_symbol_entry(rng.range(1, 530) as i32).unwrap().hall_symbol.to_string()
        } else {
            magnetic_hall_symbol_entry(rng.range(1, 1651) as i32).unwrap().magnetic_hall_symbol.to_string()
        };
        let mut cs: Vec<char> = base.chars().collect();
        for _ in 0..rng.range(1, 3) {
            match rng.range(0, 3) {
                0 if !cs.is_empty() => {
                    let i = rng.range(0, cs.len() as i64 - 1) as usize;
                    cs.remove(i);
                }
                1 => {
                    let i = rng.range(0, cs.len() as i64) as usize;
                    cs.insert(i, *rng.pick(&alphabet));
                }
                2 if !cs.is_empty() => {
                    let i = rng.range(0, cs.len() as i64 - 1) as usize;
                    cs[i] = *rng.pick(&alphabet);
                }
                _ => {
                    // drop a whole token
                    let toks: Vec<String> = cs.iter().collect::<String>().split(' ').map(|s| s.to_string()).collect();
                    if toks.len() > 1 {
                        let k = rng.range(0, toks.len() as i64 - 1) as usize;
                        let mut t2 = toks.clone();
                        t2.remove(k);
                        cs = t2.join(" ").chars().collect();
                    }
                }
            }
        }
        let s: String = cs.into_iter().collect();
        if s.contains('\n') {
            continue;
        }
        w.raw(&format!("hall {}", s));
        w.raw(&format!("mhall {}", s));
    }
    w.finish();
}

/// Evaluate one request line against the implementation (used by the isolated `eval` runner).
pub fn eval_request(req: &str) -> Option<String> {
    if let Some(sym) = req.strip_prefix("hall ") {
        Some(hall_expected(sym))
    } else if let Some(sym) = req.strip_prefix("mhall ") {
        Some(mhall_expected(sym))
    } else if req == "hall" {
        Some(hall_expected(""))
    } else if req == "mhall" {
        Some(mhall_expected(""))
    } else {
        None
    }
}
