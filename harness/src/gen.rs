//! Shared crystal generators (DESIGN §2.6): G-hall (generic crystal of a Hall setting) and
//! G-redesc (re-descriptions with a recorded ground truth).
use crate::util::*;
use moyo::base::{AngleTolerance, Cell, Lattice, Operation};
use moyo::data::{HallSymbol, Setting};
use nalgebra::{Matrix3, Vector3};

/// Ground truth carried along with a generated cell.
/// The crystal was generated in the conventional cell of Hall number `hall` (basis `A0`, positions
/// `x0`); the present cell has basis `Q * A0 * P * scale` and positions `P^-1 (x0 - p) + integers`.
#[derive(Clone, Debug)]
pub struct Truth {
    pub hall: i32,
    pub p: Matrix3<i32>,
    pub shift: Vector3<f64>,
    pub scale: f64,
    pub mirrored: bool,
    /// generic orbit each atom was generated from (atoms with equal id are symmetry-equivalent)
    pub orbit_id: Vec<usize>,
    /// for Wyckoff-decorated crystals: index into the Wyckoff table of the position each atom sits on
    pub wyckoff_row: Vec<i64>,
    pub noisy: bool,
    pub steps: Vec<String>,
    /// index of the atom of the base crystal (before any re-description) this atom is an image of
    pub origin_atom: Vec<usize>,
}

#[derive(Clone, Debug)]
pub struct Crystal {
    pub cell: Cell,
    pub truth: Truth,
}

pub fn conv_ops(h: i32) -> Vec<Operation> {
    let hs = HallSymbol::from_hall_number(h).unwrap();
    let coset = hs.traverse();
    let mut ops = vec![];
    for t in hs.centering.lattice_points() {
        for o in coset.iter() {
            ops.push(Operation::new(o.rotation, (o.translation + t).map(|e| e.rem_euclid(1.0))));
        }
    }
    ops
}

/// Lattice of the family of the point group: Cholesky factor of a random SPD metric averaged over
/// the group (works for every axis setting without case analysis).
pub fn generic_lattice(ops: &[Operation], rng: &mut Rng) -> Matrix3<f64> {
    loop {
        let a = Matrix3::<f64>::from_fn(|_, _| rng.uniform(-1.0, 1.0));
        let g0 = a.transpose() * a + Matrix3::identity() * 0.6;
        let mut g = Matrix3::zeros();
        for o in ops {
            let r = o.rotation.map(|e| e as f64);
            g += r.transpose() * g0 * r;
        }
        g /= ops.len() as f64;
        // avoid accidental extra symmetry / near-degenerate metrics: require well separated, generic entries
        let d = [g[(0, 0)], g[(1, 1)], g[(2, 2)]];
        let spread_ok = {
            let mut ok = true;
            for i in 0..3 {
                for j in (i + 1)..3 {
                    let rel = (d[i] - d[j]).abs() / d[i].max(d[j]);
                    if rel != 0.0 && rel < 0.08 {
                        ok = false;
                    }
                }
            }
            ok
        };
        if !spread_ok {
            continue;
        }
        if let Some(ch) = g.cholesky() {
            let basis = ch.l().transpose() * 4.0;
            if basis.determinant().abs() > 8.0 {
                return basis;
            }
        }
    }
}

fn frac_dist(cellb: &Matrix3<f64>, a: &Vector3<f64>, b: &Vector3<f64>) -> f64 {
    let d = (a - b).map(|e| e - e.round());
    let mut best = f64::INFINITY;
    for i in -1..=1 {
        for j in -1..=1 {
            for k in -1..=1 {
                let v = cellb * (d + Vector3::new(i as f64, j as f64, k as f64));
                best = best.min(v.norm());
            }
        }
    }
    best
}

/// Number of approximate symmetry operations of `cell` at tolerance `tol` (Cartesian), found by
/// brute force: every integer matrix with entries in {-1,0,1} preserving the metric to 1e-6
/// relative, combined with every translation carrying the first atom of the rarest species onto
/// an atom of that species.  Independent of moyo; used only to validate the *premise* "the symmetry
/// group of the generated crystal is exactly the generating group, with a gap of `tol`".
pub fn approx_symmetry_count(cell: &Cell, tol: f64) -> usize {
    let a = cell.lattice.basis;
    let g = a.transpose() * a;
    let gscale = g.iter().fold(0.0f64, |m, x| m.max(x.abs()));
    // rarest species
    let mut counts: std::collections::BTreeMap<i32, usize> = std::collections::BTreeMap::new();
    for n in cell.numbers.iter() {
        *counts.entry(*n).or_insert(0) += 1;
    }
    let pivot_sp = *counts.iter().min_by_key(|(_, c)| **c).unwrap().0;
    let pivots: Vec<usize> = (0..cell.num_atoms()).filter(|&i| cell.numbers[i] == pivot_sp).collect();
    let src = pivots[0];
    let mut count = 0;
    for idx in 0..19683u32 {
        let mut x = idx;
        let mut r = Matrix3::<f64>::zeros();
        for k in 0..9 {
            r[(k / 3, k % 3)] = (x % 3) as f64 - 1.0;
            x /= 3;
        }
        if (r.determinant().abs() - 1.0).abs() > 1e-9 {
            continue;
        }
        let g2 = r.transpose() * g * r;
        if (g2 - g).iter().fold(0.0f64, |m, x| m.max(x.abs())) > 1e-6 * gscale {
            continue;
        }
        for &dst in pivots.iter() {
            let t = cell.positions[dst] - r * cell.positions[src];
            let mut ok = true;
            for i in 0..cell.num_atoms() {
                let y = r * cell.positions[i] + t;
                let mut found = false;
                for j in 0..cell.num_atoms() {
                    if cell.numbers[j] == cell.numbers[i] && frac_dist(&a, &y, &cell.positions[j]) < tol {
                        found = true;
                        break;
                    }
                }
                if !found {
                    ok = false;
                    break;
                }
            }
            if ok {
                count += 1;
            }
        }
    }
    count
}

/// minimal-image Cartesian vector of the fractional difference `d`
fn frac_vec(cellb: &Matrix3<f64>, d: &Vector3<f64>) -> Vector3<f64> {
    let d = d.map(|e| e - e.round());
    let mut best = cellb * d;
    for i in -1..=1 {
        for j in -1..=1 {
            for k in -1..=1 {
                let v = cellb * (d + Vector3::new(i as f64, j as f64, k as f64));
                if v.norm() < best.norm() {
                    best = v;
                }
            }
        }
    }
    best
}

/// Residual profile of the approximate symmetry operations of a (displaced) crystal, by brute force and
/// independent of moyo: for every metric-preserving integer matrix with entries in {-1,0,1} and every
/// translation carrying the first atom of the rarest species onto an atom of that species, the atoms are
/// matched to the nearest atom of their species within `match_radius`; with a_i the residual vectors,
/// returns (max_i |a_i - mean a|, max_ij |a_i - a_j|): the best-fit residual and the largest residual any
/// choice of pivot atom can see.  Premise validation of the distorted metamorphic pairs (C04).
pub fn residual_profile(cell: &Cell, match_radius: f64) -> Vec<(f64, f64)> {
    let a = cell.lattice.basis;
    let g = a.transpose() * a;
    let gscale = g.iter().fold(0.0f64, |m, x| m.max(x.abs()));
    let mut counts: std::collections::BTreeMap<i32, usize> = std::collections::BTreeMap::new();
    for n in cell.numbers.iter() {
        *counts.entry(*n).or_insert(0) += 1;
    }
    let pivot_sp = *counts.iter().min_by_key(|(_, c)| **c).unwrap().0;
    let pivots: Vec<usize> = (0..cell.num_atoms()).filter(|&i| cell.numbers[i] == pivot_sp).collect();
    let src = pivots[0];
    let n = cell.num_atoms();
    let mut out = vec![];
    for idx in 0..19683u32 {
        let mut x = idx;
        let mut r = Matrix3::<f64>::zeros();
        for k in 0..9 {
            r[(k / 3, k % 3)] = (x % 3) as f64 - 1.0;
            x /= 3;
        }
        if (r.determinant().abs() - 1.0).abs() > 1e-9 {
            continue;
        }
        let g2 = r.transpose() * g * r;
        if (g2 - g).iter().fold(0.0f64, |m, x| m.max(x.abs())) > 1e-6 * gscale {
            continue;
        }
        'dst: for &dst in pivots.iter() {
            let t = cell.positions[dst] - r * cell.positions[src];
            let mut res: Vec<Vector3<f64>> = Vec::with_capacity(n);
            for i in 0..n {
                let y = r * cell.positions[i] + t;
                let mut found = None;
                for j in 0..n {
                    if cell.numbers[j] == cell.numbers[i] {
                        let v = frac_vec(&a, &(y - cell.positions[j]));
                        if v.norm() < match_radius {
                            found = Some(v);
                            break;
                        }
                    }
                }
                match found {
                    Some(v) => res.push(v),
                    None => continue 'dst,
                }
            }
            let mean = res.iter().fold(Vector3::zeros(), |m, v| m + v) / (n as f64);
            let refined = res.iter().map(|v| (v - mean).norm()).fold(0.0, f64::max);
            let mut pair = 0.0f64;
            for i in 0..n {
                for j in 0..i {
                    pair = pair.max((res[i] - res[j]).norm());
                }
            }
            out.push((refined, pair));
        }
    }
    out
}

/// Generic crystal of Hall setting `h`: `norb` species, each on one generic orbit.  The premise
/// "no approximate symmetry beyond the generating group within `gap`" is validated by brute force.
pub fn crystal_gap(h: i32, rng: &mut Rng, norb: usize, gap: f64) -> Crystal {
    let nops = conv_ops(h).len();
    loop {
        let c = crystal_unchecked(h, rng, norb);
        if approx_symmetry_count(&c.cell, gap) == nops {
            return c;
        }
    }
}

/// Like `crystal_gap`, plus a third species on the orbit of a *special* point (coordinates drawn from
/// {0, 1/2, 1/4, 3/4, 1/3, 2/3, 1/8} and possibly one free coordinate): sites with non-trivial site
/// symmetry, often alone in their orbit within the primitive cell.  Needed to exercise the projection
/// of noisy special positions (C06) and stabilizers (C07).
pub fn crystal_special(h: i32, rng: &mut Rng, gap: f64) -> Crystal {
    let ops = conv_ops(h);
    let nops = ops.len();
    let special = [0.0, 0.5, 0.25, 0.75, 1.0 / 3.0, 2.0 / 3.0, 0.125];
    for _attempt in 0..200 {
        let mut c = crystal_unchecked(h, rng, 2);
        let mut x = Vector3::new(*rng.pick(&special), *rng.pick(&special), *rng.pick(&special));
        if rng.chance(0.3) {
            let k = rng.range(0, 2) as usize;
            x[k] = rng.uniform(0.05, 0.95);
        }
        let basis = c.cell.lattice.basis;
        let mut orb: Vec<Vector3<f64>> = vec![];
        for o in &ops {
            let y = (o.rotation.map(|e| e as f64) * x + o.translation).map(|e| e.rem_euclid(1.0));
            if !orb.iter().any(|z| frac_dist(&basis, z, &y) < 1e-6) {
                orb.push(y);
            }
        }
        let mut ok = true;
        'outer: for (i, y) in orb.iter().enumerate() {
            for z in c.cell.positions.iter() {
                if frac_dist(&basis, y, z) < 0.45 {
                    ok = false;
                    break 'outer;
                }
            }
            for z in orb.iter().take(i) {
                if frac_dist(&basis, y, z) < 0.45 {
                    ok = false;
                    break 'outer;
                }
            }
        }
        if !ok {
            continue;
        }
        for y in orb {
            c.cell.positions.push(y);
            c.cell.numbers.push(3);
            c.truth.orbit_id.push(2);
            c.truth.wyckoff_row.push(-1);
        }
        let n = c.cell.num_atoms();
        c.truth.origin_atom = (0..n).collect();
        if approx_symmetry_count(&c.cell, gap) == nops {
            return c;
        }
    }
    crystal_gap(h, rng, 2, gap)
}

/// Default gap 0.2 A (20 x the largest symprec used by the pipeline checks, 1e-2).
pub fn crystal(h: i32, rng: &mut Rng, norb: usize) -> Crystal {
    crystal_gap(h, rng, norb, 0.2)
}

pub fn crystal_unchecked(h: i32, rng: &mut Rng, norb: usize) -> Crystal {
    let ops = conv_ops(h);
    loop {
        let basis = generic_lattice(&ops, rng);
        let mut pos: Vec<Vector3<f64>> = vec![];
        let mut nums = vec![];
        let mut orbit_id = vec![];
        for k in 0..norb {
            let x = Vector3::new(rng.uniform(0.03, 0.97), rng.uniform(0.03, 0.97), rng.uniform(0.03, 0.97));
            for o in &ops {
                let y = (o.rotation.map(|e| e as f64) * x + o.translation).map(|e| e.rem_euclid(1.0));
                pos.push(y);
                nums.push(k as i32 + 1);
                orbit_id.push(k);
            }
        }
        // generic = no two atoms closer than 0.35 A
        let mut ok = true;
        'outer: for i in 0..pos.len() {
            for j in 0..i {
                if frac_dist(&basis, &pos[i], &pos[j]) < 0.45 {
                    ok = false;
                    break 'outer;
                }
            }
        }
        if !ok {
            continue;
        }
        let n = pos.len();
        return Crystal {
            cell: Cell::new(Lattice { basis }, pos, nums),
            truth: Truth {
                hall: h,
                p: Matrix3::identity(),
                shift: Vector3::zeros(),
                scale: 1.0,
                mirrored: false,
                orbit_id,
                wyckoff_row: vec![-1; n],
                noisy: false,
                steps: vec![],
                origin_atom: (0..n).collect(),
            },
        };
    }
}

// ---------------------------------------------------------------------------------------------
// re-descriptions

fn det3(m: &Matrix3<i32>) -> i32 {
    m[(0, 0)] * (m[(1, 1)] * m[(2, 2)] - m[(1, 2)] * m[(2, 1)]) - m[(0, 1)] * (m[(1, 0)] * m[(2, 2)] - m[(1, 2)] * m[(2, 0)])
        + m[(0, 2)] * (m[(1, 0)] * m[(2, 1)] - m[(1, 1)] * m[(2, 0)])
}

/// Random unimodular matrix (det +1): word in elementary matrices; entries kept within `maxabs`.
pub fn random_unimodular(rng: &mut Rng, len: usize, maxabs: i32) -> Matrix3<i32> {
    let mut p = Matrix3::<i32>::identity();
    for _ in 0..len {
        let i = rng.range(0, 2) as usize;
        let mut j = rng.range(0, 2) as usize;
        if i == j {
            j = (j + 1) % 3;
        }
        let mut e = Matrix3::<i32>::identity();
        match rng.range(0, 3) {
            0 | 1 => e[(i, j)] = if rng.chance(0.5) { 1 } else { -1 },
            2 => {
                // cyclic permutation (det +1)
                e = Matrix3::new(0, 0, 1, 1, 0, 0, 0, 1, 0);
            }
            _ => {
                // two sign flips (det +1)
                e[(i, i)] = -1;
                e[(j, j)] = -1;
            }
        }
        let q = p * e;
        if q.iter().all(|x| x.abs() <= maxabs) {
            p = q;
        }
    }
    debug_assert_eq!(det3(&p), 1);
    p
}

/// All integer 3x3 Hermite normal forms (lower triangular as used for supercells) of index `n`.
pub fn hnfs_of_index(n: i32) -> Vec<Matrix3<i32>> {
    let mut out = vec![];
    for a in 1..=n {
        if n % a != 0 {
            continue;
        }
        for b in 1..=(n / a) {
            if (n / a) % b != 0 {
                continue;
            }
            let c = n / a / b;
            for d in 0..b {
                for e in 0..c {
                    for f in 0..c {
                        out.push(Matrix3::new(a, 0, 0, d, b, 0, e, f, c));
                    }
                }
            }
        }
    }
    out
}

impl Crystal {
    /// change of basis by an integer matrix `m` with det > 0 (unimodular: same cell content;
    /// det > 1: supercell). New basis = basis * m, new positions = m^-1 (x + n) for the coset reps n.
    pub fn transform(&self, m: &Matrix3<i32>, label: &str) -> Crystal {
        let det = det3(m);
        assert!(det > 0);
        let mf = m.map(|e| e as f64);
        let minv = mf.try_inverse().unwrap();
        let mut pos = vec![];
        let mut nums = vec![];
        let mut orbit_id = vec![];
        let mut wy = vec![];
        let mut oa = vec![];
        // coset representatives of Z^3 / m Z^3: enumerate a box and keep distinct ones
        let bound = m.iter().map(|x| x.abs()).max().unwrap() * 3 + 1;
        let mut reps: Vec<Vector3<f64>> = vec![];
        'search: for i in 0..=bound {
            for j in 0..=bound {
                for k in 0..=bound {
                    let q = (minv * Vector3::new(i as f64, j as f64, k as f64)).map(|e| e - e.floor());
                    let q = q.map(|e| if e > 1.0 - 1e-9 { 0.0 } else { e });
                    if !reps.iter().any(|z| (z - q).map(|e| e - e.round()).norm() < 1e-7) {
                        reps.push(q);
                        if reps.len() == det as usize {
                            break 'search;
                        }
                    }
                }
            }
        }
        assert_eq!(reps.len(), det as usize, "coset enumeration");
        for (idx, p) in self.cell.positions.iter().enumerate() {
            let base = minv * p;
            for r in reps.iter() {
                pos.push(base + r);
                nums.push(self.cell.numbers[idx]);
                orbit_id.push(self.truth.orbit_id[idx]);
                wy.push(self.truth.wyckoff_row[idx]);
                oa.push(self.truth.origin_atom[idx]);
            }
        }
        let mut truth = self.truth.clone();
        truth.p = self.truth.p * m;
        // x_new = m^-1 x_old ; x_old = P^-1 (x0 - p)  =>  x_new = (P m)^-1 (x0 - p): shift unchanged
        truth.orbit_id = orbit_id;
        truth.wyckoff_row = wy;
        truth.origin_atom = oa;
        truth.steps.push(label.to_string());
        Crystal { cell: Cell::new(Lattice { basis: self.cell.lattice.basis * mf }, pos, nums), truth }
    }

    /// origin shift by `s` (in the current fractional coordinates): x_new = x - s
    pub fn shift_origin(&self, s: &Vector3<f64>) -> Crystal {
        let mut c = self.clone();
        for p in c.cell.positions.iter_mut() {
            *p -= s;
        }
        // x_new = P^-1 (x0 - p) - s = P^-1 (x0 - p - P s)
        c.truth.shift = self.truth.shift + self.truth.p.map(|e| e as f64) * s;
        c.truth.steps.push("shift".into());
        c
    }

    pub fn rotate(&self, q: &Matrix3<f64>) -> Crystal {
        let mut c = self.clone();
        c.cell.lattice = Lattice { basis: q * self.cell.lattice.basis };
        c.truth.steps.push("rotate".into());
        c
    }

    pub fn scale(&self, s: f64) -> Crystal {
        let mut c = self.clone();
        c.cell.lattice = Lattice { basis: self.cell.lattice.basis * s };
        c.truth.scale *= s;
        c.truth.steps.push(format!("scale{}", s));
        c
    }

    /// Mirror image in a right-handed basis: the inversion x -> -x of the fractional coordinates
    /// (the basis is kept, so handedness of the basis is unchanged while the structure is inverted).
    pub fn mirror(&self) -> Crystal {
        let mut c = self.clone();
        for p in c.cell.positions.iter_mut() {
            *p = -*p;
        }
        c.truth.mirrored = !self.truth.mirrored;
        c.truth.steps.push("mirror".into());
        c
    }

    pub fn permute(&self, rng: &mut Rng) -> Crystal {
        let n = self.cell.num_atoms();
        let mut idx: Vec<usize> = (0..n).collect();
        for i in (1..n).rev() {
            let j = rng.range(0, i as i64) as usize;
            idx.swap(i, j);
        }
        let mut c = self.clone();
        c.cell.positions = idx.iter().map(|&i| self.cell.positions[i]).collect();
        c.cell.numbers = idx.iter().map(|&i| self.cell.numbers[i]).collect();
        c.truth.orbit_id = idx.iter().map(|&i| self.truth.orbit_id[i]).collect();
        c.truth.wyckoff_row = idx.iter().map(|&i| self.truth.wyckoff_row[i]).collect();
        c.truth.origin_atom = idx.iter().map(|&i| self.truth.origin_atom[i]).collect();
        c.truth.steps.push("permute".into());
        c
    }

    pub fn add_integers(&self, rng: &mut Rng) -> Crystal {
        let mut c = self.clone();
        for p in c.cell.positions.iter_mut() {
            *p += Vector3::new(rng.range(-2, 2) as f64, rng.range(-2, 2) as f64, rng.range(-2, 2) as f64);
        }
        c.truth.steps.push("addint".into());
        c
    }

    /// displace a fraction `frac` of the atoms by a random vector of length in [lo, hi] (Cartesian); the lattice is kept
    pub fn noise_atoms(&self, rng: &mut Rng, lo: f64, hi: f64, frac: f64) -> Crystal {
        let mut c = self.clone();
        let inv = self.cell.lattice.basis.try_inverse().unwrap();
        for p in c.cell.positions.iter_mut() {
            if !rng.chance(frac) {
                continue;
            }
            let v = loop {
                let v = Vector3::new(rng.normal(), rng.normal(), rng.normal());
                if v.norm() > 1e-3 {
                    break v / v.norm();
                }
            };
            *p += inv * (v * rng.uniform(lo, hi));
        }
        c.truth.noisy = true;
        c
    }

    /// displace atoms by at most `radius` and shear the lattice by a single symmetric off-diagonal strain entry that uses
    /// the whole budget "no lattice-vector tip moves by more than `radius`" (entry 0.9 radius / longest vector): the largest
    /// change of an inter-axial angle the noise premise of C09 allows.  Returns the crystal and that angle bound 2 e.
    pub fn noise_shear(&self, rng: &mut Rng, radius: f64) -> (Crystal, f64) {
        let mut c = self.noise_atoms(rng, 0.0, radius, 1.0);
        let basis = self.cell.lattice.basis;
        let lmax = (0..3).map(|i| basis.column(i).norm()).fold(0.0, f64::max);
        let e = 0.9 * radius / lmax * if rng.chance(0.5) { 1.0 } else { -1.0 };
        let (i, j) = *rng.pick(&[(0usize, 1usize), (0, 2), (1, 2)]);
        let mut s = Matrix3::<f64>::identity();
        s[(i, j)] += e;
        s[(j, i)] += e;
        c.cell.lattice = Lattice { basis: s * basis };
        c.truth.noisy = true;
        c.truth.steps.push("noise-shear".into());
        (c, 2.0 * e.abs())
    }

    /// Pseudo-symmetric twin: the lattice is stretched along the direction of one basis vector by `delta` (Cartesian length
    /// added to that vector), the fractional coordinates are kept.  Every operation of the generating group still maps the
    /// atoms onto atoms exactly (fractional coordinates), but those that move the stretched axis no longer preserve the
    /// metric: the symmetry of the crystal is a subgroup that is NOT recorded (truth-independent clauses only).
    pub fn stretch_axis(&self, axis: usize, delta: f64) -> Crystal {
        let mut c = self.clone();
        let basis = self.cell.lattice.basis;
        let v = basis.column(axis).into_owned();
        let l = v.norm();
        let u = v / l;
        let s = Matrix3::<f64>::identity() + (u * u.transpose()) * (delta / l);
        c.cell.lattice = Lattice { basis: s * basis };
        c.truth.noisy = true;
        c.truth.steps.push("pseudo".into());
        c
    }

    /// displace atoms by at most `radius` (Cartesian) and strain the lattice by the same relative size
    pub fn noise(&self, rng: &mut Rng, radius: f64) -> Crystal {
        let mut c = self.clone();
        let basis = self.cell.lattice.basis;
        let inv = basis.try_inverse().unwrap();
        for p in c.cell.positions.iter_mut() {
            // uniform in ball
            let v = loop {
                let v = Vector3::new(rng.uniform(-1.0, 1.0), rng.uniform(-1.0, 1.0), rng.uniform(-1.0, 1.0));
                if v.norm() <= 1.0 {
                    break v;
                }
            };
            *p += inv * (v * radius);
        }
        let lmax = (0..3).map(|i| basis.column(i).norm()).fold(0.0, f64::max);
        let eps = radius / lmax / 3.0;
        let mut s = Matrix3::<f64>::identity();
        for i in 0..3 {
            for j in i..3 {
                let e = rng.uniform(-eps, eps);
                s[(i, j)] += e;
                if i != j {
                    s[(j, i)] += e;
                }
            }
        }
        c.cell.lattice = Lattice { basis: s * basis };
        c.truth.noisy = true;
        c.truth.steps.push("noise".into());
        c
    }
}

pub fn random_rotation(rng: &mut Rng) -> Matrix3<f64> {
    // random unit quaternion
    let q = loop {
        let q = [rng.normal(), rng.normal(), rng.normal(), rng.normal()];
        let n = (q[0] * q[0] + q[1] * q[1] + q[2] * q[2] + q[3] * q[3]).sqrt();
        if n > 1e-3 {
            break [q[0] / n, q[1] / n, q[2] / n, q[3] / n];
        }
    };
    let (w, x, y, z) = (q[0], q[1], q[2], q[3]);
    Matrix3::new(
        1.0 - 2.0 * (y * y + z * z), 2.0 * (x * y - z * w), 2.0 * (x * z + y * w),
        2.0 * (x * y + z * w), 1.0 - 2.0 * (x * x + z * z), 2.0 * (y * z - x * w),
        2.0 * (x * z - y * w), 2.0 * (y * z + x * w), 1.0 - 2.0 * (x * x + y * y),
    )
}

/// Random composition of re-descriptions. `level`: 0 = none, 1 = rebase+shift, 2 = + rotation,
/// permutation, integers, 3 = + supercell.
pub fn redescribe(c: &Crystal, rng: &mut Rng, level: u32, supercell: Option<Matrix3<i32>>) -> Crystal {
    let mut c = c.clone();
    if level >= 1 {
        let len = rng.range(1, 7) as usize;
        let u = random_unimodular(rng, len, 6);
        c = c.transform(&u, "rebase");
        c = c.shift_origin(&Vector3::new(rng.uniform(-0.5, 0.5), rng.uniform(-0.5, 0.5), rng.uniform(-0.5, 0.5)));
    }
    if let Some(m) = supercell {
        c = c.transform(&m, "supercell");
        if rng.chance(0.5) {
            let len = rng.range(1, 4) as usize;
            let u = random_unimodular(rng, len, 6);
            c = c.transform(&u, "rebase");
        }
    }
    if level >= 2 {
        c = c.rotate(&random_rotation(rng));
        c = c.permute(rng);
        if rng.chance(0.5) {
            c = c.add_integers(rng);
        }
    }
    c
}

pub fn setting_str(s: Setting) -> String {
    match s {
        Setting::Spglib => "spglib".into(),
        Setting::Standard => "standard".into(),
        Setting::HallNumber(h) => format!("hall {}", h),
    }
}

pub fn angtol_str(a: AngleTolerance) -> String {
    match a {
        AngleTolerance::Default => "default".into(),
        AngleTolerance::Radian(r) => format!("radian {}", fx(r)),
    }
}
