//! moyo_harness: runs the real moyo code in-process and writes case files for the Lean model.
mod c08;
mod c14;
mod c15;
mod c16;
mod c18;
mod c19;
mod c20;
mod gen;
mod maggen;
mod magpipe;
mod magid;
mod magstages;
mod pipeline;
mod s13;
mod s5;
mod s6;
mod stages;
mod tables;
mod util;
mod wyckoff;

struct StderrLogger;
impl log::Log for StderrLogger {
    fn enabled(&self, _: &log::Metadata) -> bool {
        true
    }
    fn log(&self, record: &log::Record) {
        eprintln!("[{}] {}", record.level(), record.args());
    }
    fn flush(&self) {}
}
static LOGGER: StderrLogger = StderrLogger;

fn main() {
    if std::env::var("VERIF_LOG").is_ok() {
        let _ = log::set_logger(&LOGGER);
        log::set_max_level(log::LevelFilter::Debug);
    }
    // panics are caught per case; keep stderr quiet
    std::panic::set_hook(Box::new(|_| {}));
    let args: Vec<String> = std::env::args().collect();
    if args.len() < 2 {
        eprintln!("usage: moyo_harness <cmd> ...");
        std::process::exit(2);
    }
    let seed: u64 = std::env::var("VERIF_SEED").ok().and_then(|s| s.parse().ok()).unwrap_or(0);
    match args[1].as_str() {
        // c15-gen <tier> <out>
        "c15-gen" => c15::gen(&args[2], seed, &args[3]),
        // c15-box <bound> <threads>
        "c15-box" => c15::box_check(args[2].parse().unwrap(), args[3].parse().unwrap()),
        // c15-one <hnf|snf> m n entries...
        "c15-one" => c15::one(&args[2], &args[3..]),
        // c15-cosets <bound> <threads> [<maxdet>]
        "c15-cosets" => c15::cosets_check(args[2].parse().unwrap(), args[3].parse().unwrap(), args.get(4).map(|x| x.parse().unwrap()).unwrap_or(64)),
        // c15-coset-one a00 a01 ... a22
        "c15-coset-one" => {
            let v: Vec<i32> = args[2..11].iter().map(|x| x.parse().unwrap()).collect();
            let a = nalgebra::Matrix3::new(v[0], v[1], v[2], v[3], v[4], v[5], v[6], v[7], v[8]);
            println!("{}", c15::coset_failure(&a).unwrap_or_else(|| "distinct".into()));
        }
        // tables-gen <out>  |  malformed-gen <count> <out>
        "tables-gen" => tables::gen_tables(&args[2]),
        "malformed-gen" => tables::gen_malformed(seed, args[2].parse().unwrap(), &args[3]),
        // pipe-gen <mode> <tier> <out>
        "pipe-gen" => pipeline::gen_cases(&args[2], &args[3], seed, &args[4]),
        // pipe-one <mode> <tier> <tag>: regenerate the plan and print only the case with this tag
        "pipe-one" => pipeline::gen_one(&args[2], &args[3], seed, &args[4]),
        "face-probe" => pipeline::face_probe(seed, args[2].parse().unwrap()),
        // stage-gen <tier> <out>: stage-by-stage dumps
        "stage-gen" => stages::gen(&args[2], seed, &args[3]),
        // eval <infile> <outfile> <start>: evaluate request lines one by one, flushing after each
        "eval" => eval(&args[2], &args[3], args[4].parse().unwrap()),
        other => {
            // Dispatch chain for per-property modules: each `dispatch` returns true if it handled the command.
            let handled = false;
            let handled = handled || c08::dispatch(&args, seed);
            let handled = handled || c14::dispatch(&args, seed);
            let handled = handled || c16::dispatch(&args, seed);
            let handled = handled || wyckoff::dispatch(&args, seed);
            let handled = handled || c18::dispatch(&args, seed);
            let handled = handled || c19::dispatch(&args, seed);
            let handled = handled || c20::dispatch(&args, seed);
            let handled = handled || magpipe::dispatch(&args, seed);
            let handled = handled || magstages::dispatch(&args, seed);
            let handled = handled || magid::dispatch(&args, seed);
            let handled = handled || s5::dispatch(&args, seed);
            let handled = handled || s6::dispatch(&args, seed);
            if !handled {
                eprintln!("unknown command {}", other);
                std::process::exit(2);
            }
        }
    }
}

/// Isolated evaluation: appends `index ||| expected` for each request line from `start` on.
/// The Python side watches the file grow, kills this process on a stall or crash, records the
/// stuck request, and restarts after it.
fn eval(infile: &str, outfile: &str, start: usize) {
    use std::io::Write;
    let text = std::fs::read_to_string(infile).expect("read requests");
    let mut out = std::fs::OpenOptions::new().create(true).append(true).open(outfile).expect("open out");
    for (i, line) in text.lines().enumerate() {
        if i < start {
            continue;
        }
        writeln!(out, "{} ||| START", i).unwrap();
        out.flush().unwrap();
        let res = eval_request(line).unwrap_or_else(|| "UNKNOWN-REQUEST".to_string());
        writeln!(out, "{} ||| {}", i, res).unwrap();
        out.flush().unwrap();
    }
}

fn eval_request(req: &str) -> Option<String> {
    c08::eval_request(req).or_else(|| tables::eval_request(req))
}
