//! moyo_harness: runs the real moyo code in-process and writes case files for the Lean model.
mod c15;
mod util;

fn main() {
    // panics are caught per case; keep stderr quiet
    std::panic::set_hook(Box::new(|_| {}));
    let args: Vec<String> = std::env::args().collect();
    if args.len() < 2 {
        eprintln!("usage: moyo_harness <cmd> ...");
        std::process::exit(2);
    }
    let seed: u64 = std::env::var("VERIF_SEED").ok().and_then(|s| s.parse().ok()).unwrap_or(0);
    match args[1].as_str() {
        // c15-gen <tier> <out>
        "c15-gen" => c15::gen(&args[2], seed, &args[3]),
        // c15-box <bound> <threads>
        "c15-box" => c15::box_check(args[2].parse().unwrap(), args[3].parse().unwrap()),
        // c15-one <hnf|snf> m n entries...
        "c15-one" => c15::one(&args[2], &args[3..]),
        other => {
            eprintln!("unknown command {}", other);
            std::process::exit(2);
        }
    }
}
