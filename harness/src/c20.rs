//! C20: Rust-side expectations for the Python-binding comparison.
//!
//! `c20-gen <tier> <out.jsonl>`  generate inputs (seeded) and evaluate them
//! `c20-eval <in.jsonl> <out.jsonl>` re-evaluate the expectations of given inputs (replay)
//!
//! One JSON object per line.  Every f64 is written as the 16 hex digits of its bit pattern.
//! All matrices are written *semantically* through `m[(i, j)]` (never through the storage
//! slice / `into()` / `as_ref()`), so the expectation is independent of the conversions used by
//! the bindings: `"rows"[i][j] = M(i,j)`; a lattice is written as the list of its basis vectors
//! (`basis.column(i)` is the i-th basis vector, moyo/src/base/lattice.rs).
use crate::util::*;
use moyo::base::{
    AngleTolerance, Cell, Collinear, Lattice, MagneticCell, MagneticOperations, NonCollinear, Operation, Operations,
    RotationMagneticMomentAction,
};
use moyo::data::{
    arithmetic_crystal_class_entry, get_magnetic_space_group_type, hall_symbol_entry, ConstructType, CrystalFamily,
    CrystalSystem, HallSymbol, LatticeSystem, MagneticHallSymbol, Setting,
};
use moyo::{MoyoDataset, MoyoMagneticDataset};
use nalgebra::{Matrix3, Vector3};
use serde_json::{json, Map, Value};
use std::io::{BufRead, Write};
use std::sync::Mutex;

static LAST_PANIC: Mutex<String> = Mutex::new(String::new());

pub fn dispatch(args: &[String], seed: u64) -> bool {
    match args[1].as_str() {
        "c20-gen" => {
            install_hook();
            gen(&args[2], seed, &args[3]);
            true
        }
        "c20-eval" => {
            install_hook();
            reeval(&args[2], &args[3]);
            true
        }
        // c20-model <count> <out>: the Lean layout model against the real nalgebra conversions
        "c20-model" => {
            model_cases(args[2].parse().unwrap(), seed, &args[3]);
            true
        }
        _ => false,
    }
}

fn install_hook() {
    std::panic::set_hook(Box::new(|info| {
        let loc = info.location().map(|l| format!("{}:{}", l.file(), l.line())).unwrap_or_default();
        if let Ok(mut g) = LAST_PANIC.lock() {
            *g = loc;
        }
    }));
}

// ------------------------------------------------------------------------------------------------
// encoding

fn hx(x: f64) -> Value {
    Value::String(format!("{:016x}", x.to_bits()))
}
fn unhx(v: &Value) -> f64 {
    f64::from_bits(u64::from_str_radix(v.as_str().expect("hex float"), 16).expect("hex float"))
}
fn vec3(v: &Vector3<f64>) -> Value {
    json!([hx(v[0]), hx(v[1]), hx(v[2])])
}
fn rows_f(m: &Matrix3<f64>) -> Value {
    Value::Array((0..3).map(|i| json!([hx(m[(i, 0)]), hx(m[(i, 1)]), hx(m[(i, 2)])])).collect())
}
fn rows_i(m: &Matrix3<i32>) -> Value {
    Value::Array((0..3).map(|i| json!([m[(i, 0)], m[(i, 1)], m[(i, 2)]])).collect())
}
/// list of basis vectors: vector i is `basis.column(i)`, i.e. components `basis[(0,i)], basis[(1,i)], basis[(2,i)]`
fn basis_vectors(l: &Lattice) -> Value {
    let b = &l.basis;
    Value::Array((0..3).map(|i| json!([hx(b[(0, i)]), hx(b[(1, i)]), hx(b[(2, i)])])).collect())
}
fn lattice_from_vectors(v: &Value) -> Lattice {
    let rows: Vec<Vec<f64>> = v.as_array().unwrap().iter().map(|r| r.as_array().unwrap().iter().map(unhx).collect()).collect();
    // column c = basis vector c
    Lattice { basis: Matrix3::from_fn(|r, c| rows[c][r]) }
}
fn positions_of(v: &Value) -> Vec<Vector3<f64>> {
    v.as_array().unwrap().iter().map(|p| { let a = p.as_array().unwrap(); Vector3::new(unhx(&a[0]), unhx(&a[1]), unhx(&a[2])) }).collect()
}

fn cell_expect(c: &Cell) -> Value {
    json!({
        "basis": basis_vectors(&c.lattice),
        "positions": c.positions.iter().map(vec3).collect::<Vec<_>>(),
        "numbers": c.numbers,
        "num_atoms": c.num_atoms(),
        "json": serde_json::to_string(c).unwrap(),
    })
}
fn cmag_cell_expect(c: &MagneticCell<Collinear>) -> Value {
    let mut v = cell_expect(&c.cell);
    v["magnetic_moments"] = Value::Array(c.magnetic_moments.iter().map(|m| hx(m.0)).collect());
    v["num_atoms"] = json!(c.num_atoms());
    v["json"] = json!(serde_json::to_string(c).unwrap());
    v
}
fn ncmag_cell_expect(c: &MagneticCell<NonCollinear>) -> Value {
    let mut v = cell_expect(&c.cell);
    v["magnetic_moments"] = Value::Array(c.magnetic_moments.iter().map(|m| vec3(&m.0)).collect());
    v["num_atoms"] = json!(c.num_atoms());
    v["json"] = json!(serde_json::to_string(c).unwrap());
    v
}
fn ops_expect(ops: &Operations) -> Value {
    json!({
        "rotations": ops.iter().map(|o| rows_i(&o.rotation)).collect::<Vec<_>>(),
        "translations": ops.iter().map(|o| vec3(&o.translation)).collect::<Vec<_>>(),
        "num_operations": ops.len(),
    })
}
fn mops_expect(ops: &MagneticOperations) -> Value {
    json!({
        "rotations": ops.iter().map(|o| rows_i(&o.operation.rotation)).collect::<Vec<_>>(),
        "translations": ops.iter().map(|o| vec3(&o.operation.translation)).collect::<Vec<_>>(),
        "time_reversals": ops.iter().map(|o| o.time_reversal).collect::<Vec<_>>(),
        "num_operations": ops.len(),
    })
}
fn angle_expect(a: AngleTolerance) -> Value {
    match a {
        AngleTolerance::Radian(x) => hx(x),
        AngleTolerance::Default => Value::Null,
    }
}
fn dataset_expect(d: &MoyoDataset) -> Value {
    json!({
        "number": d.number,
        "hall_number": d.hall_number,
        "operations": ops_expect(&d.operations),
        "orbits": d.orbits,
        "wyckoffs": d.wyckoffs.iter().map(|c| c.to_string()).collect::<Vec<_>>(),
        "site_symmetry_symbols": d.site_symmetry_symbols,
        "std_cell": cell_expect(&d.std_cell),
        "std_linear": rows_f(&d.std_linear),
        "std_origin_shift": vec3(&d.std_origin_shift),
        "std_rotation_matrix": rows_f(&d.std_rotation_matrix),
        "pearson_symbol": d.pearson_symbol,
        "prim_std_cell": cell_expect(&d.prim_std_cell),
        "prim_std_linear": rows_f(&d.prim_std_linear),
        "prim_std_origin_shift": vec3(&d.prim_std_origin_shift),
        "mapping_std_prim": d.mapping_std_prim,
        "symprec": hx(d.symprec),
        "angle_tolerance": angle_expect(d.angle_tolerance),
        "json": serde_json::to_string(d).unwrap(),
    })
}
macro_rules! mag_dataset_expect {
    ($d:expr, $cellfn:ident) => {
        json!({
            "uni_number": $d.uni_number,
            "magnetic_operations": mops_expect(&$d.magnetic_operations),
            "orbits": $d.orbits,
            "std_mag_cell": $cellfn(&$d.std_mag_cell),
            "std_linear": rows_f(&$d.std_linear),
            "std_origin_shift": vec3(&$d.std_origin_shift),
            "std_rotation_matrix": rows_f(&$d.std_rotation_matrix),
            "prim_std_mag_cell": $cellfn(&$d.prim_std_mag_cell),
            "prim_std_linear": rows_f(&$d.prim_std_linear),
            "prim_std_origin_shift": vec3(&$d.prim_std_origin_shift),
            "mapping_std_prim": $d.mapping_std_prim,
            "symprec": hx($d.symprec),
            "angle_tolerance": angle_expect($d.angle_tolerance),
            "mag_symprec": hx($d.mag_symprec),
            "json": serde_json::to_string(&$d).unwrap(),
        })
    };
}

// ------------------------------------------------------------------------------------------------
// keyword arguments -> Rust parameters under the *documented* defaults
// (moyopy/python/moyopy/_dataset.pyi, _data.pyi): symprec = 1e-4, angle_tolerance = None -> Default,
// setting = None -> Spglib, mag_symprec = None, is_axial = False (collinear) / True (non-collinear).

fn kw_symprec(kw: &Value) -> f64 {
    match kw.get("symprec") {
        None => 1e-4,
        Some(v) => unhx(v),
    }
}
fn kw_angle(kw: &Value) -> AngleTolerance {
    match kw.get("angle_tolerance") {
        None | Some(Value::Null) => AngleTolerance::Default,
        Some(v) => AngleTolerance::Radian(unhx(v)),
    }
}
fn setting_of(v: Option<&Value>) -> Setting {
    match v {
        None | Some(Value::Null) => Setting::Spglib,
        Some(Value::String(s)) if s == "spglib" => Setting::Spglib,
        Some(Value::String(s)) if s == "standard" => Setting::Standard,
        Some(Value::Object(o)) => Setting::HallNumber(o["hall_number"].as_i64().unwrap() as i32),
        Some(other) => panic!("bad setting {}", other),
    }
}
fn kw_mag_symprec(kw: &Value) -> Option<f64> {
    match kw.get("mag_symprec") {
        None | Some(Value::Null) => None,
        Some(v) => Some(unhx(v)),
    }
}
fn kw_action(kw: &Value, default_axial: bool) -> RotationMagneticMomentAction {
    let axial = match kw.get("is_axial") {
        None => default_axial,
        Some(v) => v.as_bool().unwrap(),
    };
    if axial { RotationMagneticMomentAction::Axial } else { RotationMagneticMomentAction::Polar }
}

fn outcome<T, F: FnOnce() -> Result<T, moyo::base::MoyoError> + std::panic::UnwindSafe, G: FnOnce(&T) -> Value>(f: F, g: G) -> Value {
    match catch(f) {
        Ok(Ok(d)) => json!({ "ok": g(&d) }),
        Ok(Err(e)) => json!({ "err": e.to_string() }),
        Err(msg) => json!({ "panic": msg, "location": LAST_PANIC.lock().map(|g| g.clone()).unwrap_or_default() }),
    }
}

/// Fill `input_expect` and every `runs[k].expect` of a case.
fn eval_case(case: &mut Value) {
    let kind = case["kind"].as_str().unwrap().to_string();
    match kind.as_str() {
        "cell" => {
            let inp = case["input"].clone();
            let numbers: Vec<i32> = inp["numbers"].as_array().unwrap().iter().map(|x| x.as_i64().unwrap() as i32).collect();
            let cell = Cell::new(lattice_from_vectors(&inp["basis"]), positions_of(&inp["positions"]), numbers);
            case["input_expect"] = cell_expect(&cell);
            for run in case["runs"].as_array_mut().unwrap() {
                let kw = run["kwargs"].clone();
                let (sp, an, st) = (kw_symprec(&kw), kw_angle(&kw), setting_of(kw.get("setting")));
                let c2 = cell.clone();
                run["expect"] = outcome(move || MoyoDataset::new(&c2, sp, an, st), dataset_expect);
            }
        }
        "collinear" => {
            let inp = case["input"].clone();
            let numbers: Vec<i32> = inp["numbers"].as_array().unwrap().iter().map(|x| x.as_i64().unwrap() as i32).collect();
            let moments: Vec<Collinear> = inp["magnetic_moments"].as_array().unwrap().iter().map(|m| Collinear(unhx(m))).collect();
            let cell = MagneticCell::new(lattice_from_vectors(&inp["basis"]), positions_of(&inp["positions"]), numbers, moments);
            case["input_expect"] = cmag_cell_expect(&cell);
            for run in case["runs"].as_array_mut().unwrap() {
                let kw = run["kwargs"].clone();
                let (sp, an, ms, ac) = (kw_symprec(&kw), kw_angle(&kw), kw_mag_symprec(&kw), kw_action(&kw, false));
                let c2 = cell.clone();
                run["expect"] = outcome(move || MoyoMagneticDataset::new(&c2, sp, an, ms, ac), |d| mag_dataset_expect!(d, cmag_cell_expect));
            }
        }
        "noncollinear" => {
            let inp = case["input"].clone();
            let numbers: Vec<i32> = inp["numbers"].as_array().unwrap().iter().map(|x| x.as_i64().unwrap() as i32).collect();
            let moments: Vec<NonCollinear> = positions_of(&inp["magnetic_moments"]).into_iter().map(NonCollinear).collect();
            let cell = MagneticCell::new(lattice_from_vectors(&inp["basis"]), positions_of(&inp["positions"]), numbers, moments);
            case["input_expect"] = ncmag_cell_expect(&cell);
            for run in case["runs"].as_array_mut().unwrap() {
                let kw = run["kwargs"].clone();
                let (sp, an, ms, ac) = (kw_symprec(&kw), kw_angle(&kw), kw_mag_symprec(&kw), kw_action(&kw, true));
                let c2 = cell.clone();
                run["expect"] = outcome(move || MoyoMagneticDataset::new(&c2, sp, an, ms, ac), |d| mag_dataset_expect!(d, ncmag_cell_expect));
            }
        }
        "hall_entries" => {
            let rows: Vec<Value> = (1..=530)
                .map(|h| {
                    let e = hall_symbol_entry(h).unwrap();
                    json!({"hall_number": e.hall_number, "number": e.number, "arithmetic_number": e.arithmetic_number,
                           "setting": e.setting, "hall_symbol": e.hall_symbol, "hm_short": e.hm_short, "hm_full": e.hm_full,
                           "centering": format!("{:?}", e.centering)})
                })
                .collect();
            case["rows"] = Value::Array(rows);
        }
        "space_group_types" => {
            let rows: Vec<Value> = (1..=230)
                .map(|n| {
                    let h = Setting::Standard.hall_numbers()[(n - 1) as usize];
                    let e = hall_symbol_entry(h).unwrap();
                    let a = arithmetic_crystal_class_entry(e.arithmetic_number).unwrap();
                    let ls = LatticeSystem::from_bravais_class(a.bravais_class);
                    json!({"number": n, "hm_short": e.hm_short, "hm_full": e.hm_full,
                           "arithmetic_number": e.arithmetic_number, "arithmetic_symbol": a.symbol,
                           "geometric_crystal_class": a.geometric_crystal_class.to_string(),
                           "crystal_system": CrystalSystem::from_geometric_crystal_class(a.geometric_crystal_class).to_string(),
                           "bravais_class": a.bravais_class.to_string(),
                           "lattice_system": ls.to_string(),
                           "crystal_family": CrystalFamily::from_lattice_system(ls).to_string()})
                })
                .collect();
            case["rows"] = Value::Array(rows);
        }
        "magnetic_space_group_types" => {
            let rows: Vec<Value> = (1..=1651)
                .map(|u| {
                    let t = get_magnetic_space_group_type(u).unwrap();
                    let ct = match t.construct_type {
                        ConstructType::Type1 => 1,
                        ConstructType::Type2 => 2,
                        ConstructType::Type3 => 3,
                        ConstructType::Type4 => 4,
                    };
                    json!({"uni_number": t.uni_number, "litvin_number": t.litvin_number, "bns_number": t.bns_number,
                           "og_number": t.og_number, "number": t.number, "construct_type": ct})
                })
                .collect();
            case["rows"] = Value::Array(rows);
        }
        "operations_from_number" => {
            for run in case["runs"].as_array_mut().unwrap() {
                let number = run["number"].as_i64().unwrap() as i32;
                let setting = setting_of(run["kwargs"].get("setting"));
                run["expect"] = match catch(move || conventional_operations(number, setting)) {
                    Ok(Some(ops)) => json!({ "ok": ops_expect(&ops) }),
                    Ok(None) => json!({ "err": "unknown" }),
                    Err(m) => json!({ "panic": m }),
                };
            }
        }
        other => panic!("unknown case kind {}", other),
    }
}

/// The operations of the conventional cell of space group `number` in `setting`
/// (Hall-symbol coset representatives x centring translations, translations reduced by the
/// truncated remainder `% 1.` like the documented function `moyopy.operations_from_number`).
fn conventional_operations(number: i32, setting: Setting) -> Option<Operations> {
    let hall_number = match setting {
        Setting::HallNumber(h) => h,
        _ => {
            if !(1..=230).contains(&number) {
                return None;
            }
            setting.hall_numbers()[(number - 1) as usize]
        }
    };
    if !(1..=530).contains(&hall_number) {
        return None;
    }
    let hs = HallSymbol::from_hall_number(hall_number)?;
    let coset = hs.traverse();
    let mut ops = vec![];
    for t1 in hs.centering.lattice_points().iter() {
        for o in coset.iter() {
            ops.push(Operation::new(o.rotation, (t1 + o.translation).map(|e| e % 1.)));
        }
    }
    Some(ops)
}

// ------------------------------------------------------------------------------------------------
// generators

fn conv_ops(h: i32) -> Operations {
    let hs = HallSymbol::from_hall_number(h).unwrap();
    let coset = hs.traverse();
    let mut ops = vec![];
    for t in hs.centering.lattice_points() {
        for o in coset.iter() {
            ops.push(Operation::new(o.rotation, (o.translation + t).map(|e| e.rem_euclid(1.0))));
        }
    }
    ops
}

/// Generic lattice of the family: Cholesky factor of a random SPD metric averaged over the point group.
fn generic_lattice(rots: &[Matrix3<i32>], rng: &mut Rng) -> Matrix3<f64> {
    let a = Matrix3::<f64>::from_fn(|_, _| rng.uniform(-1.0, 1.0));
    let g0 = a.transpose() * a + Matrix3::identity() * 0.5;
    let mut g = Matrix3::zeros();
    for r in rots {
        let r = r.map(|e| e as f64);
        g += r.transpose() * g0 * r;
    }
    g /= rots.len() as f64;
    let l = g.cholesky().expect("spd").l();
    l.transpose() * rng.uniform(3.0, 6.0)
}

fn close_mod1(a: &Vector3<f64>, b: &Vector3<f64>) -> bool {
    (a - b).map(|e| e - e.round()).norm() < 1e-6
}

struct Gen {
    basis: Matrix3<f64>, // columns = basis vectors
    positions: Vec<Vector3<f64>>,
    numbers: Vec<i32>,
    col: Vec<f64>,
    ncol: Vec<Vector3<f64>>,
    desc: String,
}

fn crystal(h: i32, rng: &mut Rng, norb: usize) -> Gen {
    let ops = conv_ops(h);
    let rots: Vec<Matrix3<i32>> = ops.iter().map(|o| o.rotation).collect();
    let basis = generic_lattice(&rots, rng);
    let mut pos: Vec<Vector3<f64>> = vec![];
    let mut nums = vec![];
    for k in 0..norb {
        let x = Vector3::new(rng.uniform(0.05, 0.95), rng.uniform(0.05, 0.95), rng.uniform(0.05, 0.95));
        let mut orb: Vec<Vector3<f64>> = vec![];
        for o in &ops {
            let y = (o.rotation.map(|e| e as f64) * x + o.translation).map(|e| e.rem_euclid(1.0));
            if !orb.iter().any(|z| close_mod1(z, &y)) {
                orb.push(y);
            }
        }
        for y in orb {
            pos.push(y);
            nums.push(k as i32 + 1 + (rng.range(0, 1) * 10) as i32);
        }
    }
    Gen { basis, positions: pos, numbers: nums, col: vec![], ncol: vec![], desc: format!("hall={} norb={}", h, norb) }
}

/// Magnetic crystal in the conventional setting of UNI number `u`: a generic moment at generic sites,
/// propagated by (R, t, theta): collinear `m' = theta m` (polar rule, the documented default of the collinear
/// class), non-collinear `m' = theta det(R) (A R A^-1) m` (axial rule, the documented default of that class).
fn magnetic_crystal(u: i32, rng: &mut Rng, norb: usize) -> Gen {
    let mhs = MagneticHallSymbol::from_uni_number(u).unwrap();
    let coset = mhs.traverse();
    let mut trans = vec![Vector3::zeros()];
    trans.extend(mhs.centering_translations.iter().cloned());
    let rots: Vec<Matrix3<i32>> = coset.iter().map(|o| o.operation.rotation).collect();
    let basis = generic_lattice(&rots, rng);
    let binv = basis.try_inverse().unwrap();
    let mut pos: Vec<Vector3<f64>> = vec![];
    let mut nums = vec![];
    let mut col = vec![];
    let mut ncol = vec![];
    for k in 0..norb {
        let x = Vector3::new(rng.uniform(0.05, 0.95), rng.uniform(0.05, 0.95), rng.uniform(0.05, 0.95));
        let m0 = rng.uniform(0.5, 2.0);
        let v0 = Vector3::new(rng.uniform(-1.0, 1.0), rng.uniform(-1.0, 1.0), rng.uniform(0.3, 1.0));
        let mut orb: Vec<Vector3<f64>> = vec![];
        for t in &trans {
            for o in &coset {
                let r = o.operation.rotation.map(|e| e as f64);
                let y = (r * x + o.operation.translation + t).map(|e| e.rem_euclid(1.0));
                if orb.iter().any(|z| close_mod1(z, &y)) {
                    continue;
                }
                orb.push(y);
                let th = if o.time_reversal { -1.0 } else { 1.0 };
                let rc = basis * r * binv;
                let det = rc.determinant().round();
                pos.push(y);
                nums.push(k as i32 + 1);
                col.push(th * m0);
                ncol.push(th * det * (rc * v0));
            }
        }
    }
    Gen { basis, positions: pos, numbers: nums, col, ncol, desc: format!("uni={} norb={}", u, norb) }
}

/// Re-description: unimodular re-basing (shears, det = +1), rigid rotation, atom permutation.
fn redescribe(g: &mut Gen, rng: &mut Rng) {
    if rng.chance(0.7) {
        let mut u = Matrix3::<i32>::identity();
        let mut uinv = Matrix3::<i32>::identity();
        let steps = rng.range(2, 5);
        for _ in 0..steps {
            let i = rng.range(0, 2) as usize;
            let mut j = rng.range(0, 2) as usize;
            if i == j {
                j = (j + 1) % 3;
            }
            let k = if rng.chance(0.5) { 1 } else { -1 };
            let mut e = Matrix3::<i32>::identity();
            e[(i, j)] = k;
            let mut einv = Matrix3::<i32>::identity();
            einv[(i, j)] = -k;
            u = u * e;
            uinv = einv * uinv;
        }
        assert_eq!(u * uinv, Matrix3::<i32>::identity());
        g.basis = g.basis * u.map(|e| e as f64);
        let ui = uinv.map(|e| e as f64);
        for p in g.positions.iter_mut() {
            *p = (ui * *p).map(|e| e.rem_euclid(1.0));
        }
        g.desc += &format!(" rebase={:?}", u.transpose().as_slice());
    }
    if rng.chance(0.7) {
        // random proper rotation from a unit quaternion
        let (mut a, mut b, mut c, mut d) = (rng.normal(), rng.normal(), rng.normal(), rng.normal());
        let n = (a * a + b * b + c * c + d * d).sqrt();
        a /= n;
        b /= n;
        c /= n;
        d /= n;
        let q = Matrix3::new(
            a * a + b * b - c * c - d * d, 2.0 * (b * c - a * d), 2.0 * (b * d + a * c),
            2.0 * (b * c + a * d), a * a - b * b + c * c - d * d, 2.0 * (c * d - a * b),
            2.0 * (b * d - a * c), 2.0 * (c * d + a * b), a * a - b * b - c * c + d * d,
        );
        g.basis = q * g.basis;
        for m in g.ncol.iter_mut() {
            *m = q * *m;
        }
        g.desc += " rotated";
    }
    if rng.chance(0.5) {
        let n = g.positions.len();
        for i in (1..n).rev() {
            let j = rng.range(0, i as i64) as usize;
            g.positions.swap(i, j);
            g.numbers.swap(i, j);
            if !g.col.is_empty() {
                g.col.swap(i, j);
                g.ncol.swap(i, j);
            }
        }
        g.desc += " shuffled";
    }
}

fn input_json(g: &Gen, kind: &str) -> Value {
    let l = Lattice { basis: g.basis };
    let mut m = Map::new();
    m.insert("basis".into(), basis_vectors(&l));
    m.insert("positions".into(), Value::Array(g.positions.iter().map(vec3).collect()));
    m.insert("numbers".into(), json!(g.numbers));
    match kind {
        "collinear" => {
            m.insert("magnetic_moments".into(), Value::Array(g.col.iter().map(|x| hx(*x)).collect()));
        }
        "noncollinear" => {
            m.insert("magnetic_moments".into(), Value::Array(g.ncol.iter().map(vec3).collect()));
        }
        _ => {}
    }
    Value::Object(m)
}

fn setting_choices(h: i32, rng: &mut Rng) -> Vec<Option<Value>> {
    let other = rng.range(1, 530);
    vec![None, Some(Value::Null), Some(json!("spglib")), Some(json!("standard")), Some(json!({ "hall_number": h })), Some(json!({ "hall_number": other }))]
}

fn opt_choices(vals: &[f64], with_null: bool) -> Vec<Option<Value>> {
    let mut v = vec![None];
    if with_null {
        v.push(Some(Value::Null));
    }
    for x in vals {
        v.push(Some(hx(*x)));
    }
    v
}

fn kwargs_from(parts: &[(&str, &Option<Value>)]) -> Value {
    let mut m = Map::new();
    for (k, v) in parts {
        if let Some(v) = v {
            m.insert(k.to_string(), v.clone());
        }
    }
    Value::Object(m)
}

/// keyword combinations for MoyoDataset: the all-omitted call first, then `k` random ones, or the full product.
fn dataset_runs(h: i32, rng: &mut Rng, k: usize, full: bool) -> Vec<Value> {
    let sy = opt_choices(&[1e-4, 3e-4, 1e-5], false);
    let an = opt_choices(&[1e-2, 1e-3], true);
    let st = setting_choices(h, rng);
    let mut runs = vec![];
    if full {
        for a in &sy {
            for b in &an {
                for c in &st {
                    runs.push(json!({ "kwargs": kwargs_from(&[("symprec", a), ("angle_tolerance", b), ("setting", c)]) }));
                }
            }
        }
    } else {
        runs.push(json!({ "kwargs": {} }));
        for _ in 0..k {
            let (a, b, c) = (rng.pick(&sy).clone(), rng.pick(&an).clone(), rng.pick(&st).clone());
            runs.push(json!({ "kwargs": kwargs_from(&[("symprec", &a), ("angle_tolerance", &b), ("setting", &c)]) }));
        }
    }
    runs
}

fn magnetic_runs(rng: &mut Rng, k: usize, full: bool) -> Vec<Value> {
    let sy = opt_choices(&[1e-4, 1e-5], false);
    let an = opt_choices(&[1e-2], true);
    let ms = opt_choices(&[1e-4, 1e-5], true);
    let ax: Vec<Option<Value>> = vec![None, Some(json!(true)), Some(json!(false))];
    let mut runs = vec![];
    if full {
        for a in &sy {
            for b in &an {
                for c in &ms {
                    for d in &ax {
                        runs.push(json!({ "kwargs": kwargs_from(&[("symprec", a), ("angle_tolerance", b), ("mag_symprec", c), ("is_axial", d)]) }));
                    }
                }
            }
        }
    } else {
        runs.push(json!({ "kwargs": {} }));
        for _ in 0..k {
            let (a, b, c, d) = (rng.pick(&sy).clone(), rng.pick(&an).clone(), rng.pick(&ms).clone(), rng.pick(&ax).clone());
            runs.push(json!({ "kwargs": kwargs_from(&[("symprec", &a), ("angle_tolerance", &b), ("mag_symprec", &c), ("is_axial", &d)]) }));
        }
    }
    runs
}

fn pick_hall(i: usize, rng: &mut Rng) -> i32 {
    // fixed seeds of every family first, then weighted random
    const FIRST: [i32; 24] = [
        1, 2, 3, 9, 63, 90, 108, 122, 227, 334, 349, 430, 433, 434, 435, 444, 447, 454, 458, 462, 468, 471, 485, 489,
    ];
    if i < FIRST.len() {
        return FIRST[i];
    }
    let r = rng.unit();
    (if r < 0.4 {
        rng.range(430, 488) // trigonal / rhombohedral / hexagonal: non-symmetric rotation matrices
    } else if r < 0.6 {
        rng.range(3, 107) // monoclinic, all axis settings and cell choices
    } else {
        rng.range(1, 530)
    }) as i32
}

fn order_of(h: i32) -> usize {
    conv_ops(h).len()
}

fn gen(tier: &str, seed: u64, out: &str) {
    let thorough = tier == "thorough";
    let (n_cell, n_col, n_ncol, k) = if thorough { (1800, 600, 600, 8) } else { (90, 30, 30, 5) };
    let max_order = if thorough { 192 } else { 48 };
    let mut rng = Rng::new(seed ^ 0xC20);
    let f = std::fs::File::create(out).expect("create");
    let mut w = std::io::BufWriter::new(f);
    let mut emit = |mut case: Value| {
        eval_case(&mut case);
        writeln!(w, "{}", serde_json::to_string(&case).unwrap()).unwrap();
    };

    // tables (exhaustive in both tiers)
    emit(json!({"id": "hall_entries", "kind": "hall_entries"}));
    emit(json!({"id": "space_group_types", "kind": "space_group_types"}));
    emit(json!({"id": "magnetic_space_group_types", "kind": "magnetic_space_group_types"}));
    {
        let mut runs = vec![];
        for n in 1..=230 {
            for s in [None, Some(Value::Null), Some(json!("spglib")), Some(json!("standard"))] {
                runs.push(json!({"number": n, "kwargs": kwargs_from(&[("setting", &s)])}));
            }
        }
        for h in 1..=530 {
            let n = hall_symbol_entry(h).unwrap().number;
            runs.push(json!({"number": n, "kwargs": {"setting": {"hall_number": h}}}));
        }
        emit(json!({"id": "operations_from_number", "kind": "operations_from_number", "runs": runs}));
    }

    // non-magnetic crystals
    let n_full = if thorough { 10 } else { 2 };
    let mut fulls = 0;
    let mut i = 0;
    let mut made = 0;
    while made < n_cell {
        let h = pick_hall(i, &mut rng);
        i += 1;
        let order = order_of(h);
        if order > max_order && !(thorough && rng.chance(0.3)) {
            continue;
        }
        let norb = if order > 24 { 1 } else { rng.range(1, 2) as usize };
        let mut g = crystal(h, &mut rng, norb);
        redescribe(&mut g, &mut rng);
        let full = fulls < n_full && g.positions.len() <= 12;
        if full {
            fulls += 1;
        }
        let runs = dataset_runs(h, &mut rng, k, full);
        emit(json!({"id": format!("cell-{}", made), "kind": "cell", "desc": g.desc, "input": input_json(&g, "cell"), "runs": runs}));
        made += 1;
    }
    // magnetic crystals
    for (kind, count) in [("collinear", n_col), ("noncollinear", n_ncol)] {
        let mut made = 0;
        let mut fulls = 0;
        while made < count {
            let u = rng.range(1, 1651) as i32;
            let mhs = MagneticHallSymbol::from_uni_number(u).unwrap();
            let order = mhs.traverse().len() * (1 + mhs.centering_translations.len());
            if order > max_order {
                continue;
            }
            let norb = if order > 24 { 1 } else { rng.range(1, 2) as usize };
            let mut g = magnetic_crystal(u, &mut rng, norb);
            redescribe(&mut g, &mut rng);
            let full = fulls < n_full && g.positions.len() <= 12 && g.positions.len() >= 2;
            if full {
                fulls += 1;
            }
            let runs = magnetic_runs(&mut rng, k, full);
            emit(json!({"id": format!("{}-{}", kind, made), "kind": kind, "desc": g.desc, "input": input_json(&g, kind), "runs": runs}));
            made += 1;
        }
    }
    w.flush().unwrap();
}

fn reeval(infile: &str, outfile: &str) {
    let f = std::fs::File::open(infile).expect("open");
    let mut w = std::io::BufWriter::new(std::fs::File::create(outfile).expect("create"));
    for line in std::io::BufReader::new(f).lines() {
        let line = line.unwrap();
        if line.trim().is_empty() {
            continue;
        }
        let mut case: Value = serde_json::from_str(&line).expect("json");
        eval_case(&mut case);
        writeln!(w, "{}", serde_json::to_string(&case).unwrap()).unwrap();
    }
    w.flush().unwrap();
}

// ------------------------------------------------------------------------------------------------
// validation of the Lean storage model (Moyo/Model/Bindings.lean) against nalgebra itself

fn flat3(a: &[[i32; 3]; 3]) -> String {
    a.iter().flat_map(|r| r.iter().map(|x| x.to_string())).collect::<Vec<_>>().join(" ")
}

fn model_cases(count: usize, seed: u64, out: &str) {
    let mut rng = Rng::new(seed ^ 0xC20C20);
    let mut w = CaseWriter::create(out);
    for _ in 0..count {
        let m = Matrix3::<i32>::from_fn(|_, _| rng.range(-9, 9) as i32);
        let slice = m.as_slice().iter().map(|x| x.to_string()).collect::<Vec<_>>().join(" ");
        let a: [[i32; 3]; 3] = m.transpose().into();
        w.case(&format!("c20conv transpose_into {}", slice), &flat3(&a));
        let b: [[i32; 3]; 3] = *m.transpose().as_ref();
        w.case(&format!("c20conv map_deref_transpose_as_ref {}", slice), &flat3(&b));
        let c: [[i32; 3]; 3] = *m.as_ref();
        w.case(&format!("c20conv deref_as_ref {}", slice), &flat3(&c));
        let d: [[i32; 3]; 3] = m.into();
        w.case(&format!("c20conv into {}", slice), &flat3(&d));
        let (i, j) = (rng.range(0, 2) as usize, rng.range(0, 2) as usize);
        w.case(&format!("c20get {} {} {}", i, j, slice), &m[(i, j)].to_string());
        // Lattice::from_basis on the same entries read as three row vectors
        let rows = [[m[(0, 0)] as f64, m[(0, 1)] as f64, m[(0, 2)] as f64], [m[(1, 0)] as f64, m[(1, 1)] as f64, m[(1, 2)] as f64], [m[(2, 0)] as f64, m[(2, 1)] as f64, m[(2, 2)] as f64]];
        let l = Lattice::from_basis(rows);
        let stored = l.basis.as_slice().iter().map(|x| (*x as i64).to_string()).collect::<Vec<_>>().join(" ");
        let back: [[f64; 3]; 3] = *l.basis.as_ref();
        let back = back.iter().flat_map(|r| r.iter().map(|x| (*x as i64).to_string())).collect::<Vec<_>>().join(" ");
        let req = rows.iter().flat_map(|r| r.iter().map(|x| (*x as i64).to_string())).collect::<Vec<_>>().join(" ");
        w.case(&format!("c20frombasis {}", req), &format!("{} ; {}", stored, back));
    }
    w.finish();
}
