//! C14: lattice reductions.  Generates bases (random, all 14 Bravais types incl. ties, elongated,
//! integer-valued, unimodular re-basings), calls `Lattice::{minkowski,niggli,delaunay}_reduce` (public
//! API) and the raw `moyo::verif::math::*` functions in-process, and writes request lines for the Lean
//! model / oracles (`Moyo/Model/DriverC14.lean`) as `request ||| expected ||| tag`.
use crate::util::*;
use moyo::base::Lattice;
use moyo::verif::math as vm;
use nalgebra::{Matrix3, Vector3};

type M = Matrix3<f64>;
type MI = Matrix3<i32>;

/// row-major exact floats
pub fn mfx(m: &M) -> String {
    let mut v = vec![];
    for i in 0..3 {
        for j in 0..3 {
            v.push(fx(m[(i, j)]));
        }
    }
    v.join(" ")
}

pub fn mint(m: &MI) -> String {
    let mut v = vec![];
    for i in 0..3 {
        for j in 0..3 {
            v.push(m[(i, j)] as i64);
        }
    }
    ints(v)
}

#[derive(Clone, Copy, PartialEq)]
pub enum Alg {
    Mink,
    Nig,
    Del,
}
impl Alg {
    fn name(self) -> &'static str {
        match self {
            Alg::Mink => "mink",
            Alg::Nig => "nig",
            Alg::Del => "del",
        }
    }
    fn parse(s: &str) -> Alg {
        match s {
            "mink" => Alg::Mink,
            "nig" => Alg::Nig,
            _ => Alg::Del,
        }
    }
}

/// raw reduction (crate-private function through the verif hook)
fn raw(alg: Alg, b: &M) -> Result<(M, MI), String> {
    let b = *b;
    catch(move || match alg {
        Alg::Mink => vm::minkowski_reduce(&b),
        Alg::Nig => vm::niggli_reduce(&b),
        Alg::Del => vm::delaunay_reduce(&b),
    })
}

/// public API: Ok((reduced, T)) / Err(kind) ; outer Err = panic
fn api(alg: Alg, b: &M) -> Result<Result<(M, MI), String>, String> {
    let b = *b;
    catch(move || {
        let lat = Lattice { basis: b };
        let r = match alg {
            Alg::Mink => lat.minkowski_reduce(),
            Alg::Nig => lat.niggli_reduce(),
            Alg::Del => lat.delaunay_reduce(),
        };
        match r {
            Ok((l, t)) => Ok((l.basis, t)),
            Err(e) => Err(format!("{:?}", e)),
        }
    })
}

fn is_reduced(alg: Alg, b: &M) -> String {
    let b = *b;
    match catch(move || match alg {
        Alg::Mink => Lattice { basis: b }.is_minkowski_reduced(),
        _ => Lattice { basis: b }.is_niggli_reduced(),
    }) {
        Ok(true) => "1".into(),
        Ok(false) => "0".into(),
        Err(m) => format!("PANIC {}", m),
    }
}

/// Expected answer for `c14 <alg> <B>`:  `T(raw) | Ok|Err(kind)|PANIC | reduced(raw)`
pub fn expected_reduce(alg: Alg, b: &M) -> (String, Option<(M, MI)>) {
    let r = raw(alg, b);
    let a = api(alg, b);
    match (r, a) {
        (Ok((red, t)), Ok(Ok((red2, t2)))) => {
            let same = t == t2 && red == red2;
            (
                format!("{} | {}", mint(&t), if same { "Ok" } else { "API-DIFFERS-FROM-RAW" }),
                Some((red2, t2)),
            )
        }
        (Ok((_, t)), Ok(Err(kind))) => (format!("{} | Err({})", mint(&t), kind), None),
        (Err(m), _) => (format!("PANIC {}", m), None),
        (_, Err(m)) => (format!("PANIC {}", m), None),
    }
}

// ------------------------------------------------------------------------------------------------
// generators

fn det(m: &M) -> f64 {
    m.determinant()
}

fn random_rotation(rng: &mut Rng) -> M {
    // uniform random unit quaternion
    let (mut w, mut x, mut y, mut z);
    loop {
        w = rng.normal();
        x = rng.normal();
        y = rng.normal();
        z = rng.normal();
        let n = (w * w + x * x + y * y + z * z).sqrt();
        if n > 1e-6 {
            w /= n;
            x /= n;
            y /= n;
            z /= n;
            break;
        }
    }
    M::new(
        1.0 - 2.0 * (y * y + z * z),
        2.0 * (x * y - z * w),
        2.0 * (x * z + y * w),
        2.0 * (x * y + z * w),
        1.0 - 2.0 * (x * x + z * z),
        2.0 * (y * z - x * w),
        2.0 * (x * z - y * w),
        2.0 * (y * z + x * w),
        1.0 - 2.0 * (x * x + y * y),
    )
}

/// random unimodular matrix (det +1): word in elementary shears, entries growing up to `bound`
pub fn random_unimodular(rng: &mut Rng, bound: i32) -> MI {
    let mut u = MI::identity();
    let steps = rng.range(1, 14);
    for _ in 0..steps {
        let i = rng.range(0, 2) as usize;
        let mut j = rng.range(0, 2) as usize;
        if i == j {
            j = (j + 1) % 3;
        }
        let s = if rng.chance(0.5) { 1 } else { -1 };
        let mut v = u;
        for r in 0..3 {
            v[(r, j)] += s * u[(r, i)];
        }
        if v.iter().all(|e| e.abs() <= bound) {
            u = v;
        }
    }
    u
}

const BRAVAIS: [&str; 14] = ["aP", "mP", "mS", "oP", "oS", "oI", "oF", "tP", "tI", "hR", "hP", "cP", "cI", "cF"];

/// Twice the centring matrix (integer): primitive = conventional * P / 2.
fn centring2(c: char) -> MI {
    match c {
        'I' => MI::new(-1, 1, 1, 1, -1, 1, 1, 1, -1),
        'F' => MI::new(0, 1, 1, 1, 0, 1, 1, 1, 0),
        'S' => MI::new(1, 1, 0, -1, 1, 0, 0, 0, 2),
        _ => MI::new(2, 0, 0, 0, 2, 0, 0, 0, 2),
    }
}

/// Integer-valued primitive basis of the given Bravais type (columns = vectors), with small parameters
/// so that ties (equal lengths, special axial ratios) are frequent.  `elong`: multiply one axis.
fn bravais_int(rng: &mut Rng, ty: &str, elong: i64) -> M {
    let p = |rng: &mut Rng| rng.range(1, 6) as f64;
    let fam = ty.chars().next().unwrap();
    let cen = ty.chars().nth(1).unwrap();
    // conventional cell with *even* entries so that centring keeps integers
    let conv: M = match fam {
        'c' => {
            let a = 2.0 * p(rng);
            M::new(a, 0., 0., 0., a, 0., 0., 0., a)
        }
        't' => {
            let a = 2.0 * p(rng);
            let c = 2.0 * p(rng) * elong as f64;
            M::new(a, 0., 0., 0., a, 0., 0., 0., c)
        }
        'o' => {
            let a = 2.0 * p(rng);
            let b = 2.0 * p(rng);
            let c = 2.0 * p(rng) * elong as f64;
            M::new(a, 0., 0., 0., b, 0., 0., 0., c)
        }
        'h' => {
            if cen == 'R' {
                // rhombohedral primitive (p,q,q),(q,p,q),(q,q,p)
                let mut a;
                let mut b;
                loop {
                    a = rng.range(-6, 6) as f64 * if elong > 1 { elong as f64 } else { 1.0 };
                    b = rng.range(-6, 6) as f64 * if elong > 1 { elong as f64 } else { 1.0 } + if elong > 1 { 1.0 } else { 0.0 };
                    if a != b && a + 2.0 * b != 0.0 {
                        break;
                    }
                }
                return M::new(a, b, b, b, a, b, b, b, a);
            }
            let k = p(rng);
            let m = p(rng) * elong as f64;
            // a1=(k,-k,0), a2=(0,k,-k) (120 degrees), a3=(m,m,m)
            return M::new(k, 0., m, -k, k, m, 0., -k, m);
        }
        'm' => {
            let a = 2.0 * p(rng);
            let b = 2.0 * p(rng) * elong as f64;
            let cx = 2.0 * rng.range(-3, 3) as f64;
            let cz = 2.0 * p(rng);
            M::new(a, 0., cx, 0., b, 0., 0., 0., cz)
        }
        _ => loop {
            let m = M::from_fn(|_, _| rng.range(-6, 6) as f64);
            if det(&m).abs() > 0.5 {
                let mut m2 = m;
                for r in 0..3 {
                    m2[(r, 2)] *= elong as f64;
                }
                return m2;
            }
        },
    };
    let c2 = centring2(cen).map(|e| e as f64);
    (conv * c2) / 2.0
}

/// Real-valued primitive basis of the given Bravais type; with probability 1/2 rotated rigidly.
fn bravais_float(rng: &mut Rng, ty: &str, elong: f64) -> M {
    let fam = ty.chars().next().unwrap();
    let cen = ty.chars().nth(1).unwrap();
    let len = |rng: &mut Rng| rng.uniform(2.0, 9.0);
    let conv: M = match fam {
        'c' => {
            let a = len(rng);
            M::new(a, 0., 0., 0., a, 0., 0., 0., a)
        }
        't' => {
            let a = len(rng);
            let c = if rng.chance(0.2) { a * 2f64.sqrt() } else { len(rng) * elong };
            M::new(a, 0., 0., 0., a, 0., 0., 0., c)
        }
        'o' => {
            let a = len(rng);
            let b = len(rng);
            let c = len(rng) * elong;
            M::new(a, 0., 0., 0., b, 0., 0., 0., c)
        }
        'h' => {
            if cen == 'R' {
                let a = len(rng);
                let al: f64 = if rng.chance(0.2) {
                    *rng.pick(&[60.0f64, 90.0, 109.47122063449069])
                } else {
                    rng.uniform(20.0, 115.0)
                };
                let ca = al.to_radians().cos();
                // primitive rhombohedral vectors with equal lengths a and mutual angle al
                let g = M::new(1., ca, ca, ca, 1., ca, ca, ca, 1.) * (a * a);
                match g.cholesky() {
                    Some(ch) => ch.l().transpose(),
                    None => M::identity() * a,
                }
            } else {
                let a = len(rng);
                let c = len(rng) * elong;
                M::new(a, -a / 2.0, 0., 0., a * 3f64.sqrt() / 2.0, 0., 0., 0., c)
            }
        }
        'm' => {
            let a = len(rng);
            let b = len(rng) * elong;
            let c = len(rng);
            let be = rng.uniform(91.0, 130.0f64).to_radians();
            M::new(a, 0., c * be.cos(), 0., b, 0., 0., 0., c * be.sin())
        }
        _ => loop {
            let m = M::from_fn(|_, _| rng.uniform(-5.0, 5.0));
            if det(&m).abs() > 1.0 {
                let mut m2 = m;
                for r in 0..3 {
                    m2[(r, 2)] *= elong;
                }
                break m2;
            }
        },
    };
    let prim = if fam == 'h' && cen == 'R' { conv } else { (conv * centring2(cen).map(|e| e as f64)) / 2.0 };
    if rng.chance(0.5) {
        random_rotation(rng) * prim
    } else {
        prim
    }
}

fn random_int(rng: &mut Rng) -> M {
    loop {
        let m = M::from_fn(|_, _| rng.range(-127, 127) as f64);
        if det(&m).abs() > 0.5 {
            return m;
        }
    }
}

fn random_float(rng: &mut Rng) -> M {
    loop {
        let m = M::from_fn(|_, _| rng.uniform(-1.0, 1.0));
        if det(&m).abs() > 1e-3 {
            return m * rng.uniform(0.5, 20.0);
        }
    }
}

/// One base lattice: (tag, basis).
fn base_lattice(rng: &mut Rng, k: usize) -> (String, M) {
    match k % 8 {
        0 => ("int-rand".into(), random_int(rng)),
        1 => ("float-rand".into(), random_float(rng)),
        2 | 3 => {
            let ty = BRAVAIS[(k / 8 + (k % 8 - 2) * 7) % 14];
            (format!("int-{}", ty), bravais_int(rng, ty, 1))
        }
        4 | 5 => {
            let ty = BRAVAIS[(k / 8 + (k % 8 - 4) * 7) % 14];
            (format!("float-{}", ty), bravais_float(rng, ty, 1.0))
        }
        6 => {
            let ty = BRAVAIS[(k / 8) % 14];
            let e = *rng.pick(&[10i64, 100, 1000]);
            (format!("int-elong{}-{}", e, ty), bravais_int(rng, ty, e))
        }
        _ => {
            let ty = BRAVAIS[(k / 8) % 14];
            let e = 10f64.powf(rng.uniform(1.0, 3.0));
            (format!("float-elong-{}", ty), bravais_float(rng, ty, e))
        }
    }
}


// ------------------------------------------------------------------------------------------------
// Branch-directed Niggli stream: an exact i64 replica of the step conditions of niggli.rs, used ONLY to
// select integer-valued bases whose run passes through a given branch (coverage is measured by the Lean
// model, not by this function).  For integers `x > EPS` is `x >= 1`, `|x| < EPS` is `x == 0`.

type I3 = [[i64; 3]; 3];

fn imul(a: &I3, b: &I3) -> I3 {
    let mut c = [[0i64; 3]; 3];
    for i in 0..3 {
        for j in 0..3 {
            for k in 0..3 {
                c[i][j] += a[i][k] * b[k][j];
            }
        }
    }
    c
}

fn igram(b: &I3) -> I3 {
    let mut g = [[0i64; 3]; 3];
    for i in 0..3 {
        for j in 0..3 {
            for k in 0..3 {
                g[i][j] += b[k][i] * b[k][j];
            }
        }
    }
    g
}

fn idet(m: &I3) -> i64 {
    m[0][0] * (m[1][1] * m[2][2] - m[1][2] * m[2][1]) - m[0][1] * (m[1][0] * m[2][2] - m[1][2] * m[2][0])
        + m[0][2] * (m[1][0] * m[2][1] - m[1][1] * m[2][0])
}

/// Branch codes `10*step + j` exactly as `niggliBranch` in Moyo/Model/Reduce.lean.
fn niggli_sim(b0: &I3) -> Option<(std::collections::BTreeSet<u32>, I3)> {
    let sg = |x: i64| x.signum();
    let mut t: I3 = [[1, 0, 0], [0, 1, 0], [0, 0, 1]];
    let mut seen = std::collections::HashSet::new();
    let mut codes = std::collections::BTreeSet::new();
    let mut step = 1u32;
    let mut iters = 0;
    while step <= 8 {
        iters += 1;
        if iters > 3000 {
            return None;
        }
        let g = igram(&imul(b0, &t));
        let (a, b, c) = (g[0][0], g[1][1], g[2][2]);
        let (xi, eta, zeta) = (2 * g[1][2], 2 * g[0][2], 2 * g[0][1]);
        let (sx, sy, sz) = (sg(xi), sg(eta), sg(zeta));
        let two = |d: i64, sec: bool| if d > 0 { 1 } else if d == 0 { if sec { 2 } else { 3 } } else { 0 };
        let three = |m: i64, bnd: i64, sec1: i64, sec2: i64| {
            if m.abs() - bnd > 0 {
                1
            } else if m - bnd == 0 {
                if sec1 > 0 { 2 } else if m + bnd == 0 && sec2 > 0 { 4 } else { 3 }
            } else if m + bnd == 0 {
                if sec2 > 0 { 4 } else { 5 }
            } else {
                0
            }
        };
        let id: I3 = [[1, 0, 0], [0, 1, 0], [0, 0, 1]];
        let (j, fired, m): (u32, bool, I3) = match step {
            1 => {
                let j = two(a - b, xi.abs() > eta.abs());
                (j, j == 1 || j == 2, [[0, -1, 0], [-1, 0, 0], [0, 0, -1]])
            }
            2 => {
                let j = two(b - c, eta.abs() > zeta.abs());
                (j, j == 1 || j == 2, [[-1, 0, 0], [0, 0, -1], [0, -1, 0]])
            }
            3 => {
                if sx * sy * sz > 0 {
                    let f = |s: i64| if s == -1 { -1 } else { 1 };
                    (1, true, [[f(sx), 0, 0], [0, f(sy), 0], [0, 0, f(sz)]])
                } else {
                    (0, false, id)
                }
            }
            4 => {
                if sx == -1 && sy == -1 && sz == -1 {
                    (0, false, id)
                } else if sx * sy * sz <= 0 {
                    let mut i = if sx == 1 { -1 } else { 1 };
                    let mut jj = if sy == 1 { -1 } else { 1 };
                    let mut k = if sz == 1 { -1 } else { 1 };
                    let mut code = 1;
                    if i * jj * k == -1 {
                        if sz == 0 {
                            k = -1;
                            code = 4;
                        } else if sy == 0 {
                            jj = -1;
                            code = 3;
                        } else {
                            i = -1;
                            code = 2;
                        }
                    }
                    (code, true, [[i, 0, 0], [0, jj, 0], [0, 0, k]])
                } else {
                    (5, false, id)
                }
            }
            5 => {
                let j = three(xi, b, zeta - 2 * eta, -zeta);
                (j, j == 1 || j == 2 || j == 4, [[1, 0, 0], [0, 1, -sx], [0, 0, 1]])
            }
            6 => {
                let j = three(eta, a, zeta - 2 * xi, -zeta);
                (j, j == 1 || j == 2 || j == 4, [[1, 0, -sy], [0, 1, 0], [0, 0, 1]])
            }
            7 => {
                let j = three(zeta, a, eta - 2 * xi, -eta);
                (j, j == 1 || j == 2 || j == 4, [[1, -sz, 0], [0, 1, 0], [0, 0, 1]])
            }
            _ => {
                let sum = xi + eta + zeta + a + b;
                let j = if sum < 0 { 1 } else if sum == 0 { if 2 * (a + eta) + zeta > 0 { 2 } else { 3 } } else { 0 };
                (j, j == 1 || j == 2, [[1, 0, 1], [0, 1, 1], [0, 0, 1]])
            }
        };
        codes.insert(10 * step + j);
        if fired {
            t = imul(&t, &m);
        }
        if fired && (step == 2 || step >= 5) {
            step = 1;
        } else {
            step += 1;
        }
        if step == 1 && !seen.insert(t) {
            break;
        }
    }
    Some((codes, igram(&imul(b0, &t))))
}

/// Number of integer automorphisms with entries in {-1,0,1} of the quadratic form `g`
/// (2 = only +-identity: no symmetry can relate two candidate cells).
fn aut_order(g: &I3) -> usize {
    let mut cols: Vec<Vec<[i64; 3]>> = vec![vec![], vec![], vec![]];
    for x in -1..=1i64 {
        for y in -1..=1i64 {
            for z in -1..=1i64 {
                let v = [x, y, z];
                let mut q = 0;
                for i in 0..3 {
                    for j in 0..3 {
                        q += v[i] * g[i][j] * v[j];
                    }
                }
                for j in 0..3 {
                    if q == g[j][j] {
                        cols[j].push(v);
                    }
                }
            }
        }
    }
    let dot = |u: &[i64; 3], v: &[i64; 3]| {
        let mut q = 0;
        for i in 0..3 {
            for j in 0..3 {
                q += u[i] * g[i][j] * v[j];
            }
        }
        q
    };
    let mut n = 0;
    for u in &cols[0] {
        for v in &cols[1] {
            if dot(u, v) != g[0][1] {
                continue;
            }
            for w in &cols[2] {
                if dot(u, w) == g[0][2] && dot(v, w) == g[1][2] {
                    let m: I3 = [[u[0], v[0], w[0]], [u[1], v[1], w[1]], [u[2], v[2], w[2]]];
                    if idet(&m).abs() == 1 {
                        n += 1;
                    }
                }
            }
        }
    }
    n
}

/// Every branch of every Niggli step that changes or could change the result (codes of `niggliBranch`).
pub const NIGGLI_BRANCHES: [u32; 30] = [
    11, 12, 13, 21, 22, 23, 31, 41, 42, 43, 44, 51, 52, 53, 54, 55, 61, 62, 63, 64, 65, 71, 72, 73, 74, 75, 81, 82, 83,
    40,
];

/// Select small integer-valued bases (|entries| <= 8: every f64 operation on the metric is exact) whose
/// Niggli run passes through each branch, preferring lattices without symmetry (`aut = 2`).
fn niggli_branch_bases(rng: &mut Rng, quota: usize, trials: usize) -> Vec<(String, M)> {
    let mut asym = std::collections::HashMap::<u32, usize>::new();
    let mut sym = std::collections::HashMap::<u32, usize>::new();
    let mut out = vec![];
    for _ in 0..trials {
        let bound = *rng.pick(&[2i64, 3, 4, 6, 8]);
        let mut b: I3 = [[0; 3]; 3];
        for i in 0..3 {
            for j in 0..3 {
                b[i][j] = rng.range(-bound, bound);
            }
        }
        if idet(&b) == 0 {
            continue;
        }
        let (codes, gred) = match niggli_sim(&b) {
            Some(x) => x,
            None => continue,
        };
        let want_a: Vec<u32> =
            codes.iter().cloned().filter(|c| NIGGLI_BRANCHES.contains(c) && *asym.get(c).unwrap_or(&0) < quota).collect();
        if want_a.is_empty() {
            continue;
        }
        let is_asym = aut_order(&gred) == 2;
        let want: Vec<u32> = if is_asym {
            want_a
        } else {
            want_a.into_iter().filter(|c| *sym.get(c).unwrap_or(&0) < 2).collect()
        };
        if want.is_empty() {
            continue;
        }
        for c in codes.iter() {
            *(if is_asym { &mut asym } else { &mut sym }).entry(*c).or_insert(0) += 1;
        }
        let m = M::from_fn(|i, j| b[i][j] as f64);
        out.push((format!("nigbr-{}-{}", if is_asym { "asym" } else { "sym" }, want[0]), m));
        if NIGGLI_BRANCHES.iter().all(|c| *asym.get(c).unwrap_or(&0) >= quota) {
            break;
        }
    }
    out
}

// ------------------------------------------------------------------------------------------------
// case emission

struct Out {
    w: CaseWriter,
    bases: usize,
}

impl Out {
    fn line(&mut self, req: &str, exp: &str, tag: &str) {
        self.w.case(req, &format!("{} ||| {}", exp, tag));
    }
}

/// All requests for one basis; returns the Niggli-reduced basis when the API accepted it.
fn emit_basis(o: &mut Out, tag: &str, b: &M) -> Option<M> {
    emit_basis_opt(o, tag, b, true)
}

fn emit_basis_opt(o: &mut Out, tag: &str, b: &M, _all: bool) -> Option<M> {
    o.bases += 1;
    let bs = mfx(b);
    let mut nig = None;
    for alg in [Alg::Mink, Alg::Nig, Alg::Del] {
        let (exp, okres) = expected_reduce(alg, b);
        o.line(&format!("c14 {} {}", alg.name(), bs), &exp, tag);
        if let Some((red, t)) = okres {
            o.line(&format!("c14-check {} {} ; {} ; {}", alg.name(), bs, mint(&t), mfx(&red)), "holds", tag);
            if alg != Alg::Del {
                o.line(&format!("c14-isred {} {}", alg.name(), mfx(&red)), &is_reduced(alg, &red), tag);
            }
            // near-idempotence: reduce the reduced basis again
            if let Ok(Ok((red2, _))) = api(alg, &red) {
                o.line(&format!("c14-idem {} {} ; {}", alg.name(), mfx(&red), mfx(&red2)), "holds", tag);
            }
            if alg == Alg::Nig {
                nig = Some(red);
            }
        }
    }
    o.line(&format!("c14-isred mink {}", bs), &is_reduced(Alg::Mink, b), tag);
    o.line(&format!("c14-isred nig {}", bs), &is_reduced(Alg::Nig, b), tag);
    nig
}

pub fn gen(tier: &str, seed: u64, out: &str) {
    let mut rng = Rng::new(seed ^ 0xC14);
    let nbase = if tier == "thorough" { 50_000 } else { 1_500 };
    let mut o = Out { w: CaseWriter::create(out), bases: 0 };
    // hand-picked seeds: unit cube, the 1x1x10 tetragonal cell of DESIGN §7, the Rust unit tests
    let fixed: Vec<(&str, M)> = vec![
        ("fixed-cube", M::identity()),
        ("fixed-tet-1-1-10", M::new(1., 0., 0., 0., 1., 0., 0., 0., 10.)),
        ("fixed-test-small", M::new(0., 1., 1., 1., 1., 1., 0., 0., 1.)),
        ("fixed-test-big", M::new(-5., 17., -127., -10., 24., 73., 17., 12., 5.)),
        ("fixed-fcc", M::new(0., 1., 1., 1., 0., 1., 1., 1., 0.)),
        ("fixed-bcc", M::new(-1., 1., 1., 1., -1., 1., 1., 1., -1.)),
    ];
    for (tag, b) in fixed.iter() {
        emit_basis(&mut o, tag, b);
    }
    for k in 0..nbase {
        let (tag, b) = base_lattice(&mut rng, k);
        let n0 = emit_basis(&mut o, &tag, &b);
        // three unimodular re-basings of each, entries of U growing to ±6
        for r in 0..3 {
            let bound = [2, 4, 6][r];
            let u = random_unimodular(&mut rng, bound);
            let b2 = b * u.map(|e| e as f64);
            let tag2 = format!("{}+U{}", tag, bound);
            let n1 = emit_basis(&mut o, &tag2, &b2);
            if let (Some(r0), Some(r1)) = (&n0, &n1) {
                o.line(&format!("c14-pair {} ; {} ; {} ; {}", mfx(&b), mfx(&b2), mfx(r0), mfx(r1)), "holds", &tag2);
            }
        }
    }
    // branch-directed Niggli stream (exact ties of every step condition, lattices without symmetry preferred)
    let (quota, trials) = if tier == "thorough" { (60, 3_000_000) } else { (6, 400_000) };
    let mut rng2 = Rng::new(seed ^ 0xB4A9C4);
    for (tag, b) in niggli_branch_bases(&mut rng2, quota, trials) {
        let n0 = emit_basis(&mut o, &tag, &b);
        for bound in [2, 4, 6] {
            let u = random_unimodular(&mut rng2, bound);
            let b2 = b * u.map(|e| e as f64);
            let tag2 = format!("{}+U{}", tag, bound);
            let n1 = emit_basis(&mut o, &tag2, &b2);
            if let (Some(r0), Some(r1)) = (&n0, &n1) {
                o.line(&format!("c14-pair {} ; {} ; {} ; {}", mfx(&b), mfx(&b2), mfx(r0), mfx(r1)), "holds", &tag2);
            }
        }
    }
    let bases = o.bases;
    o.w.finish();
    println!("bases {}", bases);
}

/// `c14-one <alg> <9 exact floats>`: the implementation's answer for one basis (replay support).
pub fn one(alg: &str, toks: &[String]) {
    let vals: Vec<f64> = toks.iter().map(|t| parse_fx(t)).collect();
    if vals.len() != 9 {
        println!("bad-request");
        return;
    }
    let b = M::new(vals[0], vals[1], vals[2], vals[3], vals[4], vals[5], vals[6], vals[7], vals[8]);
    let a = Alg::parse(alg);
    let (exp, okres) = expected_reduce(a, &b);
    println!("{}", exp);
    if let Some((red, t)) = okres {
        println!("c14-check {} {} ; {} ; {}", alg, mfx(&b), mint(&t), mfx(&red));
    }
}

fn parse_m(toks: &[&str]) -> Option<M> {
    if toks.len() != 9 {
        return None;
    }
    let v: Vec<f64> = toks.iter().map(|t| parse_fx(t)).collect();
    Some(M::new(v[0], v[1], v[2], v[3], v[4], v[5], v[6], v[7], v[8]))
}

/// `c14-replay <request tokens…>`: re-evaluate a recorded oracle request from its *inputs* with the
/// current implementation and print the fresh request line(s) for the Lean oracle.
pub fn replay(toks: &[String]) {
    let line = toks.join(" ");
    let parts: Vec<Vec<&str>> = line.split(" ; ").map(|p| p.split_whitespace().collect()).collect();
    let head = &parts[0];
    match head[0] {
        "c14" | "c14-check" => {
            let alg = head[1];
            let b = parse_m(&head[2..11]).expect("basis");
            let (exp, okres) = expected_reduce(Alg::parse(alg), &b);
            println!("impl {}", exp);
            if let Some((red, t)) = okres {
                println!("c14-check {} {} ; {} ; {}", alg, mfx(&b), mint(&t), mfx(&red));
            }
        }
        "c14-idem" => {
            let alg = head[1];
            let r = parse_m(&head[2..11]).expect("basis");
            match api(Alg::parse(alg), &r) {
                Ok(Ok((r2, t))) => {
                    println!("impl {} | Ok", mint(&t));
                    println!("c14-idem {} {} ; {}", alg, mfx(&r), mfx(&r2));
                }
                other => println!("impl {:?}", other.map(|x| x.map(|_| ()))),
            }
        }
        "c14-pair" => {
            let b1 = parse_m(&head[1..10]).expect("basis");
            let b2 = parse_m(&parts[1]).expect("basis");
            match (api(Alg::Nig, &b1), api(Alg::Nig, &b2)) {
                (Ok(Ok((r1, t1))), Ok(Ok((r2, t2)))) => {
                    println!("impl {} | Ok ; {} | Ok", mint(&t1), mint(&t2));
                    println!("c14-pair {} ; {} ; {} ; {}", mfx(&b1), mfx(&b2), mfx(&r1), mfx(&r2));
                }
                _ => println!("impl Err-or-panic"),
            }
        }
        _ => println!("bad-request"),
    }
}

pub fn parse_fx(t: &str) -> f64 {
    if let Some((m, e)) = t.split_once('@') {
        let m: f64 = m.parse::<i64>().unwrap() as f64;
        let e: i32 = e.parse().unwrap();
        // two-step scaling to stay exact for subnormal-free ranges
        m * 2f64.powi(e / 2) * 2f64.powi(e - e / 2)
    } else {
        t.parse().unwrap()
    }
}

/// `c14-stat <n>`: statistic of DESIGN §7 — how many of n random bases give det T != 1 per algorithm.
pub fn stat(n: usize, seed: u64) {
    let mut rng = Rng::new(seed ^ 0x5747);
    let mut bad = [0usize; 3];
    let mut first: [Option<String>; 3] = [None, None, None];
    for _ in 0..n {
        let b = random_float(&mut rng);
        for (k, alg) in [Alg::Mink, Alg::Nig, Alg::Del].iter().enumerate() {
            if let Ok((_, t)) = raw(*alg, &b) {
                let d = t.map(|e| e as f64).determinant().round() as i64;
                if d != 1 {
                    bad[k] += 1;
                    if first[k].is_none() {
                        first[k] = Some(format!("{} -> T = {} det {}", mfx(&b), mint(&t), d));
                    }
                }
            }
        }
    }
    println!("det-not-one of {}: mink {} nig {} del {}", n, bad[0], bad[1], bad[2]);
    for f in first.iter().flatten() {
        println!("first: {}", f);
    }
}

pub fn dispatch(args: &[String], seed: u64) -> bool {
    match args[1].as_str() {
        // c14-gen <tier> <out>
        "c14-gen" => gen(&args[2], seed, &args[3]),
        // c14-one <alg> <9 floats>
        "c14-one" => one(&args[2], &args[3..]),
        // c14-replay <request>
        "c14-replay" => replay(&args[2..]),
        // c14-stat <n>
        "c14-stat" => stat(args[2].parse().unwrap(), seed),
        _ => return false,
    }
    true
}

#[allow(dead_code)]
fn unused(_: Vector3<f64>) {}
