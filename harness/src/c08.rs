//! C08 — G-wild: well-formed but nasty inputs for every public entry point.  The generator only
//! *writes* request lines (`c08-gen`); they are evaluated one by one in isolated child processes
//! (`moyo_harness eval`, see checks/c08.py) under an address-space limit and a per-request deadline,
//! so a hang, an allocator abort or a panic is observed from outside and the request is the replay.
//!
//! Request kinds (all floats exact, `M@E`):
//!   wds  lat <9> ; n <k> ; pos <3k> ; num <k> ; symprec <f> ; angtol default|radian <f> ; setting spglib|standard|hall <h> ; tag <family>
//!   wmag lat .. ; num .. ; symprec .. ; angtol .. ; kind collinear|noncollinear ; mom <k|3k> ; magsymprec none|<f> ; action polar|axial ; tag ..
//!   wred mink|niggli|delaunay <9 floats, row-major of the basis matrix (columns = basis vectors)>
//!   wnf  hnf|snf <m> <n> <m*n ints>
//!   wtab <lookup> <int>
//! Answers: `ok ...` | `err <MoyoError variant>` | `none` | `some ...` | `PANIC <file>:<line> <message>`,
//! followed for wds/wmag by ` ; trace <event> / <event> ...` (tolerance updates recorded by the
//! `verif::trace` hook) and for all kinds by ` ; us <microseconds>`.
use crate::c14::parse_fx;
use crate::gen::{angtol_str, crystal_unchecked, setting_str};
use crate::pipeline::cell_segments;
use crate::util::*;
use moyo::base::{
    AngleTolerance, Cell, Collinear, Lattice, MagneticCell, MoyoError, NonCollinear, RotationMagneticMomentAction,
};
use moyo::data::{
    arithmetic_crystal_class_entry, get_magnetic_space_group_type, hall_symbol_entry, magnetic_hall_symbol_entry,
    HallSymbol, MagneticHallSymbol, Setting,
};
use moyo::{MoyoDataset, MoyoMagneticDataset};
use nalgebra::{DMatrix, Matrix3, Vector3};
use std::cell::RefCell;

// ---------------------------------------------------------------------------------------------
// panic location: a hook that stays silent but remembers where the panic was raised

thread_local! {
    static LAST_PANIC_AT: RefCell<String> = const { RefCell::new(String::new()) };
}

fn install_hook() {
    static ONCE: std::sync::Once = std::sync::Once::new();
    ONCE.call_once(|| {
        std::panic::set_hook(Box::new(|info| {
            let loc = info.location().map(|l| format!("{}:{}", l.file(), l.line())).unwrap_or_else(|| "?:0".into());
            LAST_PANIC_AT.with(|p| *p.borrow_mut() = loc);
        }));
    });
}

/// catch_unwind -> Err("<file>:<line> <message>")
fn catch_at<T, F: FnOnce() -> T + std::panic::UnwindSafe>(f: F) -> Result<T, String> {
    install_hook();
    LAST_PANIC_AT.with(|p| p.borrow_mut().clear());
    match catch(f) {
        Ok(v) => Ok(v),
        Err(m) => {
            let at = LAST_PANIC_AT.with(|p| p.borrow().clone());
            Err(format!("{} {}", if at.is_empty() { "?:0".to_string() } else { at }, m))
        }
    }
}

// ---------------------------------------------------------------------------------------------
// request parsing

fn segs(req: &str) -> Vec<(String, Vec<String>)> {
    req.split(" ; ")
        .map(|s| {
            let mut it = s.split_whitespace().map(|x| x.to_string());
            let k = it.next().unwrap_or_default();
            (k, it.collect())
        })
        .collect()
}

fn seg<'a>(s: &'a [(String, Vec<String>)], key: &str) -> Option<&'a Vec<String>> {
    s.iter().find(|(k, _)| k == key).map(|(_, v)| v)
}

fn parse_cell(s: &[(String, Vec<String>)]) -> Option<Cell> {
    let lat = seg(s, "lat")?;
    let n: usize = seg(s, "n")?.first()?.parse().ok()?;
    let pos = seg(s, "pos")?;
    let num = seg(s, "num")?;
    if lat.len() != 9 || pos.len() != 3 * n || num.len() != n {
        return None;
    }
    let l: Vec<f64> = lat.iter().map(|t| parse_fx(t)).collect();
    let basis = Matrix3::new(l[0], l[1], l[2], l[3], l[4], l[5], l[6], l[7], l[8]);
    let p: Vec<f64> = pos.iter().map(|t| parse_fx(t)).collect();
    let positions = (0..n).map(|i| Vector3::new(p[3 * i], p[3 * i + 1], p[3 * i + 2])).collect();
    let numbers = num.iter().map(|t| t.parse::<i32>().unwrap()).collect();
    Some(Cell::new(Lattice { basis }, positions, numbers))
}

fn parse_angtol(v: &[String]) -> Option<AngleTolerance> {
    match v.first()?.as_str() {
        "default" => Some(AngleTolerance::Default),
        "radian" => Some(AngleTolerance::Radian(parse_fx(v.get(1)?))),
        _ => None,
    }
}

fn parse_setting(v: &[String]) -> Option<Setting> {
    match v.first()?.as_str() {
        "spglib" => Some(Setting::Spglib),
        "standard" => Some(Setting::Standard),
        "hall" => Some(Setting::HallNumber(v.get(1)?.parse().ok()?)),
        _ => None,
    }
}

fn trace_str() -> String {
    let ev = moyo::verif::trace::take();
    ev.join(" / ")
}

fn err_name(e: &MoyoError) -> String {
    format!("{:?}", e)
}

fn at_str(a: AngleTolerance) -> String {
    match a {
        AngleTolerance::Default => "default".into(),
        AngleTolerance::Radian(r) => format!("radian {}", fx(r)),
    }
}

// ---------------------------------------------------------------------------------------------
// evaluation

fn eval_wds(req: &str) -> Option<String> {
    let s = segs(req);
    let cell = parse_cell(&s)?;
    let symprec = parse_fx(seg(&s, "symprec")?.first()?);
    let at = parse_angtol(seg(&s, "angtol")?)?;
    let setting = parse_setting(seg(&s, "setting")?)?;
    let _ = moyo::verif::trace::take();
    let r = catch_at(move || MoyoDataset::new(&cell, symprec, at, setting));
    let head = match r {
        Err(m) => format!("PANIC {}", m),
        Ok(Err(e)) => format!("err {}", err_name(&e)),
        Ok(Ok(d)) => format!(
            "ok {} {} {} {} {}",
            d.number,
            d.hall_number,
            d.operations.len(),
            fx(d.symprec),
            at_str(d.angle_tolerance)
        ),
    };
    Some(format!("{} ; trace {}", head, trace_str()))
}

fn eval_wmag(req: &str) -> Option<String> {
    let s = segs(req);
    let cell = parse_cell(&s)?;
    let n = cell.num_atoms();
    let symprec = parse_fx(seg(&s, "symprec")?.first()?);
    let at = parse_angtol(seg(&s, "angtol")?)?;
    let kind = seg(&s, "kind")?.first()?.clone();
    let mom: Vec<f64> = seg(&s, "mom")?.iter().map(|t| parse_fx(t)).collect();
    let ms = match seg(&s, "magsymprec")?.first()?.as_str() {
        "none" => None,
        t => Some(parse_fx(t)),
    };
    let action = match seg(&s, "action")?.first()?.as_str() {
        "polar" => RotationMagneticMomentAction::Polar,
        "axial" => RotationMagneticMomentAction::Axial,
        _ => return None,
    };
    let _ = moyo::verif::trace::take();
    let head = if kind == "collinear" {
        if mom.len() != n {
            return None;
        }
        let mc = MagneticCell::from_cell(cell, mom.iter().map(|&m| Collinear(m)).collect());
        match catch_at(move || MoyoMagneticDataset::new(&mc, symprec, at, ms, action)) {
            Err(m) => format!("PANIC {}", m),
            Ok(Err(e)) => format!("err {}", err_name(&e)),
            Ok(Ok(d)) => format!(
                "ok {} {} {} {} {} {}",
                d.uni_number,
                d.magnetic_operations.len(),
                d.std_mag_cell.num_atoms(),
                fx(d.symprec),
                at_str(d.angle_tolerance),
                fx(d.mag_symprec)
            ),
        }
    } else if kind == "noncollinear" {
        if mom.len() != 3 * n {
            return None;
        }
        let mv = (0..n).map(|i| NonCollinear(Vector3::new(mom[3 * i], mom[3 * i + 1], mom[3 * i + 2]))).collect();
        let mc = MagneticCell::from_cell(cell, mv);
        match catch_at(move || MoyoMagneticDataset::new(&mc, symprec, at, ms, action)) {
            Err(m) => format!("PANIC {}", m),
            Ok(Err(e)) => format!("err {}", err_name(&e)),
            Ok(Ok(d)) => format!(
                "ok {} {} {} {} {} {}",
                d.uni_number,
                d.magnetic_operations.len(),
                d.std_mag_cell.num_atoms(),
                fx(d.symprec),
                at_str(d.angle_tolerance),
                fx(d.mag_symprec)
            ),
        }
    } else {
        return None;
    };
    Some(format!("{} ; trace {}", head, trace_str()))
}

fn eval_wred(toks: &[&str]) -> Option<String> {
    if toks.len() != 10 {
        return None;
    }
    let l: Vec<f64> = toks[1..].iter().map(|t| parse_fx(t)).collect();
    let basis = Matrix3::new(l[0], l[1], l[2], l[3], l[4], l[5], l[6], l[7], l[8]);
    let lat = Lattice { basis };
    let alg = toks[0].to_string();
    let r = catch_at(move || match alg.as_str() {
        "mink" => lat.minkowski_reduce().map(|(_, t)| t),
        "niggli" => lat.niggli_reduce().map(|(_, t)| t),
        _ => lat.delaunay_reduce().map(|(_, t)| t),
    });
    Some(match r {
        Err(m) => format!("PANIC {}", m),
        Ok(Err(e)) => format!("err {}", err_name(&e)),
        Ok(Ok(t)) => format!("ok {}", crate::pipeline::imat_row_major(&t)),
    })
}

fn eval_wnf(toks: &[&str]) -> Option<String> {
    if toks.len() < 3 {
        return None;
    }
    let m: usize = toks[1].parse().ok()?;
    let n: usize = toks[2].parse().ok()?;
    if toks.len() != 3 + m * n {
        return None;
    }
    let e: Vec<i32> = toks[3..].iter().map(|t| t.parse::<i32>().unwrap()).collect();
    let a = DMatrix::<i32>::from_row_slice(m, n, &e);
    // the panic location matters here, so do not go through c15's `catch`
    let kind = toks[0].to_string();
    let r = catch_at(move || {
        if kind == "hnf" {
            let h = moyo::math::HNF::new(&a);
            format!("ok {}", crate::c15::flat(&h.h))
        } else {
            let s = moyo::math::SNF::new(&a);
            format!("ok {} rank {}", crate::c15::flat(&s.d), s.rank())
        }
    });
    Some(match r {
        Ok(s) => s,
        Err(m) => format!("PANIC {}", m),
    })
}

fn opt<T>(r: Result<Option<T>, String>) -> String {
    match r {
        Ok(Some(_)) => "some".into(),
        Ok(None) => "none".into(),
        Err(m) => format!("PANIC {}", m),
    }
}

fn eval_wtab(toks: &[&str]) -> Option<String> {
    if toks.len() != 2 {
        return None;
    }
    let k: i32 = toks[1].parse().ok()?;
    Some(match toks[0] {
        "hall_symbol_entry" => opt(catch_at(move || hall_symbol_entry(k).map(|_| ()))),
        "magnetic_hall_symbol_entry" => opt(catch_at(move || magnetic_hall_symbol_entry(k).map(|_| ()))),
        "get_magnetic_space_group_type" => opt(catch_at(move || get_magnetic_space_group_type(k).map(|_| ()))),
        "arithmetic_crystal_class_entry" => opt(catch_at(move || arithmetic_crystal_class_entry(k).map(|_| ()))),
        "setting_spglib_hall_number" => opt(catch_at(move || Setting::Spglib.hall_number(k).map(|_| ()))),
        "setting_standard_hall_number" => opt(catch_at(move || Setting::Standard.hall_number(k).map(|_| ()))),
        "setting_hall_hall_number" => opt(catch_at(move || Setting::HallNumber(k).hall_number(k).map(|_| ()))),
        "setting_hall_numbers" => opt(catch_at(move || Some(Setting::HallNumber(k).hall_numbers().len()))),
        "hall_symbol_from_hall_number" => {
            opt(catch_at(move || HallSymbol::from_hall_number(k).map(|h| h.traverse().len() + h.primitive_traverse().len())))
        }
        "magnetic_hall_symbol_from_uni_number" => opt(catch_at(move || {
            MagneticHallSymbol::from_uni_number(k).map(|h| h.traverse().len() + h.primitive_traverse().len())
        })),
        _ => return None,
    })
}

/// Evaluate one request of the kinds above (None: not one of ours).
pub fn eval_request(req: &str) -> Option<String> {
    let t0 = std::time::Instant::now();
    let kind = req.split_whitespace().next()?;
    let body = || req[kind.len()..].trim_start();
    let res = match kind {
        "wds" => eval_wds(body()).or(Some("BAD-REQUEST".into())),
        "wmag" => eval_wmag(body()).or(Some("BAD-REQUEST".into())),
        "wred" => eval_wred(&body().split_whitespace().collect::<Vec<_>>()).or(Some("BAD-REQUEST".into())),
        "wnf" => eval_wnf(&body().split_whitespace().collect::<Vec<_>>()).or(Some("BAD-REQUEST".into())),
        "wtab" => eval_wtab(&body().split_whitespace().collect::<Vec<_>>()).or(Some("BAD-REQUEST".into())),
        // Hall-symbol strings with the panic location (the `hall`/`mhall` kinds of tables.rs stay as they are)
        "whall" | "wmhall" => {
            let sym = if req.len() > kind.len() { req[kind.len() + 1..].to_string() } else { String::new() };
            let mag = kind == "wmhall";
            let r = catch_at(move || {
                if mag {
                    MagneticHallSymbol::new(&sym).map(|h| (h.generators.len(), h.traverse().len(), h.primitive_traverse().len()))
                } else {
                    HallSymbol::new(&sym).map(|h| (h.generators.len(), h.traverse().len(), h.primitive_traverse().len()))
                }
            });
            Some(match r {
                Ok(Some((g, t, p))) => format!("some {} {} {}", g, t, p),
                Ok(None) => "none".into(),
                Err(m) => format!("PANIC {}", m),
            })
        }
        _ => None,
    }?;
    Some(format!("{} ; us {}", res, t0.elapsed().as_micros()))
}

// ---------------------------------------------------------------------------------------------
// generator

fn log_uniform(rng: &mut Rng, lo: f64, hi: f64) -> f64 {
    (rng.uniform(lo.ln(), hi.ln())).exp()
}

fn random_basis(rng: &mut Rng) -> Matrix3<f64> {
    // columns = basis vectors; identity + uniform(-1,1): the family in which DESIGN §7 saw the hangs
    loop {
        let b = Matrix3::<f64>::from_fn(|_, _| rng.uniform(-1.0, 1.0)) + Matrix3::identity();
        if b.determinant().abs() > 1e-3 {
            return b;
        }
    }
}

/// third vector pushed towards the plane of the first two: volume / (|a||b||c|) ~ 10^-u
fn nearly_singular(rng: &mut Rng, u: f64) -> Matrix3<f64> {
    let b = random_basis(rng);
    let a = b.column(0).into_owned();
    let bb = b.column(1).into_owned();
    let nrm = a.cross(&bb).normalize();
    let s = rng.uniform(-1.0, 1.0);
    let t = rng.uniform(-1.0, 1.0);
    let c = a * s + bb * t + nrm * (10f64.powf(-u) * (a.norm() + bb.norm()));
    let mut m = b;
    m.set_column(2, &c);
    if m.determinant() < 0.0 {
        m.set_column(2, &(-c));
    }
    m
}

fn special_basis(rng: &mut Rng) -> Matrix3<f64> {
    // high-symmetry metric, optionally perturbed at the scale of a typical symprec
    let k = rng.range(0, 5);
    let a = rng.uniform(2.0, 6.0);
    let c = rng.uniform(2.0, 9.0);
    let mut m = match k {
        0 => Matrix3::identity() * a,
        1 => Matrix3::new(a, 0.0, 0.0, 0.0, a, 0.0, 0.0, 0.0, c),
        2 => Matrix3::new(a, -a / 2.0, 0.0, 0.0, a * 3f64.sqrt() / 2.0, 0.0, 0.0, 0.0, c),
        3 => Matrix3::new(0.0, a / 2.0, a / 2.0, a / 2.0, 0.0, a / 2.0, a / 2.0, a / 2.0, 0.0),
        4 => Matrix3::new(-a / 2.0, a / 2.0, a / 2.0, a / 2.0, -a / 2.0, a / 2.0, a / 2.0, a / 2.0, -a / 2.0),
        _ => Matrix3::new(a, 0.0, 0.0, 0.0, rng.uniform(2.0, 6.0), 0.0, 0.0, 0.0, c),
    };
    if rng.chance(0.6) {
        let eps = log_uniform(rng, 1e-9, 0.3);
        m += Matrix3::<f64>::from_fn(|_, _| rng.uniform(-eps, eps));
    }
    m
}

fn symprec_wild(rng: &mut Rng) -> f64 {
    match rng.range(0, 9) {
        0 | 1 => 0.1, // the known-bad value of DESIGN §7
        2 => *rng.pick(&[1e-8, 1e-5, 1e-4, 1e-3, 1e-2, 0.05, 0.2, 0.5, 1.0, 2.0, 5.0]),
        3 | 4 => log_uniform(rng, 1e-2, 5.0),
        _ => log_uniform(rng, 1e-8, 5.0),
    }
}

fn angtol_wild(rng: &mut Rng) -> AngleTolerance {
    if rng.chance(0.6) {
        AngleTolerance::Default
    } else {
        AngleTolerance::Radian(log_uniform(rng, 1e-4, 1.0))
    }
}

fn setting_wild(rng: &mut Rng) -> Setting {
    match rng.range(0, 9) {
        0..=2 => Setting::Spglib,
        3..=5 => Setting::Standard,
        6 | 7 => Setting::HallNumber(rng.range(1, 530) as i32),
        _ => Setting::HallNumber(*rng.pick(&[-5, 0, 531, i32::MIN, i32::MAX, -1, 1000])),
    }
}

fn natoms_wild(rng: &mut Rng) -> usize {
    match rng.range(0, 9) {
        0..=4 => rng.range(1, 3) as usize,
        5..=7 => rng.range(4, 12) as usize,
        8 => rng.range(13, 40) as usize,
        _ => rng.range(41, 64) as usize,
    }
}

/// A wild cell with its family tag.
fn wild_cell(rng: &mut Rng, symprec: f64) -> (Cell, String) {
    let fam = rng.range(0, 11);
    let n = natoms_wild(rng);
    let rnd_pos = |rng: &mut Rng| Vector3::new(rng.unit(), rng.unit(), rng.unit());
    let (mut basis, mut pos, mut nums, mut tag): (Matrix3<f64>, Vec<Vector3<f64>>, Vec<i32>, String) = match fam {
        // random triclinic, few atoms of one species (the spike's family)
        0 | 1 | 2 => {
            let k = if fam == 2 { n } else { rng.range(1, 3) as usize };
            (random_basis(rng), (0..k).map(|_| rnd_pos(rng)).collect(), vec![1; k], "triclinic".into())
        }
        // nearly singular
        3 => {
            let u = rng.uniform(1.0, 6.0);
            (nearly_singular(rng, u), (0..n).map(|_| rnd_pos(rng)).collect(), (0..n).map(|_| rng.range(1, 3) as i32).collect(), "singular".into())
        }
        // pairs closer than symprec / coincident atoms of different or equal species
        4 | 5 => {
            let b = if rng.chance(0.5) { random_basis(rng) } else { special_basis(rng) };
            let mut p: Vec<Vector3<f64>> = vec![];
            let mut z = vec![];
            let k = std::cmp::max(1, n / 2);
            for _ in 0..k {
                let x = rnd_pos(rng);
                p.push(x);
                z.push(rng.range(1, 2) as i32);
                let d = match rng.range(0, 2) {
                    0 => 0.0,
                    1 => symprec * rng.uniform(0.0, 1.0) / 4.0,
                    _ => symprec * rng.uniform(0.5, 3.0) / 4.0,
                };
                let dir = Vector3::new(rng.normal(), rng.normal(), rng.normal()).normalize() * d;
                let df = b.try_inverse().map(|inv| inv * dir).unwrap_or_else(Vector3::zeros);
                p.push(x + df);
                let zl = *z.last().unwrap();
                z.push(if rng.chance(0.5) { zl } else { rng.range(1, 3) as i32 });
            }
            (b, p, z, "closepairs".into())
        }
        // high-symmetry lattice (possibly perturbed), atoms on special and generic positions
        6 | 7 => {
            let b = special_basis(rng);
            let special = [0.0, 0.5, 0.25, 0.75, 1.0 / 3.0, 2.0 / 3.0, 0.125];
            let p: Vec<Vector3<f64>> = (0..n)
                .map(|_| {
                    if rng.chance(0.7) {
                        Vector3::new(*rng.pick(&special), *rng.pick(&special), *rng.pick(&special))
                    } else {
                        rnd_pos(rng)
                    }
                })
                .collect();
            let z = (0..n).map(|_| rng.range(1, 2) as i32).collect();
            (b, p, z, "special".into())
        }
        // crystal generated from a Hall number (symmetric by construction), optionally noisy
        8 | 9 => {
            let h = rng.range(1, 530) as i32;
            let norb = rng.range(1, 2) as usize;
            let c = crystal_unchecked(h, rng, norb).cell;
            (c.lattice.basis, c.positions, c.numbers, format!("hall{}", h))
        }
        // supercell of a small random cell, atoms displaced by about symprec
        _ => {
            let b0 = if rng.chance(0.5) { random_basis(rng) } else { special_basis(rng) };
            let m = [rng.range(1, 3), rng.range(1, 3), rng.range(1, 2)];
            let base: Vec<Vector3<f64>> = (0..rng.range(1, 2)).map(|_| rnd_pos(rng)).collect();
            let mut p = vec![];
            let mut z = vec![];
            for i in 0..m[0] {
                for j in 0..m[1] {
                    for k in 0..m[2] {
                        for (s, x) in base.iter().enumerate() {
                            p.push(Vector3::new((x[0] + i as f64) / m[0] as f64, (x[1] + j as f64) / m[1] as f64, (x[2] + k as f64) / m[2] as f64));
                            z.push(s as i32 + 1);
                        }
                    }
                }
            }
            let b = b0 * Matrix3::from_diagonal(&Vector3::new(m[0] as f64, m[1] as f64, m[2] as f64));
            (b, p, z, "supercell".into())
        }
    };
    // displacement noise comparable to symprec
    if rng.chance(0.4) {
        let r = symprec * log_uniform(rng, 1e-3, 3.0);
        if let Some(inv) = basis.try_inverse() {
            for x in pos.iter_mut() {
                let d = Vector3::new(rng.normal(), rng.normal(), rng.normal()).normalize() * (r * rng.unit());
                *x += inv * d;
            }
            tag.push_str("+noise");
        }
    }
    // unimodular re-basing (makes the input basis far from reduced)
    if rng.chance(0.3) {
        let u = crate::gen::random_unimodular(rng, 6, 6).map(|e| e as f64);
        if let Some(ui) = u.try_inverse() {
            basis *= u;
            for x in pos.iter_mut() {
                *x = ui * *x;
            }
            tag.push_str("+rebased");
        }
    }
    // coordinates outside [0,1)
    if rng.chance(0.2) {
        for x in pos.iter_mut() {
            *x += Vector3::new(rng.range(-3, 3) as f64, rng.range(-3, 3) as f64, rng.range(-3, 3) as f64);
        }
    }
    if rng.chance(0.15) {
        nums = nums.iter().map(|&z| if rng.chance(0.3) { -z } else { z * 100_000 }).collect();
    }
    if pos.is_empty() {
        pos.push(Vector3::zeros());
        nums.push(1);
    }
    (Cell::new(Lattice { basis }, pos, nums), tag)
}

fn scaled(cell: &Cell, s: f64) -> Cell {
    Cell::new(Lattice { basis: cell.lattice.basis * s }, cell.positions.clone(), cell.numbers.clone())
}

fn wds_line(cell: &Cell, symprec: f64, at: AngleTolerance, st: Setting, tag: &str) -> String {
    format!(
        "wds {} ; symprec {} ; angtol {} ; setting {} ; tag {}",
        cell_segments("", cell),
        fx(symprec),
        angtol_str(at),
        setting_str(st),
        tag
    )
}

fn wmag_line(cell: &Cell, symprec: f64, at: AngleTolerance, kind: &str, mom: &[f64], ms: Option<f64>, action: &str, tag: &str) -> String {
    format!(
        "wmag {} ; symprec {} ; angtol {} ; kind {} ; mom {} ; magsymprec {} ; action {} ; tag {}",
        cell_segments("", cell),
        fx(symprec),
        angtol_str(at),
        kind,
        fxs(mom.iter()),
        ms.map(fx).unwrap_or_else(|| "none".into()),
        action,
        tag
    )
}

fn gen_wds(rng: &mut Rng, count: usize, out: &mut Vec<String>) {
    for _ in 0..count {
        let mut symprec = symprec_wild(rng);
        let (mut cell, mut tag) = wild_cell(rng, symprec);
        if tag.starts_with("hall") && rng.chance(0.5) {
            // crystals from Hall numbers with a huge symprec
            symprec = log_uniform(rng, 0.2, 5.0);
            tag.push_str("+huge");
        }
        if rng.chance(0.35) {
            let s = log_uniform(rng, 1e-3, 1e4);
            cell = scaled(&cell, s);
            if rng.chance(0.5) {
                symprec *= s;
                tag.push_str("+scaled-along");
            } else {
                tag.push_str("+scaled");
            }
        }
        out.push(wds_line(&cell, symprec, angtol_wild(rng), setting_wild(rng), &tag));
    }
}

fn gen_wmag(rng: &mut Rng, count: usize, out: &mut Vec<String>) {
    for i in 0..count {
        let mut symprec = if rng.chance(0.5) { *rng.pick(&[1e-5, 1e-4, 1e-3, 1e-2]) } else { symprec_wild(rng) };
        let (mut cell, mut tag) = if i % 4 == 0 {
            // the family of DESIGN §7: cubic 4 A cell, four equal atoms, random moments, loose mag_symprec
            let b = Matrix3::<f64>::identity() * 4.0;
            let p = vec![Vector3::new(0.0, 0.0, 0.0), Vector3::new(0.5, 0.5, 0.5), Vector3::new(0.5, 0.5, 0.0), Vector3::new(0.0, 0.0, 0.5)];
            symprec = 1e-4;
            (Cell::new(Lattice { basis: b }, p, vec![1; 4]), "cubic4".to_string())
        } else {
            wild_cell(rng, symprec)
        };
        if rng.chance(0.25) {
            let s = log_uniform(rng, 1e-3, 1e4);
            cell = scaled(&cell, s);
            symprec *= s;
            tag.push_str("+scaled-along");
        }
        let n = cell.num_atoms();
        let collinear = rng.chance(0.5);
        let mag = log_uniform(rng, 1e-3, 10.0);
        let style = rng.range(0, 4);
        let mom: Vec<f64> = if collinear {
            (0..n)
                .map(|k| match style {
                    0 => rng.uniform(-1.0, 1.0) * mag,
                    1 => if k % 2 == 0 { mag } else { -mag },
                    2 => 0.0,
                    3 => mag,
                    _ => *rng.pick(&[mag, -mag, 0.0]),
                })
                .collect()
        } else {
            (0..3 * n)
                .map(|k| match style {
                    0 | 1 => rng.uniform(-1.0, 1.0) * mag,
                    2 => 0.0,
                    3 => if k % 3 == 2 { mag } else { 0.0 },
                    _ => *rng.pick(&[mag, -mag, 0.0]),
                })
                .collect()
        };
        let ms = match rng.range(0, 5) {
            0 => None,
            1 | 2 => Some(rng.uniform(0.1, 3.0)), // loose: DESIGN §7
            3 => Some(log_uniform(rng, 1e-8, 1e-2)),
            _ => Some(log_uniform(rng, 1e-3, 5.0) * mag),
        };
        let action = if rng.chance(0.5) { "polar" } else { "axial" };
        out.push(wmag_line(&cell, symprec, angtol_wild(rng), if collinear { "collinear" } else { "noncollinear" }, &mom, ms, action, &tag));
    }
}

fn mat_line(m: &Matrix3<f64>) -> String {
    crate::pipeline::mat_row_major(m)
}

fn gen_wred(rng: &mut Rng, count: usize, out: &mut Vec<String>) {
    // a clean strongly skewed basis: a = (1,0,0), b = (0,1,0), c = (N,0,1)
    // (the last one needs transformation entries beyond i32)
    for n in ["1000", "100000", "10000000", "3000000000"] {
        for alg in ["mink", "niggli", "delaunay"] {
            out.push(format!("wred {} 1 0 {} 0 1 0 0 0 1", alg, n));
        }
    }
    for _ in 0..count {
        let mut b = match rng.range(0, 6) {
            0 => random_basis(rng),
            1 => {
                let u = rng.uniform(1.0, 9.0);
                nearly_singular(rng, u)
            }
            2 => special_basis(rng),
            3 => {
                // strongly elongated
                let e = log_uniform(rng, 1.0, 1e6);
                let d = Matrix3::from_diagonal(&Vector3::new(1.0, rng.uniform(0.5, 2.0), e));
                crate::gen::random_rotation(rng) * d
            }
            4 => {
                // integer lattice with many ties
                loop {
                    let m = Matrix3::<f64>::from_fn(|_, _| rng.range(-3, 3) as f64);
                    if m.determinant().abs() > 0.5 {
                        break m;
                    }
                }
            }
            5 => special_basis(rng) * Matrix3::from_diagonal(&Vector3::new(1.0, 1.0, log_uniform(rng, 1e-3, 1e3))),
            _ => random_basis(rng) * Matrix3::from_diagonal(&Vector3::new(1.0, log_uniform(rng, 1e-4, 1.0), log_uniform(rng, 1.0, 1e5))),
        };
        // re-basing by a unimodular matrix with large entries
        if rng.chance(0.6) {
            let len = rng.range(2, 14) as usize;
            let mx = *rng.pick(&[3, 10, 100, 1000]);
            let u = crate::gen::random_unimodular(rng, len, mx).map(|e| e as f64);
            b *= u;
        }
        if rng.chance(0.4) {
            b *= log_uniform(rng, 1e-3, 1e4);
        }
        if !(b.iter().all(|x| x.is_finite()) && b.determinant().abs() > 0.0) {
            continue;
        }
        for alg in ["mink", "niggli", "delaunay"] {
            out.push(format!("wred {} {}", alg, mat_line(&b)));
        }
    }
}

fn gen_wnf(rng: &mut Rng, count: usize, out: &mut Vec<String>) {
    let shapes = [(3usize, 3usize), (3, 3), (3, 4), (3, 6), (3, 8), (9, 9), (18, 9), (27, 9), (6, 3), (12, 3), (24, 3), (5, 7), (1, 1), (3, 1), (1, 3)];
    for _ in 0..count {
        let (m, n) = *rng.pick(&shapes);
        let bound = if m * n <= 9 { *rng.pick(&[1i64, 2, 8, 50]) } else { *rng.pick(&[1i64, 2, 4]) };
        let sparse = rng.chance(0.4);
        let e: Vec<i64> = (0..m * n).map(|_| if sparse && rng.chance(0.6) { 0 } else { rng.range(-bound, bound) }).collect();
        for k in ["hnf", "snf"] {
            out.push(format!("wnf {} {} {} {}", k, m, n, ints(e.iter().cloned())));
        }
    }
    // fixed corner cases: zero matrices, single entries, rank one
    for (m, n) in [(3usize, 3usize), (3, 6), (9, 9), (6, 3)] {
        for k in ["hnf", "snf"] {
            out.push(format!("wnf {} {} {} {}", k, m, n, ints((0..m * n).map(|_| 0))));
            out.push(format!("wnf {} {} {} {}", k, m, n, ints((0..m * n).map(|i| if i == m * n - 1 { -7 } else { 0 }))));
            out.push(format!("wnf {} {} {} {}", k, m, n, ints((0..m * n).map(|i| ((i / n) as i64 + 1) * ((i % n) as i64 - 1)))));
        }
    }
}

fn gen_wtab(out: &mut Vec<String>) {
    let ints_ = [
        i32::MIN, i32::MIN + 1, -2147483647, -65536, -1000, -531, -230, -5, -1, 0, 1, 2, 72, 73, 74, 229, 230, 231, 529, 530, 531, 532, 1650, 1651, 1652,
        1653, 65535, 65536, i32::MAX - 1, i32::MAX,
    ];
    for f in [
        "hall_symbol_entry",
        "magnetic_hall_symbol_entry",
        "get_magnetic_space_group_type",
        "arithmetic_crystal_class_entry",
        "setting_spglib_hall_number",
        "setting_standard_hall_number",
        "setting_hall_hall_number",
        "setting_hall_numbers",
        "hall_symbol_from_hall_number",
        "magnetic_hall_symbol_from_uni_number",
    ] {
        for k in ints_.iter() {
            out.push(format!("wtab {} {}", f, k));
        }
    }
}

/// `c08-gen <tier> <out>`: request lines only (nothing is evaluated here except the valid Hall symbols
/// the G-hall crystals are generated from).
/// Optional 4th argument `focus=<kind>[,<kind>..]:<factor>` multiplies the budget of these request kinds
/// (used when a panic site of the inventory is undischarged).
pub fn gen(tier: &str, seed: u64, out: &str, focus: Option<&str>) {
    let thorough = tier == "thorough";
    let mut rng = Rng::new(seed ^ 0xC08C08);
    // per round (checks/c08.py runs one round in the quick tier, up to ten in the thorough tier)
    let mut n_wds = if thorough { 18000 } else { 6000 };
    let mut n_wmag = if thorough { 7200 } else { 2400 };
    let mut n_wred = if thorough { 1500 } else { 400 };
    let mut n_wnf = if thorough { 1200 } else { 300 };
    if let Some(f) = focus {
        if let Some((kinds, factor)) = f.split_once(':') {
            let k: usize = factor.parse().unwrap_or(3);
            for kind in kinds.split(',') {
                match kind {
                    "wds" => n_wds *= k,
                    "wmag" => n_wmag *= k,
                    "wred" => n_wred *= k,
                    "wnf" => n_wnf *= k,
                    _ => {}
                }
            }
        }
    }
    let mut lines = vec![];
    gen_wtab(&mut lines);
    let mut r = rng.fork();
    gen_wred(&mut r, n_wred, &mut lines);
    let mut r = rng.fork();
    gen_wnf(&mut r, n_wnf, &mut lines);
    let mut r = rng.fork();
    gen_wmag(&mut r, n_wmag, &mut lines);
    let mut r = rng.fork();
    gen_wds(&mut r, n_wds, &mut lines);
    let mut w = CaseWriter::create(out);
    for l in lines {
        w.raw(&l);
    }
    w.finish();
}

pub fn dispatch(args: &[String], seed: u64) -> bool {
    match args[1].as_str() {
        // c08-gen <tier> <out> [focus=...]
        "c08-gen" => gen(&args[2], seed, &args[3], args.get(4).and_then(|s| s.strip_prefix("focus="))),
        // c08-one <request line>: evaluate in-process (NOT isolated; for debugging only)
        "c08-one" => {
            let req = args[2..].join(" ");
            println!("{}", eval_request(&req).or_else(|| crate::tables::eval_request(&req)).unwrap_or_else(|| "UNKNOWN-REQUEST".into()));
        }
        _ => return false,
    }
    true
}
