//! C07 / C16(i): the Wyckoff table as the running code sees it, the coordinate-string parser
//! correspondence, the orbit-labelling correspondence, and the generator mode "wyckoff"
//! (crystals with one species on a general orbit and one species on a tabulated Wyckoff position).
use crate::gen::*;
use crate::util::*;
use moyo::base::{AngleTolerance, Cell, Lattice, Permutation};
use moyo::data::Setting;
use moyo::verif::base::orbits_from_permutations;
use moyo::verif::data::{iter_wyckoff_positions, WyckoffPositionSpace};
use moyo::verif::symmetrize::orbits_in_cell;
use nalgebra::{Matrix3, Vector3};

/// One row of `WYCKOFF_DATABASE`, with its index in table order.
#[derive(Clone, Debug)]
pub struct Row {
    pub idx: usize,
    pub hall: i32,
    pub mult: usize,
    pub letter: char,
    pub sym: String,
    pub coords: String,
}

fn letter_index(c: char) -> i64 {
    if c.is_ascii_lowercase() {
        c as i64 - 'a' as i64
    } else if c == 'A' {
        26
    } else {
        1000 + c as i64
    }
}

/// All rows in table order.  The table is private; `iter_wyckoff_positions(hall, multiplicity)` is
/// the only window.  Within a Hall number the table lists the positions from the last letter (the
/// general position) down to `a`; that order is restored here by sorting on the letter and is
/// *checked* against the regenerated Lean table by the `wyckspace` correspondence (row by row:
/// index, Hall number, multiplicity, letter, symbol, coordinates).
pub fn table_rows() -> Vec<Row> {
    let mut rows = vec![];
    for h in 1..=530 {
        let mut of_hall = vec![];
        for m in 1..=192usize {
            for (k, w) in iter_wyckoff_positions(h, m).enumerate() {
                of_hall.push((k, w));
            }
        }
        of_hall.sort_by_key(|(k, w)| (-letter_index(w.letter), *k));
        for (_, w) in of_hall {
            rows.push(Row {
                idx: rows.len(),
                hall: w.hall_number,
                mult: w.multiplicity,
                letter: w.letter,
                sym: w.site_symmetry.to_string(),
                coords: w.coordinates.to_string(),
            });
        }
    }
    rows
}

/// `wyck-gen <out>`: `wyckspace <idx> ||| hall mult letter |sym|coords| ; linear ; origin (exact floats)`.
pub fn gen_parser_cases(out: &str) {
    let mut w = CaseWriter::create(out);
    for r in table_rows() {
        let head = format!("{} {} {} |{}|{}|", r.hall, r.mult, r.letter, r.sym, r.coords);
        let coords = r.coords.clone();
        let exp = match catch(move || {
            let s = WyckoffPositionSpace::new(&coords);
            (s.linear, s.origin)
        }) {
            Ok((l, o)) => {
                let mut li = vec![];
                for i in 0..3 {
                    for j in 0..3 {
                        li.push(l[(i, j)] as i64);
                    }
                }
                format!("{} ; {} ; {} {} {}", head, ints(li), fx(o[0]), fx(o[1]), fx(o[2]))
            }
            Err(m) => format!("{} ; PANIC {}", head, m),
        };
        w.case(&format!("wyckspace {}", r.idx), &exp);
    }
    // one past the end
    w.case(&format!("wyckspace {}", table_rows().len()), "none");
    w.finish();
}

/// `orbits-gen <tier> <out>`: random families of maps on `0..n` and random site mappings through
/// `orbits_from_permutations` / `orbits_in_cell`.
pub fn gen_orbit_cases(tier: &str, seed: u64, out: &str) {
    let mut w = CaseWriter::create(out);
    let mut rng = Rng::new(seed ^ 0x0B17);
    let count = if tier == "thorough" { 6000 } else { 1200 };
    for k in 0..count {
        let n = if k % 17 == 0 { 1 } else { rng.range(1, if k % 5 == 0 { 60 } else { 14 }) as usize };
        let nperm = rng.range(0, 4) as usize;
        let mut perms: Vec<Vec<usize>> = vec![];
        for _ in 0..nperm {
            let mut p: Vec<usize> = (0..n).collect();
            match rng.range(0, 3) {
                // random permutation
                0 => {
                    for i in (1..n).rev() {
                        let j = rng.range(0, i as i64) as usize;
                        p.swap(i, j);
                    }
                }
                // a few transpositions (many small classes)
                1 => {
                    for _ in 0..rng.range(0, 3) {
                        let i = rng.range(0, n as i64 - 1) as usize;
                        let j = rng.range(0, n as i64 - 1) as usize;
                        p.swap(i, j);
                    }
                }
                // cyclic shift by a divisor-ish step
                2 => {
                    let s = rng.range(0, n as i64 - 1) as usize;
                    for i in 0..n {
                        p[i] = (i + s) % n;
                    }
                }
                // arbitrary (not injective) map: the Rust type does not require a bijection
                _ => {
                    for i in 0..n {
                        p[i] = rng.range(0, n as i64 - 1) as usize;
                    }
                }
            }
            perms.push(p);
        }
        let m = rng.range(0, 2 * n as i64 + 2) as usize;
        let site_mapping: Vec<usize> = (0..m).map(|_| rng.range(0, n as i64 - 1) as usize).collect();
        let ps: Vec<Permutation> = perms.iter().map(|p| Permutation::new(p.clone())).collect();
        let ps2 = ps.clone();
        let sm = site_mapping.clone();
        let exp = match catch(move || (orbits_from_permutations(n, &ps2), orbits_in_cell(n, &ps2, &sm))) {
            Ok((a, b)) => format!("{} ; {}", ints(a.iter().map(|&x| x as i64)), ints(b.iter().map(|&x| x as i64))),
            Err(msg) => format!("PANIC {}", msg),
        };
        let mut req = format!("orbits {}", n);
        for p in perms.iter() {
            req.push_str(&format!(" ; {}", ints(p.iter().map(|&x| x as i64))));
        }
        req.push_str(&format!(" ; {}", ints(site_mapping.iter().map(|&x| x as i64))));
        w.case(req.trim_end(), &exp);
    }
    w.finish();
}

fn frac_dist(cellb: &Matrix3<f64>, a: &Vector3<f64>, b: &Vector3<f64>) -> f64 {
    let d = (a - b).map(|e| e - e.round());
    let mut best = f64::INFINITY;
    for i in -1..=1 {
        for j in -1..=1 {
            for k in -1..=1 {
                let v = cellb * (d + Vector3::new(i as f64, j as f64, k as f64));
                best = best.min(v.norm());
            }
        }
    }
    best
}

/// Crystal of Hall setting `row.hall`: species 1 on a general orbit, species 2 on the orbit of a point
/// of the tabulated position `row` with generic free parameters.  Premises, all checked here and
/// independent of moyo: the orbit of the point has exactly the tabulated multiplicity; no two atoms
/// are closer than 0.45 A (so the point is not within tolerance of a more special position); the
/// crystal has no approximate symmetry beyond the generating group within 0.2 A (brute force).
/// `None` when no draw satisfies them (reported on stderr; the table theorems of C16(i) cover a
/// multiplicity that disagrees with the generic orbit size).
pub fn wyckoff_crystal(row: &Row, general_idx: usize, rng: &mut Rng) -> Option<Crystal> {
    let ops = conv_ops(row.hall);
    let nops = ops.len();
    let coords = row.coords.clone();
    let space = match catch(move || {
        let s = WyckoffPositionSpace::new(&coords);
        (s.linear, s.origin)
    }) {
        Ok(s) => s,
        Err(_) => return None,
    };
    let lin = space.0.map(|e| e as f64);
    let mut wrong_size = 0;
    for _ in 0..600 {
        let base = crystal_unchecked(row.hall, rng, 1);
        let basis = base.cell.lattice.basis;
        let y = Vector3::new(rng.uniform(0.03, 0.97), rng.uniform(0.03, 0.97), rng.uniform(0.03, 0.97));
        let p = lin * y + space.1;
        let mut orb: Vec<Vector3<f64>> = vec![];
        for o in &ops {
            let q = (o.rotation.map(|e| e as f64) * p + o.translation).map(|e| e.rem_euclid(1.0));
            if !orb.iter().any(|z| frac_dist(&basis, z, &q) < 1e-6) {
                orb.push(q);
            }
        }
        if orb.len() != row.mult {
            wrong_size += 1;
            if wrong_size > 40 {
                break;
            }
            continue;
        }
        let mut pos = base.cell.positions.clone();
        let mut nums = base.cell.numbers.clone();
        let n1 = pos.len();
        let mut ok = true;
        'outer: for (a, q) in orb.iter().enumerate() {
            for z in pos.iter().take(n1) {
                if frac_dist(&basis, z, q) < 0.45 {
                    ok = false;
                    break 'outer;
                }
            }
            for z in orb.iter().take(a) {
                if frac_dist(&basis, z, q) < 0.45 {
                    ok = false;
                    break 'outer;
                }
            }
        }
        if !ok {
            continue;
        }
        for q in orb.iter() {
            pos.push(*q);
            nums.push(2);
        }
        let n = pos.len();
        let cell = Cell::new(Lattice { basis }, pos, nums);
        if approx_symmetry_count(&cell, 0.2) != nops {
            continue;
        }
        let mut truth = base.truth.clone();
        truth.orbit_id = (0..n).map(|i| if i < n1 { 0 } else { 1 }).collect();
        truth.wyckoff_row = (0..n).map(|i| if i < n1 { general_idx as i64 } else { row.idx as i64 }).collect();
        truth.origin_atom = (0..n).collect();
        return Some(Crystal { cell, truth });
    }
    eprintln!(
        "wyckoff generator: no admissible crystal for row {} (Hall {} {}{} '{}'), {} draws with an orbit size different from the multiplicity",
        row.idx, row.hall, row.mult, row.letter, row.coords, wrong_size
    );
    None
}

/// Like `wyckoff_crystal`, but one free parameter of the position is placed close to a special value, so that the orbit
/// comes within `delta` of a *more special* position (where the subspace meets those of other letters): the atoms of the
/// orbit then cluster in groups whose mutual distance `d` is validated to lie in [10 symprec, 1.8 sqrt(symprec)] - far
/// enough apart (in units of symprec) for the structure and the letter to stay unambiguous, close enough that a tolerance
/// applied on the wrong scale would put the site on another letter's subspace.  Premises validated independently of moyo:
/// orbit size = tabulated multiplicity, cluster distance in the window, every other pair >= 0.45 A apart, no approximate
/// symmetry beyond the generating group within min(0.2, d/4).
pub fn wyckoff_crystal_near(row: &Row, general_idx: usize, rng: &mut Rng, sp: f64) -> Option<Crystal> {
    let ops = conv_ops(row.hall);
    let nops = ops.len();
    let coords = row.coords.clone();
    let space = match catch(move || {
        let s = WyckoffPositionSpace::new(&coords);
        (s.linear, s.origin)
    }) {
        Ok(s) => s,
        Err(_) => return None,
    };
    let lin = space.0.map(|e| e as f64);
    let free: Vec<usize> = (0..3).filter(|&j| lin.column(j).iter().any(|e| *e != 0.0)).collect();
    if free.is_empty() {
        return None;
    }
    let special = [0.0, 0.5, 0.25, 0.75, 1.0 / 3.0, 2.0 / 3.0, 0.125, 0.375];
    let (dlo, dhi) = (10.0 * sp, 1.8 * sp.sqrt());
    for _ in 0..400 {
        let base = crystal_unchecked(row.hall, rng, 1);
        let basis = base.cell.lattice.basis;
        let mut y = Vector3::new(rng.uniform(0.03, 0.97), rng.uniform(0.03, 0.97), rng.uniform(0.03, 0.97));
        let j = *rng.pick(&free);
        let step = (basis * lin.column(j)).norm();
        if step < 1e-6 {
            continue;
        }
        // target distance from the special value (Cartesian), half of the cluster distance in the simplest case
        let delta = rng.uniform(0.6 * dlo, 0.5 * dhi);
        y[j] = *rng.pick(&special) + delta / step * if rng.chance(0.5) { 1.0 } else { -1.0 };
        let p = lin * y + space.1;
        let mut orb: Vec<Vector3<f64>> = vec![];
        for o in &ops {
            let q = (o.rotation.map(|e| e as f64) * p + o.translation).map(|e| e.rem_euclid(1.0));
            if !orb.iter().any(|z| frac_dist(&basis, z, &q) < 1e-9) {
                orb.push(q);
            }
        }
        if orb.len() != row.mult {
            continue;
        }
        // pair distances: cluster pairs inside the window, all others well separated
        let mut dmin = f64::INFINITY;
        let mut ok = true;
        'pairs: for a in 0..orb.len() {
            for b in 0..a {
                let d = frac_dist(&basis, &orb[a], &orb[b]);
                if d < 0.45 {
                    if d < dlo || d > dhi {
                        ok = false;
                        break 'pairs;
                    }
                    dmin = dmin.min(d);
                }
            }
            for z in base.cell.positions.iter() {
                if frac_dist(&basis, z, &orb[a]) < 0.45 {
                    ok = false;
                    break 'pairs;
                }
            }
        }
        if !ok || !dmin.is_finite() {
            continue;
        }
        let mut pos = base.cell.positions.clone();
        let mut nums = base.cell.numbers.clone();
        let n1 = pos.len();
        for q in orb.iter() {
            pos.push(*q);
            nums.push(2);
        }
        let n = pos.len();
        let cell = Cell::new(Lattice { basis }, pos, nums);
        if approx_symmetry_count(&cell, (dmin / 4.0).min(0.2)) != nops {
            continue;
        }
        let mut truth = base.truth.clone();
        truth.orbit_id = (0..n).map(|i| if i < n1 { 0 } else { 1 }).collect();
        truth.wyckoff_row = (0..n).map(|i| if i < n1 { general_idx as i64 } else { row.idx as i64 }).collect();
        truth.origin_atom = (0..n).collect();
        truth.steps.push("near-special".into());
        return Some(Crystal { cell, truth });
    }
    None
}

/// Generator mode "wyckoff" of `pipeline::gen_cases`.
/// quick: every second table row (parity chosen by the seed, so two seeds cover the table), one
/// re-described cell each, and the own conventional cell for every tenth of them;
/// thorough: every row in its own cell and in two re-descriptions (the second with rotation,
/// permutation and, for small cells, a supercell of index 2 or 3).
/// Settings alternate between Spglib and Standard; in addition a slice of the crystals (thorough: all)
/// is submitted with `Setting::HallNumber(h)`, `h` the generating Hall number, so that the settings
/// neither convention reports (unique axis c / a, cell choices 2 and 3, first origin choice, ...) are
/// exercised: every such Hall number at least once per quick run.
pub fn gen_cases(thorough: bool, seed: u64, rng: &mut Rng, emit: &mut dyn FnMut(String, &Crystal, f64, AngleTolerance, Setting)) {
    let rows = table_rows();
    let symprecs = [1e-5, 1e-4, 1e-3, 1e-2];
    let settings = [Setting::Spglib, Setting::Standard];
    // index of the general position of each Hall number: the first row of the Hall number
    let mut general = vec![0usize; 531];
    for r in rows.iter().rev() {
        general[r.hall as usize] = r.idx;
    }
    // Hall settings that the Spglib / Standard conventions never report: reachable only through an
    // explicit `Setting::HallNumber(h)` request (other unique axes, cell and origin choices, ...)
    let sp_halls = Setting::Spglib.hall_numbers();
    let st_halls = Setting::Standard.hall_numbers();
    let reached = |h: i32| sp_halls.contains(&h) || st_halls.contains(&h);
    let mut requested = vec![false; 531];
    for r in rows.iter() {
        if !thorough && (r.idx as u64 + seed) % 2 != 0 {
            continue;
        }
        let base = match wyckoff_crystal(r, general[r.hall as usize], rng) {
            Some(c) => c,
            None => continue,
        };
        let name = format!("w{}-h{}{}", r.idx, r.hall, r.letter);
        let sp = *rng.pick(&symprecs);
        let at = if rng.chance(0.8) { AngleTolerance::Default } else { AngleTolerance::Radian(rng.uniform(1e-3, 2e-2)) };
        let st = settings[r.idx % 2];
        if thorough || (r.idx / 2) % 10 == 0 {
            emit(format!("{}-own", name), &base, sp, at, st);
        }
        let lvl = 1 + (rng.range(0, 1) as u32);
        let c = redescribe(&base, rng, lvl, None);
        emit(format!("{}-re", name), &c, sp, at, settings[(r.idx + 1) % 2]);
        // the same crystal under `Setting::HallNumber(generating Hall number)`: thorough: every row;
        // quick: for settings unreachable otherwise the first sliced row of the Hall number and every
        // third further one (rotating with the seed), for the others every eighth row
        let h = r.hall as usize;
        let slot = r.idx as u64 / 2 + seed;
        let want = thorough || if reached(r.hall) { slot % 8 == 0 } else { !requested[h] || slot % 3 == 0 };
        if want {
            requested[h] = true;
            let cell = if r.idx % 3 == 0 { &base } else { &c };
            emit(format!("{}-hreq", name), cell, sp, AngleTolerance::Default, Setting::HallNumber(r.hall));
        }
        // the position with one free parameter close to a special value (atoms of the orbit cluster at 10 symprec ..
        // 1.8 sqrt(symprec) from each other): quick: every sixth sliced row that has a free parameter, thorough: every second
        if (r.idx / 2 + seed as usize) % (if thorough { 2 } else { 6 }) == 0 && r.mult <= 48 {
            let mut nrng = rng.fork();
            let spn = *nrng.pick(&[1e-4, 1e-3, 1e-2]);
            if let Some(nc) = wyckoff_crystal_near(r, general[r.hall as usize], &mut nrng, spn) {
                let lvl = nrng.range(0, 2) as u32;
                let c3 = redescribe(&nc, &mut nrng, lvl, None);
                emit(format!("{}-near", name), &c3, spn, AngleTolerance::Default, settings[r.idx % 2]);
            }
        }
        if thorough {
            let sup = if base.cell.num_atoms() <= 64 && rng.chance(0.6) {
                let all = hnfs_of_index(rng.range(2, 3) as i32);
                Some(*rng.pick(&all))
            } else {
                None
            };
            let c2 = redescribe(&base, rng, 2, sup);
            let sp2 = *rng.pick(&symprecs);
            emit(format!("{}-re2", name), &c2, sp2, AngleTolerance::Default, *rng.pick(&settings));
        }
    }
}

pub fn dispatch(args: &[String], seed: u64) -> bool {
    match args[1].as_str() {
        // wyck-gen <out>
        "wyck-gen" => {
            gen_parser_cases(&args[2]);
            true
        }
        // orbits-gen <tier> <out>
        "orbits-gen" => {
            gen_orbit_cases(&args[2], seed, &args[3]);
            true
        }
        _ => false,
    }
}
