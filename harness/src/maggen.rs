//! G-mag (DESIGN §2.6): magnetic crystals generated from the 1651 tabulated magnetic space groups
//! with recorded ground truth, and re-descriptions that carry the moments along with the frame.
//!
//! Geometry as `gen::crystal`: generic lattice of the family, every species on one generic orbit of
//! the generating group.  One species carries a generic moment `m0` at its first site, propagated
//! by every operation `(R, t, θ)`:  `m' = θ · (det R)^{[axial]} · (A R A⁻¹) m0`  (non-collinear), or
//! the documented scalar rule (collinear: `Polar` m' = θ m, `Axial` m' = θ det(R) m).
//! The premise "the magnetic symmetry group of the generated structure is exactly the generating
//! group, with a gap" is validated by a brute-force search that does not use moyo's search code.
use crate::gen::{generic_lattice, random_rotation, random_unimodular, Crystal, Truth};
use crate::util::*;
use moyo::base::{Cell, Lattice, MagneticOperation, Operation, RotationMagneticMomentAction};
use moyo::data::{get_magnetic_space_group_type, ConstructType, MagneticHallSymbol};
use nalgebra::{Matrix3, Vector3};

#[derive(Clone, Copy, Debug, PartialEq, Eq)]
pub enum Kind {
    Collinear,
    NonCollinear,
}

pub fn kind_str(k: Kind) -> &'static str {
    match k {
        Kind::Collinear => "collinear",
        Kind::NonCollinear => "noncollinear",
    }
}
pub fn action_str(a: RotationMagneticMomentAction) -> &'static str {
    match a {
        RotationMagneticMomentAction::Polar => "polar",
        RotationMagneticMomentAction::Axial => "axial",
    }
}
pub fn is_axial(a: RotationMagneticMomentAction) -> bool {
    matches!(a, RotationMagneticMomentAction::Axial)
}

/// A generated magnetic crystal.  Positions, re-description `(P, p)`, orbit ids and the map
/// `origin_atom` to the atoms of the base crystal live in the wrapped `gen::Crystal`; the moments are
/// kept for the *base* atoms and read through `origin_atom`, rotated by the accumulated rigid
/// rotation `q` (non-collinear; collinear scalars are frame independent).
#[derive(Clone, Debug)]
pub struct MagCrystal {
    pub c: Crystal,
    /// moments of the atoms of the base crystal in the base frame (collinear: scalar in component 0)
    pub base_moments: Vec<Vector3<f64>>,
    pub q: Matrix3<f64>,
    pub kind: Kind,
    pub action: RotationMagneticMomentAction,
    pub uni: i32,
    pub construct_type: u8,
    /// "plain" | "reversed" | "zero" | "cant" | "noisy"
    pub variant: String,
    /// true when the generating group forces the moment to vanish (grey groups)
    pub forced_zero: bool,
    /// number of redraws needed until the premise held
    pub redraws: usize,
}

impl MagCrystal {
    pub fn cell(&self) -> &Cell {
        &self.c.cell
    }
    pub fn moments(&self) -> Vec<Vector3<f64>> {
        self.c
            .truth
            .origin_atom
            .iter()
            .map(|&i| match self.kind {
                Kind::NonCollinear => self.q * self.base_moments[i],
                Kind::Collinear => self.base_moments[i],
            })
            .collect()
    }
    pub fn transform(&self, m: &Matrix3<i32>, label: &str) -> MagCrystal {
        let mut r = self.clone();
        r.c = self.c.transform(m, label);
        r
    }
    pub fn shift_origin(&self, s: &Vector3<f64>) -> MagCrystal {
        let mut r = self.clone();
        r.c = self.c.shift_origin(s);
        r
    }
    /// rigid proper rotation of the whole structure: lattice and (non-collinear) moments, both actions
    /// (a proper rotation has det 1, so polar and axial vectors rotate alike)
    pub fn rotate(&self, q: &Matrix3<f64>) -> MagCrystal {
        let mut r = self.clone();
        r.c = self.c.rotate(q);
        r.q = q * self.q;
        r
    }
    pub fn permute(&self, rng: &mut Rng) -> MagCrystal {
        let mut r = self.clone();
        r.c = self.c.permute(rng);
        r
    }
    pub fn add_integers(&self, rng: &mut Rng) -> MagCrystal {
        let mut r = self.clone();
        r.c = self.c.add_integers(rng);
        r
    }
    pub fn reverse_moments(&self) -> MagCrystal {
        let mut r = self.clone();
        for m in r.base_moments.iter_mut() {
            *m = -*m;
        }
        r.variant = "reversed".into();
        r.c.truth.steps.push("reverse".into());
        r
    }
    /// perturb the moments of about half of the base atoms by a vector (collinear: scalar) of size in [lo, hi]:
    /// a weakly canted structure whose magnetic group is an unknown subgroup of the generating one
    pub fn cant_moments(&self, rng: &mut Rng, lo: f64, hi: f64) -> MagCrystal {
        let mut r = self.clone();
        let mut any = false;
        let n = r.base_moments.len();
        for (i, m) in r.base_moments.iter_mut().enumerate() {
            if !(rng.chance(0.5) || (!any && i + 1 == n)) {
                continue;
            }
            any = true;
            let size = rng.uniform(lo, hi);
            match self.kind {
                Kind::NonCollinear => {
                    let v = loop {
                        let v = Vector3::new(rng.normal(), rng.normal(), rng.normal());
                        if v.norm() > 1e-3 {
                            break v / v.norm();
                        }
                    };
                    *m += v * size;
                }
                Kind::Collinear => m[0] += if rng.chance(0.5) { size } else { -size },
            }
        }
        r.variant = "cant".into();
        r.c.truth.steps.push("cant".into());
        r
    }
    /// noise well inside the tolerances: atoms displaced by at most `radius` (lattice strained by the same relative size,
    /// `gen::Crystal::noise`), every base moment perturbed by at most `mradius`; the generating group stays the truth
    pub fn noisy(&self, rng: &mut Rng, radius: f64, mradius: f64) -> MagCrystal {
        let mut r = self.clone();
        r.c = self.c.noise(rng, radius);
        for m in r.base_moments.iter_mut() {
            match self.kind {
                Kind::NonCollinear => {
                    let v = loop {
                        let v = Vector3::new(rng.uniform(-1.0, 1.0), rng.uniform(-1.0, 1.0), rng.uniform(-1.0, 1.0));
                        if v.norm() <= 1.0 {
                            break v;
                        }
                    };
                    *m += v * mradius;
                }
                Kind::Collinear => m[0] += rng.uniform(-mradius, mradius),
            }
        }
        r.variant = "noisy".into();
        r
    }
    pub fn zero_moments(&self) -> MagCrystal {
        let mut r = self.clone();
        for m in r.base_moments.iter_mut() {
            *m = Vector3::zeros();
        }
        r.variant = "zero".into();
        r.c.truth.steps.push("zero".into());
        r
    }
}

/// All conventional magnetic operations of UNI number `u`: `traverse()` x centering translations.
pub fn mag_conv_ops(u: i32) -> Vec<MagneticOperation> {
    let mhs = MagneticHallSymbol::from_uni_number(u).unwrap();
    let coset = mhs.traverse();
    let mut ops = vec![];
    for t in mhs.centering.lattice_points() {
        for o in coset.iter() {
            ops.push(MagneticOperation::new(
                o.operation.rotation,
                (o.operation.translation + t).map(|e| e.rem_euclid(1.0)),
                o.time_reversal,
            ));
        }
    }
    ops
}

pub fn construct_type_of(u: i32) -> u8 {
    match get_magnetic_space_group_type(u).unwrap().construct_type {
        ConstructType::Type1 => 1,
        ConstructType::Type2 => 2,
        ConstructType::Type3 => 3,
        ConstructType::Type4 => 4,
    }
}

pub fn centering_of(u: i32) -> String {
    format!("{:?}", MagneticHallSymbol::from_uni_number(u).unwrap().centering)
}

fn idet(r: &Matrix3<i32>) -> f64 {
    r.map(|e| e as f64).determinant().round()
}

/// The moment action of the property statement.
pub fn act_moment(kind: Kind, action: RotationMagneticMomentAction, cart: &Matrix3<f64>, det: f64, theta: bool, m: &Vector3<f64>) -> Vector3<f64> {
    let s = (if theta { -1.0 } else { 1.0 }) * (if is_axial(action) { det } else { 1.0 });
    match kind {
        Kind::NonCollinear => (cart * m) * s,
        Kind::Collinear => m * s,
    }
}

/// Minimum-image helper: exact whenever `tol * |row_i(A^-1)| < 1/2` for all i (always the case here).
struct Metric {
    a: Matrix3<f64>,
    bound: [f64; 3],
    small: bool,
}
impl Metric {
    fn new(a: &Matrix3<f64>, tol: f64) -> Self {
        let inv = a.try_inverse().unwrap();
        let bound = [inv.row(0).norm() * tol, inv.row(1).norm() * tol, inv.row(2).norm() * tol];
        Metric { a: *a, bound, small: bound.iter().all(|&b| b < 0.49) }
    }
    fn within(&self, x: &Vector3<f64>, y: &Vector3<f64>, tol: f64) -> bool {
        let d = (x - y).map(|e| e - e.round());
        if self.small {
            // |d_i + n_i| <= |row_i A^-1| |A(d+n)| (Cauchy-Schwarz): only n = 0 can be within tol
            if d[0].abs() > self.bound[0] || d[1].abs() > self.bound[1] || d[2].abs() > self.bound[2] {
                return false;
            }
            return (self.a * d).norm() < tol;
        }
        for i in -1..=1 {
            for j in -1..=1 {
                for k in -1..=1 {
                    if (self.a * (d + Vector3::new(i as f64, j as f64, k as f64))).norm() < tol {
                        return true;
                    }
                }
            }
        }
        false
    }
    fn dist(&self, x: &Vector3<f64>, y: &Vector3<f64>) -> f64 {
        let d = (x - y).map(|e| e - e.round());
        let mut best = f64::INFINITY;
        for i in -1..=1 {
            for j in -1..=1 {
                for k in -1..=1 {
                    best = best.min((self.a * (d + Vector3::new(i as f64, j as f64, k as f64))).norm());
                }
            }
        }
        best
    }
}

/// Number of approximate magnetic symmetry operations `(R, t, θ)` of the structure at tolerances
/// `tol` (positions, Cartesian) and `mtol` (moments), by brute force: every integer matrix with
/// entries in {-1,0,1} preserving the metric to 1e-6 relative, every translation carrying the first
/// atom of the rarest species onto an atom of that species, both values of θ.  Independent of
/// moyo's search; validates the premise of C11-C13 only.
pub fn approx_mag_symmetry_count(cell: &Cell, moments: &[Vector3<f64>], kind: Kind, action: RotationMagneticMomentAction, tol: f64, mtol: f64) -> usize {
    let a = cell.lattice.basis;
    let ainv = a.try_inverse().unwrap();
    let g = a.transpose() * a;
    let gscale = g.iter().fold(0.0f64, |m, x| m.max(x.abs()));
    let met = Metric::new(&a, tol);
    let n = cell.num_atoms();
    let mut counts: std::collections::BTreeMap<i32, usize> = std::collections::BTreeMap::new();
    for s in cell.numbers.iter() {
        *counts.entry(*s).or_insert(0) += 1;
    }
    let pivot_sp = *counts.iter().min_by_key(|(_, c)| **c).unwrap().0;
    let pivots: Vec<usize> = (0..n).filter(|&i| cell.numbers[i] == pivot_sp).collect();
    let src = pivots[0];
    // atoms by species
    let mut by_species: std::collections::BTreeMap<i32, Vec<usize>> = std::collections::BTreeMap::new();
    for i in 0..n {
        by_species.entry(cell.numbers[i]).or_default().push(i);
    }
    let mut count = 0;
    for idx in 0..19683u32 {
        let mut x = idx;
        let mut r = Matrix3::<f64>::zeros();
        for k in 0..9 {
            r[(k / 3, k % 3)] = (x % 3) as f64 - 1.0;
            x /= 3;
        }
        let det = r.determinant();
        if (det.abs() - 1.0).abs() > 1e-9 {
            continue;
        }
        let g2 = r.transpose() * g * r;
        if (g2 - g).iter().fold(0.0f64, |m, x| m.max(x.abs())) > 1e-6 * gscale {
            continue;
        }
        let cart = a * r * ainv;
        for &dst in pivots.iter() {
            let t = cell.positions[dst] - r * cell.positions[src];
            // images of all atoms
            let mut image = vec![usize::MAX; n];
            let mut ok = true;
            for i in 0..n {
                let y = r * cell.positions[i] + t;
                let mut found = usize::MAX;
                for &j in by_species[&cell.numbers[i]].iter() {
                    if met.within(&y, &cell.positions[j], tol) {
                        found = j;
                        break;
                    }
                }
                if found == usize::MAX {
                    ok = false;
                    break;
                }
                image[i] = found;
            }
            if !ok {
                continue;
            }
            for theta in [false, true] {
                let good = (0..n).all(|i| {
                    let m = act_moment(kind, action, &cart, det.round(), theta, &moments[i]);
                    (m - moments[image[i]]).norm() < mtol
                });
                if good {
                    count += 1;
                }
            }
        }
    }
    count
}

/// One draw of the generic magnetic crystal of UNI number `u` (no premise check).
/// `nonmag`: number of additional non-magnetic species (each on one generic orbit).
pub fn mag_crystal_unchecked(u: i32, kind: Kind, action: RotationMagneticMomentAction, rng: &mut Rng, nonmag: usize) -> MagCrystal {
    let mops = mag_conv_ops(u);
    let ops: Vec<Operation> = mops.iter().map(|m| m.operation.clone()).collect();
    loop {
        let basis = generic_lattice(&ops, rng);
        let ainv = basis.try_inverse().unwrap();
        let met = Metric::new(&basis, 0.45);
        let mut pos: Vec<Vector3<f64>> = vec![];
        let mut nums: Vec<i32> = vec![];
        let mut moms: Vec<Vector3<f64>> = vec![];
        let mut orbit_id = vec![];
        let mut forced_zero = false;
        // species 1..=nonmag non-magnetic, species nonmag+1 magnetic
        for k in 0..=nonmag {
            let magnetic = k == nonmag;
            let x = Vector3::new(rng.uniform(0.03, 0.97), rng.uniform(0.03, 0.97), rng.uniform(0.03, 0.97));
            let m0 = if !magnetic {
                Vector3::zeros()
            } else {
                match kind {
                    Kind::NonCollinear => loop {
                        let v = Vector3::new(rng.uniform(-1.0, 1.0), rng.uniform(-1.0, 1.0), rng.uniform(-1.0, 1.0));
                        if v.norm() > 0.5 && v.iter().all(|c| c.abs() > 0.1) {
                            break v;
                        }
                    },
                    Kind::Collinear => Vector3::new(rng.uniform(0.5, 1.5) * if rng.chance(0.5) { 1.0 } else { -1.0 }, 0.0, 0.0),
                }
            };
            let first = pos.len();
            for o in &mops {
                let r = o.operation.rotation.map(|e| e as f64);
                let y = (r * x + o.operation.translation).map(|e| e.rem_euclid(1.0));
                let cart = basis * r * ainv;
                let m = act_moment(kind, action, &cart, idet(&o.operation.rotation), o.time_reversal, &m0);
                // the same site generated twice (grey groups: (R,t) and (R,t)')
                let mut dup = None;
                for j in first..pos.len() {
                    if (pos[j] - y).map(|e| e - e.round()).norm() < 1e-7 {
                        dup = Some(j);
                        break;
                    }
                }
                match dup {
                    Some(j) => {
                        if (moms[j] - m).norm() > 1e-9 {
                            forced_zero = true;
                        }
                    }
                    None => {
                        pos.push(y);
                        nums.push(k as i32 + 1);
                        moms.push(m);
                        orbit_id.push(k);
                    }
                }
            }
        }
        if forced_zero {
            for m in moms.iter_mut() {
                *m = Vector3::zeros();
            }
        }
        // generic = no two atoms closer than 0.45 A
        let mut ok = true;
        'outer: for i in 0..pos.len() {
            for j in 0..i {
                if met.within(&pos[i], &pos[j], 0.45) {
                    ok = false;
                    break 'outer;
                }
            }
        }
        if !ok {
            continue;
        }
        let n = pos.len();
        let c = Crystal {
            cell: Cell::new(Lattice { basis }, pos, nums),
            truth: Truth {
                hall: 0,
                p: Matrix3::identity(),
                shift: Vector3::zeros(),
                scale: 1.0,
                mirrored: false,
                orbit_id,
                wyckoff_row: vec![-1; n],
                noisy: false,
                steps: vec![],
                origin_atom: (0..n).collect(),
            },
        };
        return MagCrystal {
            c,
            base_moments: moms,
            q: Matrix3::identity(),
            kind,
            action,
            uni: u,
            construct_type: construct_type_of(u),
            variant: "plain".into(),
            forced_zero,
            redraws: 0,
        };
    }
}

/// Hand-made magnetic crystal of UNI number `u`: given basis (columns), one magnetic species on the orbit
/// of `x` with moment `m0` at `x` (used for the minimal defect witnesses of C13).
pub fn explicit_crystal(u: i32, basis: Matrix3<f64>, x: Vector3<f64>, m0: Vector3<f64>, kind: Kind, action: RotationMagneticMomentAction) -> MagCrystal {
    let mops = mag_conv_ops(u);
    let ainv = basis.try_inverse().unwrap();
    let mut pos: Vec<Vector3<f64>> = vec![];
    let mut moms: Vec<Vector3<f64>> = vec![];
    for o in &mops {
        let r = o.operation.rotation.map(|e| e as f64);
        let y = (r * x + o.operation.translation).map(|e| e.rem_euclid(1.0));
        let cart = basis * r * ainv;
        let m = act_moment(kind, action, &cart, idet(&o.operation.rotation), o.time_reversal, &m0);
        if !pos.iter().any(|p: &Vector3<f64>| (p - y).map(|e| e - e.round()).norm() < 1e-7) {
            pos.push(y);
            moms.push(m);
        }
    }
    let n = pos.len();
    let c = Crystal {
        cell: Cell::new(Lattice { basis }, pos, vec![1; n]),
        truth: Truth {
            hall: 0,
            p: Matrix3::identity(),
            shift: Vector3::zeros(),
            scale: 1.0,
            mirrored: false,
            orbit_id: vec![0; n],
            wyckoff_row: vec![-1; n],
            noisy: false,
            steps: vec![],
            origin_atom: (0..n).collect(),
        },
    };
    MagCrystal { c, base_moments: moms, q: Matrix3::identity(), kind, action, uni: u, construct_type: construct_type_of(u), variant: "plain".into(), forced_zero: false, redraws: 0 }
}

pub const POS_GAP: f64 = 0.2;
pub const MOM_GAP: f64 = 0.05;

/// Generic magnetic crystal of UNI number `u` whose magnetic symmetry group is exactly the generating
/// group with gaps `POS_GAP` (positions) and `MOM_GAP` (moments) >= 20 x the tolerances used (1e-4 .. 1e-3).
/// `None` if the premise could not be met in `max_draws` draws.
pub fn mag_crystal(u: i32, kind: Kind, action: RotationMagneticMomentAction, rng: &mut Rng, nonmag: usize, max_draws: usize) -> Option<MagCrystal> {
    let nops = mag_conv_ops(u).len();
    for d in 0..max_draws {
        let mut c = mag_crystal_unchecked(u, kind, action, rng, nonmag);
        let moms = c.moments();
        if approx_mag_symmetry_count(c.cell(), &moms, kind, action, POS_GAP, MOM_GAP) == nops {
            c.redraws = d;
            return Some(c);
        }
    }
    None
}

/// Random composition of re-descriptions (as `gen::redescribe`, with the rotation recorded).
/// `level`: 1 = rebase+shift, 2 = + rotation, permutation, integers.
pub fn redescribe(c: &MagCrystal, rng: &mut Rng, level: u32, supercell: Option<Matrix3<i32>>) -> MagCrystal {
    let mut c = c.clone();
    if level >= 1 {
        let len = rng.range(1, 7) as usize;
        let u = random_unimodular(rng, len, 6);
        c = c.transform(&u, "rebase");
        c = c.shift_origin(&Vector3::new(rng.uniform(-0.5, 0.5), rng.uniform(-0.5, 0.5), rng.uniform(-0.5, 0.5)));
    }
    if let Some(m) = supercell {
        c = c.transform(&m, "supercell");
        if rng.chance(0.5) {
            let len = rng.range(1, 4) as usize;
            let u = random_unimodular(rng, len, 6);
            c = c.transform(&u, "rebase");
        }
    }
    if level >= 2 {
        c = c.rotate(&random_rotation(rng));
        c = c.permute(rng);
        if rng.chance(0.5) {
            c = c.add_integers(rng);
        }
    }
    c
}

#[allow(dead_code)]
pub fn min_distance(cell: &Cell) -> f64 {
    let met = Metric::new(&cell.lattice.basis, 0.1);
    let mut best = f64::INFINITY;
    for i in 0..cell.num_atoms() {
        for j in 0..i {
            best = best.min(met.dist(&cell.positions[i], &cell.positions[j]));
        }
    }
    best
}
