//! Stages S1 (`PrimitiveCell::new`), S2 (`search_bravais_group`) and S3 (`PrimitiveSymmetrySearch::new`):
//! the *proposals* of the float heuristics (Minkowski matrices, kd-tree correspondences, Bravais rotations),
//! recorded by the `verif` hooks as detailed trace events while the real code runs, are turned into extra
//! request segments (the oracle record `H` of DESIGN §2.1) for the Lean stage models
//! (lean/Moyo/Model/StageSearch*.lean, commands `s1`, `s2`, `s3` of DriverS13.lean).
use crate::gen::angtol_str;
use crate::pipeline::{err_name, imat_row_major, mat_row_major};
use crate::util::*;
use moyo::base::{AngleTolerance, Lattice};
use moyo::verif::search::verif_search_bravais_group;
use moyo::verif::trace;

/// Run `f` with the detailed stage events switched on; returns its result and the events it produced.
pub fn with_detail<T>(f: impl FnOnce() -> T) -> (T, Vec<String>) {
    let _ = trace::take();
    trace::set_detail(true);
    let r = f();
    trace::set_detail(false);
    (r, trace::take())
}

/// IEEE-754 bit pattern (decimal) -> exact `M@E`.
fn bits_fx(tok: &str) -> String {
    fx(f64::from_bits(tok.parse::<u64>().expect("bit pattern")))
}

fn bits_fxs(toks: &str) -> String {
    toks.split_whitespace().map(bits_fx).collect::<Vec<_>>().join(" ")
}

fn payload<'a>(events: &'a [String], key: &str) -> Vec<&'a str> {
    events.iter().filter_map(|e| if e == key { Some("") } else { e.strip_prefix(key).and_then(|r| r.strip_prefix(' ')) }).collect()
}

/// `H` of stage S1: `mink T1 ; ncand k ; cperms p , p .. ; crough .. ; cdist .. ; cacc .. ; transmat M ; pmink T2`
/// (segments of events that did not occur — because the code returned earlier — are absent).
pub fn h1_segments(events: &[String]) -> String {
    let mut segs: Vec<String> = vec![];
    if let Some(m) = payload(events, "s1.mink").first() {
        segs.push(format!("mink {}", m));
    }
    let cands = payload(events, "s1.cand");
    let mut perms = vec![];
    let mut rough = vec![];
    for c in cands.iter() {
        let parts: Vec<&str> = c.split(" ; ").collect();
        // a cell with no atoms cannot get here (pivot selection panics first), so both parts exist
        perms.push(parts[0].to_string());
        rough.push(bits_fxs(parts[1]));
    }
    segs.push(format!("ncand {}", cands.len()));
    segs.push(format!("cperms {}", perms.join(" , ")));
    segs.push(format!("crough {}", rough.join(" ")));
    let dists = payload(events, "s1.dist");
    let mut d = vec![];
    let mut a = vec![];
    for x in dists.iter() {
        let parts: Vec<&str> = x.split_whitespace().collect();
        d.push(bits_fx(parts[0]));
        a.push(parts[1].to_string());
    }
    segs.push(format!("cdist {}", d.join(" ")));
    segs.push(format!("cacc {}", a.join(" ")));
    if let Some(m) = payload(events, "s1.transmat").first() {
        segs.push(format!("transmat {}", m));
    }
    if let Some(m) = payload(events, "s1.pmink").first() {
        segs.push(format!("pmink {}", m));
    }
    segs.join(" ; ")
}

/// `H` of stage S3: `nbrav m ; brav R.. ; ncand k ; crot R.. ; crough .. ; cperms p , p .. ; cdist .. ; cacc ..`
/// (`nbrav`/`brav` absent when `search_bravais_group` did not return a group).
pub fn h3_segments(events: &[String]) -> String {
    let mut segs: Vec<String> = vec![];
    if let Some(b) = payload(events, "s3.brav").first() {
        let n = b.split_whitespace().count() / 9;
        segs.push(format!("nbrav {}", n));
        segs.push(format!("brav {}", b));
    }
    let cands = payload(events, "s3.cand");
    let mut rots = vec![];
    let mut rough = vec![];
    let mut perms = vec![];
    for c in cands.iter() {
        let parts: Vec<&str> = c.split(" ; ").collect();
        rots.push(parts[0].to_string());
        rough.push(bits_fxs(parts[1]));
        perms.push(parts.get(2).unwrap_or(&"").to_string());
    }
    segs.push(format!("ncand {}", cands.len()));
    segs.push(format!("crot {}", rots.join(" ")));
    segs.push(format!("crough {}", rough.join(" ")));
    segs.push(format!("cperms {}", perms.join(" , ")));
    let dists = payload(events, "s3.dist");
    let mut d = vec![];
    let mut a = vec![];
    for x in dists.iter() {
        let parts: Vec<&str> = x.split_whitespace().collect();
        d.push(bits_fx(parts[0]));
        a.push(parts[1].to_string());
    }
    segs.push(format!("cdist {}", d.join(" ")));
    segs.push(format!("cacc {}", a.join(" ")));
    segs.join(" ; ")
}

/// Stage S2: the Bravais-group search on a (Minkowski-reduced) lattice; rotation list in the code's order.
pub fn dump_s2(w: &mut CaseWriter, tag: &str, lattice: &Lattice, symprec: f64, at: AngleTolerance) {
    let req = format!("s2 {} ; lat {} ; symprec {} ; angtol {}", tag, mat_row_major(&lattice.basis), fx(symprec), angtol_str(at));
    let l = lattice.clone();
    match catch(move || verif_search_bravais_group(&l, symprec, at)) {
        Ok(Ok(rs)) => {
            let v: Vec<String> = rs.iter().map(imat_row_major).collect();
            w.case(&req, &format!("ok ; nrot {} ; rots {}", rs.len(), v.join(" ")));
        }
        Ok(Err(e)) => w.case(&req, &format!("err {}", err_name(&e))),
        Err(m) => w.case(&req, &format!("PANIC {}", m)),
    }
}

/// Stages S1–S3 only (same line formats as `stages::dump_stages`).
pub fn dump_s123(w: &mut CaseWriter, tag: &str, cell: &moyo::base::Cell, symprec: f64, at: AngleTolerance) {
    use crate::pipeline::{cell_segments, vec3s};
    use crate::stages::{ops_str, perms_str};
    use moyo::verif::search::{PrimitiveCell, PrimitiveSymmetrySearch};
    let c = cell.clone();
    let (r1, ev1) = with_detail(move || catch(move || PrimitiveCell::new(&c, symprec)));
    let s1req = format!("s1 {} ; {} ; symprec {} ; {}", tag, cell_segments("", cell), fx(symprec), h1_segments(&ev1));
    let prim = match r1 {
        Ok(Ok(p)) => p,
        Ok(Err(e)) => {
            w.case(&s1req, &format!("err {}", err_name(&e)));
            return;
        }
        Err(m) => {
            w.case(&s1req, &format!("PANIC {}", m));
            return;
        }
    };
    let trans: Vec<String> = prim.translations.iter().map(vec3s).collect();
    w.case(
        &s1req,
        &format!(
            "ok ; {} ; linear {} ; sitemap {} ; ntrans {} ; trans {} ; perms {}",
            cell_segments("p", &prim.cell),
            imat_row_major(&prim.linear),
            ints(prim.site_mapping.iter().map(|&x| x as i64)),
            prim.translations.len(),
            trans.join(" "),
            perms_str(&prim.permutations)
        ),
    );
    dump_s2(w, tag, &prim.cell.lattice, symprec, at);
    let pc = prim.cell.clone();
    let (r3, ev3) = with_detail(move || catch(move || PrimitiveSymmetrySearch::new(&pc, symprec, at)));
    let s3req = format!("s3 {} ; {} ; symprec {} ; angtol {} ; {}", tag, cell_segments("", &prim.cell), fx(symprec), angtol_str(at), h3_segments(&ev3));
    match r3 {
        Ok(Ok(s)) => w.case(&s3req, &format!("ok ; nops {} ; ops {} ; perms {}", s.operations.len(), ops_str(&s.operations), perms_str(&s.permutations))),
        Ok(Err(e)) => w.case(&s3req, &format!("err {}", err_name(&e))),
        Err(m) => w.case(&s3req, &format!("PANIC {}", m)),
    }
}

/// Inputs on which the acceptance logic has to *refuse*: oversized symprec (guards, pseudo-symmetry, broken
/// closure), noise comparable to symprec (candidates rejected, translation count test), one displaced atom in a
/// supercell (partial translation group).  Appended to the stage dump as extra `s1`/`s2`/`s3` lines.
pub fn stress(w: &mut CaseWriter, rng: &mut Rng, tier: &str) {
    use crate::gen::{crystal, hnfs_of_index, redescribe};
    let n = if tier == "thorough" { 600 } else { 75 };
    for k in 0..n {
        let h = rng.range(1, 530) as i32;
        // (one general orbit alone often has more symmetry than its Hall group: the generator would redraw for ever)
        let norb = 2;
        let base = crystal(h, rng, norb);
        if base.cell.num_atoms() > 96 {
            continue;
        }
        let at = if rng.chance(0.7) { AngleTolerance::Default } else { AngleTolerance::Radian(rng.uniform(2e-3, 5e-2)) };
        let idx = rng.range(2, 4) as i32;
        let sup = if rng.chance(0.5) && base.cell.num_atoms() <= 48 { Some(*rng.pick(&hnfs_of_index(idx))) } else { None };
        let lvl = rng.range(0, 1) as u32;
        let mut c = redescribe(&base, rng, lvl, sup);
        let lmin = (0..3).map(|i| c.cell.lattice.basis.column(i).norm()).fold(f64::MAX, f64::min);
        let kind = k % 3;
        let sp = match kind {
            // oversized tolerance: a fraction of the shortest input basis vector
            0 => lmin * *rng.pick(&[0.02, 0.05, 0.1, 0.2, 0.3]),
            _ => *rng.pick(&[1e-4, 1e-3, 1e-2]),
        };
        if kind == 1 {
            // noise of the order of symprec
            let amp = sp * *rng.pick(&[0.3, 0.7, 1.0, 1.5, 3.0]);
            c = c.noise(rng, amp);
        }
        if kind == 2 {
            // one atom displaced by about symprec
            let i = rng.range(0, c.cell.num_atoms() as i64 - 1) as usize;
            let d = sp * *rng.pick(&[0.5, 0.9, 1.1, 2.0, 5.0]) / lmin;
            c.cell.positions[i][rng.range(0, 2) as usize] += d;
        }
        if std::env::var("VERIF_LOG").is_ok() {
            eprintln!("stress x{}h{}k{} n={} sp={}", kind, h, k, c.cell.num_atoms(), sp);
        }
        dump_s123(w, &format!("x{}h{}k{}", kind, h, k), &c.cell, sp, at);
    }
}
