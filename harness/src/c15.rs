//! C15: HNF / SNF on the shapes the library uses.  Emits `hnf`/`snf` requests with the
//! implementation's exact outputs, and (command `c15-box`) evaluates the property predicate in i64
//! directly on the implementation's outputs over a whole box of 3x3 matrices.
use crate::util::*;
use moyo::math::{HNF, SNF};
use nalgebra::{DMatrix, Dyn, OMatrix};

type DM = OMatrix<i32, Dyn, Dyn>;

pub fn flat(m: &DM) -> String {
    let mut v = vec![];
    for i in 0..m.nrows() {
        for j in 0..m.ncols() {
            v.push(m[(i, j)] as i64);
        }
    }
    ints(v)
}

pub fn hnf_expected(a: &DM) -> String {
    let a2 = a.clone();
    match catch(move || {
        let h = HNF::new(&a2);
        (h.h, h.r)
    }) {
        Ok((h, r)) => format!("{} ; {} ; 1", flat(&h), flat(&r)),
        Err(msg) => format!("PANIC {}", msg),
    }
}

pub fn snf_expected(a: &DM) -> String {
    let a2 = a.clone();
    match catch(move || {
        let s = SNF::new(&a2);
        let rank = s.rank();
        (s.d, s.l, s.r, rank)
    }) {
        Ok((d, l, r, rank)) => format!("{} ; {} ; {} ; {} ; 1", flat(&d), flat(&l), flat(&r), rank),
        Err(msg) => format!("PANIC {}", msg),
    }
}

fn emit(w: &mut CaseWriter, a: &DM) {
    let req = format!("{} {} {}", a.nrows(), a.ncols(), flat(a));
    w.case(&format!("hnf {}", req), &hnf_expected(a));
    w.case(&format!("snf {}", req), &snf_expected(a));
}

fn random_matrix(rng: &mut Rng, m: usize, n: usize, bound: i64) -> DM {
    // mixture: dense, sparse, low-rank (so that rank-deficient systems are common, as in real uses)
    let kind = rng.range(0, 2);
    let mut a = DMatrix::<i32>::zeros(m, n);
    match kind {
        0 => {
            for i in 0..m {
                for j in 0..n {
                    a[(i, j)] = rng.range(-bound, bound) as i32;
                }
            }
        }
        1 => {
            for i in 0..m {
                for j in 0..n {
                    if rng.chance(0.4) {
                        a[(i, j)] = rng.range(-bound, bound) as i32;
                    }
                }
            }
        }
        _ => {
            // product of m x r and r x n small matrices, r < min(m,n)
            let lim = std::cmp::max(1, std::cmp::min(m, n) - 1);
            let r = 1 + (rng.next_u64() as usize) % lim;
            let b = DMatrix::<i32>::from_fn(m, r, |_, _| rng.range(-2, 2) as i32);
            let c = DMatrix::<i32>::from_fn(r, n, |_, _| rng.range(-2, 2) as i32);
            a = b * c;
        }
    }
    a
}

/// Systems harvested from real uses: Sylvester systems of point-group generators (9k x 9),
/// origin-shift systems (R - I stacks, 3k x 3), translation lattices (3 x n).
fn harvested(rng: &mut Rng, w: &mut CaseWriter, count: usize) {
    use moyo::verif::data::PointGroupRepresentative;
    use nalgebra::Matrix3;
    for _ in 0..count {
        let arith = rng.range(1, 73) as i32;
        let rep = PointGroupRepresentative::from_arithmetic_crystal_class(arith);
        let gens = rep.primitive_generators();
        // conjugate by a random small unimodular matrix to get a "found" group
        let mut p = Matrix3::<i32>::identity();
        for _ in 0..rng.range(0, 4) {
            let i = rng.range(0, 2) as usize;
            let mut j = rng.range(0, 2) as usize;
            if i == j {
                j = (j + 1) % 3;
            }
            let mut e = Matrix3::<i32>::identity();
            e[(i, j)] = rng.range(-1, 1) as i32;
            p *= e;
        }
        let pinv = p.map(|e| e as f64).try_inverse().unwrap().map(|e| e.round() as i32);
        let found: Vec<Matrix3<i32>> = gens.iter().map(|g| pinv * g * p).collect();
        // Sylvester system as in math/integer_system.rs
        let size = gens.len();
        let mut coeffs = DMatrix::<i32>::zeros(9 * size, 9);
        let id = Matrix3::<i32>::identity();
        for k in 0..size {
            let adj = id.kronecker(&found[k]) - gens[k].transpose().kronecker(&id);
            for i in 0..9 {
                for j in 0..9 {
                    coeffs[(9 * k + i, j)] = adj[(i, j)];
                }
            }
        }
        emit(w, &coeffs);
        // origin-shift system
        let mut a = DMatrix::<i32>::zeros(3 * size, 3);
        for k in 0..size {
            let ak = gens[k] - id;
            for i in 0..3 {
                for j in 0..3 {
                    a[(3 * k + i, j)] = ak[(i, j)];
                }
            }
        }
        emit(w, &a);
        // translation lattice: size*I plus random multiples
        let sz = *rng.pick(&[2i32, 3, 4, 6, 8]);
        let extra = rng.range(1, 5) as usize;
        let mut t = DMatrix::<i32>::zeros(3, 3 + extra);
        for i in 0..3 {
            t[(i, i)] = sz;
        }
        for c in 0..extra {
            for i in 0..3 {
                t[(i, 3 + c)] = rng.range(0, sz as i64 - 1) as i32;
            }
        }
        emit(w, &t);
    }
}

/// Run the implementation on one matrix given on the command line and print its output.
pub fn one(kind: &str, args: &[String]) {
    let m: usize = args[0].parse().unwrap();
    let n: usize = args[1].parse().unwrap();
    let e: Vec<i32> = args[2..].iter().map(|s| s.parse().unwrap()).collect();
    let a = DMatrix::<i32>::from_fn(m, n, |i, j| e[i * n + j]);
    println!("{}", if kind == "hnf" { hnf_expected(&a) } else { snf_expected(&a) });
}

pub fn gen(tier: &str, seed: u64, out: &str) {
    let mut w = CaseWriter::create(out);
    let mut rng = Rng::new(seed);
    let bound: i32 = if tier == "thorough" { 2 } else { 1 };
    // exhaustive 3x3 box
    let side = (2 * bound + 1) as i64;
    let total = side.pow(9);
    for idx in 0..total {
        let mut x = idx;
        let mut a = DMatrix::<i32>::zeros(3, 3);
        for k in 0..9 {
            a[(k / 3, k % 3)] = (x % side) as i32 - bound;
            x /= side;
        }
        emit(&mut w, &a);
    }
    let nrand = if tier == "thorough" { 60000 } else { 4000 };
    // Shapes and magnitudes "of the uses": 3xn (translation lattices, entries < size <= 8),
    // 3kx3 (origin-shift systems), a few other small shapes with entries in [-1,1] only (5x7 / 7x5 / 4x4 are
    // not shapes the library uses: with entries up to 4 their Smith reduction can already overflow i32), and 9kx9 Sylvester systems I (x) A - B^T (x) I of random 3x3 integer
    // matrices with entries in [-1,1] (dense random 9x9 matrices are NOT a use of the library: their
    // Smith reduction overflows i32 by coefficient explosion, which the property does not cover).
    let shapes: [(usize, usize, i64); 13] = [
        (3, 3, 8), (3, 4, 8), (3, 5, 8), (3, 6, 8), (3, 8, 8), (5, 7, 1), (7, 5, 1),
        (6, 3, 8), (9, 3, 8), (12, 3, 8), (18, 3, 8), (2, 2, 8), (4, 4, 1),
    ];
    for _ in 0..nrand {
        let (m, n, maxb) = *rng.pick(&shapes);
        let bound = *rng.pick(&[1i64, 2, 4, 8]);
        let a = random_matrix(&mut rng, m, n, bound.min(maxb));
        emit(&mut w, &a);
    }
    for _ in 0..nrand / 4 {
        use nalgebra::Matrix3;
        let k = rng.range(1, 4) as usize;
        let mut coeffs = DMatrix::<i32>::zeros(9 * k, 9);
        let id = Matrix3::<i32>::identity();
        for b in 0..k {
            let x = Matrix3::<i32>::from_fn(|_, _| rng.range(-1, 1) as i32);
            let y = if rng.chance(0.5) { x } else { Matrix3::<i32>::from_fn(|_, _| rng.range(-1, 1) as i32) };
            let adj = id.kronecker(&x) - y.transpose().kronecker(&id);
            for i in 0..9 {
                for j in 0..9 {
                    coeffs[(9 * b + i, j)] = adj[(i, j)];
                }
            }
        }
        emit(&mut w, &coeffs);
    }
    harvested(&mut rng, &mut w, if tier == "thorough" { 3000 } else { 300 });
    w.finish();
}

// ---------------------------------------------------------------------------------------------
// i64 predicate on the implementation's outputs over a whole box (exploration support)

fn det3(m: &[[i64; 3]; 3]) -> i64 {
    m[0][0] * (m[1][1] * m[2][2] - m[1][2] * m[2][1]) - m[0][1] * (m[1][0] * m[2][2] - m[1][2] * m[2][0])
        + m[0][2] * (m[1][0] * m[2][1] - m[1][1] * m[2][0])
}
fn mul3(a: &[[i64; 3]; 3], b: &[[i64; 3]; 3]) -> [[i64; 3]; 3] {
    let mut c = [[0i64; 3]; 3];
    for i in 0..3 {
        for j in 0..3 {
            for k in 0..3 {
                c[i][j] += a[i][k] * b[k][j];
            }
        }
    }
    c
}
fn to64(m: &nalgebra::Matrix3<i32>) -> [[i64; 3]; 3] {
    let mut c = [[0i64; 3]; 3];
    for i in 0..3 {
        for j in 0..3 {
            c[i][j] = m[(i, j)] as i64;
        }
    }
    c
}
fn rank3(a: &[[i64; 3]; 3]) -> usize {
    if det3(a) != 0 {
        return 3;
    }
    for i in 0..3 {
        for j in 0..3 {
            for k in i + 1..3 {
                for l in j + 1..3 {
                    if a[i][j] * a[k][l] - a[i][l] * a[k][j] != 0 {
                        return 2;
                    }
                }
            }
        }
    }
    if a.iter().any(|r| r.iter().any(|&e| e != 0)) {
        1
    } else {
        0
    }
}

/// Returns None if the C15 predicate holds for `a`, else a description.
pub fn predicate3(a: &nalgebra::Matrix3<i32>) -> Option<String> {
    let a2 = *a;
    let res = catch(move || {
        let h = HNF::new(&a2);
        let s = SNF::new(&a2);
        let rank = s.rank();
        (h.h, h.r, s.d, s.l, s.r, rank)
    });
    let (h, r, d, l, sr, rank) = match res {
        Ok(v) => v,
        Err(msg) => return Some(format!("panic: {}", msg)),
    };
    let (a64, h64, r64, d64, l64, sr64) = (to64(a), to64(&h), to64(&r), to64(&d), to64(&l), to64(&sr));
    if mul3(&a64, &r64) != h64 {
        return Some("H != A*R".into());
    }
    if det3(&r64).abs() != 1 {
        return Some("det R != +-1".into());
    }
    for i in 0..3 {
        for j in i + 1..3 {
            if h64[i][j] != 0 {
                return Some("H not lower triangular".into());
            }
        }
        if h64[i][i] < 0 {
            return Some("negative pivot".into());
        }
        if h64[i][i] != 0 {
            for j in 0..i {
                if !(0 <= h64[i][j] && h64[i][j] < h64[i][i]) {
                    return Some("entries left of pivot not reduced".into());
                }
            }
        }
    }
    let rk = rank3(&a64);
    if rk == 3 && (0..3).any(|i| h64[i][i] <= 0) {
        return Some("non-positive pivot for full-rank matrix".into());
    }
    if mul3(&mul3(&l64, &a64), &sr64) != d64 {
        return Some("D != L*A*R".into());
    }
    if det3(&l64).abs() != 1 || det3(&sr64).abs() != 1 {
        return Some("L or R not unimodular".into());
    }
    for i in 0..3 {
        for j in 0..3 {
            if i != j && d64[i][j] != 0 {
                return Some("D not diagonal".into());
            }
        }
        if d64[i][i] < 0 {
            return Some("D negative".into());
        }
    }
    if rank != rk {
        return Some(format!("rank {} != true rank {}", rank, rk));
    }
    None
}

/// Evaluate the predicate over all 3x3 matrices with entries in [-b, b] on `threads` threads.
/// Prints `box <b> evaluated=<n> failures=<k>` and up to 5 `fail <entries> : <why>` lines.
pub fn box_check(b: i32, threads: usize) {
    let side = (2 * b + 1) as i64;
    let total = side.pow(9);
    let handles: Vec<_> = (0..threads)
        .map(|t| {
            std::thread::spawn(move || {
                let mut fails: Vec<String> = vec![];
                let mut nfail = 0u64;
                let mut n = 0u64;
                let mut idx = t as i64;
                while idx < total {
                    let mut x = idx;
                    let mut a = nalgebra::Matrix3::<i32>::zeros();
                    for k in 0..9 {
                        a[(k / 3, k % 3)] = (x % side) as i32 - b;
                        x /= side;
                    }
                    if let Some(why) = predicate3(&a) {
                        nfail += 1;
                        if fails.len() < 5 {
                            let mut v = vec![];
                            for i in 0..3 {
                                for j in 0..3 {
                                    v.push(a[(i, j)] as i64);
                                }
                            }
                            fails.push(format!("fail 3 3 {} : {}", ints(v), why));
                        }
                    }
                    n += 1;
                    idx += threads as i64;
                }
                (n, nfail, fails)
            })
        })
        .collect();
    let mut n = 0;
    let mut nfail = 0;
    let mut fails = vec![];
    for h in handles {
        let (k, nf, f) = h.join().unwrap();
        n += k;
        nfail += nf;
        fails.extend(f);
    }
    println!("box {} evaluated={} failures={}", b, n, nfail);
    for f in fails.iter().take(5) {
        println!("{}", f);
    }
}

/// Last sentence of C15: "the sublattice points generated for a supercell of index n are n distinct cosets".
/// `Transformation::transform_cell` (the user of the Smith-type decomposition) on a one-atom cell for the integer matrix `a`
/// (det >= 1): the returned cell must have exactly det(a) sites, pairwise different modulo the new lattice.
pub fn coset_failure(a: &nalgebra::Matrix3<i32>) -> Option<String> {
    use moyo::base::{Cell, Lattice};
    use moyo::verif::base::Transformation;
    use nalgebra::{Matrix3, Vector3};
    let det = a[(0, 0)] * (a[(1, 1)] * a[(2, 2)] - a[(1, 2)] * a[(2, 1)]) - a[(0, 1)] * (a[(1, 0)] * a[(2, 2)] - a[(1, 2)] * a[(2, 0)])
        + a[(0, 2)] * (a[(1, 0)] * a[(2, 1)] - a[(1, 1)] * a[(2, 0)]);
    if det < 1 {
        return None;
    }
    let cell = Cell::new(Lattice { basis: Matrix3::<f64>::identity() * 4.0 }, vec![Vector3::new(0.1, 0.2, 0.3)], vec![1]);
    let m = *a;
    let r = crate::util::catch(move || Transformation::from_linear(m).transform_cell(&cell));
    let (c, _) = match r {
        Ok(x) => x,
        Err(e) => return Some(format!("PANIC {}", e)),
    };
    if c.num_atoms() != det as usize {
        return Some(format!("{} sites for index {}", c.num_atoms(), det));
    }
    for i in 0..c.num_atoms() {
        for j in 0..i {
            let d = (c.positions[i] - c.positions[j]).map(|e| (e - e.round()).abs());
            if d.x < 1e-6 && d.y < 1e-6 && d.z < 1e-6 {
                return Some(format!("sites {} and {} of the index-{} supercell coincide modulo the new lattice", j, i, det));
            }
        }
    }
    None
}

/// `c15-cosets <bound> <threads> [<maxdet>]`: `coset_failure` over every 3x3 matrix with entries in [-bound, bound] and 1 <= det <= maxdet.
pub fn cosets_check(b: i32, threads: usize, maxdet: i32) {
    let side = (2 * b + 1) as i64;
    let total = side.pow(9);
    let handles: Vec<_> = (0..threads)
        .map(|t| {
            std::thread::spawn(move || {
                let mut fails: Vec<String> = vec![];
                let (mut nfail, mut n) = (0u64, 0u64);
                let mut idx = t as i64;
                while idx < total {
                    let mut x = idx;
                    let mut a = nalgebra::Matrix3::<i32>::zeros();
                    for k in 0..9 {
                        a[(k / 3, k % 3)] = (x % side) as i32 - b;
                        x /= side;
                    }
                    idx += threads as i64;
                    let det = a[(0, 0)] * (a[(1, 1)] * a[(2, 2)] - a[(1, 2)] * a[(2, 1)]) - a[(0, 1)] * (a[(1, 0)] * a[(2, 2)] - a[(1, 2)] * a[(2, 0)])
                        + a[(0, 2)] * (a[(1, 0)] * a[(2, 1)] - a[(1, 1)] * a[(2, 0)]);
                    if det < 1 || det > maxdet {
                        continue;
                    }
                    n += 1;
                    if let Some(why) = coset_failure(&a) {
                        nfail += 1;
                        if fails.len() < 5 {
                            let mut v = vec![];
                            for i in 0..3 {
                                for j in 0..3 {
                                    v.push(a[(i, j)] as i64);
                                }
                            }
                            fails.push(format!("cfail {} : {}", ints(v), why));
                        }
                    }
                }
                (n, nfail, fails)
            })
        })
        .collect();
    let (mut n, mut nfail, mut fails) = (0, 0, vec![]);
    for h in handles {
        let (k, nf, f) = h.join().unwrap();
        n += k;
        nfail += nf;
        fails.extend(f);
    }
    println!("cosets {} evaluated={} failures={}", b, n, nfail);
    for f in fails.iter().take(10) {
        println!("{}", f);
    }
}
