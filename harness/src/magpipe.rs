//! Magnetic pipeline cases (C11, C12, C13): generated magnetic crystals through
//! `MoyoMagneticDataset::<Collinear|NonCollinear>::new`, dumped with exact floats and the
//! generator's ground truth, one line per case, for the Lean oracles (`mds` command).
use crate::maggen::*;
use crate::gen::hnfs_of_index;
use crate::pipeline::{cell_segments, imat_row_major, mat_row_major, vec3s};
use crate::util::*;
use moyo::base::{AngleTolerance, Collinear, MagneticCell, MagneticMoment, MoyoError, NonCollinear, RotationMagneticMomentAction};
use moyo::MoyoMagneticDataset;
use nalgebra::Vector3;

pub trait MomDump: MagneticMoment {
    fn comps(&self) -> Vec<f64>;
    fn from_vec(v: &Vector3<f64>) -> Self;
}
impl MomDump for Collinear {
    fn comps(&self) -> Vec<f64> {
        vec![self.0]
    }
    fn from_vec(v: &Vector3<f64>) -> Self {
        Collinear(v[0])
    }
}
impl MomDump for NonCollinear {
    fn comps(&self) -> Vec<f64> {
        vec![self.0[0], self.0[1], self.0[2]]
    }
    fn from_vec(v: &Vector3<f64>) -> Self {
        NonCollinear(*v)
    }
}

fn moms_str<M: MomDump>(ms: &[M]) -> String {
    ms.iter().flat_map(|m| m.comps()).map(fx).collect::<Vec<_>>().join(" ")
}

fn mag_cell_segments<M: MomDump>(prefix: &str, mc: &MagneticCell<M>) -> String {
    format!("{} ; {}mom {}", cell_segments(prefix, &mc.cell), prefix, moms_str(&mc.magnetic_moments))
}

pub fn mag_dataset_segments<M: MomDump>(r: &Result<Result<MoyoMagneticDataset<M>, MoyoError>, String>) -> String {
    match r {
        Err(msg) => format!("out panic ; msg {}", msg.replace(';', ",")),
        Ok(Err(e)) => format!("out err ; errname {:?}", e),
        Ok(Ok(d)) => {
            let ops: Vec<String> = d
                .magnetic_operations
                .iter()
                .map(|o| format!("{} {} {}", imat_row_major(&o.operation.rotation), vec3s(&o.operation.translation), if o.time_reversal { 1 } else { 0 }))
                .collect();
            let at = match d.angle_tolerance {
                AngleTolerance::Default => "default".to_string(),
                AngleTolerance::Radian(r) => format!("radian {}", fx(r)),
            };
            format!(
                "out ok ; uni {} ; nops {} ; mops {} ; orbits {} ; {} ; stdlinear {} ; stdshift {} ; stdrot {} ; {} ; primlinear {} ; primshift {} ; mapping {} ; osymprec {} ; omagsymprec {} ; oangtol {}",
                d.uni_number,
                d.magnetic_operations.len(),
                ops.join(" "),
                ints(d.orbits.iter().map(|&x| x as i64)),
                mag_cell_segments("std", &d.std_mag_cell),
                mat_row_major(&d.std_linear),
                vec3s(&d.std_origin_shift),
                mat_row_major(&d.std_rotation_matrix),
                mag_cell_segments("prim", &d.prim_std_mag_cell),
                mat_row_major(&d.prim_std_linear),
                vec3s(&d.prim_std_origin_shift),
                ints(d.mapping_std_prim.iter().map(|&x| x as i64)),
                fx(d.symprec),
                fx(d.mag_symprec),
                at
            )
        }
    }
}

pub fn run_mag_dataset<M: MomDump + std::panic::RefUnwindSafe + std::panic::UnwindSafe + 'static>(
    c: &MagCrystal,
    symprec: f64,
    mag_symprec: Option<f64>,
) -> Result<Result<MoyoMagneticDataset<M>, MoyoError>, String> {
    let moms: Vec<M> = c.moments().iter().map(M::from_vec).collect();
    let mc = MagneticCell::from_cell(c.cell().clone(), moms);
    let action = c.action;
    catch(move || MoyoMagneticDataset::<M>::new(&mc, symprec, AngleTolerance::Default, mag_symprec, action))
}

fn truth_segments(c: &MagCrystal) -> String {
    let t = &c.c.truth;
    format!(
        "tuni {} ; tctype {} ; tcentering {} ; tP {} ; tshift {} ; tQ {} ; torbit {} ; tvariant {} ; tforcedzero {} ; tredraws {} ; tsteps {}",
        c.uni,
        c.construct_type,
        centering_of(c.uni),
        imat_row_major(&t.p),
        vec3s(&t.shift),
        mat_row_major(&c.q),
        ints(t.orbit_id.iter().map(|&x| x as i64)),
        c.variant,
        if c.forced_zero { 1 } else { 0 },
        c.redraws,
        if t.steps.is_empty() { "none".to_string() } else { t.steps.join(",") }
    )
}

/// One full case line: `mds <tag> ; input cell ; mom ; kind ; action ; symprec ; magsymprec ; truth ; output`.
pub fn mag_case_line(tag: &str, c: &MagCrystal, symprec: f64, mag_symprec: Option<f64>) -> String {
    let moms = c.moments();
    let (momstr, out) = match c.kind {
        Kind::Collinear => {
            let r = run_mag_dataset::<Collinear>(c, symprec, mag_symprec);
            (moms.iter().map(|m| fx(m[0])).collect::<Vec<_>>().join(" "), mag_dataset_segments(&r))
        }
        Kind::NonCollinear => {
            let r = run_mag_dataset::<NonCollinear>(c, symprec, mag_symprec);
            (moms.iter().map(vec3s).collect::<Vec<_>>().join(" "), mag_dataset_segments(&r))
        }
    };
    format!(
        "mds {} ; {} ; mom {} ; kind {} ; action {} ; symprec {} ; magsymprec {} ; {} ; {}",
        tag,
        cell_segments("", c.cell()),
        momstr,
        kind_str(c.kind),
        action_str(c.action),
        fx(symprec),
        match mag_symprec {
            Some(m) => fx(m),
            None => "none".to_string(),
        },
        truth_segments(c),
        out
    )
}

const COMBOS: [(Kind, RotationMagneticMomentAction); 4] = [
    (Kind::NonCollinear, RotationMagneticMomentAction::Axial),
    (Kind::Collinear, RotationMagneticMomentAction::Polar),
    (Kind::NonCollinear, RotationMagneticMomentAction::Polar),
    (Kind::Collinear, RotationMagneticMomentAction::Axial),
];

fn combo_tag(k: Kind, a: RotationMagneticMomentAction) -> String {
    format!("{}{}", if k == Kind::Collinear { "c" } else { "n" }, if is_axial(a) { "a" } else { "p" })
}

/// Cases of one UNI number.  Every random choice comes from a generator seeded by (seed, uni), so the
/// cases of a UNI number do not depend on which other numbers are generated (partitioned runs, replay).
pub fn cases_of_uni(u: i32, tier: &str, seed: u64, emit: &mut dyn FnMut(String, &MagCrystal, f64, Option<f64>), skip: &mut dyn FnMut(String)) {
    let thorough = tier == "thorough";
    let mut rng = Rng::new(seed ^ 0x4D41_474E ^ (u as u64).wrapping_mul(0x9E37_79B9_7F4A_7C15));
    let s = (u as u64).wrapping_add(seed);
    let nops = mag_conv_ops(u).len();
    // the largest groups (>= 192 conventional operations: the oracles are quadratic in operations x atoms) get one
    // (kind, action) combination only; quick: a single re-described case for one such number in four
    let s3 = s / 3;
    let huge = nops >= 192;
    if !thorough && huge && s3 % 4 != 0 {
        return;
    }
    let combos: Vec<(Kind, RotationMagneticMomentAction)> = if thorough && !huge { COMBOS.to_vec() } else { vec![COMBOS[(s % 4) as usize]] };
    for (ci, (kind, action)) in combos.into_iter().enumerate() {
        let ct = combo_tag(kind, action);
        // large groups: magnetic species only
        let nonmag = if nops > (if thorough { 96 } else { 48 }) { 0 } else { 1 };
        let base = match mag_crystal(u, kind, action, &mut rng, nonmag, 12) {
            Some(b) => b,
            None => {
                skip(format!("u{}-{}", u, ct));
                continue;
            }
        };
        let symprec = 1e-4;
        let msp = |rng: &mut Rng| -> Option<f64> { *rng.pick(&[None, Some(1e-4), Some(3e-4), Some(1e-3)]) };
        // which variants this base crystal gets.  quick: sub-selections by s/3 (the UNI numbers themselves are selected
        // by s % 3).  thorough: every combination gets a re-described case and one of own / reversed / zero / supercell,
        // so that every UNI number sees all variants and every combination sees re-descriptions.
        let small = base.cell().num_atoms() <= 100;
        let (own, rev, zero, sup) = if thorough {
            if huge { (true, false, false, false) } else { (ci == 0 || (ci == 3 && !small), ci == 1, ci == 2, ci == 3 && small) }
        } else {
            (s3 % 3 == 0 && !huge, s3 % 4 == 1 && !huge, s3 % 5 == 2 && !huge, s3 % 6 == 3 && small)
        };
        if own {
            let m = msp(&mut rng);
            emit(format!("u{}-{}-own", u, ct), &base, symprec, m);
        }
        {
            let c = redescribe(&base, &mut rng, 2, None);
            let m = msp(&mut rng);
            emit(format!("u{}-{}-re0", u, ct), &c, symprec, m);
        }
        if rev {
            let c = redescribe(&base, &mut rng, 2, None).reverse_moments();
            let m = msp(&mut rng);
            emit(format!("u{}-{}-rev", u, ct), &c, symprec, m);
        }
        if zero {
            let lvl = 1 + rng.range(0, 1) as u32;
            let c = redescribe(&base, &mut rng, lvl, None).zero_moments();
            let m = msp(&mut rng);
            emit(format!("u{}-{}-zero", u, ct), &c, symprec, m);
        }
        // weakly canted moments (perturbation between 6 mag_symprec and 0.3 sqrt(mag_symprec)): the generating group is only
        // an upper bound here, so the cases are judged by the truth-independent clauses alone (checks/magpipe.py)
        let cant = if thorough { !huge && (ci == 0 || ci == 1) } else { s3 % 2 == 0 && !huge };
        if cant {
            let mut crng = rng.fork();
            let m = *crng.pick(&[1e-5, 1e-4]);
            let lvl = crng.range(0, 2) as u32;
            let c = redescribe(&base, &mut crng, lvl, None).cant_moments(&mut crng, 6.0 * m, 0.3 * m.sqrt());
            emit(format!("u{}-{}-cant", u, ct), &c, symprec, Some(m));
        }
        // noise well inside the tolerances (5 % of symprec on positions and lattice, 5 % of mag_symprec on moments): the
        // generating group is still the truth; the standardized cell must come out exactly symmetric all the same
        let noisy = if thorough { !huge && (ci == 2 || ci == 3) } else { s3 % 3 == 1 && !huge };
        if noisy {
            let mut nrng = rng.fork();
            let m = *nrng.pick(&[1e-4, 3e-4]);
            let lvl = nrng.range(0, 2) as u32;
            let c = redescribe(&base, &mut nrng, lvl, None).noisy(&mut nrng, 0.05 * symprec, 0.05 * m);
            emit(format!("u{}-{}-noisy", u, ct), &c, symprec, Some(m));
        }
        if sup {
            let idx = rng.range(2, if thorough { 4 } else { 3 }) as i32;
            let all = hnfs_of_index(idx);
            let hm = *rng.pick(&all);
            let lvl = rng.range(0, 2) as u32;
            let c = redescribe(&base, &mut rng, lvl, Some(hm));
            let m = msp(&mut rng);
            emit(format!("u{}-{}-sup", u, ct), &c, symprec, m);
        }
    }
}

/// UNI numbers explored in a tier.  thorough: all 1651.  quick: a seed-dependent third, plus the first
/// entry of every (construct type, centering) class so that every class is hit by every run.
pub fn selected_unis(tier: &str, seed: u64) -> Vec<i32> {
    if tier == "thorough" {
        return (1..=1651).collect();
    }
    let mut seen = std::collections::BTreeSet::new();
    let mut out = vec![];
    for u in 1..=1651 {
        let class = (construct_type_of(u), centering_of(u));
        let first = seen.insert(class);
        if first || (u as u64 + seed) % 3 == 0 {
            out.push(u);
        }
    }
    out
}

/// `mag-gen <tier> <out> [<part> <nparts>]`
pub fn gen_cases(tier: &str, seed: u64, out: &str, part: usize, nparts: usize) {
    let mut w = CaseWriter::create(out);
    let mut skips: Vec<String> = vec![];
    for u in selected_unis(tier, seed) {
        if (u as usize) % nparts != part {
            continue;
        }
        let mut lines: Vec<String> = vec![];
        cases_of_uni(u, tier, seed, &mut |tag, c, sp, msp| lines.push(mag_case_line(&tag, c, sp, msp)), &mut |t| skips.push(t));
        for l in lines {
            w.raw(&l);
        }
    }
    for s in skips {
        w.raw(&format!("mskip {}", s));
    }
    w.finish();
}

/// `mag-one <tier> <tag>`: regenerate the cases of the tag's UNI number and print the one with this tag.
pub fn gen_one(tier: &str, seed: u64, tag: &str) {
    let u: i32 = tag.trim_start_matches('u').split('-').next().unwrap().parse().unwrap();
    cases_of_uni(
        u,
        tier,
        seed,
        &mut |t, c, sp, msp| {
            if t == tag {
                println!("{}", mag_case_line(&t, c, sp, msp));
            }
        },
        &mut |_| {},
    );
}

/// `mag-probe <from> <to>`: premise statistics and timing (development aid).
pub fn probe(seed: u64, from: i32, to: i32, symprec: f64, msp: Option<f64>) {
    for u in from..=to {
        for (kind, action) in COMBOS {
            let mut rng = Rng::new(seed ^ (u as u64) << 8);
            let t = std::time::Instant::now();
            let nops = mag_conv_ops(u).len();
            let c = mag_crystal(u, kind, action, &mut rng, if nops > 96 { 0 } else { 1 }, 6);
            let tg = t.elapsed().as_secs_f64();
            match c {
                None => println!("u{} {} ops {} PREMISE-UNSATISFIED gen {:.2}s", u, combo_tag(kind, action), nops, tg),
                Some(c) => {
                    let t = std::time::Instant::now();
                    let c = redescribe(&c, &mut rng, 2, None);
                    let line = mag_case_line("probe", &c, symprec, msp);
                    let td = t.elapsed().as_secs_f64();
                    let out = line.split(" ; out ").nth(1).unwrap_or("");
                    let head: String = out.chars().take(40).collect();
                    println!("u{} {} ops {} atoms {} redraws {} zero {} gen {:.2}s dataset {:.2}s out {}", u, combo_tag(kind, action), nops, c.cell().num_atoms(), c.redraws, c.forced_zero, tg, td, head);
                }
            }
        }
    }
}

/// `mag-defect <name>`: hand-made minimal witnesses of the three C13 defects (exact small inputs,
/// orthorhombic cell 5 x 6 x 7 with the axes along x, y, z; one species on a general orbit, moment (1/4,1/2,3/4)
/// at (1/8,1/4,5/16), non-collinear, axial):
///  frame:    UNI 99 (P 2 2) in its own setting, axes along x, y, z: the standardization picks the axes (b, a, -c), so
///            std_rotation_matrix = [[0,-1,0],[-1,0,0],[0,0,-1]] does not commute with the twofold rotations about x and y
///  control:  the same crystal rigidly rotated by 90 deg about z (moments rotated along): the composite rotation happens to
///            commute with the point group, all clauses hold
///  sitemap:  UNI 136 (C 2 2), C-centred cell in its own setting, no shift; std_rotation_matrix = diag(-1,-1,1) commutes
///            with the point group (frame mismatch harmless), the moments are read through the conventional site map
///  shift:    UNI 99 (P 2 2), origin moved off the axes by (1/8, 1/16, 3/16)
pub fn defect_case(name: &str) -> String {
    use nalgebra::Matrix3;
    let na = (Kind::NonCollinear, RotationMagneticMomentAction::Axial);
    let basis = Matrix3::new(5.0, 0.0, 0.0, 0.0, 6.0, 0.0, 0.0, 0.0, 7.0);
    let x = Vector3::new(0.125, 0.25, 0.3125);
    let m0 = Vector3::new(0.25, 0.5, 0.75);
    let c = match name {
        "frame" => explicit_crystal(99, basis, x, m0, na.0, na.1),
        "control" => explicit_crystal(99, basis, x, m0, na.0, na.1).rotate(&Matrix3::new(0.0, -1.0, 0.0, 1.0, 0.0, 0.0, 0.0, 0.0, 1.0)),
        "shift" => explicit_crystal(99, basis, x, m0, na.0, na.1).shift_origin(&Vector3::new(0.125, 0.0625, 0.1875)),
        "sitemap" => explicit_crystal(136, basis, x, m0, na.0, na.1),
        _ => panic!("unknown defect name"),
    };
    mag_case_line(&format!("defect-{}", name), &c, 1e-4, Some(1e-4))
}

pub fn dispatch(args: &[String], seed: u64) -> bool {
    match args[1].as_str() {
        "mag-defect" => {
            println!("{}", defect_case(&args[2]));
            true
        }
        "mag-gen" => {
            let (part, nparts) = if args.len() >= 6 { (args[4].parse().unwrap(), args[5].parse().unwrap()) } else { (0, 1) };
            gen_cases(&args[2], seed, &args[3], part, nparts);
            true
        }
        "mag-one" => {
            gen_one(&args[2], seed, &args[3]);
            true
        }
        "mag-probe" => {
            let sp = if args.len() > 4 { args[4].parse().unwrap() } else { 1e-4 };
            let msp = if args.len() > 5 { Some(args[5].parse().unwrap()) } else { None };
            probe(seed, args[2].parse().unwrap(), args[3].parse().unwrap(), sp, msp);
            true
        }
        _ => false,
    }
}
