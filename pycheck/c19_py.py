#!/usr/bin/env python3
"""C19, Python side.  Runs under the sandbox CPython against the moyopy extension built from the
current tree (PYTHONPATH=/verif/.cache/pymod).

usage: c19_py.py <input .py.jsonl written by `moyo_harness c19-gen`> <output .jsonl> [max_recompute]

For every entry {index, spec, json} (json = the Rust `serde_json::to_string` of the value the spec
describes) and the Python class `cls` of the same type:
  A  cls.deserialize_json(json).serialize_json()   must be the same representation as json
  B  .as_dict()                                     must be the same representation (tuples = arrays)
  C  cls.from_dict(as_dict) and cls.from_dict(json.loads(json))  accepted, serialise back to the same
  D  the value constructed in Python from the spec  serialises to the same representation
     (cells: every number; datasets: same keys / shapes / types exactly, values to 1e-9 — the search
      runs again, in another build profile)
  E  from_dict of the dictionary with a field removed or renamed is refused with ValueError
"same representation": same keys in the same order, same array lengths, same JSON types (an integer
is not a float), integers / strings / booleans exactly, floats to 1e-15 relative.
"""
import json
import sys

import moyopy

CLS = {
    "Cell": "Cell",
    "MagneticCell<Collinear>": "CollinearMagneticCell",
    "MagneticCell<NonCollinear>": "NonCollinearMagneticCell",
    "MoyoDataset": "MoyoDataset",
    "MoyoMagneticDataset<Collinear>": "MoyoCollinearMagneticDataset",
    "MoyoMagneticDataset<NonCollinear>": "MoyoNonCollinearMagneticDataset",
}


def canon(x):
    """as_dict() gives tuples for fixed-size arrays; JSON has only arrays."""
    if isinstance(x, tuple):
        return [canon(y) for y in x]
    if isinstance(x, list):
        return [canon(y) for y in x]
    if isinstance(x, dict):
        return {k: canon(v) for k, v in x.items()}
    return x


def diff(a, b, path="", rel=1e-15, out=None, values=None):
    """Differences between two JSON-like values.  `out`: structural/exact problems;
    `values`: float differences beyond `rel` (only used when given, else they go to `out`)."""
    if out is None:
        out = []
    if len(out) > 5:
        return out
    if isinstance(a, dict) or isinstance(b, dict):
        if not (isinstance(a, dict) and isinstance(b, dict)):
            out.append(f"{path}: {type(a).__name__} vs {type(b).__name__}")
        elif list(a.keys()) != list(b.keys()):
            out.append(f"{path}: keys {list(a.keys())} vs {list(b.keys())}")
        else:
            for k in a:
                diff(a[k], b[k], f"{path}.{k}" if path else k, rel, out, values)
    elif isinstance(a, list) or isinstance(b, list):
        if not (isinstance(a, list) and isinstance(b, list)):
            out.append(f"{path}: {type(a).__name__} vs {type(b).__name__}")
        elif len(a) != len(b):
            out.append(f"{path}: length {len(a)} vs {len(b)}")
        else:
            for i, (x, y) in enumerate(zip(a, b)):
                diff(x, y, f"{path}.{i}", rel, out, values)
    elif isinstance(a, bool) or isinstance(b, bool):
        if not (isinstance(a, bool) and isinstance(b, bool)) or a != b:
            out.append(f"{path}: {a!r} vs {b!r}")
    elif isinstance(a, int) and isinstance(b, int):
        if a != b:
            out.append(f"{path}: {a!r} vs {b!r}")
    elif isinstance(a, float) and isinstance(b, float):
        if not (a == b or abs(a - b) <= rel * max(abs(a), abs(b))):
            (values if values is not None else out).append(f"{path}: {a!r} vs {b!r}")
    elif type(a) is not type(b):
        out.append(f"{path}: {type(a).__name__} {a!r} vs {type(b).__name__} {b!r}")
    elif a != b:
        out.append(f"{path}: {a!r} vs {b!r}")
    return out


def setting_of(s):
    if s == "standard":
        return moyopy.Setting.standard()
    if isinstance(s, dict):
        return moyopy.Setting.hall_number(s["hall_number"])
    return moyopy.Setting.spglib()


def construct(spec):
    """The same value built through the Python constructors; None if the search fails."""
    ty = spec["type"]
    c = spec["cell"]
    if ty == "Cell" or ty == "MoyoDataset":
        cell = moyopy.Cell(c["basis"], c["positions"], c["numbers"])
    elif ty.endswith("<Collinear>"):
        cell = moyopy.CollinearMagneticCell(c["basis"], c["positions"], c["numbers"], c["magnetic_moments"])
    else:
        cell = moyopy.NonCollinearMagneticCell(c["basis"], c["positions"], c["numbers"], c["magnetic_moments"])
    if ty.startswith("MagneticCell") or ty == "Cell":
        return cell
    try:
        if ty == "MoyoDataset":
            return moyopy.MoyoDataset(cell, symprec=spec["symprec"], angle_tolerance=spec["angle_tolerance"],
                                      setting=setting_of(spec["setting"]))
        cls = getattr(moyopy, CLS[ty])
        return cls(cell, symprec=spec["symprec"], angle_tolerance=spec["angle_tolerance"], mag_symprec=spec["mag_symprec"],
                   is_axial=spec["is_axial"])
    except ValueError:
        return None


def first_key_path(d):
    """Path (list of keys) to some nested dictionary key, deepest first: used for the refusal tests."""
    for k, v in d.items():
        if isinstance(v, dict) and v:
            return [k] + first_key_path(v)
    return [next(iter(d))]


def mutate(d, path, how):
    d = json.loads(json.dumps(d))
    cur = d
    for k in path[:-1]:
        cur = cur[k]
    k = path[-1]
    if how == "remove":
        del cur[k]
    else:
        items = [(kk + "_renamed" if kk == k else kk, vv) for kk, vv in cur.items()]
        cur.clear()
        cur.update(items)
    return d


def check(entry, recompute):
    spec, s = entry["spec"], entry["json"]
    ty = spec["type"]
    cls = getattr(moyopy, CLS[ty])
    ref = json.loads(s)
    problems, notes = [], []

    def stage(name, f):
        try:
            return f()
        except BaseException as e:  # PanicException derives from BaseException
            problems.append(f"{name}: raised {type(e).__name__}: {str(e)[:200]}")
            return None

    obj = stage("A deserialize_json", lambda: cls.deserialize_json(s))
    if obj is None:
        return problems, notes
    s2 = stage("A serialize_json", obj.serialize_json)
    if s2 is not None:
        for d in diff(json.loads(s2), ref):
            problems.append("A deserialize_json→serialize_json: " + d)
        if s2 != s and not problems:
            notes.append("A text differs from the Rust text although the representation is the same")
    d = stage("B as_dict", obj.as_dict)
    if d is not None:
        for x in diff(canon(d), ref):
            problems.append("B as_dict: " + x)
        o2 = stage("C from_dict(as_dict)", lambda: cls.from_dict(d))
        if o2 is not None:
            for x in diff(json.loads(o2.serialize_json()), ref):
                problems.append("C from_dict(as_dict)→serialize_json: " + x)
        o3 = stage("C from_dict(json.loads)", lambda: cls.from_dict(ref))
        if o3 is not None:
            for x in diff(canon(o3.as_dict()), ref):
                problems.append("C from_dict(json.loads)→as_dict: " + x)
        # E: refusal of a missing / renamed field
        path = first_key_path(ref)
        for how in ("remove", "rename"):
            bad = mutate(ref, path, how)
            try:
                cls.from_dict(bad)
                problems.append(f"E from_dict accepted a dictionary with field {'.'.join(path)} {how}d")
            except ValueError:
                pass
            except BaseException as e:
                problems.append(f"E from_dict({how} {'.'.join(path)}): raised {type(e).__name__}")
            try:
                cls.deserialize_json(json.dumps(bad))
                problems.append(f"E deserialize_json accepted a document with field {'.'.join(path)} {how}d")
            except ValueError:
                pass
            except BaseException as e:
                problems.append(f"E deserialize_json({how} {'.'.join(path)}): raised {type(e).__name__}")
    if recompute:
        is_cell = ty in ("Cell", "MagneticCell<Collinear>", "MagneticCell<NonCollinear>")
        if is_cell:
            built = stage("D constructor", lambda: construct(spec))
        else:
            # a dataset search that fails or panics in the Python build is C08/C20's business, not the representation's
            try:
                built = construct(spec)
                if built is None:
                    notes.append("D the Python constructor returned an error where Rust returned a value")
            except BaseException as e:
                built = None
                notes.append(f"D the Python constructor raised {type(e).__name__} where Rust returned a value")
        if built is not None:
            got = json.loads(built.serialize_json())
            if ty in ("Cell", "MagneticCell<Collinear>", "MagneticCell<NonCollinear>"):
                for x in diff(got, ref):
                    problems.append("D constructed value: " + x)
                for x in diff(canon(built.as_dict()), ref):
                    problems.append("D constructed value as_dict: " + x)
            else:
                values = []
                for x in diff(got, ref, rel=1e-9, values=values):
                    # a different but valid answer of the search (e.g. another operation order) is not C19's
                    # business; a different *shape of the representation* is
                    if ": keys " in x or " vs " in x and ("dict" in x or "list" in x or "int " in x or "float " in x or "str " in x):
                        problems.append("D constructed dataset, representation: " + x)
                    else:
                        values.append(x)
                if values:
                    notes.append("D constructed dataset differs in value from the Rust one: " + values[0])
    return problems, notes


def main():
    inp, outp = sys.argv[1], sys.argv[2]
    max_recompute = int(sys.argv[3]) if len(sys.argv) > 3 else 10**9
    done = 0
    with open(inp) as f, open(outp, "w") as out:
        for line in f:
            entry = json.loads(line)
            is_ds = entry["spec"]["type"].startswith("Moyo")
            recompute = (not is_ds) or done < max_recompute
            if is_ds and recompute:
                done += 1
            problems, notes = check(entry, recompute)
            out.write(json.dumps({"index": entry["index"], "type": entry["spec"]["type"], "problems": problems, "notes": notes,
                                  "recomputed": recompute}) + "\n")
    print(f"python {sys.version.split()[0]} moyopy {moyopy.__version__} from {moyopy.__file__}")


if __name__ == "__main__":
    main()
