"""C20 dynamic comparison, Python side.

usage: c20_compare.py <cases.jsonl> <report.json>

Runs under the sandbox CPython against the freshly built moyopy extension (PYTHONPATH is set by
checks/c20.py).  Every line of <cases.jsonl> is a case written by `moyo_harness c20-gen`: an input, a list
of keyword-argument combinations and, for each, the value of every field of the Rust result
(floats as the 16 hex digits of their bit pattern, matrices as rows `[i][j] = M(i,j)`, lattices as the
list of basis vectors).  The same inputs are pushed through moyopy and *every public attribute* of the
returned objects is compared:
  ints / strings / bools / shapes: exact;   floats: bitwise (same code path);
  a float that differs bitwise but by <= 1e-12 is counted as `drift` (reported, not a mismatch).
A matrix that equals the transpose of the expected one is labelled `transposed`.
"""
import json
import struct
import sys

import moyopy

PANIC = None
try:
    import pyo3_runtime  # noqa: F401  (not importable in general; the class is reachable through a raised instance)
except Exception:
    pass


def unhex(h):
    return struct.unpack(">d", bytes.fromhex(h))[0]


def bits(x):
    return struct.pack(">d", x).hex()


class Report:
    def __init__(self):
        self.compared = 0            # leaf attribute comparisons
        self.by_class = {}
        self.mismatches = []
        self.mismatch_counts = {}
        self.n_mismatch = 0
        self.drift = []
        self.uncovered = {}          # class -> attributes the object has but the schema does not know
        self.nonsym = 0              # non-symmetric matrices compared (a missing transpose is visible on these)
        self.mat = 0
        self.runs = 0
        self.outcomes = {}
        self.samples = []
        self.ctx = None

    def count(self, cls):
        self.compared += 1
        self.by_class[cls] = self.by_class.get(cls, 0) + 1

    def bad(self, kind, path, py, rust):
        """record a mismatch; at most 5 per (kind, attribute) are written out, the rest only counted"""
        key = kind + "|" + path
        self.mismatch_counts[key] = self.mismatch_counts.get(key, 0) + 1
        self.n_mismatch += 1
        if self.mismatch_counts[key] <= 5:
            m = dict(self.ctx)
            m.update({"kind": kind, "attr": path, "python": py, "rust": rust})
            self.mismatches.append(m)


R = Report()


# ---- leaf comparators -----------------------------------------------------------------------

def cmp_float(path, py, hx):
    if not isinstance(py, float):
        R.bad("type", path, repr(py), "f64 " + repr(unhex(hx)))
        return False
    if bits(py) == hx:
        return True
    ex = unhex(hx)
    if py == py and ex == ex and abs(py - ex) <= 1e-12 * max(1.0, abs(ex)):
        if len(R.drift) < 50:
            d = dict(R.ctx)
            d.update({"attr": path, "python": repr(py), "rust": repr(ex)})
            R.drift.append(d)
        return True
    return False


def cmp_int(path, py, ex):
    # value equality; a float with integral value is accepted (the .pyi documents rotations as float)
    if isinstance(py, bool) or not isinstance(py, (int, float)):
        R.bad("type", path, repr(py), repr(ex))
        return False
    return py == ex


def shape_ok(py, dims):
    if not dims:
        return not isinstance(py, (list, tuple))
    if not isinstance(py, (list, tuple)):
        return False
    if dims[0] is not None and len(py) != dims[0]:
        return False
    return all(shape_ok(x, dims[1:]) for x in py)


def decode(ex, leaf):
    if isinstance(ex, list):
        return [decode(x, leaf) for x in ex]
    return unhex(ex) if leaf == "f" else ex


def transpose(m):
    return [[m[j][i] for j in range(3)] for i in range(3)]


def cmp_tensor(cls, path, py, ex, leaf, dims):
    """leaf 'f' (bitwise float) or 'i' (int).  dims: e.g. (3,3), (None,3), (None,3,3), (3,)"""
    R.count(cls)
    is_mat = tuple(dims) in ((3, 3), (None, 3, 3))
    dims = list(dims)
    if dims and dims[0] is None:
        dims[0] = len(ex)
    if not shape_ok(py, dims):
        R.bad("shape", path, repr(py)[:300], repr(decode(ex, leaf))[:300])
        return
    ok = True

    def walk(p, e):
        nonlocal ok
        if isinstance(e, list):
            for a, b in zip(p, e):
                walk(a, b)
        else:
            good = cmp_float(path, p, e) if leaf == "f" else cmp_int(path, p, e)
            ok = ok and good
    before = R.n_mismatch
    walk(py, ex)
    mats = []
    if is_mat and len(dims) == 2:
        mats = [(py, decode(ex, leaf))]
    elif is_mat:
        mats = list(zip(py, decode(ex, leaf)))
    nons = [e for _, e in mats if e != transpose(e)]
    R.mat += len(mats)
    R.nonsym += len(nons)
    if nons and len(R.samples) < 12 and not any(s["attr"] == path for s in R.samples):
        R.samples.append({"id": R.ctx.get("id"), "input": R.ctx.get("desc"), "kwargs": R.ctx.get("kwargs"), "attr": path,
                          "rust_rows": nons[0]})
    if not ok and R.n_mismatch == before:
        kind = "value"
        if mats and all(p == transpose(e) for p, e in mats if isinstance(p, list)):
            kind = "transposed"
        R.bad(kind, path, repr(py)[:400], repr(decode(ex, leaf))[:400])


def cmp_exact(cls, path, py, ex, typ):
    R.count(cls)
    if typ is float:
        raise AssertionError
    if isinstance(ex, list):
        if not isinstance(py, (list, tuple)) or len(py) != len(ex) or any(type(a) is not typ for a in py) or list(py) != ex:
            R.bad("value", path, repr(py)[:300], repr(ex)[:300])
        return
    if type(py) is not typ or py != ex:
        R.bad("value", path, repr(py)[:300], repr(ex)[:300])


def cmp_translations_mod1(cls, path, py, ex):
    """translations of `operations_from_number` (no Rust function of the same name exists; the expectation is rebuilt from
    HallSymbol::traverse x centring): same operation iff equal modulo 1 — compared mod 1 to 1e-12."""
    R.count(cls)
    exd = decode(ex, "f")
    if not shape_ok(py, [len(exd), 3]):
        R.bad("shape", path, repr(py)[:300], repr(exd)[:300])
        return
    for p, e in zip(py, exd):
        for a, b in zip(p, e):
            if not isinstance(a, float) or abs(((a - b + 0.5) % 1.0) - 0.5) > 1e-12:
                R.bad("value", path, repr(py)[:400], repr(exd)[:400])
                return


def cmp_optfloat(cls, path, py, ex):
    R.count(cls)
    if ex is None:
        if py is not None:
            R.bad("value", path, repr(py), "None")
    else:
        before = R.n_mismatch
        if (py is None or not cmp_float(path, py, ex)) and R.n_mismatch == before:
            R.bad("value", path, repr(py), repr(unhex(ex)))


# ---- schemas: every public attribute of every class ------------------------------------------------
# tag -> how to compare.  Methods (callables) that belong to serialisation (C19) are listed under METHODS so
# that "an attribute nobody compares" can be detected.

def public_attrs(obj):
    return [a for a in dir(obj) if not a.startswith("_")]


METHODS = {"serialize_json", "deserialize_json", "as_dict", "from_dict"}


def coverage(cls, obj, schema):
    have = set(public_attrs(obj))
    extra = have - set(schema) - METHODS
    missing = set(schema) - have
    if extra:
        R.uncovered.setdefault(cls, sorted(extra))
    for a in sorted(missing):
        R.count(cls)
        R.bad("missing-attribute", cls + "." + a, "<absent>", "<documented>")
    return missing


def cmp_obj(cls, prefix, obj, ex, schema):
    missing = coverage(cls, obj, schema)
    for attr, how in schema.items():
        if attr in missing:
            continue
        path = prefix + attr
        try:
            py = getattr(obj, attr)
        except BaseException as e:  # noqa: BLE001
            R.count(cls)
            R.bad("getter-raised", path, exc_name(e) + ": " + str(e)[:200], "value")
            continue
        how(cls, path, py, ex[attr])


def T(leaf, *dims):
    return lambda cls, path, py, ex: cmp_tensor(cls, path, py, ex, leaf, dims)


def X(typ):
    return lambda cls, path, py, ex: cmp_exact(cls, path, py, ex, typ)


def NEST(cls2, schema_name):
    def f(cls, path, py, ex):
        if type(py).__name__ != cls2:
            R.count(cls)
            R.bad("type", path, type(py).__name__, cls2)
            return
        cmp_obj(cls2, path + ".", py, ex, SCHEMAS[schema_name])
        if "json" in ex and hasattr(py, "serialize_json"):
            R.count(cls2)
            s = py.serialize_json()
            if s != ex["json"]:
                R.bad("json", path + ".serialize_json()", s[:300], ex["json"][:300])
    return f


def LEN(cls, path, py, ex):
    pass


SCHEMAS = {}
SCHEMAS["Cell"] = {"basis": T("f", 3, 3), "positions": T("f", None, 3), "numbers": X(int), "num_atoms": X(int)}
SCHEMAS["CollinearMagneticCell"] = dict(SCHEMAS["Cell"], magnetic_moments=T("f", None))
SCHEMAS["NonCollinearMagneticCell"] = dict(SCHEMAS["Cell"], magnetic_moments=T("f", None, 3))
SCHEMAS["Operations"] = {"rotations": T("i", None, 3, 3), "translations": T("f", None, 3), "num_operations": X(int)}
SCHEMAS["MagneticOperations"] = dict(SCHEMAS["Operations"], time_reversals=X(bool))
SCHEMAS["MoyoDataset"] = {
    "number": X(int), "hall_number": X(int), "operations": NEST("Operations", "Operations"),
    "orbits": X(int), "wyckoffs": X(str), "site_symmetry_symbols": X(str),
    "std_cell": NEST("Cell", "Cell"), "std_linear": T("f", 3, 3), "std_origin_shift": T("f", 3),
    "std_rotation_matrix": T("f", 3, 3), "pearson_symbol": X(str),
    "prim_std_cell": NEST("Cell", "Cell"), "prim_std_linear": T("f", 3, 3), "prim_std_origin_shift": T("f", 3),
    "mapping_std_prim": X(int), "symprec": T("f"), "angle_tolerance": cmp_optfloat,
}


def mag_schema(cellcls):
    return {
        "uni_number": X(int), "magnetic_operations": NEST("MagneticOperations", "MagneticOperations"), "orbits": X(int),
        "std_mag_cell": NEST(cellcls, cellcls), "std_linear": T("f", 3, 3), "std_origin_shift": T("f", 3),
        "std_rotation_matrix": T("f", 3, 3), "prim_std_mag_cell": NEST(cellcls, cellcls),
        "prim_std_linear": T("f", 3, 3), "prim_std_origin_shift": T("f", 3), "mapping_std_prim": X(int),
        "symprec": T("f"), "angle_tolerance": cmp_optfloat, "mag_symprec": T("f"),
    }


SCHEMAS["MoyoCollinearMagneticDataset"] = mag_schema("CollinearMagneticCell")
SCHEMAS["MoyoNonCollinearMagneticDataset"] = mag_schema("NonCollinearMagneticCell")


def centering(cls, path, py, ex):
    R.count(cls)
    if type(py).__name__ != "Centering":
        R.bad("type", path, type(py).__name__, "Centering(" + ex + ")")


SCHEMAS["HallSymbolEntry"] = {"hall_number": X(int), "number": X(int), "arithmetic_number": X(int), "setting": X(str),
                              "hall_symbol": X(str), "hm_short": X(str), "hm_full": X(str), "centering": centering}
SCHEMAS["SpaceGroupType"] = {k: X(int if k in ("number", "arithmetic_number") else str) for k in (
    "number", "hm_short", "hm_full", "arithmetic_number", "arithmetic_symbol", "geometric_crystal_class",
    "crystal_system", "bravais_class", "lattice_system", "crystal_family")}
SCHEMAS["MagneticSpaceGroupType"] = {"uni_number": X(int), "litvin_number": X(int), "bns_number": X(str),
                                     "og_number": X(str), "number": X(int), "construct_type": X(int)}


# ---- running the cases -------------------------------------------------------------------------------

def exc_name(e):
    return type(e).__module__ + "." + type(e).__name__


def make_setting(v):
    if v is None:
        return None
    if v == "spglib":
        return moyopy.Setting.spglib()
    if v == "standard":
        return moyopy.Setting.standard()
    return moyopy.Setting.hall_number(v["hall_number"])


def make_kwargs(kw):
    out = {}
    for k, v in kw.items():
        if k == "setting":
            out[k] = make_setting(v)
        elif k == "is_axial":
            out[k] = v
        elif v is None:
            out[k] = None
        else:
            out[k] = unhex(v)
    return out


def show_kwargs(kw):
    out = {}
    for k, v in kw.items():
        out[k] = unhex(v) if isinstance(v, str) and len(v) == 16 and k != "setting" else v
    return out


def check_len(cls, path, obj, n):
    R.count(cls)
    try:
        got = len(obj)
    except BaseException as e:  # noqa: BLE001
        got = exc_name(e)
    if got != n:
        R.bad("value", path, repr(got), repr(n))


def run_outcome(cls, ctor, exp, after_ok):
    """Call the constructor and compare the kind of outcome with the Rust one."""
    R.runs += 1
    try:
        obj = ctor()
    except BaseException as e:  # noqa: BLE001
        name = exc_name(e)
        R.count(cls)
        R.outcomes[name] = R.outcomes.get(name, 0) + 1
        if "err" in exp:
            if not isinstance(e, ValueError):
                R.bad("exception-type", cls + "()", name + ": " + str(e)[:200], "ValueError: " + exp["err"])
            elif exp["err"] != "unknown" and str(e) != exp["err"]:
                R.bad("exception-message", cls + "()", str(e)[:200], exp["err"])
        elif "panic" in exp:
            R.bad("panic", cls + "()", name + ": " + str(e)[:200],
                  "Rust panicked too: " + exp["panic"][:200] + " @ " + exp.get("location", ""))
        else:
            R.bad("unexpected-exception", cls + "()", name + ": " + str(e)[:300], "Ok(..)")
        return
    R.outcomes["ok"] = R.outcomes.get("ok", 0) + 1
    if "ok" not in exp:
        R.count(cls)
        R.bad("missing-exception", cls + "()", "returned " + type(obj).__name__, json.dumps(exp)[:200])
        return
    after_ok(obj, exp["ok"])


def do_structure_case(case):
    kind = case["kind"]
    inp = case["input"]
    basis = decode(inp["basis"], "f")
    positions = decode(inp["positions"], "f")
    numbers = inp["numbers"]
    R.ctx = {"id": case["id"], "desc": case.get("desc", ""), "run": None, "kwargs": None}
    if kind == "cell":
        cellcls, dscls = "Cell", "MoyoDataset"
        cell = moyopy.Cell(basis, positions, numbers)
    elif kind == "collinear":
        cellcls, dscls = "CollinearMagneticCell", "MoyoCollinearMagneticDataset"
        cell = moyopy.CollinearMagneticCell(basis, positions, numbers, decode(inp["magnetic_moments"], "f"))
    else:
        cellcls, dscls = "NonCollinearMagneticCell", "MoyoNonCollinearMagneticDataset"
        cell = moyopy.NonCollinearMagneticCell(basis, positions, numbers, decode(inp["magnetic_moments"], "f"))
    NEST(cellcls, cellcls)(cellcls, "input", cell, case["input_expect"])
    ctor = getattr(moyopy, dscls)
    for k, run in enumerate(case["runs"]):
        R.ctx = {"id": case["id"], "desc": case.get("desc", ""), "run": k, "kwargs": show_kwargs(run["kwargs"])}
        kwargs = make_kwargs(run["kwargs"])

        def after(ds, ex):
            cmp_obj(dscls, "", ds, ex, SCHEMAS[dscls])
            R.count(dscls)
            s = ds.serialize_json()
            if s != ex["json"]:
                R.bad("json", "serialize_json()", s[:300], ex["json"][:300])
            opsattr = "operations" if kind == "cell" else "magnetic_operations"
            if hasattr(ds, opsattr):
                check_len(type(getattr(ds, opsattr)).__name__, opsattr + ".__len__", getattr(ds, opsattr), ex[opsattr]["num_operations"])
        run_outcome(dscls, lambda: ctor(cell, **kwargs), run["expect"], after)


def do_table(case, cls, keyname):
    ctor = getattr(moyopy, cls)
    for row in case["rows"]:
        R.ctx = {"id": case["id"], "desc": f"{cls}({row[keyname]})", "run": None, "kwargs": None}
        run_outcome(cls, lambda: ctor(row[keyname]), {"ok": row}, lambda obj, ex: cmp_obj(cls, "", obj, ex, SCHEMAS[cls]))


def do_ops_from_number(case):
    for k, run in enumerate(case["runs"]):
        R.ctx = {"id": case["id"], "desc": f"operations_from_number({run['number']})", "run": k, "kwargs": run["kwargs"]}
        kwargs = make_kwargs(run["kwargs"])

        def after(ops, ex):
            if type(ops).__name__ != "Operations":
                R.count("Operations")
                R.bad("type", "operations_from_number()", type(ops).__name__, "Operations")
                return
            cmp_obj("Operations", "", ops, ex, dict(SCHEMAS["Operations"], translations=cmp_translations_mod1))
            check_len("Operations", "__len__", ops, ex["num_operations"])
        run_outcome("operations_from_number", lambda: moyopy.operations_from_number(run["number"], **kwargs), run["expect"], after)


def main():
    cases, out = sys.argv[1], sys.argv[2]
    ncases = {}
    with open(cases) as f:
        for line in f:
            if not line.strip():
                continue
            case = json.loads(line)
            kind = case["kind"]
            ncases[kind] = ncases.get(kind, 0) + 1
            try:
                if kind in ("cell", "collinear", "noncollinear"):
                    do_structure_case(case)
                elif kind == "hall_entries":
                    do_table(case, "HallSymbolEntry", "hall_number")
                elif kind == "space_group_types":
                    do_table(case, "SpaceGroupType", "number")
                elif kind == "magnetic_space_group_types":
                    do_table(case, "MagneticSpaceGroupType", "uni_number")
                elif kind == "operations_from_number":
                    do_ops_from_number(case)
                else:
                    raise RuntimeError("unknown case kind " + kind)
            except BaseException as e:  # noqa: BLE001  (constructing the *input* failed, or a bug of this script)
                R.ctx = {"id": case.get("id"), "desc": case.get("desc", ""), "run": None, "kwargs": None}
                import traceback
                R.bad("input-rejected", "case", exc_name(e) + ": " + str(e)[:300] + " | " + traceback.format_exc()[-600:], "accepted")
    rep = {
        "moyopy_version": getattr(moyopy, "__version__", None), "module_file": moyopy.__file__,
        "python": sys.version.split()[0],
        "cases": ncases, "runs": R.runs, "compared": R.compared, "by_class": R.by_class,
        "matrices_compared": R.mat, "nonsymmetric_matrices_compared": R.nonsym,
        "outcomes": R.outcomes, "mismatches": R.mismatches, "mismatch_counts": R.mismatch_counts, "n_mismatch": R.n_mismatch, "drift": R.drift, "uncovered": R.uncovered,
        "samples": R.samples,
    }
    with open(out, "w") as f:
        json.dump(rep, f, indent=1)
    print(f"runs={R.runs} compared={R.compared} mismatches={R.n_mismatch} drift={len(R.drift)} "
          f"nonsym={R.nonsym} uncovered={R.uncovered}")


if __name__ == "__main__":
    main()
