"""C20 bad-argument stream, Python side.

usage: c20_badargs.py <report.json> [--only <label>]

Every call below must raise `ValueError` (categories `length`, `shape`, `number`, `setting`, `library`):
a `pyo3_runtime.PanicException` (a BaseException) or any other exception type is recorded as a failure
with a stable `key`.  Category `type` (wrong Python types, integers that do not fit i32) is the usual
Python convention: TypeError / OverflowError / ValueError are all accepted there, only a panic fails.
The Rust panic message that the default hook prints to fd 2 is captured per call to name the panic site.
"""
import json
import os
import sys
import tempfile

import moyopy
from moyopy import (Cell, CollinearMagneticCell, HallSymbolEntry, MagneticSpaceGroupType, MoyoCollinearMagneticDataset,
                    MoyoDataset, MoyoNonCollinearMagneticDataset, NonCollinearMagneticCell, Setting, SpaceGroupType,
                    operations_from_number)

I3 = [[1.0, 0.0, 0.0], [0.0, 1.0, 0.0], [0.0, 0.0, 1.0]]
HEX = [[3.0, 0.0, 0.0], [-1.5, 2.598076211353316, 0.0], [0.0, 0.0, 5.0]]
P1 = [[0.0, 0.0, 0.0]]
P2 = [[0.0, 0.0, 0.0], [0.5, 0.5, 0.5]]
NAN = float("nan")
INF = float("inf")
INTS = [0, 531, -1, 231, 1652, 2**31 - 1, -2**31]


def cell():
    return Cell(HEX, [[0.1, 0.2, 0.3], [0.6, 0.1, 0.8]], [1, 2])


def ccell():
    return CollinearMagneticCell(I3, P2, [1, 1], [1.0, -1.0])


def ncell():
    return NonCollinearMagneticCell(I3, P2, [1, 1], [[0.0, 0.0, 1.0], [0.0, 0.0, -1.0]])


CALLS = []   # (label, category, key, thunk)


def add(label, category, key, thunk):
    CALLS.append((label, category, key, thunk))


# ---- length mismatches
add("Cell(positions=1, numbers=2)", "length", "Cell:length", lambda: Cell(I3, P1, [1, 2]))
add("Cell(positions=2, numbers=1)", "length", "Cell:length", lambda: Cell(I3, P2, [1]))
add("Cell(positions=0, numbers=1)", "length", "Cell:length", lambda: Cell(I3, [], [1]))
add("Cell(positions=1, numbers=0)", "length", "Cell:length", lambda: Cell(I3, P1, []))
for name, C, good, short, long_ in (
        ("CollinearMagneticCell", CollinearMagneticCell, [1.0, -1.0], [1.0], [1.0, 1.0, 1.0]),
        ("NonCollinearMagneticCell", NonCollinearMagneticCell, [[0.0, 0.0, 1.0]] * 2, [[0.0, 0.0, 1.0]], [[0.0, 0.0, 1.0]] * 3)):
    add(f"{name}(numbers short)", "length", name + ":length", lambda C=C, good=good: C(I3, P2, [1], good))
    add(f"{name}(numbers long)", "length", name + ":length", lambda C=C, good=good: C(I3, P2, [1, 1, 1], good))
    add(f"{name}(moments short)", "length", name + ":length", lambda C=C, short=short: C(I3, P2, [1, 1], short))
    add(f"{name}(moments long)", "length", name + ":length", lambda C=C, long_=long_: C(I3, P2, [1, 1], long_))
    add(f"{name}(moments empty)", "length", name + ":length", lambda C=C: C(I3, P2, [1, 1], []))
    add(f"{name}(positions empty)", "length", name + ":length", lambda C=C, good=good: C(I3, [], [1, 1], good))
    add(f"{name}(numbers and moments short)", "length", name + ":length", lambda C=C, short=short: C(I3, P2, [1], short))

# ---- wrong shapes
for lab, b in (("2x3", I3[:2]), ("4x3", I3 + [[0.0, 0.0, 1.0]]), ("3x2", [r[:2] for r in I3]), ("3x4", [r + [0.0] for r in I3]),
               ("empty", []), ("ragged", [[1.0, 0.0, 0.0], [0.0, 1.0], [0.0, 0.0, 1.0]]), ("flat9", [1.0, 0, 0, 0, 1.0, 0, 0, 0, 1.0])):
    add(f"Cell(basis {lab})", "shape" if lab != "flat9" else "type", "Cell:shape", lambda b=b: Cell(b, P1, [1]))
    add(f"CollinearMagneticCell(basis {lab})", "shape" if lab != "flat9" else "type", "CollinearMagneticCell:shape",
        lambda b=b: CollinearMagneticCell(b, P1, [1], [1.0]))
    add(f"NonCollinearMagneticCell(basis {lab})", "shape" if lab != "flat9" else "type", "NonCollinearMagneticCell:shape",
        lambda b=b: NonCollinearMagneticCell(b, P1, [1], [[0.0, 0.0, 1.0]]))
for lab, p in (("2-vector", [[0.0, 0.0]]), ("4-vector", [[0.0, 0.0, 0.0, 0.0]]), ("0-vector", [[]])):
    add(f"Cell(position {lab})", "shape", "Cell:shape", lambda p=p: Cell(I3, p, [1]))
    add(f"CollinearMagneticCell(position {lab})", "shape", "CollinearMagneticCell:shape", lambda p=p: CollinearMagneticCell(I3, p, [1], [1.0]))
    add(f"NonCollinearMagneticCell(position {lab})", "shape", "NonCollinearMagneticCell:shape",
        lambda p=p: NonCollinearMagneticCell(I3, p, [1], [[0.0, 0.0, 1.0]]))
    add(f"NonCollinearMagneticCell(moment {lab})", "shape", "NonCollinearMagneticCell:shape",
        lambda p=p: NonCollinearMagneticCell(I3, P1, [1], p))

# ---- unknown space-group / Hall / UNI numbers
for n in INTS:
    if not 1 <= n <= 230:
        add(f"SpaceGroupType({n})", "number", "SpaceGroupType:out-of-range", lambda n=n: SpaceGroupType(n))
        add(f"operations_from_number({n})", "number", "operations_from_number:out-of-range", lambda n=n: operations_from_number(n))
        add(f"operations_from_number({n}, setting=None)", "number", "operations_from_number:out-of-range",
            lambda n=n: operations_from_number(n, setting=None))
        add(f"operations_from_number({n}, setting=Setting.spglib())", "number", "operations_from_number:out-of-range",
            lambda n=n: operations_from_number(n, setting=Setting.spglib()))
        add(f"operations_from_number({n}, setting=Setting.standard())", "number", "operations_from_number:out-of-range",
            lambda n=n: operations_from_number(n, setting=Setting.standard()))
    if not 1 <= n <= 530:
        add(f"HallSymbolEntry({n})", "number", "HallSymbolEntry:out-of-range", lambda n=n: HallSymbolEntry(n))
        # Setting.hall_number(n) may refuse (ValueError) or defer the refusal to its use; both uses must give ValueError
        add(f"operations_from_number(1, setting=Setting.hall_number({n}))", "setting", "operations_from_number:setting=hall_number:out-of-range",
            lambda n=n: operations_from_number(1, setting=Setting.hall_number(n)))
        add(f"MoyoDataset(cell, setting=Setting.hall_number({n}))", "setting", "MoyoDataset:setting=hall_number:out-of-range",
            lambda n=n: MoyoDataset(cell(), setting=Setting.hall_number(n)))
    if not 1 <= n <= 1651:
        add(f"MagneticSpaceGroupType({n})", "number", "MagneticSpaceGroupType:out-of-range", lambda n=n: MagneticSpaceGroupType(n))

# ---- well-typed degenerate inputs: a library error must surface as ValueError
# (An empty cell — zero atoms — is outside C20's statement (it lists mismatched lengths and unknown numbers) and
# outside C08's premise ("at least one atom"); on the pinned tree it panics in pivot_site_indices. It is deliberately
# not part of this stream: demanding ValueError there would ask more than the property states.)
Z3 = [[0.0] * 3] * 3
for lab, b in (("zero basis", Z3), ("coplanar basis", [[1.0, 0, 0], [0, 1.0, 0], [1.0, 1.0, 0]]), ("nan basis", [[NAN, 0, 0], [0, 1.0, 0], [0, 0, 1.0]]),
               ("inf basis", [[INF, 0, 0], [0, 1.0, 0], [0, 0, 1.0]])):
    add(f"MoyoDataset({lab})", "library", "MoyoDataset:degenerate-basis", lambda b=b: MoyoDataset(Cell(b, P2, [1, 1])))
    add(f"MoyoCollinearMagneticDataset({lab})", "library", "MoyoCollinearMagneticDataset:degenerate-basis",
        lambda b=b: MoyoCollinearMagneticDataset(CollinearMagneticCell(b, P2, [1, 1], [1.0, -1.0])))
    add(f"MoyoNonCollinearMagneticDataset({lab})", "library", "MoyoNonCollinearMagneticDataset:degenerate-basis",
        lambda b=b: MoyoNonCollinearMagneticDataset(NonCollinearMagneticCell(b, P2, [1, 1], [[0, 0, 1.0], [0, 0, -1.0]])))
add("MoyoDataset(nan position)", "library", "MoyoDataset:nan-position", lambda: MoyoDataset(Cell(I3, [[NAN, 0.0, 0.0]], [1])))
add("MoyoDataset(coincident atoms)", "library", "MoyoDataset:coincident-atoms", lambda: MoyoDataset(Cell(I3, [[0.0, 0.0, 0.0]] * 2, [1, 1])))
for lab, kw in (("symprec=0", {"symprec": 0.0}), ("symprec=-1", {"symprec": -1.0}), ("symprec=nan", {"symprec": NAN}),
                ("symprec=inf", {"symprec": INF}), ("angle_tolerance=-1", {"angle_tolerance": -1.0}), ("angle_tolerance=nan", {"angle_tolerance": NAN})):
    add(f"MoyoDataset({lab})", "library", "MoyoDataset:bad-tolerance", lambda kw=kw: MoyoDataset(cell(), **kw))
    add(f"MoyoCollinearMagneticDataset({lab})", "library", "MoyoCollinearMagneticDataset:bad-tolerance",
        lambda kw=kw: MoyoCollinearMagneticDataset(ccell(), **kw))
    add(f"MoyoNonCollinearMagneticDataset({lab})", "library", "MoyoNonCollinearMagneticDataset:bad-tolerance",
        lambda kw=kw: MoyoNonCollinearMagneticDataset(ncell(), **kw))
for lab, kw in (("mag_symprec=-1", {"mag_symprec": -1.0}), ("mag_symprec=nan", {"mag_symprec": NAN}), ("mag_symprec=0", {"mag_symprec": 0.0})):
    add(f"MoyoCollinearMagneticDataset({lab})", "library", "MoyoCollinearMagneticDataset:bad-tolerance",
        lambda kw=kw: MoyoCollinearMagneticDataset(ccell(), **kw))
    add(f"MoyoNonCollinearMagneticDataset({lab})", "library", "MoyoNonCollinearMagneticDataset:bad-tolerance",
        lambda kw=kw: MoyoNonCollinearMagneticDataset(ncell(), **kw))
add("MoyoCollinearMagneticDataset(nan moment)", "library", "MoyoCollinearMagneticDataset:nan-moment",
    lambda: MoyoCollinearMagneticDataset(CollinearMagneticCell(I3, P2, [1, 1], [NAN, 1.0])))
add("MoyoNonCollinearMagneticDataset(nan moment)", "library", "MoyoNonCollinearMagneticDataset:nan-moment",
    lambda: MoyoNonCollinearMagneticDataset(NonCollinearMagneticCell(I3, P2, [1, 1], [[NAN, 0, 0], [0, 0, 1.0]])))

# ---- wrong Python types (TypeError / OverflowError / ValueError accepted; a panic is not)
for n in (2**31, -2**31 - 1, 2**63, 1.5, "1", None):
    add(f"SpaceGroupType({n!r})", "type", "SpaceGroupType:type", lambda n=n: SpaceGroupType(n))
    add(f"HallSymbolEntry({n!r})", "type", "HallSymbolEntry:type", lambda n=n: HallSymbolEntry(n))
    add(f"MagneticSpaceGroupType({n!r})", "type", "MagneticSpaceGroupType:type", lambda n=n: MagneticSpaceGroupType(n))
    add(f"operations_from_number({n!r})", "type", "operations_from_number:type", lambda n=n: operations_from_number(n))
    add(f"Setting.hall_number({n!r})", "type", "Setting.hall_number:type", lambda n=n: Setting.hall_number(n))
add("Cell(basis='abc')", "type", "Cell:type", lambda: Cell("abc", P1, [1]))
add("Cell(numbers=[1.5])", "type", "Cell:type", lambda: Cell(I3, P1, [1.5]))
add("Cell(numbers=[2**31])", "type", "Cell:type", lambda: Cell(I3, P1, [2**31]))
add("Cell(positions=None)", "type", "Cell:type", lambda: Cell(I3, None, [1]))
add("CollinearMagneticCell(moments as vectors)", "type", "CollinearMagneticCell:type", lambda: CollinearMagneticCell(I3, P1, [1], [[0.0, 0.0, 1.0]]))
add("NonCollinearMagneticCell(moments as scalars)", "type", "NonCollinearMagneticCell:type", lambda: NonCollinearMagneticCell(I3, P1, [1], [1.0]))
add("MoyoDataset(None)", "type", "MoyoDataset:type", lambda: MoyoDataset(None))
add("MoyoDataset(collinear cell)", "type", "MoyoDataset:type", lambda: MoyoDataset(ccell()))
add("MoyoDataset(cell, 1e-4) positional", "type", "MoyoDataset:type", lambda: MoyoDataset(cell(), 1e-4))
add("MoyoDataset(cell, symprec='a')", "type", "MoyoDataset:type", lambda: MoyoDataset(cell(), symprec="a"))
add("MoyoDataset(cell, setting=1)", "type", "MoyoDataset:type", lambda: MoyoDataset(cell(), setting=1))
add("MoyoDataset(cell, unknown=1)", "type", "MoyoDataset:type", lambda: MoyoDataset(cell(), unknown=1))
add("operations_from_number(1, Setting.spglib()) positional", "type", "operations_from_number:type", lambda: operations_from_number(1, Setting.spglib()))


def exc_name(e):
    return type(e).__module__ + "." + type(e).__name__


def run_one(thunk, errpath):
    """Run the call with fd 2 redirected to `errpath`; returns (outcome, message, stderr text)."""
    sys.stderr.flush()
    saved = os.dup(2)
    fd = os.open(errpath, os.O_WRONLY | os.O_CREAT | os.O_TRUNC)
    os.dup2(fd, 2)
    os.close(fd)
    try:
        try:
            r = thunk()
            out = ("returned", type(r).__name__)
        except BaseException as e:  # noqa: BLE001
            out = (exc_name(e), str(e)[:300], isinstance(e, ValueError), isinstance(e, Exception))
    finally:
        os.dup2(saved, 2)
        os.close(saved)
    with open(errpath, errors="replace") as f:
        err = f.read()
    return out, err


def main():
    outpath = sys.argv[1]
    only = sys.argv[3] if len(sys.argv) > 3 and sys.argv[2] == "--only" else None
    errpath = os.path.join(os.path.dirname(os.path.abspath(outpath)), f"c20_badargs_stderr_{os.getpid()}.txt")
    results = []
    for label, category, key, thunk in CALLS:
        if only is not None and label != only:
            continue
        out, err = run_one(thunk, errpath)
        site = ""
        for line in err.splitlines():
            if "panicked at" in line:
                site = line.split("panicked at", 1)[1].strip().rstrip(":")
                break
        res = {"label": label, "category": category, "outcome": out[0], "message": out[1], "panic_site": site}
        if out[0] == "returned":
            res["verdict"] = "fail"
            res["key"] = "no-exception:" + key
        elif not out[3]:
            res["verdict"] = "fail"
            res["key"] = "panic:" + key
        elif category == "type":
            res["verdict"] = "pass"
        elif out[2]:
            res["verdict"] = "pass"
        else:
            res["verdict"] = "fail"
            res["key"] = "wrong-exception:" + key
        results.append(res)
    try:
        os.unlink(errpath)
    except OSError:
        pass
    rep = {"moyopy_version": getattr(moyopy, "__version__", None), "module_file": moyopy.__file__, "calls": len(results),
           "by_category": {}, "failures": [r for r in results if r["verdict"] == "fail"], "results": results}
    for r in results:
        c = rep["by_category"].setdefault(r["category"], {"pass": 0, "fail": 0})
        c[r["verdict"]] += 1
    with open(outpath, "w") as f:
        json.dump(rep, f, indent=1)
    print(f"calls={len(results)} failures={len(rep['failures'])}")
    return 0


if __name__ == "__main__":
    sys.exit(main())
