#!/usr/bin/env python3
"""check.py <property id> --tier quick|thorough [--replay <path>]

Decides one property of /verif/properties.jsonl against /repo's current working tree.
Exit 0 = held on everything explored; exit 1 + `VIOLATION property=<id> replay=<path>` otherwise.
"""
import argparse
import importlib
import os
import sys

sys.path.insert(0, os.path.dirname(os.path.abspath(__file__)))
import vlib  # noqa: E402


def main():
    ap = argparse.ArgumentParser()
    ap.add_argument("pid")
    ap.add_argument("--tier", default=os.environ.get("VERIF_TIER", "quick"), choices=["quick", "thorough"])
    ap.add_argument("--replay", default=None)
    args = ap.parse_args()
    seed = int(os.environ.get("VERIF_SEED", "0") or 0)
    pid = args.pid.upper()
    os.makedirs(vlib.WORK, exist_ok=True)
    try:
        mod = importlib.import_module(f"checks.{pid.lower()}")
    except ModuleNotFoundError:
        print(f"no check for {pid}", file=sys.stderr)
        return 2
    if args.replay:
        return mod.replay(args.replay)
    return mod.run(args.tier, seed)


if __name__ == "__main__":
    sys.exit(main())
