#!/bin/bash
# Build the framework offline from files on disk: regenerate tables from /repo, build the Lean
# model driver and the theorem modules of every claimed property, build the Rust harness.
set -e
cd /verif
export CARGO_NET_OFFLINE=true
mkdir -p .cache/work
python3 tools/translate.py
for t in tools/translate_c*.py; do
  case "$t" in
    tools/translate_c16.py) python3 "$t" --tables-only || true ;;   # certificates need the driver: second pass below
    tools/translate_c16g.py|tools/translate_c17g.py) ;;                 # need the driver's operation lists: run below
    *) python3 "$t" || true ;;
  esac
done
TARGETS=$(python3 - <<'PY'
import json, os
m = json.load(open('/verif/MANIFEST.json'))
ts = ['moyo_model']
for c in m['checks']:
    pid = c['property_id']
    for f in sorted(os.listdir('/verif/lean/Moyo/Props')):
        if f.startswith(pid) and f.endswith('.lean'):
            ts.append('Moyo.Props.' + f[:-5])
print(' '.join(ts))
PY
)
# the driver must build; a theorem module that fails to build is reported by its own check, not here
(cd lean && lake build moyo_model)
[ -f tools/translate_c16.py ] && (python3 tools/translate_c16.py || true)
# certificates of the type-inequivalence theorems (Props/C16Types.lean, Props/C17Types.lean)
[ -f tools/translate_c16g.py ] && (python3 tools/translate_c16g.py || true)
[ -f tools/translate_c17g.py ] && (python3 tools/translate_c17g.py || true)
(cd lean && lake build $TARGETS) || echo "setup: some theorem modules failed to build (their checks will report it)"
(cd harness && cargo build)
echo "setup ok"
