#!/bin/bash
# Build the whole framework offline from files on disk: regenerate tables from /repo, build the
# Lean library (model, proofs, table theorems) and the model driver, build the Rust harness.
set -e
cd /verif
export CARGO_NET_OFFLINE=true
mkdir -p .cache/work
python3 tools/translate.py
(cd lean && lake build)
(cd harness && cargo build)
echo "setup ok"
