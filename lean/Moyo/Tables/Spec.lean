import Moyo.Model.TableSpec
import Moyo.Generated.HallTable
import Moyo.Generated.ArithTable
import Moyo.Generated.MagTable
import Moyo.Generated.PointGroupTable
import Moyo.Generated.TableChunks
import Moyo.Generated.C16Certs
import Moyo.Generated.C17Certs
/-
Row checkers of `Moyo/Model/TableSpec.lean` bound to the regenerated tables and to the searched
certificates (`Moyo/Generated/C16Certs.lean`, `C17Certs.lean`).  The chunk modules
`Moyo/Tables/Hall*.lean`, `Mag*.lean`, `Arith*.lean` decide these Booleans in the kernel.
-/
namespace Moyo.Tables
open Moyo Moyo.Generated Moyo.TableSpec

/-- Primitive operations of Hall number `h` according to the certificate (checked against the
model's `primitiveTraverse` by clause `a:primitive` of row `h`). -/
def hallPrimOps (h : Nat) : List HOp := unpackOps ((chunkGet C16.hallPrimChunks (h - 1)).getD 0)

def hallOpsCert (h : Nat) : List HOp := unpackOps ((chunkGet C16.hallOpsChunks (h - 1)).getD 0)

/-- Allowed centring letters of the conventional cells of a Bravais class. -/
def allowedCenterings (bravais : String) : List String :=
  if bravais == "aP" || bravais == "mP" || bravais == "oP" || bravais == "tP" || bravais == "hP" || bravais == "cP" then ["P"]
  else if bravais == "mC" then ["A", "B", "C", "I"]
  else if bravais == "oS" then ["A", "B", "C"]
  else if bravais == "oF" || bravais == "cF" then ["F"]
  else if bravais == "oI" || bravais == "tI" || bravais == "cI" then ["I"]
  else if bravais == "hR" then ["R", "P"]
  else []

/-- Primitive rotations of the representative group of arithmetic class `k`. -/
def arithRep (k : Nat) : List M3 := (hallPrimOps ((arithRepHall[k - 1]?).getD 0)).map (·.rot)

def geoIdxOfArith (k : Nat) : Nat := (C16.arithGeo[k - 1]?).getD 99

def hallRowIn (h : Nat) : Option HallRowIn :=
  match chunkGet hallTableChunks (h - 1) with
  | none => none
  | some e =>
    let k := e.arithmeticNumber
    let gi := geoIdxOfArith k
    let hist := (geoHist[gi]?).getD []
    some {
      symbol := e.hallSymbol
      centering := e.centering
      opsC := (chunkGet C16.hallOpsChunks (h - 1)).getD 0
      primC := (chunkGet C16.hallPrimChunks (h - 1)).getD 0
      mulC := (chunkGet C16.hallMulChunks (h - 1)).getD 0
      parC := (chunkGet C16.hallParChunks (h - 1)).getD 0
      geoOrder := sumList hist
      geoHist := hist
      rep := arithRep k
      arithP := m3OfList (intsOfNat 9 ((chunkGet C16.arithPChunks (h - 1)).getD 0))
      arithPerm := (chunkGet C16.arithPermChunks (h - 1)).getD 0
      allowedCentering := allowedCenterings ((bravaisNames[(C16.arithBravais[k - 1]?).getD 99]?).getD "")
      first := hallPrimOps ((spglibHallNumbers.toList[e.number - 1]?).getD 0)
      aff := affOfList (intsOfNat 13 ((chunkGet C16.settingConjChunks (h - 1)).getD 0))
      affPerm := (chunkGet C16.settingPermChunks (h - 1)).getD 0 }

def hallRowClausesAt (h : Nat) : List (String × Bool) :=
  match hallRowIn h with
  | none => [("row", false)]
  | some r => hallRowClauses rotTypes r

/-- All clauses (a)–(f) of C16 hold for Hall number `h` (1-based). -/
def hallRowOK (h : Nat) : Bool := 1 ≤ h && allOK (hallRowClausesAt h)

/-- Rows `lo, lo+1, …, lo+n-1`. -/
def hallRowsOK (lo n : Nat) : Bool := (List.range' lo n).all hallRowOK

/-! ### arithmetic classes -/

def arithRowClauses (k : Nat) : List (String × Bool) :=
  match arithTable.toList[k - 1]? with
  | none => [("row", false)]
  | some a =>
    let gi := geoIdxOfArith k
    let bi := (C16.arithBravais[k - 1]?).getD 99
    let hrep := (arithRepHall[k - 1]?).getD 0
    [("number", a.arithmeticNumber == k),
     ("geometric-class-name", geoNames[gi]? == some a.geometricClass),
     ("bravais-class-name", bravaisNames[bi]? == some a.bravaisClass),
     ("family", (geoFamily[gi]?).isSome && geoFamily[gi]? == bravaisFamily[bi]?),
     ("representative", ((chunkGet hallTableChunks (hrep - 1)).map (·.arithmeticNumber)) == some k && 1 ≤ hrep),
     ("distinct", natsNodup ((arithRep k).map M3.key)),
     ("invariants", invVec rotTypes (arithRep k) == (C16.arithInv[k - 1]?).getD [])]

def arithRowOK (k : Nat) : Bool := 1 ≤ k && allOK (arithRowClauses k)

def arithRowsOK (lo n : Nat) : Bool := (List.range' lo n).all arithRowOK

/-- Geometric classes: the representative Hall number assigned by `from_geometric_crystal_class`
has that geometric class; the order table of the test module equals the histogram sums. -/
def geoRowOK (gi : Nat) : Bool :=
  match geoRepHall[gi]?, geoHist[gi]? with
  | some h, some hist =>
    (match chunkGet hallTableChunks (h - 1) with
     | some e => geoIdxOfArith e.arithmeticNumber == gi && 1 ≤ h
     | none => false) &&
    (geoOrderTest.isEmpty || geoOrderTest[gi]? == some (sumList hist)) && hist.length == 10
  | _, _ => false

def pairwiseDistinct {α : Type} [BEq α] : List α → Bool
  | [] => true
  | x :: rest => !rest.contains x && pairwiseDistinct rest

/-! ### magnetic rows -/

def magPrimOps (u : Nat) : List HOp := unpackOps ((chunkGet C17.magPrimChunks (u - 1)).getD 0)

def magRowIn (u : Nat) : Option MagRowIn :=
  match chunkGet magHallTableChunks (u - 1), chunkGet magTypeTableChunks (u - 1) with
  | some mh, some mt =>
    let hstd := (standardHallNumbers.toList[mt.number - 1]?).getD 0
    some {
      symbol := mh.symbol
      uni := u
      uniHall := mh.uniNumber
      uniType := mt.uniNumber
      bns := mt.bnsNumber
      number := mt.number
      ct := mt.constructType
      opsC := (chunkGet C17.magOpsChunks (u - 1)).getD 0
      primC := (chunkGet C17.magPrimChunks (u - 1)).getD 0
      mulC := (chunkGet C17.magMulChunks (u - 1)).getD 0
      parC := (chunkGet C17.magParChunks (u - 1)).getD 0
      refCentering := ((chunkGet hallTableChunks (hstd - 1)).map (·.centering)).getD ""
      ref := hallPrimOps hstd
      aff := affOfList (intsOfNat 13 ((chunkGet C17.magRefConjChunks (u - 1)).getD 0))
      affPerm := (chunkGet C17.magRefPermChunks (u - 1)).getD 0
      setC := (chunkGet C17.magSetChunks (u - 1)).getD 0 }
  | _, _ => none

def magRowClausesAt (u : Nat) : List (String × Bool) :=
  match magRowIn u with
  | none => [("row", false)]
  | some r => magRowClauses r

def magRowOK (u : Nat) : Bool := 1 ≤ u && allOK (magRowClausesAt u)

def magRowsOK (lo n : Nat) : Bool := (List.range' lo n).all magRowOK

/-! ### UNI ranges -/

def magNumbers : List Nat := magTypeTableChunks.flatten.map (·.number)

def magRanges : List (Nat × Nat) := uniRanges magNumbers

/-- Range `n` (1-based) is `[lo, hi]` with every entry carrying `number = n`, exactly one entry of
construct type 1 and one of type 2, and pairwise different operation sets (`magSet` codes). -/
def magRangeOK (n : Nat) : Bool :=
  match magRanges[n - 1]? with
  | none => false
  | some (lo, hi) =>
    1 ≤ n && lo ≤ hi &&
    (let rows := (List.range' lo (hi + 1 - lo)).map fun u => (chunkGet magTypeTableChunks (u - 1), (chunkGet C17.magSetChunks (u - 1)).getD 0)
     rows.all (fun x => (x.1.map (·.number)) == some n) &&
     (rows.filter fun x => (x.1.map (·.constructType)) == some 1).length == 1 &&
     (rows.filter fun x => (x.1.map (·.constructType)) == some 2).length == 1 &&
     pairwiseDistinct (rows.map (·.2)))

def magRangesOK (lo n : Nat) : Bool := (List.range' lo n).all magRangeOK

/-- Ranges are contiguous: the first starts at 1, each next one starts after the previous one. -/
def rangesContiguous : List (Nat × Nat) → Nat → Bool
  | [], _ => true
  | (lo, hi) :: rest, start => lo == start && lo ≤ hi && rangesContiguous rest (hi + 1)

end Moyo.Tables
