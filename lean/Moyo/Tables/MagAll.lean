import Moyo.Proofs.TablesBasic
import Moyo.Tables.MagC000
import Moyo.Tables.MagC001
import Moyo.Tables.MagC002
import Moyo.Tables.MagC003
import Moyo.Tables.MagC004
import Moyo.Tables.MagC005
import Moyo.Tables.MagC006
import Moyo.Tables.MagC007
import Moyo.Tables.MagC008
import Moyo.Tables.MagC009
import Moyo.Tables.MagC010
import Moyo.Tables.MagC011
import Moyo.Tables.MagC012
import Moyo.Tables.MagC013
import Moyo.Tables.MagC014
import Moyo.Tables.MagC015
import Moyo.Tables.MagC016
import Moyo.Tables.MagC017
import Moyo.Tables.MagC018
import Moyo.Tables.MagC019
import Moyo.Tables.MagC020
import Moyo.Tables.MagC021
import Moyo.Tables.MagC022
import Moyo.Tables.MagC023
import Moyo.Tables.MagC024
import Moyo.Tables.MagC025
import Moyo.Tables.MagC026
import Moyo.Tables.MagC027
import Moyo.Tables.MagC028
import Moyo.Tables.MagC029
import Moyo.Tables.MagC030
import Moyo.Tables.MagC031
import Moyo.Tables.MagC032
import Moyo.Tables.MagC033
import Moyo.Tables.MagC034
import Moyo.Tables.MagC035
import Moyo.Tables.MagC036
import Moyo.Tables.MagC037
import Moyo.Tables.MagC038
import Moyo.Tables.MagC039
import Moyo.Tables.MagC040
import Moyo.Tables.MagC041
import Moyo.Tables.MagC042
import Moyo.Tables.MagC043
import Moyo.Tables.MagC044
import Moyo.Tables.MagC045
import Moyo.Tables.MagC046
import Moyo.Tables.MagC047
import Moyo.Tables.MagC048
import Moyo.Tables.MagC049
import Moyo.Tables.MagC050
import Moyo.Tables.MagC051
import Moyo.Tables.MagC052
import Moyo.Tables.MagC053
import Moyo.Tables.MagC054
import Moyo.Tables.MagC055
import Moyo.Tables.MagC056
import Moyo.Tables.MagC057
import Moyo.Tables.MagC058
import Moyo.Tables.MagC059
import Moyo.Tables.MagC060
import Moyo.Tables.MagC061
import Moyo.Tables.MagC062
import Moyo.Tables.MagC063
import Moyo.Tables.MagC064
import Moyo.Tables.MagC065
import Moyo.Tables.MagC066
import Moyo.Tables.MagC067
import Moyo.Tables.MagC068
import Moyo.Tables.MagC069
import Moyo.Tables.MagC070
import Moyo.Tables.MagC071
import Moyo.Tables.MagC072
import Moyo.Tables.MagC073
import Moyo.Tables.MagC074
import Moyo.Tables.MagC075
import Moyo.Tables.MagC076
import Moyo.Tables.MagC077
import Moyo.Tables.MagC078
import Moyo.Tables.MagC079
import Moyo.Tables.MagC080
import Moyo.Tables.MagC081
import Moyo.Tables.MagC082
import Moyo.Tables.MagC083
import Moyo.Tables.MagC084
import Moyo.Tables.MagC085
import Moyo.Tables.MagC086
import Moyo.Tables.MagC087
import Moyo.Tables.MagC088
import Moyo.Tables.MagC089
import Moyo.Tables.MagC090
import Moyo.Tables.MagC091
import Moyo.Tables.MagC092
import Moyo.Tables.MagC093
import Moyo.Tables.MagC094
import Moyo.Tables.MagC095
import Moyo.Tables.MagC096
import Moyo.Tables.MagC097
import Moyo.Tables.MagC098
import Moyo.Tables.MagC099
import Moyo.Tables.MagC100
import Moyo.Tables.MagC101
import Moyo.Tables.MagC102
import Moyo.Tables.MagC103
import Moyo.Tables.MagC104
import Moyo.Tables.MagC105
import Moyo.Tables.MagC106
import Moyo.Tables.MagC107
import Moyo.Tables.MagC108
import Moyo.Tables.MagC109
import Moyo.Tables.MagC110
import Moyo.Tables.MagC111
import Moyo.Tables.MagC112
import Moyo.Tables.MagC113
import Moyo.Tables.MagC114
import Moyo.Tables.MagC115
import Moyo.Tables.MagC116
import Moyo.Tables.MagC117
import Moyo.Tables.MagC118
import Moyo.Tables.MagC119
import Moyo.Tables.MagC120
import Moyo.Tables.MagC121
import Moyo.Tables.MagC122
import Moyo.Tables.MagC123
import Moyo.Tables.MagC124
import Moyo.Tables.MagC125
import Moyo.Tables.MagC126
import Moyo.Tables.MagC127
import Moyo.Tables.MagC128
import Moyo.Tables.MagC129
import Moyo.Tables.MagC130
import Moyo.Tables.MagC131
import Moyo.Tables.MagC132
import Moyo.Tables.MagC133
import Moyo.Tables.MagC134
import Moyo.Tables.MagC135
import Moyo.Tables.MagC136
import Moyo.Tables.MagC137
import Moyo.Tables.MagC138
import Moyo.Tables.MagC139
import Moyo.Tables.MagC140
import Moyo.Tables.MagC141
import Moyo.Tables.MagC142
import Moyo.Tables.MagC143
import Moyo.Tables.MagC144
import Moyo.Tables.MagC145
import Moyo.Tables.MagC146
import Moyo.Tables.MagC147
import Moyo.Tables.MagC148
import Moyo.Tables.MagC149
import Moyo.Tables.MagC150
import Moyo.Tables.MagC151
import Moyo.Tables.MagC152
import Moyo.Tables.MagC153
import Moyo.Tables.MagC154
import Moyo.Tables.MagC155
import Moyo.Tables.MagC156
import Moyo.Tables.MagC157
import Moyo.Tables.MagC158
import Moyo.Tables.MagC159
import Moyo.Tables.MagC160
import Moyo.Tables.MagC161
import Moyo.Tables.MagC162
import Moyo.Tables.MagC163
import Moyo.Tables.MagC164
import Moyo.Tables.MagC165
import Moyo.Tables.MagC166
import Moyo.Tables.MagC167
import Moyo.Tables.MagC168
import Moyo.Tables.MagC169
import Moyo.Tables.MagC170
import Moyo.Tables.MagC171
import Moyo.Tables.MagC172
import Moyo.Tables.MagC173
import Moyo.Tables.MagC174
import Moyo.Tables.MagC175
import Moyo.Tables.MagC176
import Moyo.Tables.MagC177
import Moyo.Tables.MagC178
import Moyo.Tables.MagC179
import Moyo.Tables.MagC180
import Moyo.Tables.MagC181
import Moyo.Tables.MagC182
import Moyo.Tables.MagC183
import Moyo.Tables.MagC184
import Moyo.Tables.MagC185
import Moyo.Tables.MagC186
import Moyo.Tables.MagC187
import Moyo.Tables.MagC188
import Moyo.Tables.MagC189
import Moyo.Tables.MagC190
import Moyo.Tables.MagC191
import Moyo.Tables.MagC192
import Moyo.Tables.MagC193
import Moyo.Tables.MagC194
import Moyo.Tables.MagC195
import Moyo.Tables.MagC196
import Moyo.Tables.MagC197
import Moyo.Tables.MagC198
import Moyo.Tables.MagC199
import Moyo.Tables.MagC200
import Moyo.Tables.MagC201
import Moyo.Tables.MagC202
import Moyo.Tables.MagC203
import Moyo.Tables.MagC204
import Moyo.Tables.MagC205
import Moyo.Tables.MagC206
import Moyo.Tables.MagC207
import Moyo.Tables.MagC208
import Moyo.Tables.MagC209
import Moyo.Tables.MagC210
import Moyo.Tables.MagC211
import Moyo.Tables.MagC212
import Moyo.Tables.MagC213
import Moyo.Tables.MagC214
import Moyo.Tables.MagC215
import Moyo.Tables.MagC216
import Moyo.Tables.MagC217
import Moyo.Tables.MagC218
import Moyo.Tables.MagC219
import Moyo.Tables.MagC220
import Moyo.Tables.MagC221
import Moyo.Tables.MagC222
import Moyo.Tables.MagC223
import Moyo.Tables.MagC224
-- GENERATED by /verif/tools/translate_c16.py — only the chunk boundaries are generated; the statement is
-- always `<rows checker> lo n = true` for the Bool checkers of Moyo/Tables/Spec.lean.  Do not edit.
namespace Moyo.Tables

/-- Every row `1 ≤ i ≤ 1651` passes `magRowOK` (assembled from the 225 chunk theorems). -/
theorem mag_rows : ∀ i : Nat, 1 ≤ i → i ≤ 1651 → magRowOK i = true := by
  intro i h1 h2
  by_cases c0 : i < 36
  · exact rows_of_all mag_c000 i (by omega) (by omega)
  by_cases c1 : i < 62
  · exact rows_of_all mag_c001 i (by omega) (by omega)
  by_cases c2 : i < 81
  · exact rows_of_all mag_c002 i (by omega) (by omega)
  by_cases c3 : i < 100
  · exact rows_of_all mag_c003 i (by omega) (by omega)
  by_cases c4 : i < 118
  · exact rows_of_all mag_c004 i (by omega) (by omega)
  by_cases c5 : i < 135
  · exact rows_of_all mag_c005 i (by omega) (by omega)
  by_cases c6 : i < 154
  · exact rows_of_all mag_c006 i (by omega) (by omega)
  by_cases c7 : i < 172
  · exact rows_of_all mag_c007 i (by omega) (by omega)
  by_cases c8 : i < 190
  · exact rows_of_all mag_c008 i (by omega) (by omega)
  by_cases c9 : i < 207
  · exact rows_of_all mag_c009 i (by omega) (by omega)
  by_cases c10 : i < 226
  · exact rows_of_all mag_c010 i (by omega) (by omega)
  by_cases c11 : i < 243
  · exact rows_of_all mag_c011 i (by omega) (by omega)
  by_cases c12 : i < 261
  · exact rows_of_all mag_c012 i (by omega) (by omega)
  by_cases c13 : i < 280
  · exact rows_of_all mag_c013 i (by omega) (by omega)
  by_cases c14 : i < 300
  · exact rows_of_all mag_c014 i (by omega) (by omega)
  by_cases c15 : i < 320
  · exact rows_of_all mag_c015 i (by omega) (by omega)
  by_cases c16 : i < 340
  · exact rows_of_all mag_c016 i (by omega) (by omega)
  by_cases c17 : i < 353
  · exact rows_of_all mag_c017 i (by omega) (by omega)
  by_cases c18 : i < 362
  · exact rows_of_all mag_c018 i (by omega) (by omega)
  by_cases c19 : i < 372
  · exact rows_of_all mag_c019 i (by omega) (by omega)
  by_cases c20 : i < 382
  · exact rows_of_all mag_c020 i (by omega) (by omega)
  by_cases c21 : i < 390
  · exact rows_of_all mag_c021 i (by omega) (by omega)
  by_cases c22 : i < 400
  · exact rows_of_all mag_c022 i (by omega) (by omega)
  by_cases c23 : i < 411
  · exact rows_of_all mag_c023 i (by omega) (by omega)
  by_cases c24 : i < 418
  · exact rows_of_all mag_c024 i (by omega) (by omega)
  by_cases c25 : i < 429
  · exact rows_of_all mag_c025 i (by omega) (by omega)
  by_cases c26 : i < 436
  · exact rows_of_all mag_c026 i (by omega) (by omega)
  by_cases c27 : i < 447
  · exact rows_of_all mag_c027 i (by omega) (by omega)
  by_cases c28 : i < 457
  · exact rows_of_all mag_c028 i (by omega) (by omega)
  by_cases c29 : i < 465
  · exact rows_of_all mag_c029 i (by omega) (by omega)
  by_cases c30 : i < 475
  · exact rows_of_all mag_c030 i (by omega) (by omega)
  by_cases c31 : i < 486
  · exact rows_of_all mag_c031 i (by omega) (by omega)
  by_cases c32 : i < 494
  · exact rows_of_all mag_c032 i (by omega) (by omega)
  by_cases c33 : i < 504
  · exact rows_of_all mag_c033 i (by omega) (by omega)
  by_cases c34 : i < 514
  · exact rows_of_all mag_c034 i (by omega) (by omega)
  by_cases c35 : i < 525
  · exact rows_of_all mag_c035 i (by omega) (by omega)
  by_cases c36 : i < 532
  · exact rows_of_all mag_c036 i (by omega) (by omega)
  by_cases c37 : i < 542
  · exact rows_of_all mag_c037 i (by omega) (by omega)
  by_cases c38 : i < 552
  · exact rows_of_all mag_c038 i (by omega) (by omega)
  by_cases c39 : i < 563
  · exact rows_of_all mag_c039 i (by omega) (by omega)
  by_cases c40 : i < 574
  · exact rows_of_all mag_c040 i (by omega) (by omega)
  by_cases c41 : i < 585
  · exact rows_of_all mag_c041 i (by omega) (by omega)
  by_cases c42 : i < 596
  · exact rows_of_all mag_c042 i (by omega) (by omega)
  by_cases c43 : i < 606
  · exact rows_of_all mag_c043 i (by omega) (by omega)
  by_cases c44 : i < 616
  · exact rows_of_all mag_c044 i (by omega) (by omega)
  by_cases c45 : i < 626
  · exact rows_of_all mag_c045 i (by omega) (by omega)
  by_cases c46 : i < 637
  · exact rows_of_all mag_c046 i (by omega) (by omega)
  by_cases c47 : i < 648
  · exact rows_of_all mag_c047 i (by omega) (by omega)
  by_cases c48 : i < 660
  · exact rows_of_all mag_c048 i (by omega) (by omega)
  by_cases c49 : i < 679
  · exact rows_of_all mag_c049 i (by omega) (by omega)
  by_cases c50 : i < 701
  · exact rows_of_all mag_c050 i (by omega) (by omega)
  by_cases c51 : i < 713
  · exact rows_of_all mag_c051 i (by omega) (by omega)
  by_cases c52 : i < 725
  · exact rows_of_all mag_c052 i (by omega) (by omega)
  by_cases c53 : i < 736
  · exact rows_of_all mag_c053 i (by omega) (by omega)
  by_cases c54 : i < 748
  · exact rows_of_all mag_c054 i (by omega) (by omega)
  by_cases c55 : i < 760
  · exact rows_of_all mag_c055 i (by omega) (by omega)
  by_cases c56 : i < 770
  · exact rows_of_all mag_c056 i (by omega) (by omega)
  by_cases c57 : i < 781
  · exact rows_of_all mag_c057 i (by omega) (by omega)
  by_cases c58 : i < 793
  · exact rows_of_all mag_c058 i (by omega) (by omega)
  by_cases c59 : i < 804
  · exact rows_of_all mag_c059 i (by omega) (by omega)
  by_cases c60 : i < 816
  · exact rows_of_all mag_c060 i (by omega) (by omega)
  by_cases c61 : i < 828
  · exact rows_of_all mag_c061 i (by omega) (by omega)
  by_cases c62 : i < 838
  · exact rows_of_all mag_c062 i (by omega) (by omega)
  by_cases c63 : i < 849
  · exact rows_of_all mag_c063 i (by omega) (by omega)
  by_cases c64 : i < 861
  · exact rows_of_all mag_c064 i (by omega) (by omega)
  by_cases c65 : i < 872
  · exact rows_of_all mag_c065 i (by omega) (by omega)
  by_cases c66 : i < 884
  · exact rows_of_all mag_c066 i (by omega) (by omega)
  by_cases c67 : i < 895
  · exact rows_of_all mag_c067 i (by omega) (by omega)
  by_cases c68 : i < 908
  · exact rows_of_all mag_c068 i (by omega) (by omega)
  by_cases c69 : i < 920
  · exact rows_of_all mag_c069 i (by omega) (by omega)
  by_cases c70 : i < 932
  · exact rows_of_all mag_c070 i (by omega) (by omega)
  by_cases c71 : i < 942
  · exact rows_of_all mag_c071 i (by omega) (by omega)
  by_cases c72 : i < 953
  · exact rows_of_all mag_c072 i (by omega) (by omega)
  by_cases c73 : i < 965
  · exact rows_of_all mag_c073 i (by omega) (by omega)
  by_cases c74 : i < 976
  · exact rows_of_all mag_c074 i (by omega) (by omega)
  by_cases c75 : i < 988
  · exact rows_of_all mag_c075 i (by omega) (by omega)
  by_cases c76 : i < 1000
  · exact rows_of_all mag_c076 i (by omega) (by omega)
  by_cases c77 : i < 1007
  · exact rows_of_all mag_c077 i (by omega) (by omega)
  by_cases c78 : i < 1011
  · exact rows_of_all mag_c078 i (by omega) (by omega)
  by_cases c79 : i < 1018
  · exact rows_of_all mag_c079 i (by omega) (by omega)
  by_cases c80 : i < 1022
  · exact rows_of_all mag_c080 i (by omega) (by omega)
  by_cases c81 : i < 1028
  · exact rows_of_all mag_c081 i (by omega) (by omega)
  by_cases c82 : i < 1034
  · exact rows_of_all mag_c082 i (by omega) (by omega)
  by_cases c83 : i < 1040
  · exact rows_of_all mag_c083 i (by omega) (by omega)
  by_cases c84 : i < 1046
  · exact rows_of_all mag_c084 i (by omega) (by omega)
  by_cases c85 : i < 1052
  · exact rows_of_all mag_c085 i (by omega) (by omega)
  by_cases c86 : i < 1058
  · exact rows_of_all mag_c086 i (by omega) (by omega)
  by_cases c87 : i < 1064
  · exact rows_of_all mag_c087 i (by omega) (by omega)
  by_cases c88 : i < 1070
  · exact rows_of_all mag_c088 i (by omega) (by omega)
  by_cases c89 : i < 1076
  · exact rows_of_all mag_c089 i (by omega) (by omega)
  by_cases c90 : i < 1082
  · exact rows_of_all mag_c090 i (by omega) (by omega)
  by_cases c91 : i < 1088
  · exact rows_of_all mag_c091 i (by omega) (by omega)
  by_cases c92 : i < 1094
  · exact rows_of_all mag_c092 i (by omega) (by omega)
  by_cases c93 : i < 1100
  · exact rows_of_all mag_c093 i (by omega) (by omega)
  by_cases c94 : i < 1106
  · exact rows_of_all mag_c094 i (by omega) (by omega)
  by_cases c95 : i < 1112
  · exact rows_of_all mag_c095 i (by omega) (by omega)
  by_cases c96 : i < 1118
  · exact rows_of_all mag_c096 i (by omega) (by omega)
  by_cases c97 : i < 1124
  · exact rows_of_all mag_c097 i (by omega) (by omega)
  by_cases c98 : i < 1130
  · exact rows_of_all mag_c098 i (by omega) (by omega)
  by_cases c99 : i < 1136
  · exact rows_of_all mag_c099 i (by omega) (by omega)
  by_cases c100 : i < 1142
  · exact rows_of_all mag_c100 i (by omega) (by omega)
  by_cases c101 : i < 1148
  · exact rows_of_all mag_c101 i (by omega) (by omega)
  by_cases c102 : i < 1154
  · exact rows_of_all mag_c102 i (by omega) (by omega)
  by_cases c103 : i < 1160
  · exact rows_of_all mag_c103 i (by omega) (by omega)
  by_cases c104 : i < 1166
  · exact rows_of_all mag_c104 i (by omega) (by omega)
  by_cases c105 : i < 1172
  · exact rows_of_all mag_c105 i (by omega) (by omega)
  by_cases c106 : i < 1178
  · exact rows_of_all mag_c106 i (by omega) (by omega)
  by_cases c107 : i < 1184
  · exact rows_of_all mag_c107 i (by omega) (by omega)
  by_cases c108 : i < 1190
  · exact rows_of_all mag_c108 i (by omega) (by omega)
  by_cases c109 : i < 1196
  · exact rows_of_all mag_c109 i (by omega) (by omega)
  by_cases c110 : i < 1202
  · exact rows_of_all mag_c110 i (by omega) (by omega)
  by_cases c111 : i < 1209
  · exact rows_of_all mag_c111 i (by omega) (by omega)
  by_cases c112 : i < 1215
  · exact rows_of_all mag_c112 i (by omega) (by omega)
  by_cases c113 : i < 1222
  · exact rows_of_all mag_c113 i (by omega) (by omega)
  by_cases c114 : i < 1229
  · exact rows_of_all mag_c114 i (by omega) (by omega)
  by_cases c115 : i < 1245
  · exact rows_of_all mag_c115 i (by omega) (by omega)
  by_cases c116 : i < 1260
  · exact rows_of_all mag_c116 i (by omega) (by omega)
  by_cases c117 : i < 1274
  · exact rows_of_all mag_c117 i (by omega) (by omega)
  by_cases c118 : i < 1288
  · exact rows_of_all mag_c118 i (by omega) (by omega)
  by_cases c119 : i < 1302
  · exact rows_of_all mag_c119 i (by omega) (by omega)
  by_cases c120 : i < 1310
  · exact rows_of_all mag_c120 i (by omega) (by omega)
  by_cases c121 : i < 1317
  · exact rows_of_all mag_c121 i (by omega) (by omega)
  by_cases c122 : i < 1325
  · exact rows_of_all mag_c122 i (by omega) (by omega)
  by_cases c123 : i < 1332
  · exact rows_of_all mag_c123 i (by omega) (by omega)
  by_cases c124 : i < 1340
  · exact rows_of_all mag_c124 i (by omega) (by omega)
  by_cases c125 : i < 1356
  · exact rows_of_all mag_c125 i (by omega) (by omega)
  by_cases c126 : i < 1370
  · exact rows_of_all mag_c126 i (by omega) (by omega)
  by_cases c127 : i < 1379
  · exact rows_of_all mag_c127 i (by omega) (by omega)
  by_cases c128 : i < 1388
  · exact rows_of_all mag_c128 i (by omega) (by omega)
  by_cases c129 : i < 1397
  · exact rows_of_all mag_c129 i (by omega) (by omega)
  by_cases c130 : i < 1406
  · exact rows_of_all mag_c130 i (by omega) (by omega)
  by_cases c131 : i < 1415
  · exact rows_of_all mag_c131 i (by omega) (by omega)
  by_cases c132 : i < 1424
  · exact rows_of_all mag_c132 i (by omega) (by omega)
  by_cases c133 : i < 1433
  · exact rows_of_all mag_c133 i (by omega) (by omega)
  by_cases c134 : i < 1442
  · exact rows_of_all mag_c134 i (by omega) (by omega)
  by_cases c135 : i < 1451
  · exact rows_of_all mag_c135 i (by omega) (by omega)
  by_cases c136 : i < 1460
  · exact rows_of_all mag_c136 i (by omega) (by omega)
  by_cases c137 : i < 1465
  · exact rows_of_all mag_c137 i (by omega) (by omega)
  by_cases c138 : i < 1470
  · exact rows_of_all mag_c138 i (by omega) (by omega)
  by_cases c139 : i < 1474
  · exact rows_of_all mag_c139 i (by omega) (by omega)
  by_cases c140 : i < 1478
  · exact rows_of_all mag_c140 i (by omega) (by omega)
  by_cases c141 : i < 1482
  · exact rows_of_all mag_c141 i (by omega) (by omega)
  by_cases c142 : i < 1485
  · exact rows_of_all mag_c142 i (by omega) (by omega)
  by_cases c143 : i < 1490
  · exact rows_of_all mag_c143 i (by omega) (by omega)
  by_cases c144 : i < 1494
  · exact rows_of_all mag_c144 i (by omega) (by omega)
  by_cases c145 : i < 1498
  · exact rows_of_all mag_c145 i (by omega) (by omega)
  by_cases c146 : i < 1502
  · exact rows_of_all mag_c146 i (by omega) (by omega)
  by_cases c147 : i < 1507
  · exact rows_of_all mag_c147 i (by omega) (by omega)
  by_cases c148 : i < 1513
  · exact rows_of_all mag_c148 i (by omega) (by omega)
  by_cases c149 : i < 1517
  · exact rows_of_all mag_c149 i (by omega) (by omega)
  by_cases c150 : i < 1519
  · exact rows_of_all mag_c150 i (by omega) (by omega)
  by_cases c151 : i < 1521
  · exact rows_of_all mag_c151 i (by omega) (by omega)
  by_cases c152 : i < 1523
  · exact rows_of_all mag_c152 i (by omega) (by omega)
  by_cases c153 : i < 1525
  · exact rows_of_all mag_c153 i (by omega) (by omega)
  by_cases c154 : i < 1527
  · exact rows_of_all mag_c154 i (by omega) (by omega)
  by_cases c155 : i < 1529
  · exact rows_of_all mag_c155 i (by omega) (by omega)
  by_cases c156 : i < 1531
  · exact rows_of_all mag_c156 i (by omega) (by omega)
  by_cases c157 : i < 1533
  · exact rows_of_all mag_c157 i (by omega) (by omega)
  by_cases c158 : i < 1536
  · exact rows_of_all mag_c158 i (by omega) (by omega)
  by_cases c159 : i < 1538
  · exact rows_of_all mag_c159 i (by omega) (by omega)
  by_cases c160 : i < 1540
  · exact rows_of_all mag_c160 i (by omega) (by omega)
  by_cases c161 : i < 1543
  · exact rows_of_all mag_c161 i (by omega) (by omega)
  by_cases c162 : i < 1546
  · exact rows_of_all mag_c162 i (by omega) (by omega)
  by_cases c163 : i < 1549
  · exact rows_of_all mag_c163 i (by omega) (by omega)
  by_cases c164 : i < 1552
  · exact rows_of_all mag_c164 i (by omega) (by omega)
  by_cases c165 : i < 1555
  · exact rows_of_all mag_c165 i (by omega) (by omega)
  by_cases c166 : i < 1558
  · exact rows_of_all mag_c166 i (by omega) (by omega)
  by_cases c167 : i < 1562
  · exact rows_of_all mag_c167 i (by omega) (by omega)
  by_cases c168 : i < 1565
  · exact rows_of_all mag_c168 i (by omega) (by omega)
  by_cases c169 : i < 1568
  · exact rows_of_all mag_c169 i (by omega) (by omega)
  by_cases c170 : i < 1571
  · exact rows_of_all mag_c170 i (by omega) (by omega)
  by_cases c171 : i < 1575
  · exact rows_of_all mag_c171 i (by omega) (by omega)
  by_cases c172 : i < 1578
  · exact rows_of_all mag_c172 i (by omega) (by omega)
  by_cases c173 : i < 1581
  · exact rows_of_all mag_c173 i (by omega) (by omega)
  by_cases c174 : i < 1584
  · exact rows_of_all mag_c174 i (by omega) (by omega)
  by_cases c175 : i < 1587
  · exact rows_of_all mag_c175 i (by omega) (by omega)
  by_cases c176 : i < 1590
  · exact rows_of_all mag_c176 i (by omega) (by omega)
  by_cases c177 : i < 1593
  · exact rows_of_all mag_c177 i (by omega) (by omega)
  by_cases c178 : i < 1595
  · exact rows_of_all mag_c178 i (by omega) (by omega)
  by_cases c179 : i < 1596
  · exact rows_of_all mag_c179 i (by omega) (by omega)
  by_cases c180 : i < 1598
  · exact rows_of_all mag_c180 i (by omega) (by omega)
  by_cases c181 : i < 1599
  · exact rows_of_all mag_c181 i (by omega) (by omega)
  by_cases c182 : i < 1600
  · exact rows_of_all mag_c182 i (by omega) (by omega)
  by_cases c183 : i < 1601
  · exact rows_of_all mag_c183 i (by omega) (by omega)
  by_cases c184 : i < 1602
  · exact rows_of_all mag_c184 i (by omega) (by omega)
  by_cases c185 : i < 1604
  · exact rows_of_all mag_c185 i (by omega) (by omega)
  by_cases c186 : i < 1605
  · exact rows_of_all mag_c186 i (by omega) (by omega)
  by_cases c187 : i < 1606
  · exact rows_of_all mag_c187 i (by omega) (by omega)
  by_cases c188 : i < 1607
  · exact rows_of_all mag_c188 i (by omega) (by omega)
  by_cases c189 : i < 1608
  · exact rows_of_all mag_c189 i (by omega) (by omega)
  by_cases c190 : i < 1610
  · exact rows_of_all mag_c190 i (by omega) (by omega)
  by_cases c191 : i < 1611
  · exact rows_of_all mag_c191 i (by omega) (by omega)
  by_cases c192 : i < 1612
  · exact rows_of_all mag_c192 i (by omega) (by omega)
  by_cases c193 : i < 1613
  · exact rows_of_all mag_c193 i (by omega) (by omega)
  by_cases c194 : i < 1614
  · exact rows_of_all mag_c194 i (by omega) (by omega)
  by_cases c195 : i < 1616
  · exact rows_of_all mag_c195 i (by omega) (by omega)
  by_cases c196 : i < 1617
  · exact rows_of_all mag_c196 i (by omega) (by omega)
  by_cases c197 : i < 1618
  · exact rows_of_all mag_c197 i (by omega) (by omega)
  by_cases c198 : i < 1619
  · exact rows_of_all mag_c198 i (by omega) (by omega)
  by_cases c199 : i < 1620
  · exact rows_of_all mag_c199 i (by omega) (by omega)
  by_cases c200 : i < 1622
  · exact rows_of_all mag_c200 i (by omega) (by omega)
  by_cases c201 : i < 1623
  · exact rows_of_all mag_c201 i (by omega) (by omega)
  by_cases c202 : i < 1624
  · exact rows_of_all mag_c202 i (by omega) (by omega)
  by_cases c203 : i < 1625
  · exact rows_of_all mag_c203 i (by omega) (by omega)
  by_cases c204 : i < 1626
  · exact rows_of_all mag_c204 i (by omega) (by omega)
  by_cases c205 : i < 1628
  · exact rows_of_all mag_c205 i (by omega) (by omega)
  by_cases c206 : i < 1629
  · exact rows_of_all mag_c206 i (by omega) (by omega)
  by_cases c207 : i < 1630
  · exact rows_of_all mag_c207 i (by omega) (by omega)
  by_cases c208 : i < 1631
  · exact rows_of_all mag_c208 i (by omega) (by omega)
  by_cases c209 : i < 1632
  · exact rows_of_all mag_c209 i (by omega) (by omega)
  by_cases c210 : i < 1634
  · exact rows_of_all mag_c210 i (by omega) (by omega)
  by_cases c211 : i < 1635
  · exact rows_of_all mag_c211 i (by omega) (by omega)
  by_cases c212 : i < 1636
  · exact rows_of_all mag_c212 i (by omega) (by omega)
  by_cases c213 : i < 1637
  · exact rows_of_all mag_c213 i (by omega) (by omega)
  by_cases c214 : i < 1638
  · exact rows_of_all mag_c214 i (by omega) (by omega)
  by_cases c215 : i < 1640
  · exact rows_of_all mag_c215 i (by omega) (by omega)
  by_cases c216 : i < 1641
  · exact rows_of_all mag_c216 i (by omega) (by omega)
  by_cases c217 : i < 1642
  · exact rows_of_all mag_c217 i (by omega) (by omega)
  by_cases c218 : i < 1643
  · exact rows_of_all mag_c218 i (by omega) (by omega)
  by_cases c219 : i < 1644
  · exact rows_of_all mag_c219 i (by omega) (by omega)
  by_cases c220 : i < 1646
  · exact rows_of_all mag_c220 i (by omega) (by omega)
  by_cases c221 : i < 1648
  · exact rows_of_all mag_c221 i (by omega) (by omega)
  by_cases c222 : i < 1649
  · exact rows_of_all mag_c222 i (by omega) (by omega)
  by_cases c223 : i < 1651
  · exact rows_of_all mag_c223 i (by omega) (by omega)
  exact rows_of_all mag_c224 i (by omega) (by omega)

end Moyo.Tables
