import Moyo.Model.Wyckoff
/-
C16(i), Hall numbers 72 … 96: every clause of `Wyckoff.checkHall` (coordinate strings parse,
generic orbit size = multiplicity, site-symmetry order, letters, generic disjointness), decided by
the kernel on the regenerated tables.  One pass over the Wyckoff table per chunk.
-/
set_option maxRecDepth 100000
namespace Moyo.Tables

theorem wyckoff_halls_72_96 : Moyo.Wyckoff.checkHallRange 72 97 = true := by decide +kernel

end Moyo.Tables
