import Moyo.Tables.Spec
import Moyo.Model.TypeInvariant
import Moyo.Generated.C16TypeSpecs
/-
C16 (g) within an arithmetic class: Boolean row checkers for the invariants of
`Moyo/Model/TypeInvariant.lean`, bound to the regenerated tables and to the searched systems and
expected vectors of `Moyo/Generated/C16TypeSpecs.lean` (certificates; a wrong one makes a chunk
theorem of `Moyo/Tables/TypesC*.lean` or `types_distinct` fail).
-/
namespace Moyo.Tables
open Moyo Moyo.Generated Moyo.TableSpec Moyo.TypeInvariant

/-- The first Hall number of ITA number `n` (`SPGLIB_HALL_NUMBERS[n - 1]`). -/
def firstHall (n : Nat) : Nat := (spglibHallNumbers.toList[n - 1]?).getD 0

def arithOfHall (h : Nat) : Nat := ((chunkGet hallTableChunks (h - 1)).map (·.arithmeticNumber)).getD 0

/-- Arithmetic class of the first setting of type `n`. -/
def classOfType (n : Nat) : Nat := arithOfHall (firstHall n)

/-- The systems of class `k` use the moduli 2, 3, 4 only. -/
def specsOK (k : Nat) : Bool := (C16.typeSpecs k).all fun s => s.m == 2 || s.m == 3 || s.m == 4

/-- Invariant vector attached to arithmetic class `k`: the numbers of solutions of the counting
systems of the class, followed by the GL₃(ℤ)-invariants (`invVec`) of the subsets of the point group
cut out by the rotation-subset systems of the class. -/
def typeInvOf (k : Nat) (prim : List HOp) : List Nat :=
  invVecT (C16.typeSpecs k) prim ++ (C16.rotSpecs k).flatMap fun s => invVec rotTypes (satRots s prim)

def typeCert (n : Nat) : List Nat := (C16.typeInvCert[n - 1]?).getD []

/-- The invariant vector of the first setting of type `n` is the certificate row `n`. -/
def typeRowOK (n : Nat) : Bool :=
  1 ≤ n && specsOK (classOfType n) && typeInvOf (classOfType n) (hallPrimOps (firstHall n)) == typeCert n

def typeRowsOK (lo n : Nat) : Bool := (List.range' lo n).all typeRowOK

/-- Different types have different (arithmetic class, invariant vector). -/
def typesDistinctOK : Bool := pairwiseDistinct ((List.range' 1 230).map fun n => (classOfType n, typeCert n))

/-- The linear parts of the primitive operations of Hall number `h` are pairwise different. -/
def primRotsOK (h : Nat) : Bool := 1 ≤ h && rotsDistinct (hallPrimOps h)

def primRotsRowsOK (lo n : Nat) : Bool := (List.range' lo n).all primRotsOK

end Moyo.Tables
