import Moyo.Model.Wyckoff
/-
C16(i), Hall numbers 232 … 241: every clause of `Wyckoff.checkHall` (coordinate strings parse,
generic orbit size = multiplicity, site-symmetry order, letters, generic disjointness), decided by
the kernel on the regenerated tables.  One pass over the Wyckoff table per chunk.
-/
set_option maxRecDepth 100000
namespace Moyo.Tables

theorem wyckoff_halls_232_241 : Moyo.Wyckoff.checkHallRange 232 242 = true := by decide +kernel

end Moyo.Tables
