import Moyo.Tables.Spec
import Moyo.Proofs.TablesBasic
/-
One-off kernel-decided facts about the regenerated tables and certificates (cheap; the expensive
row theorems live in the generated chunk modules `HallC*.lean`, `MagC*.lean`, `ArithC*.lean`, `RangeC*.lean`).
-/
set_option maxRecDepth 1000000
namespace Moyo.Tables
open Moyo Moyo.Generated Moyo.TableSpec

deriving instance DecidableEq for Moyo.Generated.HallEntry
deriving instance DecidableEq for Moyo.Generated.MagTypeEntry
deriving instance DecidableEq for Moyo.Generated.MagHallEntry

/-- The chunk lists used by the row checkers are the tables written by the translator. -/
theorem hallTable_flat : hallTableChunks.flatten = hallTableList ∧ chunksWF hallTableChunks = true := by
  decide +kernel

theorem magTypeTable_flat :
    magTypeTableChunks.flatten = magTypeTableList ∧ chunksWF magTypeTableChunks = true := by
  decide +kernel

theorem magHallTable_flat :
    magHallTableChunks.flatten = magHallTableList ∧ chunksWF magHallTableChunks = true := by
  decide +kernel

/-- Table sizes (530 settings, 73 arithmetic classes, 32 geometric classes, 1651 magnetic types, 230 types). -/
theorem table_sizes :
    hallTableList.length = 530 ∧ arithTable.toList.length = 73 ∧ geoNames.length = 32 ∧ geoHist.length = 32 ∧
    geoRepHall.length = 32 ∧ arithRepHall.length = 73 ∧ magTypeTableList.length = 1651 ∧
    magHallTableList.length = 1651 ∧ spglibHallNumbers.toList.length = 230 ∧
    standardHallNumbers.toList.length = 230 ∧ rotTypes.length = 10 := by
  decide +kernel

/-- The 32 geometric classes: the Hall number that `from_geometric_crystal_class` assigns has that
class, the order table of the Rust test module agrees with the histogram sums, and the 32
histograms are pairwise different (the `match` of `identify_geometric_crystal_class` is a function
of the histogram with no ambiguity); the 10 rotation types have distinct (trace, det) and slots. -/
theorem geo_rows :
    (List.range 32).all geoRowOK = true ∧ pairwiseDistinct geoHist = true ∧ pairwiseDistinct geoNames = true ∧
    pairwiseDistinct (rotTypes.map fun x => (x.1, x.2.1)) = true ∧
    pairwiseDistinct (rotTypes.map fun x => x.2.2) = true ∧ rotTypes.all (fun x => x.2.2 < 10) = true := by
  decide +kernel

/-- The invariant vectors of the 73 representative groups are pairwise different. -/
theorem arithInv_distinct : C16.arithInv.length = 73 ∧ pairwiseDistinct C16.arithInv = true := by
  decide +kernel

/-- Field ranges: ITA numbers in 1..230, arithmetic numbers in 1..73, the two setting tables list
Hall numbers in 1..530, the magnetic `number` field is in 1..230. -/
theorem fields_in_range :
    hallTableList.all (fun e => decide (1 ≤ e.number) && decide (e.number ≤ 230) &&
      decide (1 ≤ e.arithmeticNumber) && decide (e.arithmeticNumber ≤ 73)) = true ∧
    spglibHallNumbers.toList.all (fun h => decide (1 ≤ h) && decide (h ≤ 530)) = true ∧
    standardHallNumbers.toList.all (fun h => decide (1 ≤ h) && decide (h ≤ 530)) = true ∧
    magTypeTableList.all (fun t => decide (1 ≤ t.number) && decide (t.number ≤ 230)) = true := by
  decide +kernel

/-- The Hall entries listed by the two setting tables for type `n` carry `number = n`
(cf. `C03.spglib_is_smallest`, `C03.standard_is_ita`, stated there on the `Array` forms). -/
theorem setting_numbers :
    ((List.range 230).all fun k =>
      ((hallTableList[(spglibHallNumbers.toList[k]?).getD 0 - 1]?).map (·.number)) == some (k + 1) &&
      ((hallTableList[(standardHallNumbers.toList[k]?).getD 0 - 1]?).map (·.number)) == some (k + 1)) = true := by
  decide +kernel

/-- Every centring has as many lattice points as its order. -/
theorem lattice_order : ∀ c : Centering, c.latticePoints.length = c.order := by
  intro c; cases c <;> rfl

/-- Model of `ITA_NUMBER_TO_UNI_NUMBERS`: exactly 230 ranges, contiguous from 1 to 1651. -/
theorem mag_ranges :
    magRanges.length = 230 ∧ rangesContiguous magRanges 1 = true ∧
    (magRanges.getLast?.map (·.2)) = some magTypeTableList.length := by
  decide +kernel

end Moyo.Tables
