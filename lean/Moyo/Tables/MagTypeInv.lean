import Moyo.Tables.Spec
import Moyo.Model.TypeInvariant
import Moyo.Generated.C17TypeSpecs
/-
C17, inequivalence inside a UNI range: Boolean row checkers for the invariants of
`Moyo/Model/TypeInvariant.lean` (with time-reversal flags), bound to the regenerated magnetic
tables and to the searched systems and expected vectors of `Moyo/Generated/C17TypeSpecs.lean`
(certificates; a wrong one makes a chunk theorem of `Moyo/Tables/MagTypesC*.lean` or
`mag_types_distinct` fail).
-/
namespace Moyo.Tables
open Moyo Moyo.Generated Moyo.TableSpec Moyo.TypeInvariant

/-- The `number` field (ITA number of the reference group, index of the UNI range) of UNI number `u`. -/
def magNumberOf (u : Nat) : Nat := ((chunkGet magTypeTableChunks (u - 1)).map (·.number)).getD 0

def magSpecs (n : Nat) : List Spec := (chunkGet C17.magSpecsChunks (n - 1)).getD []

def magRotSpecs (n : Nat) : List Spec := (chunkGet C17.magRotSpecsChunks (n - 1)).getD []

/-- The systems of range `n` use the moduli 2, 3, 4 only. -/
def magSpecsOK (n : Nat) : Bool := (magSpecs n).all fun s => s.m == 2 || s.m == 3 || s.m == 4

/-- Invariant vector attached to range `n`. -/
def magInvOf (n : Nat) (prim : List HOp) : List Nat :=
  invVecT (magSpecs n) prim ++ (magRotSpecs n).flatMap fun s => invVec rotTypes (satRots s prim)

def magCert (u : Nat) : List Nat := (chunkGet C17.magInvCertChunks (u - 1)).getD []

/-- The primitive operations of UNI number `u` have pairwise different (linear part, flag) and the
invariant vector of the certificate row `u`. -/
def magTypeRowOK (u : Nat) : Bool :=
  1 ≤ u && magSpecsOK (magNumberOf u) && keysDistinct (magPrimOps u) &&
    magInvOf (magNumberOf u) (magPrimOps u) == magCert u

def magTypeRowsOK (lo n : Nat) : Bool := (List.range' lo n).all magTypeRowOK

/-- The certificate vectors of range `n` are pairwise different. -/
def magRangeDistinctOK (n : Nat) : Bool :=
  match magRanges[n - 1]? with
  | none => false
  | some (lo, hi) => pairwiseDistinct ((List.range' lo (hi + 1 - lo)).map magCert)

end Moyo.Tables
