import Moyo.Tables.Wyckoff00
import Moyo.Tables.Wyckoff01
import Moyo.Tables.Wyckoff02
import Moyo.Tables.Wyckoff03
import Moyo.Tables.Wyckoff04
import Moyo.Tables.Wyckoff05
import Moyo.Tables.Wyckoff06
import Moyo.Tables.Wyckoff07
import Moyo.Tables.Wyckoff08
import Moyo.Tables.Wyckoff09
import Moyo.Tables.Wyckoff10
import Moyo.Tables.Wyckoff11
import Moyo.Tables.Wyckoff12
import Moyo.Tables.Wyckoff13
import Moyo.Tables.Wyckoff14
import Moyo.Tables.Wyckoff15
import Moyo.Tables.Wyckoff16
import Moyo.Tables.Wyckoff17
import Moyo.Tables.Wyckoff18
import Moyo.Tables.Wyckoff19
import Moyo.Tables.Wyckoff20
import Moyo.Tables.Wyckoff21
import Moyo.Tables.Wyckoff22
import Moyo.Tables.Wyckoff23
import Moyo.Tables.Wyckoff24
import Moyo.Tables.Wyckoff25
import Moyo.Tables.Wyckoff26
import Moyo.Tables.Wyckoff27
import Moyo.Tables.Wyckoff28
import Moyo.Tables.Wyckoff29
import Moyo.Tables.Wyckoff30
import Moyo.Tables.Wyckoff31
import Moyo.Tables.Wyckoff32
import Moyo.Tables.Wyckoff33
import Moyo.Tables.Wyckoff34
import Moyo.Tables.Wyckoff35
import Moyo.Tables.Wyckoff36
import Moyo.Proofs.OracleC07Table
/-
C16(i): the chunk theorems `Tables/WyckoffNN.lean` together cover every Hall number 1 … 530.
-/
set_option maxRecDepth 100000
namespace Moyo.Tables
open Moyo Moyo.Wyckoff Moyo.WyckoffP Moyo.Generated

/-- `checkHall h` for every Hall number. -/
theorem wyckoff_all_halls {h : Nat} (h1 : 1 ≤ h) (h2 : h ≤ 530) : checkHall h = true := by
  have hc : (1 ≤ h ∧ h < 57) ∨ (57 ≤ h ∧ h < 72) ∨ (72 ≤ h ∧ h < 97) ∨ (97 ≤ h ∧ h < 120) ∨ (120 ≤ h ∧ h < 146) ∨ (146 ≤ h ∧ h < 188) ∨ (188 ≤ h ∧ h < 218) ∨ (218 ≤ h ∧ h < 232) ∨ (232 ≤ h ∧ h < 242) ∨ (242 ≤ h ∧ h < 259) ∨ (259 ≤ h ∧ h < 280) ∨ (280 ≤ h ∧ h < 302) ∨ (302 ≤ h ∧ h < 312) ∨ (312 ≤ h ∧ h < 318) ∨ (318 ≤ h ∧ h < 324) ∨ (324 ≤ h ∧ h < 334) ∨ (334 ≤ h ∧ h < 340) ∨ (340 ≤ h ∧ h < 352) ∨ (352 ≤ h ∧ h < 371) ∨ (371 ≤ h ∧ h < 392) ∨ (392 ≤ h ∧ h < 402) ∨ (402 ≤ h ∧ h < 411) ∨ (411 ≤ h ∧ h < 418) ∨ (418 ≤ h ∧ h < 426) ∨ (426 ≤ h ∧ h < 445) ∨ (445 ≤ h ∧ h < 466) ∨ (466 ≤ h ∧ h < 482) ∨ (482 ≤ h ∧ h < 490) ∨ (490 ≤ h ∧ h < 499) ∨ (499 ≤ h ∧ h < 506) ∨ (506 ≤ h ∧ h < 513) ∨ (513 ≤ h ∧ h < 519) ∨ (519 ≤ h ∧ h < 522) ∨ (522 ≤ h ∧ h < 524) ∨ (524 ≤ h ∧ h < 526) ∨ (526 ≤ h ∧ h < 528) ∨ (528 ≤ h ∧ h < 531) := by omega
  rcases hc with hc | hc | hc | hc | hc | hc | hc | hc | hc | hc | hc | hc | hc | hc | hc | hc | hc | hc | hc | hc | hc | hc | hc | hc | hc | hc | hc | hc | hc | hc | hc | hc | hc | hc | hc | hc | hc
  · exact checkHall_of_range wyckoff_halls_1_56 hc.1 hc.2
  · exact checkHall_of_range wyckoff_halls_57_71 hc.1 hc.2
  · exact checkHall_of_range wyckoff_halls_72_96 hc.1 hc.2
  · exact checkHall_of_range wyckoff_halls_97_119 hc.1 hc.2
  · exact checkHall_of_range wyckoff_halls_120_145 hc.1 hc.2
  · exact checkHall_of_range wyckoff_halls_146_187 hc.1 hc.2
  · exact checkHall_of_range wyckoff_halls_188_217 hc.1 hc.2
  · exact checkHall_of_range wyckoff_halls_218_231 hc.1 hc.2
  · exact checkHall_of_range wyckoff_halls_232_241 hc.1 hc.2
  · exact checkHall_of_range wyckoff_halls_242_258 hc.1 hc.2
  · exact checkHall_of_range wyckoff_halls_259_279 hc.1 hc.2
  · exact checkHall_of_range wyckoff_halls_280_301 hc.1 hc.2
  · exact checkHall_of_range wyckoff_halls_302_311 hc.1 hc.2
  · exact checkHall_of_range wyckoff_halls_312_317 hc.1 hc.2
  · exact checkHall_of_range wyckoff_halls_318_323 hc.1 hc.2
  · exact checkHall_of_range wyckoff_halls_324_333 hc.1 hc.2
  · exact checkHall_of_range wyckoff_halls_334_339 hc.1 hc.2
  · exact checkHall_of_range wyckoff_halls_340_351 hc.1 hc.2
  · exact checkHall_of_range wyckoff_halls_352_370 hc.1 hc.2
  · exact checkHall_of_range wyckoff_halls_371_391 hc.1 hc.2
  · exact checkHall_of_range wyckoff_halls_392_401 hc.1 hc.2
  · exact checkHall_of_range wyckoff_halls_402_410 hc.1 hc.2
  · exact checkHall_of_range wyckoff_halls_411_417 hc.1 hc.2
  · exact checkHall_of_range wyckoff_halls_418_425 hc.1 hc.2
  · exact checkHall_of_range wyckoff_halls_426_444 hc.1 hc.2
  · exact checkHall_of_range wyckoff_halls_445_465 hc.1 hc.2
  · exact checkHall_of_range wyckoff_halls_466_481 hc.1 hc.2
  · exact checkHall_of_range wyckoff_halls_482_489 hc.1 hc.2
  · exact checkHall_of_range wyckoff_halls_490_498 hc.1 hc.2
  · exact checkHall_of_range wyckoff_halls_499_505 hc.1 hc.2
  · exact checkHall_of_range wyckoff_halls_506_512 hc.1 hc.2
  · exact checkHall_of_range wyckoff_halls_513_518 hc.1 hc.2
  · exact checkHall_of_range wyckoff_halls_519_521 hc.1 hc.2
  · exact checkHall_of_range wyckoff_halls_522_523 hc.1 hc.2
  · exact checkHall_of_range wyckoff_halls_524_525 hc.1 hc.2
  · exact checkHall_of_range wyckoff_halls_526_527 hc.1 hc.2
  · exact checkHall_of_range wyckoff_halls_528_530 hc.1 hc.2

theorem hallFacts (h : Nat) (h1 : 1 ≤ h) (h2 : h ≤ 530) : ∃ ops rows, HallFacts h ops rows :=
  hallFacts_of_check (wyckoff_all_halls h1 h2)

/-- Size and range of the regenerated table (validates the translator's row count). -/
theorem wyckoff_table_shape :
    wyckoffTableList.length = 3467 ∧
    (wyckoffTableList.all fun e => decide (1 ≤ e.hallNumber) && decide (e.hallNumber ≤ 530)) = true := by
  decide +kernel

theorem hall_range {e : WyckoffEntry} (he : e ∈ wyckoffTableList) : 1 ≤ e.hallNumber ∧ e.hallNumber ≤ 530 := by
  have := List.all_eq_true.1 wyckoff_table_shape.2 e he
  simpa using this

theorem mem_rowsOfHall {e : WyckoffEntry} (he : e ∈ wyckoffTableList) : e ∈ rowsOfHall e.hallNumber := by
  unfold rowsOfHall
  exact List.mem_filter.2 ⟨he, by simp⟩

/-- Facts about one table row. -/
theorem row_facts {e : WyckoffEntry} (he : e ∈ wyckoffTableList) :
    ∃ ops rows r, HallFacts e.hallNumber ops rows ∧ r ∈ rows ∧ RowZ.ofEntry? e = some r := by
  obtain ⟨h1, h2⟩ := hall_range he
  obtain ⟨ops, rows, f⟩ := hallFacts e.hallNumber h1 h2
  obtain ⟨k, hk, hke⟩ := List.getElem_of_mem (mem_rowsOfHall he)
  have hk' : (rowsOfHall e.hallNumber)[k]? = some e := by
    rw [List.getElem?_eq_getElem hk, hke]
  obtain ⟨r, hr, hre⟩ := f.get hk'
  exact ⟨ops, rows, r, f, List.mem_of_getElem? hr, hre⟩

end Moyo.Tables
