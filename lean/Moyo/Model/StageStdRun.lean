import Moyo.Model.StageStd
import Moyo.Model.StageStdMono
import Moyo.Model.StageStdWyckoff
import Moyo.Generated.HallTable
import Moyo.Generated.ArithTable
/-
Stage S6, part 4: the model of `StandardizedCell::new` assembled from the parts, literally in the
order of `standardize_and_symmetrize_cell` + `assign_wyckoffs`.

Oracle parameters (taken from the implementation's own output, *checked*, never trusted):
* `rot`   — `rotation_matrix` of `symmetrize_lattice` (Cholesky + QR in nalgebra, float only).  Checked:
            `QᵀQ = I` and `det Q > 0` (numbers reported), `Q · A_std` upper triangular (reported relative
            to the largest basis entry, together with the deviation of the metric from its Reynolds average).
* `implTlinear` — only in the monoclinic branch, see `StageStdMono.lean`.
Everything else is computed from the inputs of the stage in exact rational arithmetic.
-/
namespace Moyo.StageStd
open Moyo Moyo.Generated

structure Input where
  lat : QM3
  pos : List Q3
  num : List Int
  ops : List OpQ
  perms : List (List Nat)
  hall : Nat
  P : M3
  p : Q3
  symprec : Rat
  epsilon : Rat
  rot : Option QM3 := none
  implTlinear : Option M3 := none

inductive Branch | triclinic | monoclinic | other
deriving Repr, DecidableEq, Inhabited

def Branch.toString : Branch → String
  | .triclinic => "tri" | .monoclinic => "mono" | .other => "other"

/-- `LatticeSystem::from_bravais_class` restricted to what the `match` distinguishes. -/
def branchOfBravais (b : String) : Branch :=
  if b == "aP" then .triclinic else if b == "mP" || b == "mC" then .monoclinic else .other

structure Result where
  branch : Branch := .other
  primLat : QM3 := QM3.one
  primPos : List Q3 := []
  primNum : List Int := []
  primTrans : UTrans := ⟨M3.one, Q3.zero⟩
  convLinear : M3 := M3.one
  stdLat : QM3 := QM3.one
  stdPos : List Q3 := []
  stdNum : List Int := []
  tlinear : M3 := M3.one
  tshift : Q3 := Q3.zero
  siteMapping : List Nat := []
  wyckoffs : List WyckoffEntry := []
  orbits : List Nat := []
  primStdPerms : List (List Nat) := []
  /-- reasons why the verdict of the comparison should not be trusted -/
  fragile : List String := []
  /-- monoclinic statistics: candidates, near-minimal ones, parameter used, implementation = first -/
  mono : MonoResult := {}
  /-- `max |QᵀQ − I|`, `det Q`, relative below-diagonal size of `Q·A_std`, relative deviation of the
  metric of `A_std` from its Reynolds average over the conventional point group -/
  orthErr : Rat := 0
  detQ : Rat := 1
  lowTri : Rat := 0
  metricDev : Rat := 0
  /-- hypotheses of `reynolds_positions` -/
  hypCompat : Bool := false
  hypSmall : Bool := false
  /-- exact invariance of the symmetrised primitive positions under all tabulated primitive operations -/
  exactInvariant : Bool := false

inductive Outcome
  | ok (r : Result)
  | err (name : String) (fragile : List String)
  | panic (site : String) (fragile : List String)
  | mismatch (what : String)

def Outcome.isOk : Outcome → Bool
  | .ok _ => true
  | _ => false

def maxAbsList (l : List Rat) : Rat := l.foldl (fun m x => if m < rabs x then rabs x else m) 0

def hopToOpQ (o : HOp) : OpQ := ⟨o.rot, twelfths o.trans⟩

/-- Reynolds average `|G|⁻¹ Σ Rᵀ G R`. -/
def reynoldsMetric (G : QM3) (rots : List M3) : QM3 :=
  let s := rots.foldl (fun (acc : QM3) R =>
    let t := ((QM3.ofM3 R).transpose.mul G).mul (QM3.ofM3 R)
    ⟨acc.a + t.a, acc.b + t.b, acc.c + t.c, acc.d + t.d, acc.e + t.e, acc.f + t.f, acc.g + t.g, acc.h + t.h, acc.i + t.i⟩)
    ⟨0, 0, 0, 0, 0, 0, 0, 0, 0⟩
  QM3.smul (1 / (rots.length : Rat)) s

/-- `g · x̄_i ≡ x̄_{π_g(i)} (mod 1)` exactly, for all operations and sites. -/
def exactlyInvariant (ops : List OpQ) (perms : List (List Nat)) (pos : List Q3) : Bool :=
  (ops.zip perms).all fun op =>
    (List.range pos.length).all fun i =>
      isInt3 (((op.1.rot.applyQ (pos.getD i Q3.zero)).add op.1.trans).sub (pos.getD (op.2.getD i 0) Q3.zero))

/-- Some component of a wrapped displacement is within 1e-9 of `±1/2` (the rounding could go either way in f64). -/
def roundFragile (ops : List OpQ) (perms : List (List Nat)) (pos : List Q3) : Bool :=
  (ops.zip perms).any fun op =>
    (List.range pos.length).any fun i =>
      (disp pos op.1 op.2 i).toList.any fun e => decide (rabs e > 1 / 2 - e9)

def orThrow {α : Type} (o : Option α) (e : Outcome) : Except Outcome α :=
  match o with
  | some a => .ok a
  | none => .error e

/-- (a) the basis choice by lattice system: `(prim_transformation, conv_trans_linear, fragile reasons, statistics)`. -/
def selectBranch (inp : Input) (branch : Branch) (sgT : UTrans) (centering : Centering) (gens : List HOp) :
    Except Outcome (UTrans × M3 × List String × MonoResult) :=
  match branch with
  | .triclinic =>
    let (T, frag, bad) := standardizeTriclinic (sgT.transformLattice inp.lat)
    if T.det ≠ 1 then .error (.panic "UnimodularTransformation::new det != 1 (Niggli)" [])
    else .ok (sgT.mul ⟨T, Q3.zero⟩, M3.one,
              (if frag then ["niggli-decision"] else []) ++ (if bad ≠ 0 then ["niggli-model-bad"] else []), {})
  | .monoclinic =>
    let implConv := inp.implTlinear.map fun tl => inp.P.adj.mul tl
    let m := standardizeMonoclinic inp.lat inp.P centering gens inp.epsilon implConv
    match m.bad with
    | some msg =>
      if msg.startsWith "panic" then .error (.panic msg (if m.fragile then ["mono-epsilon"] else []))
      else .error (.mismatch msg)
    | none => .ok (sgT, m.conv, if m.fragile then ["mono-choice"] else [], m)
  | .other => .ok (sgT, centering.linear, [], {})

def runE (inp : Input) : Except Outcome Result := do
  if inp.hall = 0 then throw (.err "StandardizationError" [])
  let entry ← orThrow hallTable[inp.hall - 1]? (.err "StandardizationError" [])
  let hs ← orThrow (HallSymbol.new entry.hallSymbol) (.err "StandardizationError" [])
  let centering ← orThrow (Centering.ofString? entry.centering) (.err "StandardizationError" [])
  let convOps ← orThrow hs.traverse (.panic "traverse" [])
  let primStdOpsH ← orThrow hs.primitiveTraverse (.panic "traverse" [])
  let ar ← orThrow arithTable[entry.arithmeticNumber - 1]? (.panic "arithmetic_crystal_class_entry unwrap" [])
  let branch := branchOfBravais ar.bravaisClass
  let sgT ← orThrow (UTrans.new? inp.P inp.p) (.panic "UnimodularTransformation::new det != 1" [])
  -- (a) branch
  let (primT, conv, frag0, mono) ← selectBranch inp branch sgT centering hs.generators
  if conv.det ≤ 0 then throw (.panic "Transformation::new det <= 0" frag0)
  -- (b) primitive standardized cell before symmetrization
  let primLat0 := primT.transformLattice inp.lat
  let primPos0 := inp.pos.map primT.transformPos
  -- (c) permutations re-ordered through the hash map keyed by the transformed rotations
  let keys := inp.ops.map fun o => (primT.transformOp o).rot
  let primStdOps := primStdOpsH.map hopToOpQ
  let perms ← orThrow (reorderPerms keys inp.perms (primStdOps.map (·.rot)))
    (.panic "permutation_mapping.get(&ops.rotation).unwrap()" frag0)
  -- (d) symmetrized positions
  let primPos := symmetrizePositions primStdOps perms primPos0
  let frag1 := if roundFragile primStdOps perms primPos0 then ["round-half"] else []
  -- (e) conventional cell
  let stdLat0 := primLat0.mul (QM3.ofM3 conv)
  let stdPos := transformCellPos conv primPos
  let siteMapping := transformCellMap conv primPos.length
  let stdNum := transformCellNum conv inp.num
  -- (f) rotation (parameter) and its checks
  let Q := inp.rot.getD QM3.one
  let qtq := (Q.transpose.mul Q).sub QM3.one
  let rotated := Q.mul stdLat0
  let scale := stdLat0.maxAbs
  let G := metric stdLat0
  let gbar := reynoldsMetric G (convOps.map (·.rot))
  -- (g) Wyckoff positions
  let wy := assignWyckoffs primPos.length perms stdPos rotated siteMapping inp.hall inp.symprec
  let frag2 := if wy.fragile then ["wyckoff-threshold"] else []
  let frags := frag0 ++ frag1 ++ frag2 ++ (if inp.rot.isNone then ["no-rot"] else [])
  match wy.bad with
  | some msg =>
    if msg.startsWith "panic" then throw (.panic msg frags) else throw (.err "WyckoffPositionAssignmentError" frags)
  | none =>
  pure {
    branch := branch
    primLat := Q.mul primLat0
    primPos := primPos
    primNum := inp.num
    primTrans := primT
    convLinear := conv
    stdLat := rotated
    stdPos := stdPos
    stdNum := stdNum
    -- (h)
    tlinear := composedLinear primT conv
    tshift := primT.shift
    siteMapping := siteMapping
    wyckoffs := wy.wyckoffs
    orbits := wy.orbits
    primStdPerms := perms
    fragile := frags
    mono := mono
    orthErr := qtq.maxAbs
    detQ := Q.det
    lowTri := if scale = 0 then 0 else maxAbsList [rotated.d, rotated.g, rotated.h] / scale
    metricDev := if G.maxAbs = 0 then 0 else (gbar.sub G).maxAbs / G.maxAbs
    hypCompat := compatAction primStdOps perms primPos0.length
    hypSmall := smallDisp primStdOps perms primPos0
    exactInvariant := exactlyInvariant primStdOps perms primPos }

def run (inp : Input) : Outcome :=
  match runE inp with
  | .ok r => .ok r
  | .error (.ok _) => .panic "unreachable" []   -- `runE` never throws `ok`
  | .error o => o

/-- A small worked input (used by the non-vacuity examples of the stage theorems): P222 (Hall 108),
one general orbit of four atoms slightly off their ideal positions, identity identification. -/
def exampleInput : Input :=
  { lat := ⟨2, 0, 0, 0, 3, 0, 0, 0, 5⟩,
    pos := [⟨1 / 10, 1 / 5, 3 / 10⟩, ⟨-1 / 10, -1 / 5, 301 / 1000⟩, ⟨1 / 10, -201 / 1000, -3 / 10⟩, ⟨-1 / 10, 1 / 5, -3 / 10⟩],
    num := [1, 1, 1, 1],
    ops := [⟨M3.one, Q3.zero⟩, ⟨⟨-1, 0, 0, 0, -1, 0, 0, 0, 1⟩, Q3.zero⟩, ⟨⟨1, 0, 0, 0, -1, 0, 0, 0, -1⟩, Q3.zero⟩,
            ⟨⟨-1, 0, 0, 0, 1, 0, 0, 0, -1⟩, Q3.zero⟩],
    perms := [[0, 1, 2, 3], [1, 0, 3, 2], [2, 3, 0, 1], [3, 2, 1, 0]],
    hall := 108, P := M3.one, p := Q3.zero, symprec := 1 / 100, epsilon := 1 / 100 }

end Moyo.StageStd
