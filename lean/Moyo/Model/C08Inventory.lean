/-
C08 — vocabulary of the panic-site inventory (translator T6, `tools/translate_c08.py`).

`Moyo/Generated/C08Sites.lean` (regenerated from /repo on every run) lists every potential panic site of moyo's
non-test, non-verif code as plain data, grouped file → enclosing fn.  `Moyo/Model/C08Discharge.lean` is the
hand-written table that says, for every site, why it cannot fire on a well-formed input (or names the known
finding that says it can).  `undischarged` computes the sites no record matches; `Moyo/Props/C08Sites.lean`
proves that list empty by kernel evaluation.

Matching is on file + fn + kind + normalised expression text (+ the number of textually identical sites in the
fn), never on line numbers: blank lines / comments / unrelated edits do not disturb it, a new `unwrap()` or a
changed guard expression produces a site that no record matches.

Import-free.  Sites and records are grouped file → fn because kernel string equality is slow in Lean 4.33; the
grouping keeps the number of string comparisons in the low thousands.
-/
namespace Moyo.C08Inv

/-- what kind of panic the site is (see the header of tools/translate_c08.py) -/
inductive Kind where
  | unwrap | expect | assert | debugAssert | unreachable | panic | todo | index | sub | div | call
  deriving DecidableEq, Repr, Inhabited

def Kind.name : Kind → String
  | .unwrap => "unwrap" | .expect => "expect" | .assert => "assert" | .debugAssert => "debugAssert"
  | .unreachable => "unreachable" | .panic => "panic" | .todo => "todo" | .index => "index"
  | .sub => "sub" | .div => "div" | .call => "call"

/-- one potential panic site; `file` and `fn` are those of the enclosing groups -/
structure Site where
  kind : Kind
  /-- normalised expression text (tokens joined by one space) -/
  expr : String
  /-- lexical class computed by the translator (`none` when nothing recognised) -/
  cls : String
  /-- evidence of the class (`max=2`, the loop header, the declared type, …) -/
  ev : String
  /-- source line: for the reader only, never used for matching -/
  line : Nat
  /-- number of sites of the same fn with the same kind and expression text -/
  n : Nat
  deriving Repr, Inhabited, DecidableEq

structure FnGroup where
  fn : String
  /-- fingerprint of the token text of the fn (signature + body; comments and formatting do not count) -/
  body : Nat
  sites : List Site
  deriving Repr, Inhabited

structure FileGroup where
  file : String
  fns : List FnGroup
  deriving Repr, Inhabited

/-- why a site cannot fire (or that it can: `knownFinding`) -/
inductive Reason where
  /-- the receiver is a non-empty constant / literal / a collection that was filled on every path -/
  | constNonempty
  /-- a test earlier on the same path excludes the failing case; `guard` quotes it -/
  | checkedByGuard (guard : String)
  /-- the argument comes from one of the crate's constant tables and the look-up is total on those values -/
  | tableDerived
  /-- literal index into a value whose static size is larger (nalgebra `Matrix3`, `Vector3`, arrays) -/
  | matrixLiteralIndex
  /-- index variables range over loops / closures whose bounds are the size of the indexed value -/
  | loopBounded (evidence : String)
  /-- holds by an invariant of the algorithm; `lemma` names the Lean statement (or the argument) that carries it -/
  | invariant (lemma : String)
  /-- the precondition is established by every caller inside the crate; `who` names them -/
  | callerValidated (who : String)
  /-- the indexed / sliced value has a fixed size or shape that makes the operation total -/
  | fixedSize (what : String)
  /-- lexical false positive: the operation does not panic at all (float division, `HashMap::insert`, …) -/
  | notAPanic (what : String)
  /-- fires only on inputs excluded by the premise of C08 (ill-formed cell, non-finite numbers, singular lattice) -/
  | outsidePremise (premise : String)
  /-- CAN fire for some public input: an open finding with this stable key (/verif/known_findings.txt) -/
  | knownFinding (key : String)
  deriving Repr, Inhabited

def Reason.findingKey? : Reason → Option String
  | .knownFinding k => some k
  | _ => none

def Reason.tag : Reason → String
  | .constNonempty => "constNonempty" | .checkedByGuard _ => "checkedByGuard" | .tableDerived => "tableDerived"
  | .matrixLiteralIndex => "matrixLiteralIndex" | .loopBounded _ => "loopBounded" | .invariant _ => "invariant"
  | .callerValidated _ => "callerValidated" | .fixedSize _ => "fixedSize" | .notAPanic _ => "notAPanic"
  | .outsidePremise _ => "outsidePremise" | .knownFinding _ => "knownFinding"

/-- which sites a record speaks about (always within one file + fn, except the global bulk rules) -/
inductive Matcher where
  /-- exactly this expression text, occurring exactly `n` times in the fn -/
  | exact (kind : Kind) (expr : String) (n : Nat)
  /-- every site of this kind whose expression text starts with `pre` -/
  | pre (kind : Kind) (pre : String)
  /-- bulk: every site of this kind and lexical class (and evidence, when given) -/
  | cls (kind : Kind) (cls : String) (ev : Option String)
  deriving Repr, Inhabited

def Matcher.isCls : Matcher → Bool
  | .cls .. => true
  | _ => false

def Matcher.matchesSite (m : Matcher) (s : Site) : Bool :=
  match m with
  | .exact k e n => decide (s.kind = k) && s.n == n && s.expr == e
  | .pre k p => decide (s.kind = k) && p.isPrefixOf s.expr
  | .cls k c ev =>
      decide (s.kind = k) && s.cls == c &&
        (match ev with
         | none => true
         | some e => s.ev == e)

structure Discharge where
  m : Matcher
  reason : Reason
  /-- one-line justification, true of the Rust source at the time of writing -/
  why : String
  deriving Repr, Inhabited

structure FnTable where
  fn : String
  /-- fingerprint of the fn text the justifications below were written against (0: not pinned) -/
  body : Nat
  recs : List Discharge
  deriving Repr, Inhabited

structure FileTable where
  file : String
  fns : List FnTable
  deriving Repr, Inhabited

def findRec (recs : List Discharge) (s : Site) : Option Discharge :=
  recs.find? (fun r => r.m.matchesSite s)

def fileRecs (table : List FileTable) (file : String) : List FnTable :=
  match table.find? (fun t => t.file == file) with
  | some t => t.fns
  | none => []

def fnRecs (fns : List FnTable) (fn : String) : List Discharge :=
  match fns.find? (fun t => t.fn == fn) with
  | some t => t.recs
  | none => []

/-- the record that discharges site `s` of `file` / `fn`: the first matching record of that fn, else the first
matching global bulk rule -/
def dischargedBy (table : List FileTable) (bulk : List Discharge) (file fn : String) (s : Site) : Option Discharge :=
  match findRec (fnRecs (fileRecs table file) fn) s with
  | some r => some r
  | none => findRec bulk s

/-- fold over all sites with the records of their fn looked up once per group -/
def collect {α : Type} (sites : List FileGroup) (table : List FileTable) (bulk : List Discharge)
    (f : String → String → Site → Option Discharge → Option α) : List α :=
  sites.flatMap fun fg =>
    let ft := fileRecs table fg.file
    fg.fns.flatMap fun g =>
      let recs := fnRecs ft g.fn
      g.sites.filterMap fun s =>
        f fg.file g.fn s (match findRec recs s with
                          | some r => some r
                          | none => findRec bulk s)

/-- the sites that no record matches: (file, fn, site) -/
def undischarged (sites : List FileGroup) (table : List FileTable) (bulk : List Discharge) :
    List (String × String × Site) :=
  collect sites table bulk fun file fn s r =>
    match r with
    | some _ => none
    | none => some (file, fn, s)

/-- the known-finding keys referenced by records that match at least one existing site: (key, file, fn, expr) -/
def knownFindingKeys (sites : List FileGroup) (table : List FileTable) (bulk : List Discharge) :
    List (String × String × String × String) :=
  collect sites table bulk fun file fn s r =>
    match r with
    | some d => d.reason.findingKey?.map fun k => (k, file, fn, s.expr)
    | none => none

/-- every known-finding key that occurs in the table or the bulk rules, whether or not a site still matches it -/
def tableFindingKeys (table : List FileTable) (bulk : List Discharge) : List String :=
  (table.flatMap fun ft => ft.fns.flatMap fun t => t.recs.filterMap fun r => r.reason.findingKey?) ++
    bulk.filterMap fun r => r.reason.findingKey?

/-- records of the table that match no site any more (hygiene; not a proof obligation): (file, fn, record) -/
def staleRecords (sites : List FileGroup) (table : List FileTable) : List (String × String × Discharge) :=
  table.flatMap fun ft =>
    let fgs := match sites.find? (fun g => g.file == ft.file) with
      | some g => g.fns
      | none => []
    ft.fns.flatMap fun t =>
      let ss := match fgs.find? (fun g => g.fn == t.fn) with
        | some g => g.sites
        | none => []
      t.recs.filterMap fun r => if ss.any (fun s => r.m.matchesSite s) then none else some (ft.file, t.fn, r)

/-- fns whose text changed since their records were reviewed (pinned fingerprint differs): (file, fn).  The sites
may all still be matched; the justifications (guards quoted from the fn) have to be re-read. -/
def changedBodies (sites : List FileGroup) (table : List FileTable) : List (String × String) :=
  sites.flatMap fun fg =>
    let ft := fileRecs table fg.file
    fg.fns.filterMap fun g =>
      match ft.find? (fun t => t.fn == g.fn) with
      | some t => if t.body == 0 || t.body == g.body then none else some (fg.file, g.fn)
      | none => none

def allSites (sites : List FileGroup) : List Site :=
  sites.flatMap fun fg => fg.fns.flatMap fun g => g.sites

def countKind (sites : List FileGroup) (k : Kind) : Nat :=
  (allSites sites).countP fun s => decide (s.kind = k)

/-- how each site is discharged: (by a record of its fn, by a global bulk rule, not at all) -/
def tally (sites : List FileGroup) (table : List FileTable) (bulk : List Discharge) : Nat × Nat × Nat :=
  sites.foldl (init := (0, 0, 0)) fun acc fg =>
    let ft := fileRecs table fg.file
    fg.fns.foldl (init := acc) fun acc g =>
      let recs := fnRecs ft g.fn
      g.sites.foldl (init := acc) fun (a, b, c) s =>
        match findRec recs s with
        | some _ => (a + 1, b, c)
        | none => if (findRec bulk s).isSome then (a, b + 1, c) else (a, b, c + 1)

end Moyo.C08Inv
