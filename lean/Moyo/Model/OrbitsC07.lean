/-
Model of `orbits_from_permutations` (moyo/src/base/cell.rs) and `orbits_in_cell`
(moyo/src/symmetrize/standardize.rs).

The Rust code feeds `union(i, π(i))` for every permutation `π` and every `i` to the `union-find`
crate (`QuickFindUf<UnionByRank>`) and then renames every class by the first index met in it
(a `BTreeMap` from the class representative to the first `i`, scanned in increasing `i`) — i.e. by
its *smallest* element.  The model is quick-find with canonical labels: `union` relabels the class
with the larger label by the smaller one, so labels are class minima at every step.  Which
representative the crate keeps internally (union by rank) is invisible after the renaming; that
the crate computes connected components is trusted and checked by correspondence.
Core Lean only.
-/
namespace Moyo.Orbits

/-- Label of `i` (indices outside the list are their own label). -/
def labelOf (lab : List Nat) (i : Nat) : Nat := lab.getD i i

/-- `union a b` on a list of canonical labels. -/
def union (lab : List Nat) (a b : Nat) : List Nat :=
  let la := labelOf lab a
  let lb := labelOf lab b
  lab.map fun l => if l = max la lb then min la lb else l

/-- `for i in 0..n { uf.union(i, π(i)) }`. -/
def applyPerm (n : Nat) (lab : List Nat) (p : List Nat) : List Nat :=
  (List.range n).foldl (fun lab i => union lab i (p.getD i i)) lab

/-- `orbits_from_permutations(num_atoms, permutations)`. -/
def orbitsFromPermutations (n : Nat) (perms : List (List Nat)) : List Nat :=
  perms.foldl (applyPerm n) (List.range n)

/-- `orbits_in_cell(prim_num_atoms, prim_permutations, site_mapping)`: atom `i` gets the first index
`i'` whose primitive site lies in the same primitive orbit (`HashMap::entry(key).or_insert(i)` in
increasing `i`). -/
def orbitsInCell (primN : Nat) (perms : List (List Nat)) (siteMapping : List Nat) : List Nat :=
  let prim := orbitsFromPermutations primN perms
  let key (i : Nat) : Nat := labelOf prim (siteMapping.getD i 0)
  (List.range siteMapping.length).map fun i =>
    ((List.range siteMapping.length).find? fun i' => key i' == key i).getD i

end Moyo.Orbits
