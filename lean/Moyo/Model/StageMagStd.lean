import Moyo.Model.StageMagIdentify
import Moyo.Model.StageStdRun
/-
Stage S6m: model of magnetic standardization `symmetrize::magnetic_standardize::StandardizedMagneticCell::new`
(moyo/src/symmetrize/magnetic_standardize.rs; `UnimodularTransformation::inverse / transform_magnetic_cell` and
`Transformation::transform_magnetic_cell` of base/transformation.rs; `MagneticMoment` of base/magnetic_cell.rs).

Literal transcription over exact rationals:

* `referenceOpsPerms`     `reference_symmetry_operations_and_permutations`: FSG (types I–III; NB the code passes
                          `mag_symprec` as the translation tolerance of `family_space_group_from_magnetic_space_group`)
                          or XSG (type IV) with the permutations of the operations kept;
* `antiAverage`           (type IV only, repair 1c2f2a9) the positions of the primitive magnetic cell are first averaged over the
                          first magnetic operation with identity rotation and time reversal:
                          `x_i := x_i + wrap(x_{π⁻¹ i} + t − x_i) / 2`;
* the reference cell      `StandardizedCell::new(that cell, ref ops, ref perms, reference space group, symprec, epsilon)` is the
                          stage model S6 (`StageStd.run`) with its two checked oracle parameters (`rot`: the QR rotation,
                          `implTlinear`: the monoclinic tie);
* `symmetrizeMoments`     `symmetrize_magnetic_moments`: Reynolds average over ALL magnetic operations of
                          `θ · (det)^{[axial]} · (A R A⁻¹) m[π⁻¹ i]` with exact Cartesian rotations `A R A⁻¹`, in the frame of
                          the input primitive cell; then `act_rotation(rotation_matrix)`;
* `refinedCell`           `prim_transformation.inverse().transform_magnetic_cell(prim_std_mag_cell)`;
* `convCellPos`           `transformation.transform_magnetic_cell(refined)`: `(M⁻¹ (x + n − p)) % 1` over the coset
                          representatives of `Transformation::transform_cell` (after the repair d1d3100), moments through the
                          site map of that call; the reported `site_mapping` is the one of the reference cell.

Decidable facts evaluated on every case and reported (`mhyp`): `magCompat` (hypothesis of `reynolds_moments_exact`), exact
invariance of the symmetrised moments under every magnetic operation in the input frame and in the standardized frame.
Core Lean only.
-/
namespace Moyo.S6m
open Moyo Moyo.Generated Moyo.StageStd Moyo.S5m

/-! ### moment action (`MagneticMoment` for `Collinear` = `(m, 0, 0)` and `NonCollinear`) -/

/-- `Operation::cartesian_rotation`: `A R A⁻¹`. -/
def cartRot (A : QM3) (R : M3) : QM3 := (A.mul (QM3.ofM3 R)).mul A.inv

/-- `act_rotation`: polar `Q m` (collinear `m`), axial `round(det Q) · Q m` (collinear `round(det Q) · m`). -/
def actRot (collinear axial : Bool) (C : QM3) (m : Q3) : Q3 :=
  let v := if collinear then m else C.apply m
  if axial then v.smul (ratRound C.det : Rat) else v

/-- `act_time_reversal`. -/
def actTR (tr : Bool) (m : Q3) : Q3 := if tr then m.neg else m

/-- `act_magnetic_operation`. -/
def actMOp (collinear axial : Bool) (C : QM3) (tr : Bool) (m : Q3) : Q3 := actTR tr (actRot collinear axial C m)

/-- `MagneticMoment::average`: sum divided by the number of terms. -/
def average (vs : List Q3) : Q3 := (sumQ3 vs).smul (1 / (vs.length : Rat))

/-- The moments equivalent to the one of site `i`: for every operation `(C_k, θ_k)` paired with the permutation `π_k`,
`act_magnetic_operation(C_k, θ_k)` of the moment of site `π_k⁻¹ i`. -/
def equivMoments (collinear axial : Bool) (acts : List (QM3 × Bool)) (perms : List (List Nat)) (mom : List Q3) (i : Nat) :
    List Q3 :=
  (acts.zip perms).map fun ap => actMOp collinear axial ap.1.1 ap.1.2 (mom.getD (permInv ap.2 i) Q3.zero)

/-- `symmetrize_magnetic_moments`. -/
def symmetrizeMoments (collinear axial : Bool) (acts : List (QM3 × Bool)) (perms : List (List Nat)) (mom : List Q3) : List Q3 :=
  (List.range mom.length).map fun i => average (equivMoments collinear axial acts perms mom i)

/-- Cartesian rotations and time-reversal flags of the magnetic operations in the lattice `A`. -/
def actsOf (A : QM3) (mops : List MOpQ) : List (QM3 × Bool) := mops.map fun o => (cartRot A o.rot, o.tr)

/-! ### reference operations -/

/-- Keep the permutations whose operation is `contained` in the reference group. -/
def keepPerms (perms : List (List Nat)) (contained : List Bool) : List (List Nat) :=
  (perms.zip contained).filterMap fun pc => if pc.2 then some pc.1 else none

/-- `reference_symmetry_operations_and_permutations(search, construct_type, mag_symprec)`. -/
def referenceOpsPerms (mops : List MOpQ) (perms : List (List Nat)) (ctype : Nat) (msp : Rat) : List OpQ × List (List Nat) :=
  if ctype = 4 then (xsg mops, keepPerms perms (xsgContained mops))
  else
    let f := family mops msp
    (f.ops, keepPerms perms f.contained)

/-- A translation difference of the family-group test is within 1e-9 (relative) of the threshold `msp`. -/
def familyFragile (mops : List MOpQ) (msp : Rat) : Bool :=
  let lo := msp * (1 - e9)
  let hi := msp * (1 + e9)
  let f := family mops msp
  let fl := family mops lo
  let fh := family mops hi
  !(f.contained == fl.contained && f.contained == fh.contained)

/-! ### averaging over the anti-translation (type IV) -/

/-- `.zip(permutations).find(|(mops, _)| mops.time_reversal && mops.operation.rotation == identity)`. -/
def findAnti (mops : List MOpQ) (perms : List (List Nat)) : Option (MOpQ × List Nat) :=
  (mops.zip perms).find? fun mp => mp.1.tr && mp.1.rot == M3.one

/-- Wrapped displacement of site `i` under the translation `t` paired with the permutation `p`:
`x[p⁻¹ i] + t − x[i]` minus its rounding. -/
def antiDisp (t : Q3) (p : List Nat) (pos : List Q3) (i : Nat) : Q3 :=
  (((pos.getD (permInv p i) Q3.zero).add t).sub (pos.getD i Q3.zero)).wrap

/-- `x_i + frac_displacement / 2` for every site (all reads are of the old positions). -/
def antiAverageWith (t : Q3) (p : List Nat) (pos : List Q3) : List Q3 :=
  (List.range pos.length).map fun i => (pos.getD i Q3.zero).add (Q3.smul (1 / 2) (antiDisp t p pos i))

/-- The positions handed to `StandardizedCell::new`. -/
def antiAverage (ctype : Nat) (mops : List MOpQ) (perms : List (List Nat)) (pos : List Q3) : List Q3 :=
  if ctype = 4 then
    match findAnti mops perms with
    | some (o, p) => antiAverageWith o.trans p pos
    | none => pos
  else pos

/-- Some component of a displacement of the anti-translation average is within 1e-9 of `±1/2` before wrapping. -/
def antiRoundFragile (t : Q3) (p : List Nat) (pos : List Q3) : Bool :=
  (List.range pos.length).any fun i => (antiDisp t p pos i).toList.any fun e => decide (rabs e > 1 / 2 - e9)

/-- The ideal anti-translation: `round(2 t) / 2`. -/
def idealHalf (t : Q3) : Q3 := ⟨(ratRound (2 * t.x) : Rat) / 2, (ratRound (2 * t.y) : Rat) / 2, (ratRound (2 * t.z) : Rat) / 2⟩

/-- Hypothesis of `anti_average_invariant`: `p` is an involutive bijection of the `n` sites and the two wrapped
displacements of every pair `i, p(i)` add up to less than `1/2` in every component. -/
def antiHyp (t : Q3) (p : List Nat) (pos : List Q3) : Bool :=
  isPerm pos.length p &&
  (List.range pos.length).all fun i =>
    p.getD (p.getD i 0) 0 == i && absLt3 ((antiDisp t p pos i).add (antiDisp t p pos (p.getD i 0))) (1 / 2)

/-- `x[p i] = x[i] + s + integer` exactly, for all sites. -/
def translationInvariant (s : Q3) (p : List Nat) (pos : List Q3) : Bool :=
  (List.range pos.length).all fun i => isInt3 (((pos.getD (p.getD i 0) Q3.zero).sub (pos.getD i Q3.zero)).sub s)

/-- Hypothesis of `reynolds_commuting_translation`: the translation `s` with site permutation `q` commutes with every
operation: `(R_h − 1) s ∈ ℤ³` and `π_h ∘ q = q ∘ π_h`. -/
def translationCommutes (ops : List OpQ) (perms : List (List Nat)) (s : Q3) (q : List Nat) (n : Nat) : Bool :=
  isPerm n q &&
  (ops.zip perms).all fun op =>
    isInt3 ((op.1.rot.applyQ s).sub s) &&
    (List.range n).all fun i => op.2.getD (q.getD i 0) 0 == q.getD (op.2.getD i 0) 0

/-! ### cells -/

/-- `UnimodularTransformation::inverse`: `(P⁻¹, −P⁻¹ p)`. -/
def utInverse (u : UTrans) : UTrans := ⟨u.linv, (u.linv.applyQ u.shift).neg⟩

/-- `Transformation::transform_cell` positions for `(M, p)`: site-major, `(M⁻¹ (x + n − p)) % 1`. -/
def convCellPos (M : M3) (p : Q3) (pos : List Q3) : List Q3 :=
  let Minv := (QM3.ofM3 M).inv
  let pts := latticePoints M
  pos.flatMap fun x => pts.map fun n => (Minv.apply ((x.add (Z3.toQ3 n)).sub p)).map ratTruncFrac

structure Input where
  lat : QM3
  pos : List Q3
  num : List Int
  mom : List Q3
  collinear : Bool
  axial : Bool
  mops : List MOpQ
  perms : List (List Nat)
  uni : Nat
  P : M3
  p : Q3
  symprec : Rat
  msp : Rat
  epsilon : Rat
  rot : Option QM3 := none
  implTlinear : Option M3 := none

structure Result where
  ctype : Nat
  ref : StageStd.Result
  primMom : List Q3
  stdLat : QM3
  stdPos : List Q3
  stdNum : List Int
  stdMom : List Q3
  fragile : List String
  /-- hypothesis of `reynolds_moments_exact` -/
  hypMom : Bool
  /-- the symmetrised moments (input frame) are exactly invariant under every magnetic operation -/
  momInvariant : Bool
  /-- the moments of the primitive standardized cell are exactly invariant under the operations carried into its frame -/
  stdMomInvariant : Bool
  /-- type IV: hypotheses of `mag_positions_invariant` for the anti-translation (`antiHyp` on the input positions,
  `translationCommutes` for the ideal anti-translation in the standardized primitive setting); `true` for other types -/
  hypAnti : Bool := true
  /-- type IV: the positions of the primitive standardized cell are exactly invariant under the ideal anti-translation -/
  antiInvariant : Bool := true

inductive Outcome
  | ok (r : Result)
  | err (name : String) (fragile : List String)
  | panic (site : String) (fragile : List String)
  | mismatch (what : String)

/-! ### decidable hypotheses / conclusions of the moment theorem -/

def mopAt (mops : List MOpQ) (k : Nat) : MOpQ := mops.getD k ⟨M3.one, Q3.zero, false⟩

/-- Operation `c` is the product of `k` and `l` as far as rotation, time reversal and site permutation are concerned:
`R_c = R_k R_l`, `θ_c = θ_k xor θ_l`, `π_c = π_k ∘ π_l`. -/
def mcomposes (mops : List MOpQ) (perms : List (List Nat)) (n k l c : Nat) : Bool :=
  (mopAt mops c).rot == (mopAt mops k).rot.mul (mopAt mops l).rot &&
  (mopAt mops c).tr == ((mopAt mops k).tr != (mopAt mops l).tr) &&
  (List.range n).all fun i => (permAt perms c).getD i 0 == (permAt perms k).getD ((permAt perms l).getD i 0) 0

/-- The magnetic operations with their permutations form a compatible action on the `n` sites: as many permutations as
operations (at least one), every permutation a bijection, the keys (rotation, time reversal) pairwise distinct, rotations of
determinant ±1, and closure under composition with the permutations composing accordingly. -/
def magCompat (mops : List MOpQ) (perms : List (List Nat)) (n : Nat) : Bool :=
  let m := mops.length
  perms.length == m && decide (0 < m) && perms.all (isPerm n) &&
  decide (mops.map fun o => (o.rot, o.tr)).Nodup && mops.all (fun o => o.rot.det == 1 || o.rot.det == -1) &&
  (List.range m).all fun k => (List.range m).all fun l => (List.range m).any fun c => mcomposes mops perms n k l c

/-- `ρ_k (m̄_i) = m̄_{π_k i}` exactly, for all operations and sites; `carts` are the Cartesian rotations. -/
def momentsInvariant (collinear axial : Bool) (acts : List (QM3 × Bool)) (perms : List (List Nat)) (mom : List Q3) : Bool :=
  (acts.zip perms).all fun ap =>
    (List.range mom.length).all fun i =>
      actMOp collinear axial ap.1.1 ap.1.2 (mom.getD i Q3.zero) == mom.getD (ap.2.getD i 0) Q3.zero

/-! ### the stage -/

def orThrow {α : Type} (o : Option α) (e : Outcome) : Except Outcome α :=
  match o with
  | some a => .ok a
  | none => .error e

def runE (inp : Input) : Except Outcome Result := do
  -- `magnetic_space_group.reference_space_group()`: two `unwrap`s
  let hall ← orThrow (refHall? inp.uni) (.panic "reference_space_group unwrap" [])
  let t ← orThrow (magType? inp.uni) (.err "MagneticStandardizationError" [])
  let ctype := t.constructType
  let (refOps, refPerms) := referenceOpsPerms inp.mops inp.perms ctype inp.msp
  let fragF := if ctype ≠ 4 && familyFragile inp.mops inp.msp then ["family-threshold"] else []
  -- type IV: average over the anti-translation first
  let anti := if ctype = 4 then findAnti inp.mops inp.perms else none
  let pos1 := antiAverage ctype inp.mops inp.perms inp.pos
  let fragA := match anti with
    | some (o, p) => if antiRoundFragile o.trans p inp.pos then ["anti-round-half"] else []
    | none => []
  let frag0 := fragF ++ fragA
  -- `StandardizedCell::new` on the reference group
  let ref ← match StageStd.run { lat := inp.lat, pos := pos1, num := inp.num, ops := refOps, perms := refPerms, hall := hall,
                                 P := inp.P, p := inp.p, symprec := inp.symprec, epsilon := inp.epsilon, rot := inp.rot,
                                 implTlinear := inp.implTlinear } with
    | .ok r => pure r
    | .err name fr => throw (.err name (frag0 ++ fr))
    | .panic site fr => throw (.panic site (frag0 ++ fr))
    | .mismatch what => throw (.mismatch what)
  -- moments: symmetrised in the frame of the input primitive cell, then rotated
  let acts := actsOf inp.lat inp.mops
  let sym := symmetrizeMoments inp.collinear inp.axial acts inp.perms inp.mom
  let Q := inp.rot.getD QM3.one
  let primMom := sym.map (actRot inp.collinear inp.axial Q)
  -- back to the setting of the input primitive cell (symmetrised positions, rotated lattice)
  let inv := utInverse ref.primTrans
  if inv.linear.det ≠ 1 then throw (.panic "UnimodularTransformation::new det != 1 (inverse)" ref.fragile)
  let refinedLat := inv.transformLattice ref.primLat
  let refinedPos := ref.primPos.map inv.transformPos
  -- conventional magnetic cell
  let M := ref.tlinear
  if M.det ≤ 0 then throw (.panic "Transformation::new det <= 0" ref.fragile)
  let stdLat := refinedLat.mul (QM3.ofM3 M)
  let stdPos := convCellPos M ref.tshift refinedPos
  let map2 := transformCellMap M refinedPos.length
  let stdMom := map2.map fun i => primMom.getD i Q3.zero
  let stdNum := transformCellNum M ref.primNum
  -- the operations carried into the frame of the primitive standardized cell: Cartesian rotations `Q C Q⁻¹`
  let actsStd := acts.map fun a => ((Q.mul a.1).mul Q.inv, a.2)
  -- the ideal anti-translation in the standardized primitive setting, and the facts about it
  let (hypAnti, antiInv) := match anti with
    | some (o, p) =>
      let s := ref.primTrans.linv.applyQ (idealHalf o.trans)
      let hs := match HallSymbol.new ((hallTable[hall - 1]?.map (·.hallSymbol)).getD "") with
        | some h => (h.primitiveTraverse.getD []).map StageStd.hopToOpQ
        | none => []
      (antiHyp o.trans p inp.pos && translationCommutes hs ref.primStdPerms s p inp.pos.length,
       translationInvariant s p ref.primPos)
    | none => (true, true)
  pure {
    ctype := ctype
    ref := ref
    primMom := primMom
    stdLat := stdLat
    stdPos := stdPos
    stdNum := stdNum
    stdMom := stdMom
    fragile := frag0 ++ ref.fragile
    hypMom := magCompat inp.mops inp.perms inp.mom.length
    momInvariant := momentsInvariant inp.collinear inp.axial acts inp.perms sym
    stdMomInvariant := momentsInvariant inp.collinear inp.axial actsStd inp.perms primMom
    hypAnti := hypAnti
    antiInvariant := antiInv }

def run (inp : Input) : Outcome :=
  match runE inp with
  | .ok r => .ok r
  | .error (.ok _) => .panic "unreachable" []
  | .error o => o

/-- A small worked input (non-vacuity examples): UNI 101 = `P 2 2'` (type III over P222, reference Hall number 108), one
general orbit of four atoms in an orthorhombic cell, moments of the orbit generated from `(1/4, 1/2, 3/4)` with one moment
slightly off, axial non-collinear. -/
def exampleInput : Input :=
  { lat := ⟨2, 0, 0, 0, 3, 0, 0, 0, 5⟩,
    pos := [⟨1 / 10, 1 / 5, 3 / 10⟩, ⟨-1 / 10, -1 / 5, 301 / 1000⟩, ⟨1 / 10, -201 / 1000, -3 / 10⟩, ⟨-1 / 10, 1 / 5, -3 / 10⟩],
    num := [1, 1, 1, 1],
    mom := [⟨1 / 4, 1 / 2, 3 / 4⟩, ⟨-1 / 4, -1 / 2, 3 / 4⟩, ⟨-1 / 4, 1 / 2, 3 / 4⟩, ⟨1 / 4, -1 / 2, 751 / 1000⟩],
    collinear := false, axial := true,
    mops := [⟨M3.one, Q3.zero, false⟩, ⟨⟨-1, 0, 0, 0, -1, 0, 0, 0, 1⟩, Q3.zero, false⟩,
             ⟨⟨1, 0, 0, 0, -1, 0, 0, 0, -1⟩, Q3.zero, true⟩, ⟨⟨-1, 0, 0, 0, 1, 0, 0, 0, -1⟩, Q3.zero, true⟩],
    perms := [[0, 1, 2, 3], [1, 0, 3, 2], [2, 3, 0, 1], [3, 2, 1, 0]],
    uni := 101, P := M3.one, p := Q3.zero, symprec := 1 / 100, msp := 1 / 100, epsilon := 1 / 100 }

/-- A worked type-IV input (non-vacuity examples): UNI 102 = `P 2 2 1a'` (reference group = XSG `P222`, Hall number 108, anti-
translation `a/2`), eight atoms: one general orbit of the unprimed subgroup and its image under the anti-translation, three
coordinates 1e-3 / 5e-4 off, one moment 1e-3 off; axial non-collinear moments; identity identification. -/
def exampleInput4 : Input :=
  { lat := ⟨4, 0, 0, 0, 3, 0, 0, 0, 5⟩,
    pos := [⟨1 / 20, 1 / 5, 3 / 10⟩, ⟨-1 / 20, -1 / 5, 301 / 1000⟩, ⟨1 / 20, -1 / 5, -3 / 10⟩, ⟨-1 / 20, 1 / 5, -3 / 10⟩, ⟨11 / 20, 1 / 5, 3 / 10⟩, ⟨9 / 20, -201 / 1000, 3 / 10⟩, ⟨1101 / 2000, -1 / 5, -3 / 10⟩, ⟨9 / 20, 1 / 5, -3 / 10⟩],
    num := [1, 1, 1, 1, 1, 1, 1, 1],
    mom := [⟨1 / 4, 1 / 2, 3 / 4⟩, ⟨-1 / 4, -1 / 2, 3 / 4⟩, ⟨1 / 4, -1 / 2, -3 / 4⟩, ⟨-1 / 4, 1 / 2, -3 / 4⟩, ⟨-1 / 4, -1 / 2, -3 / 4⟩, ⟨1 / 4, 1 / 2, -3 / 4⟩, ⟨-1 / 4, 1 / 2, 3 / 4⟩, ⟨1 / 4, -1 / 2, 751 / 1000⟩],
    collinear := false, axial := true,
    mops := [⟨⟨1, 0, 0, 0, 1, 0, 0, 0, 1⟩, ⟨0, 0, 0⟩, false⟩, ⟨⟨-1, 0, 0, 0, -1, 0, 0, 0, 1⟩, ⟨0, 0, 0⟩, false⟩, ⟨⟨1, 0, 0, 0, -1, 0, 0, 0, -1⟩, ⟨0, 0, 0⟩, false⟩, ⟨⟨-1, 0, 0, 0, 1, 0, 0, 0, -1⟩, ⟨0, 0, 0⟩, false⟩, ⟨⟨1, 0, 0, 0, 1, 0, 0, 0, 1⟩, ⟨1 / 2, 0, 0⟩, true⟩, ⟨⟨-1, 0, 0, 0, -1, 0, 0, 0, 1⟩, ⟨1 / 2, 0, 0⟩, true⟩, ⟨⟨1, 0, 0, 0, -1, 0, 0, 0, -1⟩, ⟨1 / 2, 0, 0⟩, true⟩, ⟨⟨-1, 0, 0, 0, 1, 0, 0, 0, -1⟩, ⟨1 / 2, 0, 0⟩, true⟩],
    perms := [[0, 1, 2, 3, 4, 5, 6, 7], [1, 0, 3, 2, 5, 4, 7, 6], [2, 3, 0, 1, 6, 7, 4, 5], [3, 2, 1, 0, 7, 6, 5, 4], [4, 5, 6, 7, 0, 1, 2, 3], [5, 4, 7, 6, 1, 0, 3, 2], [6, 7, 4, 5, 2, 3, 0, 1], [7, 6, 5, 4, 3, 2, 1, 0]],
    uni := 102, P := M3.one, p := Q3.zero, symprec := 1 / 100, msp := 1 / 100, epsilon := 1 / 100 }

end Moyo.S6m
