import Moyo.Model.StageOps
/-
Driver commands for the stage models: `s4 <tag> ; linear … ; ntrans k ; trans … ; nops m ; ops …`
answers `nout <n> ; out <ops as 9 ints + 3 rationals each>`.
-/
namespace Moyo.DriverStage
open Moyo Moyo.Wire Moyo.Stage

def opsOut (ops : List OpQ) : String :=
  " ".intercalate (ops.map fun o => intsToString o.rot.toList ++ " " ++ ratsToString o.trans.toList)

def cmdS4 (ts : List String) : String :=
  let segs := segments ts
  match (do
    let L ← (← parseInts? (← seg? segs "linear")) |> M3.ofList?
    let trans ← q3s? (← parseRats? (← seg? segs "trans"))
    let nops ← ((← seg? segs "nops").head?).bind String.toNat?
    let ops ← parseOps? nops (← seg? segs "ops")
    pure (L, trans, ops)) with
  | none => "bad-case"
  | some (L, trans, ops) =>
    let out := operationsInCell L trans.toList ops.toList
    s!"nout {out.length} ; out {opsOut out}"

def step? (line : String) : Option String :=
  match tokens line with
  | "s4" :: _tag :: rest => some (cmdS4 rest)
  | _ => none

end Moyo.DriverStage
