/-
The 11 enantiomorphic pairs of space-group types (ITA numbers) exchanged by a mirror image.
-/
namespace Moyo

def enantiomorphicPairs : List (Nat × Nat) :=
  [(76, 78), (91, 95), (92, 96), (144, 145), (151, 153), (152, 154), (169, 170), (171, 172),
   (178, 179), (180, 181), (212, 213)]

/-- ITA number of the mirror image of a crystal of type `n`. -/
def partner (n : Nat) : Nat :=
  match enantiomorphicPairs.find? (fun p => p.1 == n || p.2 == n) with
  | some (a, b) => if a == n then b else a
  | none => n

end Moyo
