import Moyo.Model.Wire
import Moyo.Model.Geom3
/-
Parsed form of one pipeline case line written by the harness (`harness/src/pipeline.rs`):
input cell, parameters, generator ground truth and the implementation's dataset (exact rationals).
-/
namespace Moyo
open Moyo.Wire

structure CellQ where
  /-- basis vectors are the columns -/
  lat : QM3
  pos : Array Q3
  num : Array Int
deriving Repr, Inhabited

def CellQ.n (c : CellQ) : Nat := c.pos.size

structure OpQ where
  rot : M3
  trans : Q3
deriving Repr, Inhabited

inductive SettingQ | spglib | standard | hall (h : Int)
deriving Repr, Inhabited, DecidableEq

structure TruthQ where
  hall : Nat
  p : M3
  shift : Q3
  scale : Rat
  orbit : Array Int
  wyck : Array Int
  noisy : Bool
  steps : String
deriving Repr, Inhabited

structure DatasetQ where
  number : Int
  hallNumber : Int
  ops : Array OpQ
  orbits : Array Nat
  wyck : Array String
  siteSym : Array String
  stdCell : CellQ
  stdLinear : QM3
  stdShift : Q3
  stdRot : QM3
  pearson : String
  primCell : CellQ
  primLinear : QM3
  primShift : Q3
  mapping : Array Nat
  symprec : Rat
  /-- `none` = Default -/
  angtol : Option Rat
deriving Repr, Inhabited

inductive Outcome
  | ok (d : DatasetQ)
  | err (name : String)
  | panic (msg : String)
deriving Repr, Inhabited

structure CaseQ where
  tag : String
  cell : CellQ
  symprec : Rat
  angtol : Option Rat
  setting : SettingQ
  truth : TruthQ
  out : Outcome
deriving Repr, Inhabited

/-- Split tokens at ";" into (key, values) segments. -/
def segments (ts : List String) : List (String × List String) :=
  let rec go (cur : List String) (out : List (List String)) : List String → List (List String)
    | [] => (cur.reverse :: out).reverse
    | t :: rest => if t = ";" then go [] (cur.reverse :: out) rest else go (t :: cur) out rest
  (go [] [] ts).filterMap fun seg =>
    match seg with
    | [] => none
    | k :: vs => some (k, vs)

def seg? (segs : List (String × List String)) (k : String) : Option (List String) :=
  (segs.find? (·.1 = k)).map (·.2)

def q3s? (xs : List Rat) : Option (Array Q3) :=
  let rec go (acc : Array Q3) : List Rat → Option (Array Q3)
    | [] => some acc
    | x :: y :: z :: rest => go (acc.push ⟨x, y, z⟩) rest
    | _ => none
  go #[] xs

def parseCell? (segs : List (String × List String)) (pre : String) : Option CellQ := do
  let lat ← (← parseRats? (← seg? segs (pre ++ "lat"))) |> QM3.ofList?
  let n ← ((← seg? segs (pre ++ "n")).head?).bind String.toNat?
  let pos ← q3s? (← parseRats? (← seg? segs (pre ++ "pos")))
  let num ← parseInts? (← seg? segs (pre ++ "num"))
  if pos.size = n ∧ num.length = n then some ⟨lat, pos, num.toArray⟩ else none

def parseAngtol? (vs : List String) : Option (Option Rat) :=
  match vs with
  | ["default"] => some none
  | ["radian", r] => (parseRat? r).map some
  | _ => none

def parseOps? (n : Nat) (ts : List String) : Option (Array OpQ) :=
  let rec go (fuel : Nat) (acc : Array OpQ) (ts : List String) : Option (Array OpQ) :=
    match fuel, ts with
    | _, [] => some acc
    | 0, _ => none
    | fuel + 1, a :: b :: c :: d :: e :: f :: g :: h :: i :: x :: y :: z :: rest =>
      match parseInts? [a, b, c, d, e, f, g, h, i], parseRats? [x, y, z] with
      | some [a, b, c, d, e, f, g, h, i], some [x, y, z] =>
        go fuel (acc.push ⟨⟨a, b, c, d, e, f, g, h, i⟩, ⟨x, y, z⟩⟩) rest
      | _, _ => none
    | _, _ => none
  match go (n + 1) #[] ts with
  | some a => if a.size = n then some a else none
  | none => none

def parseDataset? (segs : List (String × List String)) : Option DatasetQ := do
  let number ← ((← seg? segs "number").head?).bind String.toInt?
  let hallNumber ← ((← seg? segs "hallnum").head?).bind String.toInt?
  let nops ← ((← seg? segs "nops").head?).bind String.toNat?
  let ops ← parseOps? nops (← seg? segs "ops")
  let orbits ← parseNats? (← seg? segs "orbits")
  let wyck ← seg? segs "wyck"
  let siteSym ← seg? segs "sitesym"
  let stdCell ← parseCell? segs "std"
  let stdLinear ← (← parseRats? (← seg? segs "stdlinear")) |> QM3.ofList?
  let stdShift ← (← parseRats? (← seg? segs "stdshift")) |> Q3.ofList?
  let stdRot ← (← parseRats? (← seg? segs "stdrot")) |> QM3.ofList?
  let pearson := " ".intercalate (← seg? segs "pearson")
  let primCell ← parseCell? segs "prim"
  let primLinear ← (← parseRats? (← seg? segs "primlinear")) |> QM3.ofList?
  let primShift ← (← parseRats? (← seg? segs "primshift")) |> Q3.ofList?
  let mapping ← parseNats? (← seg? segs "mapping")
  let symprec ← ((← seg? segs "osymprec").head?).bind parseRat?
  let angtol ← parseAngtol? (← seg? segs "oangtol")
  some { number, hallNumber, ops, orbits := orbits.toArray, wyck := wyck.toArray, siteSym := siteSym.toArray,
         stdCell, stdLinear, stdShift, stdRot, pearson, primCell, primLinear, primShift,
         mapping := mapping.toArray, symprec, angtol }

def parseCase? (ts : List String) : Option CaseQ := do
  match ts with
  | "ds" :: tag :: rest =>
    let segs := segments rest
    let cell ← parseCell? segs ""
    let symprec ← ((← seg? segs "symprec").head?).bind parseRat?
    let angtol ← parseAngtol? (← seg? segs "angtol")
    let setting ← match (← seg? segs "setting") with
      | ["spglib"] => some SettingQ.spglib
      | ["standard"] => some SettingQ.standard
      | ["hall", h] => h.toInt?.map SettingQ.hall
      | _ => none
    let thall ← ((← seg? segs "thall").head?).bind String.toNat?
    let tP ← (← parseInts? (← seg? segs "tP")) |> M3.ofList?
    let tshift ← (← parseRats? (← seg? segs "tshift")) |> Q3.ofList?
    let tscale ← ((← seg? segs "tscale").head?).bind parseRat?
    let torbit ← parseInts? (← seg? segs "torbit")
    let twyck ← parseInts? (← seg? segs "twyck")
    let tnoisy := (seg? segs "tnoisy") == some ["1"]
    let tsteps := " ".intercalate ((seg? segs "tsteps").getD [])
    let truth : TruthQ := ⟨thall, tP, tshift, tscale, torbit.toArray, twyck.toArray, tnoisy, tsteps⟩
    let out ← match (← seg? segs "out") with
      | ["ok"] => (parseDataset? segs).map Outcome.ok
      | ["err"] => some (Outcome.err (" ".intercalate ((seg? segs "errname").getD [])))
      | ["panic"] => some (Outcome.panic (" ".intercalate ((seg? segs "msg").getD [])))
      | _ => none
    some ⟨tag, cell, symprec, angtol, setting, truth, out⟩
  | _ => none

end Moyo
