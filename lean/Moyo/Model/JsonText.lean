import Moyo.Model.Json
/-
C19 model, lexical layer: JSON text ⇄ `Json` trees.  Import-free.
`parse` reads RFC 8259 JSON (integer tokens and fraction/exponent tokens are told apart exactly as
serde_json does); `print` writes the compact form with serde_json's escaping rules, so that for the
strings the implementation emits `print (parse s) = s` is expected to hold character by character
(checked at run time by the driver, not proved).
-/
namespace Moyo.Json

/-! ### printing -/

def hexDigit (n : Nat) : Char :=
  if n < 10 then Char.ofNat (48 + n) else Char.ofNat (87 + n)

/-- serde_json's string escaping: `"` `\` and control characters only. -/
def escapeChar (c : Char) : List Char :=
  if c = '"' then ['\\', '"']
  else if c = '\\' then ['\\', '\\']
  else if c = '\n' then ['\\', 'n']
  else if c = '\r' then ['\\', 'r']
  else if c = '\t' then ['\\', 't']
  else if c.toNat = 8 then ['\\', 'b']
  else if c.toNat = 12 then ['\\', 'f']
  else if c.toNat < 32 then ['\\', 'u', '0', '0', hexDigit (c.toNat / 16), hexDigit (c.toNat % 16)]
  else [c]

def quote (s : String) : String :=
  String.ofList ('"' :: (s.toList.flatMap escapeChar ++ ['"']))

mutual
def print : Json → String
  | .null => "null"
  | .bool true => "true"
  | .bool false => "false"
  | .int i => toString i
  | .dec t => t
  | .str s => quote s
  | .arr xs => "[" ++ printList xs ++ "]"
  | .obj kvs => "{" ++ printFields kvs ++ "}"
def printList : List Json → String
  | [] => ""
  | [x] => print x
  | x :: xs => print x ++ "," ++ printList xs
def printFields : List (String × Json) → String
  | [] => ""
  | [(k, v)] => quote k ++ ":" ++ print v
  | (k, v) :: kvs => quote k ++ ":" ++ print v ++ "," ++ printFields kvs
end

/-! ### parsing -/

def isWs (c : Char) : Bool := c = ' ' || c = '\n' || c = '\r' || c = '\t'

def skipWs : List Char → List Char
  | c :: cs => if isWs c then skipWs cs else c :: cs
  | [] => []

def isDigit (c : Char) : Bool := '0' ≤ c && c ≤ '9'

def takeDigits : List Char → List Char × List Char
  | c :: cs => if isDigit c then let (d, r) := takeDigits cs; (c :: d, r) else ([], c :: cs)
  | [] => ([], [])

def digitsToNat (ds : List Char) : Nat := ds.foldl (fun acc c => acc * 10 + (c.toNat - 48)) 0

/-- Number token: `-? (0 | [1-9][0-9]*) (. [0-9]+)? ([eE] [+-]? [0-9]+)?`.
Returns the `Json` (integer token → `int`, otherwise the verbatim text → `dec`) and the rest. -/
def parseNumber (cs : List Char) : Option (Json × List Char) :=
  let (neg, cs1) := match cs with
    | '-' :: r => (true, r)
    | _ => (false, cs)
  let (ip, cs2) := takeDigits cs1
  if ip.isEmpty then none else
  if ip.length > 1 && ip.head? = some '0' then none else
  let (frac, cs3) : Option (List Char) × List Char := match cs2 with
    | '.' :: r => let (f, r') := takeDigits r; (some f, r')
    | _ => (none, cs2)
  if frac = some [] then none else
  let (ex, cs4) : Option (List Char) × List Char := match cs3 with
    | 'e' :: r | 'E' :: r =>
      let (sg, r1) : List Char × List Char := match r with
        | '+' :: r' => (['+'], r')
        | '-' :: r' => (['-'], r')
        | _ => ([], r)
      let (d, r2) := takeDigits r1
      if d.isEmpty then (some [], r2) else (some ((match cs3 with | c :: _ => [c] | [] => []) ++ sg ++ d), r2)
    | _ => (none, cs3)
  if ex = some [] then none else
  match frac, ex with
  | none, none =>
    let n : Int := digitsToNat ip
    -- `-0` is an integer token that does not print back as itself; serde_json prints `-0.0` for floats
    if neg && n = 0 then none else some (.int (if neg then -n else n), cs4)
  | _, _ =>
    let tok := (if neg then ['-'] else []) ++ ip ++ (match frac with | some f => '.' :: f | none => [])
      ++ (match ex with | some e => e | none => [])
    some (.dec (String.ofList tok), cs4)

def hexVal (c : Char) : Option Nat :=
  if '0' ≤ c && c ≤ '9' then some (c.toNat - 48)
  else if 'a' ≤ c && c ≤ 'f' then some (c.toNat - 87)
  else if 'A' ≤ c && c ≤ 'F' then some (c.toNat - 55)
  else none

def hex4 : List Char → Option (Nat × List Char)
  | a :: b :: c :: d :: rest => do
    let a ← hexVal a; let b ← hexVal b; let c ← hexVal c; let d ← hexVal d
    pure (((a * 16 + b) * 16 + c) * 16 + d, rest)
  | _ => none

/-- Body of a string after the opening quote; returns the characters (reversed accumulator). -/
def parseStringBody : Nat → List Char → List Char → Option (String × List Char)
  | 0, _, _ => none
  | fuel + 1, acc, cs =>
    match cs with
    | [] => none
    | '"' :: rest => some (String.ofList acc.reverse, rest)
    | '\\' :: e :: rest =>
      match e with
      | '"' => parseStringBody fuel ('"' :: acc) rest
      | '\\' => parseStringBody fuel ('\\' :: acc) rest
      | '/' => parseStringBody fuel ('/' :: acc) rest
      | 'b' => parseStringBody fuel (Char.ofNat 8 :: acc) rest
      | 'f' => parseStringBody fuel (Char.ofNat 12 :: acc) rest
      | 'n' => parseStringBody fuel ('\n' :: acc) rest
      | 'r' => parseStringBody fuel ('\r' :: acc) rest
      | 't' => parseStringBody fuel ('\t' :: acc) rest
      | 'u' =>
        match hex4 rest with
        | none => none
        | some (u, rest') =>
          if 0xD800 ≤ u && u < 0xDC00 then
            match rest' with
            | '\\' :: 'u' :: rest'' =>
              match hex4 rest'' with
              | some (lo, rest''') =>
                if 0xDC00 ≤ lo && lo < 0xE000 then
                  parseStringBody fuel (Char.ofNat (0x10000 + (u - 0xD800) * 0x400 + (lo - 0xDC00)) :: acc) rest'''
                else none
              | none => none
            | _ => none
          else if 0xDC00 ≤ u && u < 0xE000 then none
          else parseStringBody fuel (Char.ofNat u :: acc) rest'
      | _ => none
    | c :: rest => if c.toNat < 32 then none else parseStringBody fuel (c :: acc) rest

def dropPrefix (p : List Char) (cs : List Char) : Option (List Char) :=
  if p.isPrefixOf cs then some (cs.drop p.length) else none

mutual
def parseValue (n : Nat) : Nat → List Char → Option (Json × List Char)
  | 0, _ => none
  | fuel + 1, cs =>
    match skipWs cs with
    | [] => none
    | 'n' :: r => (dropPrefix "ull".toList r).map fun r' => (.null, r')
    | 't' :: r => (dropPrefix "rue".toList r).map fun r' => (.bool true, r')
    | 'f' :: r => (dropPrefix "alse".toList r).map fun r' => (.bool false, r')
    | '"' :: r => (parseStringBody n [] r).map fun (s, r') => (.str s, r')
    | '[' :: r =>
      match skipWs r with
      | ']' :: r' => some (.arr [], r')
      | r' => (parseElems n fuel [] r').map fun (xs, r'') => (.arr xs, r'')
    | '{' :: r =>
      match skipWs r with
      | '}' :: r' => some (.obj [], r')
      | r' => (parseMembers n fuel [] r').map fun (kvs, r'') => (.obj kvs, r'')
    | c :: r => if c = '-' || isDigit c then parseNumber (c :: r) else none
/-- elements after `[` (at least one), up to and including `]` -/
def parseElems (n : Nat) : Nat → List Json → List Char → Option (List Json × List Char)
  | 0, _, _ => none
  | fuel + 1, acc, cs =>
    match parseValue n fuel cs with
    | none => none
    | some (v, r) =>
      match skipWs r with
      | ',' :: r' => parseElems n fuel (v :: acc) r'
      | ']' :: r' => some ((v :: acc).reverse, r')
      | _ => none
def parseMembers (n : Nat) : Nat → List (String × Json) → List Char → Option (List (String × Json) × List Char)
  | 0, _, _ => none
  | fuel + 1, acc, cs =>
    match skipWs cs with
    | '"' :: r =>
      match parseStringBody n [] r with
      | none => none
      | some (k, r1) =>
        match skipWs r1 with
        | ':' :: r2 =>
          match parseValue n fuel r2 with
          | none => none
          | some (v, r3) =>
            match skipWs r3 with
            | ',' :: r4 => parseMembers n fuel ((k, v) :: acc) r4
            | '}' :: r4 => some (((k, v) :: acc).reverse, r4)
            | _ => none
        | _ => none
    | _ => none
end

/-- Parse a complete JSON document.  Fuel: two nested calls consume at least one character, so
`2 * length + 2` is never exhausted; a string is never longer than the document. -/
def parse (s : String) : Option Json :=
  let cs := s.toList
  match parseValue (cs.length + 1) (2 * cs.length + 2) cs with
  | some (j, rest) => if (skipWs rest).isEmpty then some j else none
  | none => none

/-! ### exact value of a number token -/

def pow10 (e : Int) : Rat :=
  if e ≥ 0 then ((10 ^ e.toNat : Nat) : Rat) else 1 / ((10 ^ (-e).toNat : Nat) : Rat)

/-- The rational a decimal token denotes (`none` if it is not a number token). -/
def decToRat (tok : String) : Option Rat :=
  match parseNumber tok.toList with
  | some (.int i, []) => some (i : Rat)
  | some (.dec _, []) =>
    let cs := tok.toList
    let (neg, cs1) := match cs with
      | '-' :: r => (true, r)
      | _ => (false, cs)
    let (ip, cs2) := takeDigits cs1
    let (frac, cs3) : List Char × List Char := match cs2 with
      | '.' :: r => takeDigits r
      | _ => ([], cs2)
    let ex : Int := match cs3 with
      | _ :: '-' :: d => -(digitsToNat d : Int)
      | _ :: '+' :: d => (digitsToNat d : Int)
      | _ :: d => (digitsToNat d : Int)
      | [] => 0
    let mant : Nat := digitsToNat (ip ++ frac)
    let q : Rat := (mant : Rat) * pow10 (ex - frac.length)
    some (if neg then -q else q)
  | _ => none

end Moyo.Json
