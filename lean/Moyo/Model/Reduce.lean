import Moyo.Model.Geom3
/-
C14 — executable model of the three lattice reductions of moyo
(`math/minkowski.rs`, `math/niggli.rs`, `math/delaunay.rs`, `math/cycle_checker.rs`, `math/elementary.rs`).

Structure: every reduction is  `T = fixParity (applyTrace (decide basis))`  where `decide` produces a
*trace* of elementary steps from the step grammar of the algorithm and `applyTrace` multiplies the step
matrices in order (`trans_mat *= step`).  The theorems of `Moyo/Props/C14.lean` quantify over **all**
traces of the grammar, i.e. they hold whatever the floating-point comparisons decide.

`decide` recomputes the decisions of the Rust code over exact rationals.  Every comparison of a computed
real quantity with a threshold is three-valued (`K = Option Bool`): `none` when the exact value is closer
to the threshold than the uncertainty `d` of the f64 evaluation; a run that meets a `none` is *fragile*
(its `T` is not compared with the implementation's).  For integer-valued input (`exact = true`) every f64
operation of the three algorithms except `sqrt` and the Gram–Schmidt division is exact, so `d = 0` there.
Lengths (`norm()`) are handled by certified rational enclosures of the square root (`Nat.sqrt`, width 1e-30).
Import-free (core Lean only).
-/
namespace Moyo.Reduce
open Moyo

/-- The f64 constant `1e-8` (`const EPS` of all three files), exactly. -/
def EPS : Rat := (3022314549036573 : Rat) / ((2 ^ 78 : Nat) : Rat)

def absR (x : Rat) : Rat := if x < 0 then -x else x
def maxR (x y : Rat) : Rat := if x < y then y else x
def minR (x y : Rat) : Rat := if y < x then y else x

/-! ## Step grammars and `applyTrace` -/

/-- Product of step matrices in order of application (`trans_mat *= m` for each `m`). -/
def applyTrace (ms : List M3) : M3 := ms.foldl M3.mul M3.one

/-- Parity fix at the end of each reduce function: `if det(T) < 0 { T *= -1 }`. -/
def fixParity (T : M3) : M3 := if T.det < 0 then T.neg else T

/-- Value of `sign(x)` in niggli.rs. -/
inductive Sgn
  | neg | zero | pos
deriving DecidableEq, Repr, Inhabited

def Sgn.toInt : Sgn → Int
  | .neg => -1
  | .zero => 0
  | .pos => 1

/-- Minkowski (`minkowski_reduce_greedy`): adjacent column swaps (`swapping_column_matrix(j, j+1)`) and the
CVP update `col_r -= Σ_{i<r} c_i col_i` (`add_mat`), for rank 2 (`sub1`) and rank 3 (`sub2`). -/
inductive MStep
  | swap01
  | swap12
  | sub1 (c0 : Int)
  | sub2 (c0 c1 : Int)
deriving DecidableEq, Repr

def MStep.mat : MStep → M3
  | .swap01 => ⟨0, 1, 0, 1, 0, 0, 0, 0, 1⟩
  | .swap12 => ⟨1, 0, 0, 0, 0, 1, 0, 1, 0⟩
  | .sub1 c0 => ⟨1, -c0, 0, 0, 1, 0, 0, 0, 1⟩
  | .sub2 c0 c1 => ⟨1, 0, -c0, 0, 1, -c1, 0, 0, 1⟩

/-- `step3` of niggli.rs as a function of the three signs: the matrix it multiplies `trans_mat` by
(`none` when it returns `false` without touching `trans_mat`). -/
def step3Mat (sx sy sz : Sgn) : Option M3 :=
  if sy.toInt * sx.toInt * sz.toInt > 0 then
    some ⟨if sx = .neg then -1 else 1, 0, 0,
          0, if sy = .neg then -1 else 1, 0,
          0, 0, if sz = .neg then -1 else 1⟩
  else none

/-- `step4` of niggli.rs, literally (including the `p` bookkeeping).  The `unreachable!()` arm is
modelled by the zero matrix, so `det = 1` for all sign inputs also shows that it is unreachable. -/
def step4Mat (sx sy sz : Sgn) : Option M3 :=
  if sx = .neg ∧ sy = .neg ∧ sz = .neg then none
  else if sx.toInt * sy.toInt * sz.toInt ≤ 0 then
    let i : Int := if sx = .pos then -1 else 1
    let p : Int := if sx = .pos then -1 else if sx = .zero then 0 else -1
    let j : Int := if sy = .pos then -1 else 1
    let p : Int := if sy = .pos then p else if sy = .zero then 1 else p
    let k : Int := if sz = .pos then -1 else 1
    let p : Int := if sz = .pos then p else if sz = .zero then 2 else p
    if i * j * k = -1 then
      if p = 0 then some ⟨-1, 0, 0, 0, j, 0, 0, 0, k⟩
      else if p = 1 then some ⟨i, 0, 0, 0, -1, 0, 0, 0, k⟩
      else if p = 2 then some ⟨i, 0, 0, 0, j, 0, 0, 0, -1⟩
      else some M3.zero
    else some ⟨i, 0, 0, 0, j, 0, 0, 0, k⟩
  else none

/-- Niggli (`niggli_reduce`): a fired step 1..8 with the sign parameters its matrix depends on. -/
inductive NStep
  | s1
  | s2
  | s3 (sx sy sz : Sgn)
  | s4 (sx sy sz : Sgn)
  | s5 (sx : Sgn)
  | s6 (sy : Sgn)
  | s7 (sz : Sgn)
  | s8
deriving DecidableEq, Repr

def NStep.mat : NStep → M3
  | .s1 => ⟨0, -1, 0, -1, 0, 0, 0, 0, -1⟩
  | .s2 => ⟨-1, 0, 0, 0, 0, -1, 0, -1, 0⟩
  | .s3 sx sy sz => (step3Mat sx sy sz).getD M3.one
  | .s4 sx sy sz => (step4Mat sx sy sz).getD M3.one
  | .s5 sx => ⟨1, 0, 0, 0, 1, -sx.toInt, 0, 0, 1⟩
  | .s6 sy => ⟨1, 0, -sy.toInt, 0, 1, 0, 0, 0, 1⟩
  | .s7 sz => ⟨1, -sz.toInt, 0, 0, 1, 0, 0, 0, 1⟩
  | .s8 => ⟨1, 0, 1, 0, 1, 1, 0, 0, 1⟩

def M3.ofFn (f : Nat → Nat → Int) : M3 :=
  ⟨f 0 0, f 0 1, f 0 2, f 1 0, f 1 1, f 1 2, f 2 0, f 2 1, f 2 2⟩

/-- `adding_column_matrix(U3, col1, col2, 1)`: identity with entry `(col1, col2) = 1`. -/
def addCol (c1 c2 : Nat) : M3 := M3.ofFn fun r c => if r = c1 ∧ c = c2 then 1 else if r = c then 1 else 0
/-- `changing_column_sign_matrix(U3, col)`. -/
def signCol (c0 : Nat) : M3 := M3.ofFn fun r c => if r = c then (if r = c0 then -1 else 1) else 0

/-- The superbase update of `delaunay_reduce` for the pair `(i, j)`, `i < 3`, `j < 4`:
`for k in 0..3 { if k != i && k != j { tmp *= adding_column_matrix(i, k, 1) } }; tmp *= sign(i)`. -/
def updMat (i : Fin 3) (j : Fin 4) : M3 :=
  (([0, 1, 2].filter fun k => k ≠ i.val ∧ k ≠ j.val).foldl (fun m k => m.mul (addCol i.val k)) M3.one).mul
    (signCol i.val)

/-- `basis_candidates` of delaunay.rs. -/
def cand : Fin 7 → Z3
  | 0 => ⟨1, 0, 0⟩
  | 1 => ⟨0, 1, 0⟩
  | 2 => ⟨0, 0, 1⟩
  | 3 => ⟨-1, -1, -1⟩
  | 4 => ⟨1, 1, 0⟩
  | 5 => ⟨0, 1, 1⟩
  | 6 => ⟨1, 0, 1⟩

def fromColumns (u v w : Z3) : M3 := ⟨u.x, v.x, w.x, u.y, v.y, w.y, u.z, v.z, w.z⟩

/-- `trans_mat_shortest`: the matrix whose columns are the candidates number `p, q, r`. -/
def selMat (p q r : Fin 7) : M3 := fromColumns (cand p) (cand q) (cand r)

/-- Delaunay (`delaunay_reduce`): loop updates, then the final selection. -/
inductive DStep
  | upd (i : Fin 3) (j : Fin 4)
  | sel (p q r : Fin 7)
deriving DecidableEq, Repr

def DStep.mat : DStep → M3
  | .upd i j => updMat i j
  | .sel p q r => selMat p q r

/-! ## The same column operations performed directly on a rational basis
(what the Rust code does to `reduced_basis`; `Props/C14.lean` proves it equals `basis · T`). -/

def swapCols01 (B : QM3) : QM3 := ⟨B.b, B.a, B.c, B.e, B.d, B.f, B.h, B.g, B.i⟩
def swapCols12 (B : QM3) : QM3 := ⟨B.a, B.c, B.b, B.d, B.f, B.e, B.g, B.i, B.h⟩

/-- `basis.swap_columns(j, j+1)` and `basis[(·, r)] -= c_argmin` with `c = Σ c_i col_i`. -/
def MStep.act (B : QM3) : MStep → QM3
  | .swap01 => swapCols01 B
  | .swap12 => swapCols12 B
  | .sub1 c0 => ⟨B.a, B.b - c0 * B.a, B.c, B.d, B.e - c0 * B.d, B.f, B.g, B.h - c0 * B.g, B.i⟩
  | .sub2 c0 c1 => ⟨B.a, B.b, B.c - (c0 * B.a + c1 * B.b), B.d, B.e, B.f - (c0 * B.d + c1 * B.e),
                    B.g, B.h, B.i - (c0 * B.g + c1 * B.h)⟩

def actTrace (B : QM3) (tr : List MStep) : QM3 := tr.foldl MStep.act B

/-- Integer combination `x·col0 + y·col1 + z·col2` of the basis columns. -/
def comb (B : QM3) (v : Z3) : Q3 := B.apply ⟨v.x, v.y, v.z⟩

/-! ## Three-valued comparisons -/

abbrev K := Option Bool

def kand (p q : K) : K :=
  match p, q with
  | some false, _ => some false
  | _, some false => some false
  | some true, some true => some true
  | _, _ => none

def kor (p q : K) : K :=
  match p, q with
  | some true, _ => some true
  | _, some true => some true
  | some false, some false => some false
  | _, _ => none

def knot (p : K) : K := p.map not
def kimp (p q : K) : K := kor (knot p) q
def kall (ps : List K) : K := ps.foldl kand (some true)

/-- `x > t` for a computed `x` of uncertainty `d` (`d = 0`: exact). -/
def kgt (x t d : Rat) : K :=
  if d = 0 then some (decide (t < x))
  else if d < x - t then some true else if d < t - x then some false else none

def klt (x t d : Rat) : K := kgt t x d
/-- `x >= t`. -/
def kge (x t d : Rat) : K := knot (klt x t d)
def kle (x t d : Rat) : K := knot (kgt x t d)

/-! ## Certified square roots -/

def K30 : Nat := 10 ^ 30

/-- `lo ≤ √q < hi`, `hi - lo ≤ 1e-30` (for `q ≥ 0`). -/
def sqrtLoHi (q : Rat) : Rat × Rat :=
  if q ≤ 0 then (0, 0) else
  let n := q.num.toNat
  let dn := q.den
  let s := Nat.sqrt (n * dn * K30 * K30)
  let den : Rat := ((dn * K30 : Nat) : Rat)
  ((s : Rat) / den, ((s + 1 : Nat) : Rat) / den)

/-- `√p > √q + off` where `p q` are squared lengths; uncertainty `d` on the computed lengths. -/
def klenGt (p q off d : Rat) : K :=
  let (pl, ph) := sqrtLoHi p
  let (ql, qh) := sqrtLoHi q
  if d < pl - qh - off then some true
  else if ph - ql - off < -d then some false
  else none

/-- Nominal value of `√p > √q + off` (lower ends of the enclosures). -/
def lenGtNominal (p q off : Rat) : Bool :=
  let (pl, _) := sqrtLoHi p
  let (ql, _) := sqrtLoHi q
  decide (ql + off < pl)

/-! ## Shared state -/

def cur (B0 : QM3) (T : M3) : QM3 := B0.mul (QM3.ofM3 T)

def colsq (B : QM3) (k : Nat) : Rat := (B.col k).normSq
def cdot (B : QM3) (i j : Nat) : Rat := (B.col i).dot (B.col j)

/-- Magnitude bound of the numbers the f64 code handles while forming `B0·T`. -/
def scaleOf (B0 : QM3) (T : M3) : Rat := 3 * B0.maxAbs * maxR 1 (QM3.ofM3 T).maxAbs

structure Tol where
  exact : Bool
  /-- uncertainty of computed lengths -/
  dLen : Rat
  /-- uncertainty of computed dot products / squared lengths -/
  dSq : Rat

def tiny : Rat := (1 : Rat) / ((10 ^ 25 : Nat) : Rat)
def e12 : Rat := (1 : Rat) / ((10 ^ 12 : Nat) : Rat)
def e14 : Rat := (1 : Rat) / ((10 ^ 14 : Nat) : Rat)

/-- `S`: running magnitude bound, `R`: largest entry of the current basis. -/
def mkTol (exact : Bool) (S R : Rat) : Tol :=
  if exact then ⟨true, R * e14 + tiny, 0⟩ else ⟨false, S * e12 + tiny, S * maxR R tiny * e12⟩

structure St (σ : Type) where
  T : M3 := M3.one
  /-- trace, most recent step first -/
  tr : List σ := []
  frag : Bool := false
  /-- 0 = finished normally, 1 = model fuel exhausted, 2 = singular Gram matrix (`unwrap` panic) -/
  bad : Nat := 0
  S : Rat := 0
  /-- branch codes of the step evaluations (Niggli only; coverage instrumentation, most recent first) -/
  br : List Nat := []

def St.push {σ} (B0 : QM3) (st : St σ) (s : σ) (m : M3) : St σ :=
  let T' := st.T.mul m
  { st with T := T', tr := s :: st.tr, S := maxR st.S (scaleOf B0 T') }

def St.flag {σ} (st : St σ) (amb : Bool) : St σ := if amb then { st with frag := true } else st

def St.tol {σ} (st : St σ) (exact : Bool) (B : QM3) : Tol := mkTol exact st.S B.maxAbs

/-- Result of a model reduction. -/
structure Res where
  T : M3
  frag : Bool
  bad : Nat
  nsteps : Nat
  /-- branch codes taken (Niggli), see `niggliBranch` -/
  br : List Nat := []
deriving Repr

/-! ## Minkowski -/

/-- Candidates for `x.round()` (half away from zero): the exact rounding first, then the other
neighbour when `x` is within `d` of a half-integer. -/
def roundCands (x d : Rat) : List Int :=
  let r := ratRound x
  let f := x - x.floor
  if absR (f - 1 / 2) ≤ d then
    let lo := x.floor
    if r = lo then [r, lo + 1] else [r, lo]
  else [r]

/-- First strict minimum (`if cvp < cvp_min`) of `f` over `cands`; ambiguous when a second candidate is
within the uncertainty of the minimum (never in exact mode). -/
def argminFirst {α} [Inhabited α] (cands : List α) (f : α → Rat) (tol : Tol) : α × Bool :=
  match cands with
  | [] => (default, true)
  | c0 :: rest =>
    let (best, m) := rest.foldl (fun (acc : α × Rat) c => let v := f c; if v < acc.2 then (c, v) else acc) (c0, f c0)
    let near := cands.filter fun c => f c ≤ m + 2 * tol.dSq
    (best, !tol.exact && near.length > 1)

def offs : List Int := [-1, 0, 1]

/-- Line 5–6 for rank 2: coefficient `c0` with `col1 -= c0·col0`.  Returns `(c0, ambiguous, singular)`. -/
def cvp1 (tol : Tol) (B : QM3) : Int × Bool × Bool :=
  let n0 := colsq B 0
  if n0 = 0 then (0, false, true) else
  let g := cdot B 0 1 / n0
  let centres := roundCands g (e12 * 1000 * maxR 1 (absR g))
  let b1 := B.col 1
  let b0 := B.col 0
  let solve (r : Int) : Int × Bool :=
    argminFirst (offs.map (· + r)) (fun c => ((b0.smul c).sub b1).normSq) tol
  match centres.map solve with
  | [] => (0, true, false)
  | (c, a) :: rest => (c, a || rest.any (fun p => p.1 ≠ c || p.2), false)

/-- Line 5–6 for rank 3: `(c0, c1)` with `col2 -= c0·col0 + c1·col1`. -/
def cvp2 (tol : Tol) (B : QM3) : (Int × Int) × Bool × Bool :=
  let g00 := colsq B 0
  let g11 := colsq B 1
  let g01 := cdot B 0 1
  let u0 := cdot B 0 2
  let u1 := cdot B 1 2
  let dt := g00 * g11 - g01 * g01
  if g00 = 0 ∨ g11 = 0 ∨ dt = 0 then ((0, 0), false, true) else
  -- gs = h⁻¹ u with h = D⁻¹G, u = D⁻¹g  ⇒  gs = G⁻¹ g
  let x0 := (g11 * u0 - g01 * u1) / dt
  let x1 := (g00 * u1 - g01 * u0) / dt
  let cs0 := roundCands x0 (e12 * 1000 * maxR 1 (absR x0))
  let cs1 := roundCands x1 (e12 * 1000 * maxR 1 (absR x1))
  let b0 := B.col 0
  let b1 := B.col 1
  let b2 := B.col 2
  let solve (r : Int × Int) : (Int × Int) × Bool :=
    -- multi_cartesian_product: last factor fastest
    let cands := offs.flatMap fun o0 => offs.map fun o1 => (r.1 + o0, r.2 + o1)
    argminFirst cands (fun c => (((b0.smul c.1).add (b1.smul c.2)).sub b2).normSq) tol
  let centres := cs0.flatMap fun r0 => cs1.map fun r1 => (r0, r1)
  match centres.map solve with
  | [] => ((0, 0), true, false)
  | (c, a) :: rest => (c, a || rest.any (fun p => p.1 ≠ c || p.2), false)

/-- Decide a length comparison, flagging the state when it is ambiguous. -/
def decLen (st : St MStep) (tol : Tol) (p q off : Rat) : Bool × St MStep :=
  match klenGt p q off tol.dLen with
  | some b => (b, st)
  | none => (lenGtNominal p q off, { st with frag := true })

/-- `minkowski_reduce_greedy(…, rank = 2)`; `visited` is its `CycleChecker`. -/
def greedy2 (B0 : QM3) (exact : Bool) : Nat → List M3 → St MStep → St MStep
  | 0, _, st => { st with bad := 1 }
  | fuel + 1, visited, st =>
    let B := cur B0 st.T
    let tol := st.tol exact B
    -- Line 3 (lengths computed once, before the swaps)
    let (c01, st) := decLen st tol (colsq B 0) (colsq B 1) EPS
    let st := if c01 then st.push B0 .swap01 MStep.swap01.mat else st
    -- Line 4: rank 1 returns immediately.  Line 5/6
    let B := cur B0 st.T
    let (c0, amb, sing) := cvp1 tol B
    if sing then { st with bad := 2 } else
    let st := (st.flag amb).push B0 (.sub1 c0) (MStep.sub1 c0).mat
    let B := cur B0 st.T
    -- Line 7: `if |b1| + EPS > |b0| { break }`
    let (brk, st) := decLen st tol (colsq B 1) (colsq B 0) (-EPS)
    if brk then st
    else if visited.contains st.T then st
    else greedy2 B0 exact fuel (st.T :: visited) st

/-- `minkowski_reduce_greedy(…, rank = 3)`. -/
def greedy3 (B0 : QM3) (exact : Bool) : Nat → List M3 → St MStep → St MStep
  | 0, _, st => { st with bad := 1 }
  | fuel + 1, visited, st =>
    let B := cur B0 st.T
    let tol := st.tol exact B
    -- Line 3: bubble sort on the *stale* `lengths` vector: (j=0), (j=1), then (j=0) again
    let (c01, st) := decLen st tol (colsq B 0) (colsq B 1) EPS
    let (c12, st) := decLen st tol (colsq B 1) (colsq B 2) EPS
    let st := if c01 then st.push B0 .swap01 MStep.swap01.mat else st
    let st := if c12 then st.push B0 .swap12 MStep.swap12.mat else st
    let st := if c01 then st.push B0 .swap01 MStep.swap01.mat else st
    -- Line 4
    let st := greedy2 B0 exact 200 [] st
    if st.bad ≠ 0 then st else
    -- Line 5/6
    let B := cur B0 st.T
    let tol := st.tol exact B
    let (c, amb, sing) := cvp2 tol B
    if sing then { st with bad := 2 } else
    let st := (st.flag amb).push B0 (.sub2 c.1 c.2) (MStep.sub2 c.1 c.2).mat
    let B := cur B0 st.T
    -- Line 7
    let (brk, st) := decLen st tol (colsq B 2) (colsq B 1) (-EPS)
    if brk then st
    else if visited.contains st.T then st
    else greedy3 B0 exact fuel (st.T :: visited) st

/-- The decisions of `minkowski_reduce` on `B0`: the trace in order of application, and the flags. -/
def minkowskiDecide (B0 : QM3) (exact : Bool) : St MStep :=
  greedy3 B0 exact 200 [] { S := scaleOf B0 M3.one }

def minkowskiTrace (B0 : QM3) (exact : Bool) : List MStep := (minkowskiDecide B0 exact).tr.reverse

/-- `T` returned by the model of `minkowski_reduce`. -/
def minkowskiT (B0 : QM3) (exact : Bool) : M3 :=
  fixParity (applyTrace ((minkowskiTrace B0 exact).map MStep.mat))

def minkowskiRes (B0 : QM3) (exact : Bool) : Res :=
  let st := minkowskiDecide B0 exact
  ⟨minkowskiT B0 exact, st.frag, st.bad, st.tr.length, []⟩

/-- `√p + off < √q`, i.e. `v.norm() + EPS < norms[k]`. -/
def klenLt (p q off d : Rat) : K := klenGt q p off d

/-- `is_minkowski_reduced` with length uncertainty `d` (`some false` = certainly not reduced). -/
def isMinkowskiK (B : QM3) (d : Rat) : K :=
  let n0 := colsq B 0
  let n1 := colsq B 1
  let n2 := colsq B 2
  let nv (x y z : Int) : Rat := (comb B ⟨x, y, z⟩).normSq
  kall ([knot (klenGt n0 n1 EPS d), knot (klenGt n1 n2 EPS d)] ++
    ([(1, -1, 0), (1, 1, 0)].map fun (c : Int × Int × Int) => knot (klenLt (nv c.1 c.2.1 c.2.2) n1 EPS d)) ++
    ([(1, 0, 1), (1, 0, -1), (0, 1, 1), (0, 1, -1), (1, -1, -1), (1, -1, 1), (1, 1, -1), (1, 1, 1)].map
      fun (c : Int × Int × Int) => knot (klenLt (nv c.1 c.2.1 c.2.2) n2 EPS d)))

/-! ## Niggli -/

structure NParams where
  a : Rat
  b : Rat
  c : Rat
  xi : Rat
  eta : Rat
  zeta : Rat

/-- `NiggliParameters::new` (metric tensor entries; no square roots). -/
def NParams.ofBasis (B : QM3) : NParams :=
  ⟨colsq B 0, colsq B 1, colsq B 2, 2 * cdot B 1 2, 2 * cdot B 2 0, 2 * cdot B 0 1⟩

/-- `sign(x)`: `none` when ambiguous. -/
def ksign (x d : Rat) : Option Sgn :=
  match kgt x EPS d, klt x (-EPS) d with
  | some true, _ => some .pos
  | some false, some true => some .neg
  | some false, some false => some .zero
  | _, _ => none

def sign0 (x : Rat) : Sgn := if EPS < x then .pos else if x < -EPS then .neg else .zero

def kabsLt (x t d : Rat) : K := klt (absR x) t d

/-- The firing condition of step `k` (1,2,5,6,7,8) as a three-valued formula of the uncertainty `d`. -/
def stepCond (p : NParams) (k : Nat) (d : Rat) : K :=
  match k with
  | 1 => kor (kgt (p.a - p.b) EPS d) (kand (kabsLt (p.a - p.b) EPS d) (kgt (absR p.xi) (absR p.eta) d))
  | 2 => kor (kgt (p.b - p.c) EPS d) (kand (kabsLt (p.b - p.c) EPS d) (kgt (absR p.eta) (absR p.zeta) d))
  | 5 => kor (kgt (absR p.xi - p.b) EPS d)
          (kor (kand (kabsLt (p.xi - p.b) EPS d) (kgt (p.zeta - 2 * p.eta) EPS d))
               (kand (kabsLt (p.xi + p.b) EPS d) (kgt (-p.zeta) EPS d)))
  | 6 => kor (kgt (absR p.eta - p.a) EPS d)
          (kor (kand (kabsLt (p.eta - p.a) EPS d) (kgt (p.zeta - 2 * p.xi) EPS d))
               (kand (kabsLt (p.eta + p.a) EPS d) (kgt (-p.zeta) EPS d)))
  | 7 => kor (kgt (absR p.zeta - p.a) EPS d)
          (kor (kand (kabsLt (p.zeta - p.a) EPS d) (kgt (p.eta - 2 * p.xi) EPS d))
               (kand (kabsLt (p.zeta + p.a) EPS d) (kgt (-p.eta) EPS d)))
  | 8 => let s := p.xi + p.eta + p.zeta + p.a + p.b
         kor (klt s (-EPS) d) (kand (kabsLt s EPS d) (kgt (2 * (p.a + p.eta) + p.zeta) EPS d))
  | _ => some false

/-- One call of `stepK`: `(branch, step, ambiguous)`. -/
def niggliStep (p : NParams) (k : Nat) (d : Rat) : Bool × NStep × Bool :=
  let sx := sign0 p.xi
  let sy := sign0 p.eta
  let sz := sign0 p.zeta
  let ax := (ksign p.xi d).isNone
  let ay := (ksign p.eta d).isNone
  let az := (ksign p.zeta d).isNone
  match k with
  | 3 => ((step3Mat sx sy sz).isSome, .s3 sx sy sz, ax || ay || az)
  | 4 => ((step4Mat sx sy sz).isSome, .s4 sx sy sz, ax || ay || az)
  | _ =>
    let fired := (stepCond p k 0).getD false
    let amb := (stepCond p k d).isNone
    let (s, asg) : NStep × Bool := match k with
      | 1 => (.s1, false)
      | 2 => (.s2, false)
      | 5 => (.s5 sx, ax)
      | 6 => (.s6 sy, ay)
      | 7 => (.s7 sz, az)
      | _ => (.s8, false)
    (fired, s, amb || (fired && asg))

/-- Coverage instrumentation: which branch of `stepK` the exact evaluation takes (`10·k + j`).
`j = 0`: condition false, no tie.  Steps 1, 2: `1` strict (`A > B`), `2` tie and secondary true (fires),
`3` tie and secondary false.  Step 3: `1` fires.  Step 4: `0` early return (all negative), `1` fires without
repair, `2,3,4` fires with the `i·j·k = -1` repair through `p = 0,1,2`, `5` not applicable (type I).
Steps 5, 6, 7: `1` strict (`|ξ| > B`), `2` tie `ξ = B` fires, `3` tie `ξ = B` secondary false,
`4` tie `ξ = -B` fires, `5` tie `ξ = -B` secondary false.  Step 8: `1` strict (`Σ < 0`), `2` tie `Σ = 0`
fires (`2(A+η)+ζ > 0`), `3` tie `Σ = 0` secondary false. -/
def niggliBranch (p : NParams) (k : Nat) : Nat :=
  let gt (x : Rat) : Bool := decide (EPS < x)
  let z (x : Rat) : Bool := decide (absR x < EPS)
  let sx := sign0 p.xi
  let sy := sign0 p.eta
  let sz := sign0 p.zeta
  let two (d : Rat) (sec : Bool) : Nat := if gt d then 1 else if z d then (if sec then 2 else 3) else 0
  let three (m bnd sec1 sec2 : Rat) : Nat :=
    if gt (absR m - bnd) then 1
    else if z (m - bnd) then (if gt sec1 then 2 else if z (m + bnd) ∧ gt sec2 then 4 else 3)
    else if z (m + bnd) then (if gt sec2 then 4 else 5) else 0
  10 * k + (match k with
  | 1 => two (p.a - p.b) (decide (absR p.eta < absR p.xi))
  | 2 => two (p.b - p.c) (decide (absR p.zeta < absR p.eta))
  | 3 => if (step3Mat sx sy sz).isSome then 1 else 0
  | 4 =>
    if sx = .neg ∧ sy = .neg ∧ sz = .neg then 0
    else if sx.toInt * sy.toInt * sz.toInt ≤ 0 then
      let i : Int := if sx = .pos then -1 else 1
      let j : Int := if sy = .pos then -1 else 1
      let k' : Int := if sz = .pos then -1 else 1
      if i * j * k' = -1 then (if sz = .zero then 4 else if sy = .zero then 3 else 2) else 1
    else 5
  | 5 => three p.xi p.b (p.zeta - 2 * p.eta) (-p.zeta)
  | 6 => three p.eta p.a (p.zeta - 2 * p.xi) (-p.zeta)
  | 7 => three p.zeta p.a (p.eta - 2 * p.xi) (-p.eta)
  | 8 =>
    let s := p.xi + p.eta + p.zeta + p.a + p.b
    if s < -EPS then 1 else if z s then (if gt (2 * (p.a + p.eta) + p.zeta) then 2 else 3) else 0
  | _ => 0)

/-- The `while step <= 8` loop of `niggli_reduce`; `visited` is the `CycleChecker`. -/
def niggliLoop (B0 : QM3) (exact : Bool) : Nat → Nat → List M3 → St NStep → St NStep
  | 0, _, _, st => { st with bad := 1 }
  | fuel + 1, step, visited, st =>
    if step > 8 then st else
    let B := cur B0 st.T
    let tol := st.tol exact B
    let prm := NParams.ofBasis B
    let (branch, s, amb) := niggliStep prm step (10 * tol.dSq)
    let st := { st.flag amb with br := niggliBranch prm step :: st.br }
    let st := if branch then st.push B0 s s.mat else st
    let step' := if branch && (step = 2 || step = 5 || step = 6 || step = 7 || step = 8) then 1 else step + 1
    if step' = 1 then
      if visited.contains st.T then st else niggliLoop B0 exact fuel step' (st.T :: visited) st
    else niggliLoop B0 exact fuel step' visited st

def niggliDecide (B0 : QM3) (exact : Bool) : St NStep :=
  niggliLoop B0 exact 20000 1 [] { S := scaleOf B0 M3.one }

def niggliTrace (B0 : QM3) (exact : Bool) : List NStep := (niggliDecide B0 exact).tr.reverse

def niggliT (B0 : QM3) (exact : Bool) : M3 :=
  fixParity (applyTrace ((niggliTrace B0 exact).map NStep.mat))

def niggliRes (B0 : QM3) (exact : Bool) : Res :=
  let st := niggliDecide B0 exact
  ⟨niggliT B0 exact, st.frag, st.bad, st.tr.length, st.br⟩

/-- `is_niggli_reduced` with uncertainty `d` on the metric entries (`d = 0`: the literal predicate). -/
def isNiggliK (B : QM3) (d : Rat) : K :=
  let p := NParams.ofBasis B
  let common := kall [kge (p.b - p.a) (-EPS) d, kge (p.c - p.b) (-EPS) d,
    kge (p.a - absR p.eta) (-EPS) d, kge (p.b - absR p.xi) (-EPS) d]
  let typeI := kall [kgt p.xi EPS d, kgt p.eta EPS d, kgt p.zeta EPS d,
    kimp (kabsLt (p.a - p.b) EPS d) (kge (p.eta - p.xi) (-EPS) d),
    kimp (kabsLt (p.b - p.c) EPS d) (kge (p.zeta - p.eta) (-EPS) d),
    kimp (kabsLt (p.b - absR p.xi) EPS d) (kge (2 * p.eta - p.zeta) (-EPS) d),
    kimp (kabsLt (p.a - absR p.eta) EPS d) (kge (2 * p.xi - p.zeta) (-EPS) d),
    kimp (kabsLt (p.a - absR p.zeta) EPS d) (kge (2 * p.xi - p.eta) (-EPS) d)]
  let typeII := kall [kle p.xi EPS d, kle p.eta EPS d, kle p.zeta EPS d,
    kimp (kabsLt (p.a - p.b) EPS d) (kge (absR p.eta - absR p.xi) (-EPS) d),
    kimp (kabsLt (p.b - p.c) EPS d) (kge (absR p.zeta - absR p.eta) (-EPS) d),
    kimp (kabsLt (p.b - absR p.xi) EPS d) (kabsLt p.zeta EPS d),
    kimp (kabsLt (p.a - absR p.eta) EPS d) (kabsLt p.zeta EPS d),
    kimp (kabsLt (p.a - absR p.zeta) EPS d) (kabsLt p.eta EPS d),
    kimp (kabsLt (p.xi + p.eta + p.zeta - p.a - p.b) EPS d) (kge (absR p.eta + absR p.zeta - p.a) (-EPS) d)]
  let branch : K :=
    match ksign p.xi d, ksign p.eta d, ksign p.zeta d with
    | some sx, some sy, some sz => some (decide (sx.toInt * sy.toInt * sz.toInt > 0))
    | _, _, _ => none
  let main : K :=
    match branch with
    | some true => typeI
    | some false => typeII
    | none => if typeI = typeII then typeI else none
  kand common main

/-- The Niggli conditions themselves (Křivý–Gruber 1976 / Int. Tables A 9.2), **not** moyo's predicate:
compared with `is_niggli_reduced` this also requires `|ζ| ≤ A`, `ξ+η+ζ+A+B ≥ 0` and, on the tie
`ξ+η+ζ+A+B = 0`, `2(A+η)+ζ ≤ 0` (moyo's predicate tests the premise `ξ+η+ζ = A+B`, which never holds
for a type-II cell, so it does not enforce this clause).  Thresholds `EPS` as in the loop of
`niggli_reduce`; `d` = uncertainty of the metric entries (`0` for integer-valued bases). -/
def niggliSpecK (B : QM3) (d : Rat) : K :=
  let p := NParams.ofBasis B
  let common := kall [kge (p.b - p.a) (-EPS) d, kge (p.c - p.b) (-EPS) d, kge (p.b - absR p.xi) (-EPS) d,
    kge (p.a - absR p.eta) (-EPS) d, kge (p.a - absR p.zeta) (-EPS) d]
  let typeI := kall [kgt p.xi EPS d, kgt p.eta EPS d, kgt p.zeta EPS d,
    kimp (kabsLt (p.a - p.b) EPS d) (kge (p.eta - p.xi) (-EPS) d),
    kimp (kabsLt (p.b - p.c) EPS d) (kge (p.zeta - p.eta) (-EPS) d),
    kimp (kabsLt (p.b - p.xi) EPS d) (kge (2 * p.eta - p.zeta) (-EPS) d),
    kimp (kabsLt (p.a - p.eta) EPS d) (kge (2 * p.xi - p.zeta) (-EPS) d),
    kimp (kabsLt (p.a - p.zeta) EPS d) (kge (2 * p.xi - p.eta) (-EPS) d)]
  let s := p.xi + p.eta + p.zeta + p.a + p.b
  let typeII := kall [kle p.xi EPS d, kle p.eta EPS d, kle p.zeta EPS d,
    kimp (kabsLt (p.a - p.b) EPS d) (kge (absR p.eta - absR p.xi) (-EPS) d),
    kimp (kabsLt (p.b - p.c) EPS d) (kge (absR p.zeta - absR p.eta) (-EPS) d),
    kimp (kabsLt (p.b - absR p.xi) EPS d) (kle (absR p.zeta) EPS d),
    kimp (kabsLt (p.a - absR p.eta) EPS d) (kle (absR p.zeta) EPS d),
    kimp (kabsLt (p.a - absR p.zeta) EPS d) (kle (absR p.eta) EPS d),
    kge s (-EPS) d,
    kimp (kabsLt s EPS d) (kle (2 * (p.a + p.eta) + p.zeta) EPS d)]
  let branch : K :=
    match ksign p.xi d, ksign p.eta d, ksign p.zeta d with
    | some sx, some sy, some sz => some (decide (sx.toInt * sy.toInt * sz.toInt > 0))
    | _, _, _ => none
  let main : K :=
    match branch with
    | some true => typeI
    | some false => typeII
    | none => if typeI = typeII then typeI else none
  kand common main

/-! ## Delaunay -/

def superbase (B : QM3) : List Q3 :=
  let b0 := B.col 0
  let b1 := B.col 1
  let b2 := B.col 2
  [b0, b1, b2, ((b0.add b1).add b2).neg]

def delPairs : List (Fin 3 × Fin 4) := [(0, 1), (0, 2), (0, 3), (1, 2), (1, 3), (2, 3)]

/-- First pair `(i, j)` in loop order with `superbase[i]·superbase[j] > EPS`; `(pair?, ambiguous)`. -/
def delFind (B : QM3) (d : Rat) : Option (Fin 3 × Fin 4) × Bool :=
  let sb := superbase B
  let dotOf (p : Fin 3 × Fin 4) : Rat := (sb.getD p.1.val Q3.zero).dot (sb.getD p.2.val Q3.zero)
  let rec go : List (Fin 3 × Fin 4) → Bool → Option (Fin 3 × Fin 4) × Bool
    | [], amb => (none, amb)
    | p :: rest, amb =>
      match kgt (dotOf p) EPS d with
      | some true => (some p, amb)
      | some false => go rest amb
      | none => if EPS < dotOf p then (some p, true) else go rest true
  go delPairs false

def delLoop (B0 : QM3) (exact : Bool) : Nat → List M3 → St DStep → St DStep
  | 0, _, st => { st with bad := 1 }
  | fuel + 1, visited, st =>
    let B := cur B0 st.T
    let tol := st.tol exact B
    let (found, amb) := delFind B (10 * tol.dSq)
    let st := st.flag amb
    match found with
    | none => st
    | some (i, j) =>
      let st := st.push B0 (.upd i j) (updMat i j)
      if visited.contains st.T then st else delLoop B0 exact fuel (st.T :: visited) st

/-- Stable insertion into a list sorted by key. -/
def insertStable (x : Fin 7 × Rat) : List (Fin 7 × Rat) → List (Fin 7 × Rat)
  | [] => [x]
  | y :: ys => if x.2 < y.2 then x :: y :: ys else y :: insertStable x ys

/-- `argsort.sort_by(partial_cmp)` (stable) of the seven candidates by squared length. -/
def sortCands (B : QM3) : List (Fin 7 × Rat) :=
  let all : List (Fin 7) := [0, 1, 2, 3, 4, 5, 6]
  (all.map fun k => (k, (comb B (cand k)).normSq)).foldl (fun acc x => insertStable x acc) []

/-- The pinned final selection: candidates number `argsort[0..3]`; `(p, q, r, ambiguous)`. -/
def delSelect (B : QM3) (tol : Tol) : Fin 7 × Fin 7 × Fin 7 × Bool :=
  match sortCands B with
  | s0 :: s1 :: s2 :: s3 :: _ =>
    let near (x y : Fin 7 × Rat) : Bool := !tol.exact && absR (x.2 - y.2) ≤ 4 * tol.dSq
    (s0.1, s1.1, s2.1, near s0 s1 || near s1 s2 || near s2 s3)
  | _ => (0, 1, 2, true)

def delaunayDecide (B0 : QM3) (exact : Bool) : St DStep :=
  let st := delLoop B0 exact 20000 [] { S := scaleOf B0 M3.one }
  let B := cur B0 st.T
  let (p, q, r, amb) := delSelect B (st.tol exact B)
  (st.flag amb).push B0 (.sel p q r) (selMat p q r)

def delaunayTrace (B0 : QM3) (exact : Bool) : List DStep := (delaunayDecide B0 exact).tr.reverse

def delaunayT (B0 : QM3) (exact : Bool) : M3 :=
  fixParity (applyTrace ((delaunayTrace B0 exact).map DStep.mat))

def delaunayRes (B0 : QM3) (exact : Bool) : Res :=
  let st := delaunayDecide B0 exact
  ⟨delaunayT B0 exact, st.frag, st.bad, st.tr.length, []⟩


/-! ## Proposed repair of the Delaunay selection (not what the pinned code does) -/

/-- Positions `a < b < c` in `0..7`, lexicographic order. -/
def triples7 : List (Nat × Nat × Nat) :=
  (List.range 7).flatMap fun a => (List.range 7).flatMap fun b => (List.range 7).filterMap fun c =>
    if a < b ∧ b < c then some (a, b, c) else none

def goodTriple (t : Fin 7 × Fin 7 × Fin 7) : Bool := (selMat t.1 t.2.1 t.2.2).det.natAbs = 1

/-- First good triple of a list (falls back to `b1, b2, b3`, which always qualifies). -/
def firstGood (l : List (Fin 7 × Fin 7 × Fin 7)) : Fin 7 × Fin 7 × Fin 7 := (l.find? goodTriple).getD (0, 1, 2)

/-- First triple of the length-ordered candidate list `order` whose matrix has `|det| = 1`. -/
def selectGuarded (order : List (Fin 7)) : Fin 7 × Fin 7 × Fin 7 :=
  let pick (k : Nat) : Fin 7 := order.getD k 0
  firstGood (triples7.map fun t => (pick t.1, pick t.2.1, pick t.2.2))


/-- Length-ordered candidate list and its ambiguity (any near-tie between neighbours). -/
def delOrder (B : QM3) (tol : Tol) : List (Fin 7) × Bool :=
  let srt := sortCands B
  let rec amb : List (Fin 7 × Rat) → Bool
    | x :: y :: rest => (!tol.exact && absR (x.2 - y.2) ≤ 4 * tol.dSq) || amb (y :: rest)
    | _ => false
  (srt.map (·.1), amb srt)

/-- Decisions of the *repaired* `delaunay_reduce` (same loop, guarded selection). -/
def delaunayDecideG (B0 : QM3) (exact : Bool) : St DStep :=
  let st := delLoop B0 exact 20000 [] { S := scaleOf B0 M3.one }
  let B := cur B0 st.T
  let (order, amb) := delOrder B (st.tol exact B)
  let t := selectGuarded order
  (st.flag amb).push B0 (.sel t.1 t.2.1 t.2.2) (selMat t.1 t.2.1 t.2.2)

def delaunayTG (B0 : QM3) (exact : Bool) : M3 :=
  fixParity (applyTrace ((delaunayDecideG B0 exact).tr.reverse.map DStep.mat))

def delaunayResG (B0 : QM3) (exact : Bool) : Res :=
  let st := delaunayDecideG B0 exact
  ⟨delaunayTG B0 exact, st.frag, st.bad, st.tr.length, []⟩


/-! ## The checked public API (`Lattice::minkowski_reduce`, `Lattice::niggli_reduce`) -/

/-- `Lattice::minkowski_reduce`: `Err` (here `none`) when the a-posteriori `is_minkowski_reduced` fails.
`d`: uncertainty given to the predicate (0 = literal). -/
def minkowskiChecked (B0 : QM3) (exact : Bool) (d : Rat) : Option (QM3 × M3) :=
  let T := minkowskiT B0 exact
  let R := cur B0 T
  if isMinkowskiK R d = some true then some (R, T) else none

/-- `Lattice::niggli_reduce`. -/
def niggliChecked (B0 : QM3) (exact : Bool) (d : Rat) : Option (QM3 × M3) :=
  let T := niggliT B0 exact
  let R := cur B0 T
  if isNiggliK R d = some true then some (R, T) else none

end Moyo.Reduce
