/-
General m×n integer matrices for the executable model.  Stored as `Vector (Vector Int n) m`
(so compiled code never re-evaluates closures); every operation is `ofFn` of its entry formula,
and `get_ofFn` is the only lemma proofs need to see through the storage.  Import-free.
-/
namespace Moyo

structure IMat (m n : Nat) where
  rows : Vector (Vector Int n) m
deriving DecidableEq

namespace IMat

@[inline] def get {m n : Nat} (A : IMat m n) (i : Fin m) (j : Fin n) : Int := A.rows[i][j]

def ofFn {m n : Nat} (f : Fin m → Fin n → Int) : IMat m n :=
  ⟨Vector.ofFn fun i => Vector.ofFn fun j => f i j⟩

@[simp] theorem get_ofFn {m n : Nat} (f : Fin m → Fin n → Int) (i : Fin m) (j : Fin n) :
    (ofFn f).get i j = f i j := by
  simp [get, ofFn]

theorem ext {m n : Nat} {A B : IMat m n} (h : ∀ i j, A.get i j = B.get i j) : A = B := by
  cases A with | mk ra => cases B with | mk rb =>
  congr
  apply Vector.ext; intro i hi
  apply Vector.ext; intro j hj
  exact h ⟨i, hi⟩ ⟨j, hj⟩

theorem ofFn_get {m n : Nat} (A : IMat m n) : ofFn (fun i j => A.get i j) = A :=
  ext (by simp)

def one (n : Nat) : IMat n n := ofFn fun i j => if i = j then 1 else 0

/-- Sum of `f k` over `k : Fin n` (left fold). -/
def sumFin {n : Nat} (f : Fin n → Int) : Int := Fin.foldl n (fun acc k => acc + f k) 0

def mul {m n p : Nat} (A : IMat m n) (B : IMat n p) : IMat m p :=
  ofFn fun i j => sumFin fun k => A.get i k * B.get k j

def transpose {m n : Nat} (A : IMat m n) : IMat n m := ofFn fun i j => A.get j i

/-- Swap columns `a` and `b`. -/
def swapCols {m n : Nat} (A : IMat m n) (a b : Fin n) : IMat m n :=
  ofFn fun i j => if j = a then A.get i b else if j = b then A.get i a else A.get i j

/-- Swap rows `a` and `b`. -/
def swapRows {m n : Nat} (A : IMat m n) (a b : Fin m) : IMat m n :=
  ofFn fun i j => if i = a then A.get b j else if i = b then A.get a j else A.get i j

/-- Negate column `s`. -/
def negCol {m n : Nat} (A : IMat m n) (s : Fin n) : IMat m n :=
  ofFn fun i j => if j = s then - A.get i j else A.get i j

/-- Simultaneously replace every column `j ≠ s` by `col j - k j * col s`. -/
def subColMultiples {m n : Nat} (A : IMat m n) (s : Fin n) (k : Fin n → Int) : IMat m n :=
  ofFn fun i j => if j = s then A.get i j else A.get i j - k j * A.get i s

/-- Simultaneously replace every row `i ≠ s` by `row i - k i * row s`. -/
def subRowMultiples {m n : Nat} (A : IMat m n) (s : Fin m) (k : Fin m → Int) : IMat m n :=
  ofFn fun i j => if i = s then A.get i j else A.get i j - k i * A.get s j

def toLists {m n : Nat} (A : IMat m n) : List (List Int) :=
  A.rows.toList.map fun r => r.toList

/-- Row-major flat list of entries. -/
def toFlat {m n : Nat} (A : IMat m n) : List Int := (toLists A).flatten

/-- Build from a row-major flat array (missing entries are 0; callers check the length). -/
def ofFlat (m n : Nat) (xs : Array Int) : IMat m n :=
  ofFn fun i j => xs.getD (i.val * n + j.val) 0

end IMat
end Moyo
