import Moyo.Model.DriverPipe
import Moyo.Model.OracleWyckoff
import Moyo.Model.OrbitsC07
/-
Driver commands of C07 / C16(i):

* `ds <case line>`            the pipeline answer of `DriverPipe` with the Wyckoff clauses of C07
                              (`Oracle.checkC07wyckoff`) appended to the failed-clause list;
* `wyckspace <row index>`     row of the regenerated Wyckoff table and the parser model on its
                              coordinate string: `hall mult letter |symbol|coordinates| ; linear (9 ints) ; origin (3 rationals)`;
* `wyckcheck <hall>`          the C16(i) Bool checker of one Hall number, row by row (`ok` or the failing rows);
* `orbits n ; p1 ; p2 … ; m`  models of `orbits_from_permutations(n, [p1, p2, …])` and
                              `orbits_in_cell(n, [p1, …], m)` (`m` may be empty).
-/
namespace Moyo.DriverC07
open Moyo Moyo.Oracle Moyo.Wyckoff Moyo.Generated

def splitSemi (ts : List String) : List (List String) :=
  let rec go (acc : List String) (out : List (List String)) : List String → List (List String)
    | [] => (acc.reverse :: out).reverse
    | t :: rest => if t = ";" then go [] (acc.reverse :: out) rest else go (t :: acc) out rest
  go [] [] ts

def cmdWyckSpace (arg : String) : String :=
  match arg.toNat? with
  | none => "bad-op"
  | some k =>
    match wyckoffTable[k]? with
    | none => "none"
    | some e =>
      let head := s!"{e.hallNumber} {e.multiplicity} {e.letter} |{e.siteSymmetry}|{e.coordinates}|"
      match Space.new? e.coordinates with
      | none => s!"{head} ; none"
      | some sp => s!"{head} ; {Wire.intsToString sp.linear.toList} ; {Wire.ratsToString sp.origin.toList}"

def cmdWyckCheck (arg : String) : String :=
  match arg.toNat? with
  | none => "bad-op"
  | some h =>
    let fs := diagnoseHall h
    if fs.isEmpty && checkHall h then "ok"
    else if fs.isEmpty then s!"Hall {h}: checkHall is false" else " || ".intercalate fs

def cmdOrbits (args : List String) : String :=
  match (splitSemi args).map Wire.parseNats? with
  | some [n] :: rest =>
    match rest.reverse with
    | some m :: permsRev =>
      match permsRev.reverse.mapM id with
      | some perms =>
        let o1 := Orbits.orbitsFromPermutations n perms
        let o2 := Orbits.orbitsInCell n perms m
        s!"{Wire.natsToString o1} ; {Wire.natsToString o2}"
      | none => "bad-op"
    | _ => "bad-op"
  | _ => "bad-op"

def step? (line : String) : Option String :=
  match Wire.tokens line with
  | "ds" :: rest =>
    match DriverPipe.step? line with
    | none => none
    | some base =>
      match parseCase? ("ds" :: rest) with
      | some cs =>
        match cs.out with
        | .ok d =>
          let mine := checkC07wyckoff cs d
          if mine.isEmpty then some base
          else
            let sep := if (base.splitOn " | ").getLast?.map (·.trimAscii.toString) == some "" then "" else " || "
            some (base ++ sep ++ " || ".intercalate mine)
        | .err name =>
          let matching : Bool := match cs.setting with
            | .hall h => numberOfHall h == numberOfHall cs.truth.hall && (numberOfHall cs.truth.hall).isSome
            | _ => true
          let mine := checkC07err matching name
          if mine.isEmpty then some base
          else
            let sep := if (base.splitOn " | ").getLast?.map (·.trimAscii.toString) == some "" then "" else " || "
            some (base ++ sep ++ " || ".intercalate mine)
        | _ => some base
      | none => some base
  | ["wyckspace", k] => some (cmdWyckSpace k)
  | ["wyckcheck", h] => some (cmdWyckCheck h)
  | "orbits" :: args => some (cmdOrbits args)
  | _ => none

end Moyo.DriverC07
