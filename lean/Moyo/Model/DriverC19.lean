import Moyo.Model.Wire
import Moyo.Model.JsonText
import Moyo.Generated.C19Schema
/-
Driver commands of property C19 (import-free).

`c19 <TAB> type <TAB> dump tokens <TAB> json text`
    the JSON text must parse, decode against the regenerated schema of `type` (exactly the schema's
    fields, in order), re-encode and print to the very same text, and the decoded value must agree
    leaf by leaf with the harness' independent dump of the Rust value (integers, strings, chars,
    booleans, lengths, variants exactly; floats: exact value of the printed token within 1e-15
    relative of the exact value of the f64).  Answer `ok` or `fail <what>`.
`c19dec <TAB> type <TAB> json text`
    parse + decode + re-encode only.
-/
namespace Moyo.DriverC19
open Moyo.Json Moyo.Wire

/-- A leaf of a decoded value, in the harness' dump order. -/
inductive Leaf where
  | tok (s : String)
  | flt (tok : String)

def hex2 (b : UInt8) : String :=
  String.ofList [hexDigit (b.toNat / 16), hexDigit (b.toNat % 16)]

def hexOfString (s : String) : String :=
  String.join (s.toUTF8.toList.map hex2)

mutual
/-- Leaves of a value with their paths (matrices: rows in order, i.e. entry (i, j) at `path.i.j`). -/
def render : String → Ty → Val → List (String × Leaf)
  | p, .int _ _, .int i => [(p, .tok s!"i:{i}")]
  | p, .float, .float t => [(p, .flt t)]
  | p, .string, .str s => [(p, .tok ("s:" ++ hexOfString s))]
  | p, .char, .char c => [(p, .tok s!"c:{c.toNat}")]
  | p, .bool, .bool b => [(p, .tok (if b then "b:1" else "b:0"))]
  | p, .seq t, .list xs => (p, .tok s!"n:{xs.length}") :: renderList p 0 t xs
  | p, .array _ t, .list xs => renderList p 0 t xs
  | p, .matrix _ _ t, .list rows => renderRows p 0 t rows
  | p, .struct fs, .struct vs => renderFields p fs vs
  | p, .enum _, .variant n none => [(p, .tok ("v:" ++ n))]
  | p, .enum vs, .variant n (some v) =>
      match lookupVariant vs n with
      | some (some t) => (p, .tok ("v:" ++ n)) :: render (p ++ "." ++ n) t v
      | _ => [(p, .tok "ill-typed")]
  | p, .newtype t, .newtype v => render p t v
  | p, _, _ => [(p, .tok "ill-typed")]
termination_by structural _ _ v => v
def renderList : String → Nat → Ty → List Val → List (String × Leaf)
  | _, _, _, [] => []
  | p, k, t, v :: vs => render (p ++ "." ++ toString k) t v ++ renderList p (k + 1) t vs
termination_by structural _ _ _ vs => vs
def renderRows : String → Nat → Ty → List Val → List (String × Leaf)
  | _, _, _, [] => []
  | p, k, t, .list es :: vs => renderList (p ++ "." ++ toString k) 0 t es ++ renderRows p (k + 1) t vs
  | p, k, t, _ :: vs => (p, .tok "ill-typed") :: renderRows p (k + 1) t vs
termination_by structural _ _ _ vs => vs
def renderFields : String → List (String × Ty) → List (String × Val) → List (String × Leaf)
  | p, (n, t) :: fs, (_, v) :: vs => render (if p.isEmpty then n else p ++ "." ++ n) t v ++ renderFields p fs vs
  | _, _, _ => []
termination_by structural _ _ vs => vs
end

def ratAbs (q : Rat) : Rat := if q < 0 then -q else q

/-- |a - b| ≤ 1e-15 · max(|a|, |b|) -/
def closeRel (a b : Rat) : Bool :=
  let d := ratAbs (a - b)
  let m := if ratAbs a < ratAbs b then ratAbs b else ratAbs a
  d * 1000000000000000 ≤ m

def leafAgrees (model : Leaf) (harness : String) : Bool :=
  match model with
  | .tok s => s = harness
  | .flt t =>
    match harness.toList with
    | 'f' :: ':' :: rest =>
      match parseRat? (String.ofList rest), decToRat t with
      | some a, some b => closeRel a b
      | _, _ => false
    | _ => false

def leafToString : Leaf → String
  | .tok s => s
  | .flt t => "f:" ++ t

def compareLeaves : Nat → List (String × Leaf) → List String → Option String
  | _, [], [] => none
  | k, (p, l) :: ls, h :: hs =>
    if leafAgrees l h then compareLeaves (k + 1) ls hs
    else some s!"leaf {k} at {p}: decoded {leafToString l} but the value holds {h}"
  | k, (p, l) :: _, [] => some s!"leaf {k} at {p}: decoded {leafToString l} but the value has no more leaves"
  | k, [], h :: _ => some s!"leaf {k}: the value holds {h} but the decoded JSON has no more leaves"

/-- first position where two strings differ -/
def firstDiff (a b : List Char) (k : Nat := 0) : Nat :=
  match a, b with
  | x :: xs, y :: ys => if x = y then firstDiff xs ys (k + 1) else k
  | _, _ => k

def splitTabs (line : String) : List String :=
  let cs := (line.toList.reverse.dropWhile (fun c => c = '\n' || c = '\r')).reverse
  (String.ofList cs).splitOn "\t"

def lookupTy (name : String) : Option Ty :=
  (Moyo.Generated.C19.schema.find? (fun p => p.1 = name)).map Prod.snd

/-- parse, decode, re-encode; `Except` message or the decoded value -/
def decodeText (t : Ty) (text : String) : Except String Val :=
  match parse text with
  | none => .error "parse: not a JSON document"
  | some j =>
    match decode t j with
    | none => .error ("decode: rejected by the schema; top-level keys " ++ toString (Json.keys j))
    | some v =>
      let back := print (encode t v)
      if back = text then .ok v
      else .error s!"reencode: differs from the input at character {firstDiff back.toList text.toList}"

def step? (line : String) : Option String :=
  if "c19\t".toList.isPrefixOf line.toList then
    some <| match splitTabs line with
    | [_, ty, dump, text] =>
      match lookupTy ty with
      | none => "fail unknown type " ++ ty
      | some t =>
        match decodeText t text with
        | .error e => "fail " ++ e
        | .ok v =>
          match compareLeaves 0 (render "" t v) (tokens dump) with
          | none => "ok"
          | some e => "fail dump: " ++ e
    | _ => "bad-op"
  else if "c19dec\t".toList.isPrefixOf line.toList then
    some <| match splitTabs line with
    | [_, ty, text] =>
      match lookupTy ty with
      | none => "fail unknown type " ++ ty
      | some t =>
        match decodeText t text with
        | .error e => "fail " ++ e
        | .ok _ => "ok"
    | _ => "bad-op"
  else none

end Moyo.DriverC19
