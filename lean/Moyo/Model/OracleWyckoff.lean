import Moyo.Model.Oracle
import Moyo.Model.Wyckoff
/-
C07, the Wyckoff clauses (the labelling clauses are `Oracle.checkC07orbits`).  For every atom `i` of
the input cell, in exact rational arithmetic:

* map it into std_cell, `y = std_linear⁻¹ (x − std_origin_shift)`, and snap to the std_cell site `s`
  found by `SiteIndex.find` within `4·symprec`;
* `Stab` = number of tabulated conventional operations `g` (centring included) of the *reported*
  Hall number with `g·s ≡ s` modulo the lattice within `1e-6` (Cartesian, periodic, exact);
* (W1) tabulated multiplicity of the reported letter × `Stab` = number of conventional operations;
* (W2) the point group named by the reported site-symmetry symbol has order `Stab`, and the symbol
  is the tabulated symbol of the letter;
* (W3) some atom `k` of the orbit (same label), translated by a centring vector `c`, lies on the
  tabulated coordinate subspace of the letter: `∃ n ∈ ℤ³, y ∈ ℚ³, |A_std (L y + o − (s_k + c) − n)|² ≤ (4·symprec)²`;
* (W4) when the generator recorded a Wyckoff row for the atom: the reported letter has the recorded
  row's multiplicity *per operation* (`m_rep · #ops_gen = m_gen · #ops_rep`, settings may differ) and
  the same site-symmetry order.

(W3) is decided by an integer box for `n` (see `offsetBox`) and, for each `n`, the least-squares
parameters `y`; the *verdict* is always the exact inequality for the exhibited `(n, y)`, so a pass
is a witness (`Proofs/OracleC07.lean`).
-/
namespace Moyo.Oracle
open Moyo Moyo.Generated Moyo.Wyckoff

/-- Number of operations fixing the fractional point `s` modulo the lattice, within squared
Cartesian distance `eps2`. -/
def stabilizerCount (A : QM3) (gi : Q3) (ops : List HOp) (s : Q3) (eps2 : Rat) : Nat :=
  (ops.filter fun g => withinPeriodic A gi (((g.rot.applyQ s).add (g.trans.toQ 12)).sub s) eps2).length

/-! ### least squares on the coordinate subspace -/

def m3col (L : M3) (k : Nat) : Q3 :=
  match k with
  | 0 => ⟨L.a, L.d, L.g⟩
  | 1 => ⟨L.b, L.e, L.h⟩
  | _ => ⟨L.c, L.f, L.i⟩

def q3cross (u v : Q3) : Q3 := ⟨u.y * v.z - u.z * v.y, u.z * v.x - u.x * v.z, u.x * v.y - u.y * v.x⟩

def q3isZero (u : Q3) : Bool := u.x == 0 && u.y == 0 && u.z == 0

def q3set (k : Nat) (v : Rat) (u : Q3) : Q3 :=
  match k with
  | 0 => { u with x := v }
  | 1 => { u with y := v }
  | _ => { u with z := v }

/-- Parameters `y` minimising `|A (L y − p)|` (any minimiser; unused parameters are 0).  Only a
*proposal*: the caller verifies the distance exactly. -/
def lsqParams (A : QM3) (L : M3) (p : Q3) : Q3 :=
  if L.det ≠ 0 then (QM3.ofM3 L).inv.apply p else
  let Ap := A.apply p
  let ac (k : Nat) : Q3 := A.apply (m3col L k)
  let pairs : List (Nat × Nat) := [(0, 1), (0, 2), (1, 2)]
  match pairs.find? (fun jk => !(q3isZero (q3cross (m3col L jk.1) (m3col L jk.2)))) with
  | some (j, k) =>
    let u := ac j
    let v := ac k
    let a := u.dot u
    let b := u.dot v
    let d := v.dot v
    let e1 := u.dot Ap
    let e2 := v.dot Ap
    let dt := a * d - b * b
    if dt == 0 then Q3.zero else
    q3set k ((a * e2 - b * e1) / dt) (q3set j ((e1 * d - b * e2) / dt) Q3.zero)
  | none =>
    match [0, 1, 2].find? (fun j => !(q3isZero (m3col L j))) with
    | some j =>
      let u := ac j
      let a := u.dot u
      if a == 0 then Q3.zero else q3set j (u.dot Ap / a) Q3.zero
    | none => Q3.zero

/-- Integers `lo, lo+1, …, hi`. -/
def intRange (lo hi : Int) : List Int := (List.range (hi - lo + 1).toNat).map fun (k : Nat) => lo + (k : Int)

/-- Candidate offsets along one axis.  If `|A (L y + o − q − n)|² ≤ r2` for some `y ∈ [0,1)³` then
`|(L y)_i + o_i − q_i − n_i| ≤ √(r2·((AᵀA)⁻¹)_ii) ≤ w` (Cauchy–Schwarz) and `(L y)_i ∈ [lmin, lmax]`
(sum of the negative / positive coefficients of row `i`), hence
`o_i − q_i + lmin − w ≤ n_i ≤ o_i − q_i + lmax + w`.  Every solution can be brought to `y ∈ [0,1)³` by an
integer shift of `y` absorbed into `n` (`L` is an integer matrix), so the box loses nothing. -/
def axisOffsets (row : List Int) (o q w : Rat) : List Int :=
  let lmin : Int := (row.map fun x => if x < 0 then x else 0).foldl (· + ·) 0
  let lmax : Int := (row.map fun x => if x > 0 then x else 0).foldl (· + ·) 0
  intRange (o - q + lmin - w).ceil (o - q + lmax + w).floor

/-- `∃ n ∈ ℤ³, y ∈ ℚ³ : |A (L y + o − q − n)|² ≤ r2`, with the witness search described above. -/
def onSubspace (A : QM3) (gi : Q3) (sp : Space) (q : Q3) (r2 : Rat) : Bool :=
  let L := sp.linear
  let o := sp.origin
  let xs := axisOffsets [L.a, L.b, L.c] o.x q.x (sqrtUp (r2 * gi.x))
  let ys := axisOffsets [L.d, L.e, L.f] o.y q.y (sqrtUp (r2 * gi.y))
  let zs := axisOffsets [L.g, L.h, L.i] o.z q.z (sqrtUp (r2 * gi.z))
  xs.any fun nx => ys.any fun ny => zs.any fun nz =>
    let n : Q3 := ⟨(nx : Rat), (ny : Rat), (nz : Rat)⟩
    let y := lsqParams A L ((q.add n).sub o)
    (A.apply (((sp.point y).sub q).sub n)).normSq ≤ r2

/-- Centring translations of the Hall number as rational vectors. -/
def centeringShifts (c : Centering) : List Q3 := c.latticePoints.map fun t => t.toQ 12

/-- std_cell site of each input atom: `SiteIndex.find` at `std_linear⁻¹ (x − shift)` within `r2`. -/
def landingSites (cs : CaseQ) (d : DatasetQ) (r2 : Rat) : List (Option Nat) :=
  let ixS := SiteIndex.build d.stdCell
  let Li := d.stdLinear.inv
  (List.range cs.cell.n).map fun i =>
    ixS.find (Li.apply (cs.cell.pos[i]!.sub d.stdShift)) cs.cell.num[i]! r2

def tinyEps2 : Rat := (1 / 1000000) * (1 / 1000000)

/-- Stabilizer order of every std_cell site some input atom lands on (0 for the others: not needed). -/
def siteStabilizers (d : DatasetQ) (ops : List HOp) (sites : List (Option Nat)) : List Nat :=
  let S := d.stdCell
  let gi := ginvDiag S.lat
  (List.range S.n).map fun j =>
    if sites.contains (some j) then stabilizerCount S.lat gi ops S.pos[j]! tinyEps2 else 0

/-- (W3) for the orbit labelled `l`: some member, shifted by some centring vector, lies on the
coordinate subspace `sp`. -/
def orbitOnSubspace (d : DatasetQ) (cen : Centering) (sites : List (Option Nat)) (sp : Space) (l : Nat) (r2 : Rat) : Bool :=
  let S := d.stdCell
  let gi := ginvDiag S.lat
  (List.range sites.length).any fun k =>
    d.orbits[k]! == l &&
    match sites[k]! with
    | none => false
    | some j => (centeringShifts cen).any fun c => onSubspace S.lat gi sp (S.pos[j]!.add c) r2

def checkC07wyckoff (cs : CaseQ) (d : DatasetQ) : List String :=
  let n := cs.cell.n
  if !(d.orbits.size == n && d.wyck.size == n && d.siteSym.size == n) then [] else  -- reported by checkC07orbits
  let h := d.hallNumber.toNat
  match convOps h, centeringOfHall h with
  | some ops, some cen =>
    let nops := ops.length
    let r := 4 * d.symprec
    let r2 := r * r
    let sites := landingSites cs d r2
    let stabs := siteStabilizers d ops sites
    let nopsGen : Nat := match convOps cs.truth.hall with
      | some g => g.length
      | none => 0
    -- (W3) once per orbit label
    let subOk : List Bool := (List.range n).map fun l =>
      if d.orbits[l]! == l then
        match (rowOfLetter? h d.wyck[l]!).bind fun row => Space.new? row.coordinates with
        | some sp => orbitOnSubspace d cen sites sp l r2
        | none => false
      else true
    let fails := (List.range n).filterMap fun i =>
      match sites[i]! with
      | none => some s!"C07: input atom {i} lands on no std_cell site of its species within 4*symprec"
      | some j =>
        let st := stabs[j]!
        match rowOfLetter? h d.wyck[i]! with
        | none => some s!"C07: atom {i}: letter {d.wyck[i]!} is not tabulated for Hall {h}"
        | some row =>
          if !(row.multiplicity * st == nops) then
            some s!"C07: atom {i}: letter {d.wyck[i]!} has tabulated multiplicity {row.multiplicity} but the stabilizer of its std_cell site has order {st} ({nops} operations)"
          else match siteSymmetryOrder? d.siteSym[i]! with
          | none => some s!"C07: atom {i}: unknown site-symmetry symbol {d.siteSym[i]!}"
          | some k =>
            if !(k == st) then
              some s!"C07: atom {i}: site-symmetry symbol {d.siteSym[i]!} names a group of order {k}, the stabilizer has order {st}"
            else if !(d.siteSym[i]! == row.siteSymmetry) then
              some s!"C07: atom {i}: site-symmetry symbol {d.siteSym[i]!} is not the tabulated symbol {row.siteSymmetry} of letter {d.wyck[i]!}"
            else
              let l := d.orbits[i]!
              if !(decide (l < n) && d.orbits[l]! == l && d.wyck[l]! == d.wyck[i]! && subOk[l]!) then
                some s!"C07: atom {i}: no atom of its orbit lies on the tabulated coordinate subspace '{row.coordinates}' of letter {d.wyck[i]!} (Hall {h})"
              else
                let t := cs.truth.wyck[i]!
                if t < 0 then none else
                match wyckoffTable[t.toNat]? with
                | none => some s!"C07: atom {i}: recorded Wyckoff row {t} does not exist"
                | some trow =>
                  if !(trow.hallNumber == cs.truth.hall) then some s!"C07: atom {i}: recorded Wyckoff row {t} belongs to Hall {trow.hallNumber}, generated in Hall {cs.truth.hall}"
                  else if !(row.multiplicity * nopsGen == trow.multiplicity * nops) then
                    some s!"C07: atom {i}: generated on position {trow.multiplicity}{trow.letter} of Hall {trow.hallNumber} ({nopsGen} operations) but reported as {row.multiplicity}{d.wyck[i]!} of Hall {h} ({nops} operations)"
                  else if !(siteSymmetryOrder? trow.siteSymmetry == some k) then
                    some s!"C07: atom {i}: generated with site symmetry {trow.siteSymmetry}, reported {d.siteSym[i]!}"
                  else none
    cap fails 3
  | _, _ => [s!"C07: Hall number {h} has no tabulated operations"]

end Moyo.Oracle
