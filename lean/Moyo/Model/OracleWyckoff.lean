import Moyo.Model.Oracle
import Moyo.Model.Wyckoff
/-
C07, the Wyckoff clauses (the labelling clauses are `Oracle.checkC07orbits`).  For every atom `i` of
the input cell, in exact rational arithmetic:

* map it into std_cell, `y = std_linear⁻¹ (x − std_origin_shift)`, and snap to the std_cell site `s`
  found by `SiteIndex.find` within `4·symprec`;
* `Stab` = number of tabulated conventional operations `g` (centring included) of the *reported*
  Hall number with `g·s ≡ s` modulo the lattice within `1e-6` (Cartesian, periodic, exact);
* (W0) orbit labels against the tabulated operations, independently of the generator: the std_cell
  site of every atom is the image of the site of its label atom under a tabulated operation, and the
  species agree (W0a); the sites of two different label atoms of one species are related by no
  tabulated operation (W0b);
* (W5) for every label atom `l` and every atom `j` of its species: `orbits[j] = l` ⇔ some tabulated
  operation of the reported Hall number carries the std_cell site of `l` onto that of `j` within
  `4·symprec` (the property's "same label ⇔ related by a tabulated operation", through the label atoms);
* (W1) tabulated multiplicity of the reported letter × `Stab` = number of conventional operations;
* (W2) the point group named by the reported site-symmetry symbol has order `Stab`, and the symbol
  is the tabulated symbol of the letter;
* (W3) some atom `k` of the orbit (same label), translated by a centring vector `c`, lies on the
  tabulated coordinate subspace of the letter: `∃ n ∈ ℤ³, y ∈ ℚ³, |A_std (L y + o − (s_k + c) − n)|² ≤ (4·symprec)²`;
* (W4) when the generator recorded a Wyckoff row for the atom: the reported letter has the recorded
  row's multiplicity *per operation* (`m_rep · #ops_gen = m_gen · #ops_rep`, settings may differ) and
  the same site-symmetry order.

(W3) is decided by an integer box for `n` (see `offsetBox`) and, for each `n`, the least-squares
parameters `y`; the *verdict* is always the exact inequality for the exhibited `(n, y)`, so a pass
is a witness (`Proofs/OracleC07.lean`).
-/
namespace Moyo.Oracle
open Moyo Moyo.Generated Moyo.Wyckoff

/-- Cheap exact pre-test along one axis: the nearest-integer representative already violates the
Cauchy–Schwarz bound `(d_i + n_i)² ≤ r2·((AᵀA)⁻¹)_ii` that every solution `n` satisfies. -/
def axisFar (d b : Rat) : Bool := decide (b < ratWrap d * ratWrap d)

/-- No lattice translate of `d` can be within `r2` (sufficient condition; `Proofs/OracleC07.lean`). -/
def quickFar (gi d : Q3) (r2 : Rat) : Bool :=
  axisFar d.x (r2 * gi.x) || axisFar d.y (r2 * gi.y) || axisFar d.z (r2 * gi.z)

/-- `g·s ≡ s` modulo the lattice within squared Cartesian distance `eps2` (exact; the pre-test only
skips the box search when it cannot succeed). -/
def fixesSite (A : QM3) (gi : Q3) (s : Q3) (eps2 : Rat) (g : HOp) : Bool :=
  let d := ((g.rot.applyQ s).add (g.trans.toQ 12)).sub s
  !(quickFar gi d eps2) && withinPeriodic A gi d eps2

/-- Number of operations fixing the fractional point `s` modulo the lattice, within squared
Cartesian distance `eps2`. -/
def stabilizerCount (A : QM3) (gi : Q3) (ops : List HOp) (s : Q3) (eps2 : Rat) : Nat :=
  (ops.filter (fixesSite A gi s eps2)).length

/-! ### least squares on the coordinate subspace -/

def m3col (L : M3) (k : Nat) : Q3 :=
  match k with
  | 0 => ⟨L.a, L.d, L.g⟩
  | 1 => ⟨L.b, L.e, L.h⟩
  | _ => ⟨L.c, L.f, L.i⟩

def q3cross (u v : Q3) : Q3 := ⟨u.y * v.z - u.z * v.y, u.z * v.x - u.x * v.z, u.x * v.y - u.y * v.x⟩

def q3isZero (u : Q3) : Bool := u.x == 0 && u.y == 0 && u.z == 0

def q3set (k : Nat) (v : Rat) (u : Q3) : Q3 :=
  match k with
  | 0 => { u with x := v }
  | 1 => { u with y := v }
  | _ => { u with z := v }

/-- Parameters `y` minimising `|A (L y − p)|` (any minimiser; unused parameters are 0).  Only a
*proposal*: the caller verifies the distance exactly. -/
def lsqParams (A : QM3) (L : M3) (p : Q3) : Q3 :=
  if L.det ≠ 0 then (QM3.ofM3 L).inv.apply p else
  let Ap := A.apply p
  let ac (k : Nat) : Q3 := A.apply (m3col L k)
  let pairs : List (Nat × Nat) := [(0, 1), (0, 2), (1, 2)]
  match pairs.find? (fun jk => !(q3isZero (q3cross (m3col L jk.1) (m3col L jk.2)))) with
  | some (j, k) =>
    let u := ac j
    let v := ac k
    let a := u.dot u
    let b := u.dot v
    let d := v.dot v
    let e1 := u.dot Ap
    let e2 := v.dot Ap
    let dt := a * d - b * b
    if dt == 0 then Q3.zero else
    q3set k ((a * e2 - b * e1) / dt) (q3set j ((e1 * d - b * e2) / dt) Q3.zero)
  | none =>
    match [0, 1, 2].find? (fun j => !(q3isZero (m3col L j))) with
    | some j =>
      let u := ac j
      let a := u.dot u
      if a == 0 then Q3.zero else q3set j (u.dot Ap / a) Q3.zero
    | none => Q3.zero

/-- Integers `lo, lo+1, …, hi`. -/
def intRange (lo hi : Int) : List Int := (List.range (hi - lo + 1).toNat).map fun (k : Nat) => lo + (k : Int)

/-- Candidate offsets along one axis.  If `|A (L y + o − q − n)|² ≤ r2` for some `y ∈ [0,1)³` then
`|(L y)_i + o_i − q_i − n_i| ≤ √(r2·((AᵀA)⁻¹)_ii) ≤ w` (Cauchy–Schwarz) and `(L y)_i ∈ [lmin, lmax]`
(sum of the negative / positive coefficients of row `i`), hence
`o_i − q_i + lmin − w ≤ n_i ≤ o_i − q_i + lmax + w`.  Every solution can be brought to `y ∈ [0,1)³` by an
integer shift of `y` absorbed into `n` (`L` is an integer matrix), so the box loses nothing. -/
def axisOffsets (row : List Int) (o q w : Rat) : List Int :=
  let lmin : Int := (row.map fun x => if x < 0 then x else 0).foldl (· + ·) 0
  let lmax : Int := (row.map fun x => if x > 0 then x else 0).foldl (· + ·) 0
  intRange (o - q + lmin - w).ceil (o - q + lmax + w).floor

/-- `∃ n ∈ ℤ³, y ∈ ℚ³ : |A (L y + o − q − n)|² ≤ r2`, with the witness search described above. -/
def onSubspace (A : QM3) (gi : Q3) (sp : Space) (q : Q3) (r2 : Rat) : Bool :=
  let L := sp.linear
  let o := sp.origin
  let xs := axisOffsets [L.a, L.b, L.c] o.x q.x (sqrtUp (r2 * gi.x))
  let ys := axisOffsets [L.d, L.e, L.f] o.y q.y (sqrtUp (r2 * gi.y))
  let zs := axisOffsets [L.g, L.h, L.i] o.z q.z (sqrtUp (r2 * gi.z))
  xs.any fun nx => ys.any fun ny => zs.any fun nz =>
    let n : Q3 := ⟨(nx : Rat), (ny : Rat), (nz : Rat)⟩
    let y := lsqParams A L ((q.add n).sub o)
    (A.apply (((sp.point y).sub q).sub n)).normSq ≤ r2

/-- Centring translations of the Hall number as rational vectors. -/
def centeringShifts (c : Centering) : List Q3 := c.latticePoints.map fun t => t.toQ 12

/-- std_cell site of each input atom: `SiteIndex.find` at `std_linear⁻¹ (x − shift)` within `r2`. -/
def landingSites (cs : CaseQ) (d : DatasetQ) (r2 : Rat) : List (Option Nat) :=
  let ixS := SiteIndex.build d.stdCell
  let Li := d.stdLinear.inv
  (List.range cs.cell.n).map fun i =>
    ixS.find (Li.apply (cs.cell.pos[i]!.sub d.stdShift)) cs.cell.num[i]! r2

def tinyEps2 : Rat := (1 / 1000000) * (1 / 1000000)

/-- Stabilizer order of every std_cell site some input atom lands on (0 for the others: not needed). -/
def siteStabilizers (d : DatasetQ) (ops : List HOp) (sites : List (Option Nat)) : List Nat :=
  let S := d.stdCell
  let gi := ginvDiag S.lat
  (List.range S.n).map fun j =>
    if sites.contains (some j) then stabilizerCount S.lat gi ops S.pos[j]! tinyEps2 else 0

/-- (W3) for the orbit labelled `l`: some member, shifted by some centring vector, lies on the
coordinate subspace `sp`. -/
def orbitOnSubspace (d : DatasetQ) (cen : Centering) (sites : List (Option Nat)) (sp : Space) (l : Nat) (r2 : Rat) : Bool :=
  let S := d.stdCell
  let gi := ginvDiag S.lat
  (List.range sites.length).any fun k =>
    d.orbits[k]! == l &&
    match sites[k]! with
    | none => false
    | some j => (centeringShifts cen).any fun c => onSubspace S.lat gi sp (S.pos[j]!.add c) r2

/-- std_cell sites onto which the operations carry site `j` (exact search within `r2`). -/
def siteImages (d : DatasetQ) (ops : List HOp) (j : Nat) (r2 : Rat) : List Nat :=
  let S := d.stdCell
  let ixS := SiteIndex.build S
  ops.filterMap fun g => ixS.find ((g.rot.applyQ S.pos[j]!).add (g.trans.toQ 12)) S.num[j]! r2

/-- Number of conventional operations of a Hall number (0 if it has none). -/
def nopsOfHall (h : Nat) : Nat :=
  match convOps h with
  | some g => g.length
  | none => 0

/-- Everything the per-atom clauses need, computed once per dataset. -/
structure WCtx where
  h : Nat
  ops : List HOp
  cen : Centering
  r2 : Rat
  /-- landing std_cell site of each input atom -/
  sites : List (Option Nat)
  /-- stabilizer order per std_cell site (0 = not landed on) -/
  stabs : List Nat
  /-- number of conventional operations of the generating Hall number -/
  nopsGen : Nat
  /-- (W3) verdict per orbit label (`true` for indices that are not labels) -/
  subOk : List Bool
  /-- (W0a) per orbit label: the std_cell sites equivalent to the label's site (`[]` for non-labels) -/
  reach : List (List Nat)

def WCtx.build (cs : CaseQ) (d : DatasetQ) (ops : List HOp) (cen : Centering) : WCtx :=
  let n := cs.cell.n
  let h := d.hallNumber.toNat
  let r := 4 * d.symprec
  let r2 := r * r
  let sites := landingSites cs d r2
  { h := h, ops := ops, cen := cen, r2 := r2, sites := sites,
    stabs := siteStabilizers d ops sites,
    nopsGen := nopsOfHall cs.truth.hall,
    subOk := (List.range n).map fun l =>
      if d.orbits[l]! == l then
        match (rowOfLetter? h d.wyck[l]!).bind fun row => Space.new? row.coordinates with
        | some sp => orbitOnSubspace d cen sites sp l r2
        | none => false
      else true,
    reach := (List.range n).map fun l =>
      if d.orbits[l]! == l then
        match sites[l]! with
        | some j => siteImages d ops j r2
        | none => []
      else [] }

/-- (W4) agreement with the generator's recorded Wyckoff row `t` (`t < 0`: nothing recorded). -/
def truthOk (cs : CaseQ) (c : WCtx) (row : WyckoffEntry) (k : Nat) (t : Int) : Bool :=
  if t < 0 then true else
  match wyckoffTable[t.toNat]? with
  | none => false
  | some trow =>
    trow.hallNumber == cs.truth.hall &&
    row.multiplicity * c.nopsGen == trow.multiplicity * c.ops.length &&
    siteSymmetryOrder? trow.siteSymmetry == some k

/-- All per-atom clauses (W0a, W1–W4) for input atom `i`. -/
def atomOk (cs : CaseQ) (d : DatasetQ) (c : WCtx) (i : Nat) : Bool :=
  let l := d.orbits[i]!
  match c.sites[i]!, rowOfLetter? c.h d.wyck[i]!, siteSymmetryOrder? d.siteSym[i]! with
  | some j, some row, some k =>
    row.multiplicity * c.stabs[j]! == c.ops.length &&
    k == c.stabs[j]! &&
    d.siteSym[i]! == row.siteSymmetry &&
    (decide (l < cs.cell.n) && d.orbits[l]! == l && d.wyck[l]! == d.wyck[i]! && c.subOk[l]!) &&
    (cs.cell.num[l]! == cs.cell.num[i]! && (c.reach[l]!).contains j) &&
    truthOk cs c row k cs.truth.wyck[i]!
  | _, _, _ => false

/-- (W0b) two different orbit labels of the same species are not related by any operation. -/
def labelsSeparated (cs : CaseQ) (d : DatasetQ) (c : WCtx) : Bool :=
  let S := d.stdCell
  let gi := ginvDiag S.lat
  let n := cs.cell.n
  (List.range n).all fun l1 => (List.range n).all fun l2 =>
    !(decide (l1 < l2) && d.orbits[l1]! == l1 && d.orbits[l2]! == l2 && cs.cell.num[l1]! == cs.cell.num[l2]!) ||
    match c.sites[l1]!, c.sites[l2]! with
    | some j1, some j2 =>
      c.ops.all fun g => !(withinPeriodic S.lat gi (((g.rot.applyQ S.pos[j1]!).add (g.trans.toQ 12)).sub S.pos[j2]!) tinyEps2)
    | _, _ => false

/-- (W5) labels against the tabulated operations, pair by pair through the label atoms: for every
label atom `l` (`orbits[l] = l`) and every atom `j` of its species,
`orbits[j] = l  ⇔  some tabulated operation carries the std_cell site of l onto the std_cell site of j`
(within `4·symprec`; `reach[l]` lists the sites found by the exact search from the images of the
site of `l`).  Independent of the generator's ground truth. -/
def labelsMatchOps (cs : CaseQ) (d : DatasetQ) (c : WCtx) : Bool :=
  let n := cs.cell.n
  (List.range n).all fun l => !(d.orbits[l]! == l) ||
    (List.range n).all fun j => !(cs.cell.num[l]! == cs.cell.num[j]!) ||
      match c.sites[j]! with
      | some sj => (d.orbits[j]! == l) == (c.reach[l]!).contains sj
      | none => false

/-- First pair violating (W5), for the message. -/
def describeLabelMismatch (cs : CaseQ) (d : DatasetQ) (c : WCtx) : String :=
  let n := cs.cell.n
  let bad := (List.range n).findSome? fun l =>
    if !(d.orbits[l]! == l) then none else
    (List.range n).findSome? fun j =>
      if !(cs.cell.num[l]! == cs.cell.num[j]!) then none else
      match c.sites[j]! with
      | some sj => if (d.orbits[j]! == l) == (c.reach[l]!).contains sj then none else some (l, j, (c.reach[l]!).contains sj)
      | none => some (l, j, false)
  match bad with
  | some (l, j, rel) =>
    s!"C07: atoms {l},{j} (same species): orbit label of {j} is {d.orbits[j]!}, label atom {l}; related by a tabulated operation of Hall {c.h} in std_cell (4*symprec) = {rel}"
  | none => "C07: orbit labels do not match the tabulated operations in std_cell"

/-- An `Err` on a premise-satisfying input that is a failed Wyckoff assignment belongs to C07
(other errors on such inputs are C03/C10).  `matching`: the request (if a Hall number) names a
setting of the crystal's own type. -/
def checkC07err (matching : Bool) (name : String) : List String :=
  if matching && name == "WyckoffPositionAssignmentError" then
    ["C07: WyckoffPositionAssignmentError on a crystal whose atoms sit on tabulated positions of the requested setting"]
  else []

/-- Message for a failing atom (diagnosis only; the verdict is `atomOk`). -/
def describeAtom (cs : CaseQ) (d : DatasetQ) (c : WCtx) (i : Nat) : String :=
  let h := c.h
  let nops := c.ops.length
  match c.sites[i]! with
  | none => s!"C07: input atom {i} lands on no std_cell site of its species within 4*symprec"
  | some j =>
    let st := c.stabs[j]!
    match rowOfLetter? h d.wyck[i]! with
    | none => s!"C07: atom {i}: letter {d.wyck[i]!} is not tabulated for Hall {h}"
    | some row =>
      if !(row.multiplicity * st == nops) then
        s!"C07: atom {i}: letter {d.wyck[i]!} has tabulated multiplicity {row.multiplicity} but the stabilizer of its std_cell site has order {st} ({nops} operations)"
      else match siteSymmetryOrder? d.siteSym[i]! with
      | none => s!"C07: atom {i}: unknown site-symmetry symbol {d.siteSym[i]!}"
      | some k =>
        let l := d.orbits[i]!
        if !(k == st) then
          s!"C07: atom {i}: site-symmetry symbol {d.siteSym[i]!} names a group of order {k}, the stabilizer has order {st}"
        else if !(d.siteSym[i]! == row.siteSymmetry) then
          s!"C07: atom {i}: site-symmetry symbol {d.siteSym[i]!} is not the tabulated symbol {row.siteSymmetry} of letter {d.wyck[i]!}"
        else if !(decide (l < cs.cell.n) && d.orbits[l]! == l && d.wyck[l]! == d.wyck[i]! && c.subOk[l]!) then
          s!"C07: atom {i}: no atom of its orbit lies on the tabulated coordinate subspace '{row.coordinates}' of letter {d.wyck[i]!} (Hall {h})"
        else if !(cs.cell.num[l]! == cs.cell.num[i]! && (c.reach[l]!).contains j) then
          s!"C07: atom {i} carries orbit label {l} but no tabulated operation of Hall {h} maps the std_cell site of atom {l} onto its site (or the species differ)"
        else
          let t := cs.truth.wyck[i]!
          match wyckoffTable[t.toNat]? with
          | none => s!"C07: atom {i}: recorded Wyckoff row {t} does not exist"
          | some trow =>
            s!"C07: atom {i}: generated on position {trow.multiplicity}{trow.letter} ({trow.siteSymmetry}) of Hall {trow.hallNumber} ({c.nopsGen} operations; generating Hall {cs.truth.hall}) but reported as {row.multiplicity}{d.wyck[i]!} ({d.siteSym[i]!}) of Hall {h} ({nops} operations)"

def checkC07wyckoff (cs : CaseQ) (d : DatasetQ) : List String :=
  let n := cs.cell.n
  if !(d.orbits.size == n && d.wyck.size == n && d.siteSym.size == n) then [] else  -- reported by checkC07orbits
  match convOps d.hallNumber.toNat, centeringOfHall d.hallNumber.toNat with
  | some ops, some cen =>
    let c := WCtx.build cs d ops cen
    let f1 := (List.range n).filterMap fun i => if atomOk cs d c i then none else some (describeAtom cs d c i)
    let f2 := if labelsSeparated cs d c then [] else
      ["C07: two atoms with different orbit labels and the same species are related by a tabulated operation in std_cell"]
    let f3 := if labelsMatchOps cs d c then [] else [describeLabelMismatch cs d c]
    cap (f1 ++ f2 ++ f3) 3
  | _, _ => [s!"C07: Hall number {d.hallNumber} has no tabulated operations"]

end Moyo.Oracle
