/-
C18 — vocabulary of the shared-state inventory (`Moyo/Generated/C18Inventory.lean`, written by
`tools/translate_c18.py` from /repo on every run) and the Bool-valued predicates the table theorems of
`Moyo/Props/C18.lean` decide.  Core Lean only; no strings are compared (methods, kinds and classes are
enumerations, free text is carried along for the reader only), so every predicate reduces by `decide`.
-/
namespace Moyo.Shared

/-- Container kinds that are inventoried.  The B-tree kinds are listed for contrast: their iteration
order is the key order, so every method is admissible on them. -/
inductive Kind
  | hashMap | hashSet | btreeMap | btreeSet
  deriving Repr

def Kind.isHash : Kind → Bool
  | .hashMap => true
  | .hashSet => true
  | .btreeMap => false
  | .btreeSet => false

/-- A method (or syntactic use) of a container binding. -/
inductive Method
  -- the lookup-only interface (what `lookup_only_map_order_free` is about)
  | insert | get | containsKey | contains | entry | entryOrInsert | entryIsOccupied
  | len | isEmpty | index | remove
  /-- passed by reference to a function of the crate whose parameter is itself inventoried -/
  | passTo (callee : String)
  -- everything below is outside the interface
  | entryOrInsertWith | entryOther (name : String)
  | getMut | iter | iterMut | keys | values | valuesMut | intoIter | intoKeys | intoValues
  | drain | retain | forIter | extend | clear | clone
  | first | last | popFirst | popLast | range
  | other (name : String)
  deriving Repr

/-- Methods whose result is a function of the abstract map `Key → Option Val` alone. -/
def Method.lookupOnly : Method → Bool
  | .insert | .get | .containsKey | .contains | .entry | .entryOrInsert | .entryIsOccupied
  | .len | .isEmpty | .index | .remove | .passTo _ => true
  | _ => false

/-- Methods that expose the iteration order. -/
def Method.exposesOrder : Method → Bool
  | .iter | .iterMut | .keys | .values | .valuesMut | .intoIter | .intoKeys | .intoValues
  | .drain | .retain | .forIter | .first | .last | .popFirst | .popLast | .range => true
  | _ => false

structure Site where
  method : Method
  lines : List Nat
  deriving Repr

inductive Origin
  | letBinding | field | param
  deriving Repr

/-- One container binding with every use the translator found in its scope. -/
structure HashUse where
  file : String
  fn : String
  name : String
  kind : Kind
  origin : Origin
  line : Nat
  uses : List Site
  deriving Repr

/-- A hash container is admissible when all its uses are in the lookup-only interface. -/
def HashUse.ok (u : HashUse) : Bool :=
  !u.kind.isHash || u.uses.all (fun s => s.method.lookupOnly)

def HashUse.iterates (u : HashUse) : Bool :=
  u.uses.any (fun s => s.method.exposesOrder)

inductive StaticClass
  /-- `static X: Lazy<T>` (once_cell / std LazyLock / OnceCell / OnceLock) without interior mutability in `T` -/
  | lazy
  /-- immutable `static` of plain data -/
  | plain
  | mutable | interior | threadLocal | lazyStatic
  deriving Repr

structure StaticItem where
  file : String
  name : String
  line : Nat
  cls : StaticClass
  ty : String
  /-- no ambient input (RNG, clock, environment, thread id, I/O, other mutable statics) inside the initialiser -/
  initPure : Bool
  /-- SCREAMING_CASE names the initialiser refers to (constants / other statics) -/
  refs : List String
  deriving Repr

def StaticItem.ok (s : StaticItem) : Bool :=
  match s.cls with
  | .lazy => s.initPure
  | .plain => s.initPure
  | _ => false

inductive Ambient
  | rng | clock | env | threadId | pointerFormat | hasherState | threadSpawn | fileRead | processId | unsafeCode
  deriving Repr

structure AmbientUse where
  file : String
  fn : String
  line : Nat
  what : Ambient
  text : String
  deriving Repr

/-- A hash container that went somewhere the translator cannot follow. -/
structure Escape where
  file : String
  fn : String
  name : String
  line : Nat
  why : String
  deriving Repr

end Moyo.Shared
