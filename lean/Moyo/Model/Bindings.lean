/-
C20 — model of the data layout conventions behind the Python bindings (import-free, executable).

nalgebra stores a `Matrix3<T>` as 9 values in **column-major** order (`as_slice()`); the element
`M[(i, j)]` (row `i`, column `j`) is at linear index `i + 3*j`.  Both conversions to `[[T; 3]; 3]`
used by the bindings (`Into<[[T; 3]; 3]>` and `AsRef<[[T; 3]; 3]>`) *reinterpret* the storage:
the outer index of the nested array is the chunk number, i.e. the **column**.  pyo3 turns a
`[[T; 3]; 3]` into a nested Python list with the same indices.
-/
namespace Moyo.Bindings

/-- `Matrix3<α>`: the storage slice in column-major order. -/
structure Matrix3 (α : Type) where
  data : Vector α 9
deriving DecidableEq, Repr

/-- `[[α; 3]; 3]`, also the nested list `py[a][b]` Python receives. -/
abbrev Nested (α : Type) := Vector (Vector α 3) 3

variable {α : Type}

/-- `M[(i, j)]`: row `i`, column `j` (nalgebra linear index `i + 3*j`). -/
def Matrix3.get (M : Matrix3 α) (i j : Fin 3) : α :=
  M.data[i.val + 3 * j.val]'(by omega)

/-- `Matrix3::from_fn(|i, j| f i j)`. -/
def Matrix3.ofFn (f : Fin 3 → Fin 3 → α) : Matrix3 α :=
  ⟨Vector.ofFn fun k : Fin 9 => f ⟨k.val % 3, by omega⟩ ⟨k.val / 3, by omega⟩⟩

/-- `M.transpose()`. -/
def Matrix3.transpose (M : Matrix3 α) : Matrix3 α :=
  Matrix3.ofFn fun i j => M.get j i

/-- `M.into()` / `*M.as_ref()` as `[[α; 3]; 3]`: chunk `c` of the storage is column `c`. -/
def Matrix3.toArrays (M : Matrix3 α) : Nested α :=
  Vector.ofFn fun c : Fin 3 => Vector.ofFn fun r : Fin 3 => M.data[3 * c.val + r.val]'(by omega)

/-- `OMatrix::from_rows(&[RowVector3::from(b[0]), RowVector3::from(b[1]), RowVector3::from(b[2])])`. -/
def Matrix3.fromRows (b : Nested α) : Matrix3 α :=
  Matrix3.ofFn fun i j => b[i][j]

/-- `moyo::base::Lattice`: `basis.column(i)` is the i-th basis vector. -/
structure Lattice (α : Type) where
  basis : Matrix3 α
deriving DecidableEq, Repr

/-- `Lattice::new(row_basis)` stores the transpose. -/
def Lattice.new (rowBasis : Matrix3 α) : Lattice α := ⟨rowBasis.transpose⟩

/-- `Lattice::from_basis(basis: [[f64; 3]; 3])`, called by the `Cell(basis, ..)` constructors. -/
def Lattice.fromBasis (b : Nested α) : Lattice α := Lattice.new (Matrix3.fromRows b)

/-- The Python attribute `Cell.basis` = `*self.0.lattice.basis.as_ref()`. -/
def Lattice.pyBasis (L : Lattice α) : Nested α := L.basis.toArrays

/-- `Vector3<α>` (3×1, column-major storage = the three components in order); `.into()`,
`*v.as_ref()`, `[v.x, v.y, v.z]` and `[v[0], v[1], v[2]]` all give the plain triple. -/
abbrev Vector3 (α : Type) := Vector α 3

/-- Conversion classes of matrix-valued getter bodies (as named by tools/translate_c20.py). -/
inductive Conv where
  | transposeInto          -- `M.transpose().into()`
  | derefTransposeAsRef    -- `*M.transpose().as_ref()`
  | derefAsRef             -- `*M.as_ref()`
  | into                   -- `M.into()`
deriving DecidableEq, Repr

def Conv.apply : Conv → Matrix3 α → Nested α
  | .transposeInto, M => M.transpose.toArrays
  | .derefTransposeAsRef, M => M.transpose.toArrays
  | .derefAsRef, M => M.toArrays
  | .into, M => M.toArrays

/-- What the Python nested list is, in terms of the mathematical matrix. -/
inductive Orientation where
  | rowMajor        -- `py[i][j] = M(i,j)`: rows of the matrix
  | columnsAsRows   -- `py[i][j] = M(j,i)`: `py[i]` is column `i` of the matrix
deriving DecidableEq, Repr

def Conv.orientation : Conv → Orientation
  | .transposeInto => .rowMajor
  | .derefTransposeAsRef => .rowMajor
  | .derefAsRef => .columnsAsRows
  | .into => .columnsAsRows

/-- Strip the `map_` prefix the translator puts on element-wise conversions of a `Vec`. -/
def stripMap (s : String) : String :=
  if "map_".toList.isPrefixOf s.toList then String.ofList (s.toList.drop 4) else s

def Conv.ofString? (s : String) : Option Conv :=
  let t := stripMap s
  if t = "transpose_into" then some .transposeInto
  else if t = "deref_transpose_as_ref" then some .derefTransposeAsRef
  else if t = "deref_as_ref" then some .derefAsRef
  else if t = "into" then some .into
  else none

/-- Conversion classes that return a plain triple / list of plain triples. -/
def isPlainVectorConv (s : String) : Bool :=
  s = "vec_into" || s = "map_deref_as_ref" || s = "map_xyz" || s = "map_idx012"

/-- Last component of a field path such as `0.cell.lattice.basis`. -/
def lastComponent (p : String) : String :=
  String.ofList ((p.toList.reverse.takeWhile (· ≠ '.')).reverse)

end Moyo.Bindings
