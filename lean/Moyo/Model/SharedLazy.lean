/-
C18 — model of `k` threads racing to force a lazily initialised global (`once_cell::sync::Lazy`).

Small-step machine.  Each thread goes  idle → (check) → sawEmpty → (run initialiser) → computed v →
(store, only if the cell is still empty) → stored → (read) → done v, or takes the fast path
idle → done v when the check finds the cell full.  A schedule is an arbitrary list of thread ids;
every occurrence lets that thread take one step.  Several threads may run the initialiser
concurrently (more adversarial than once_cell, which blocks the losers); the one guarantee taken
from once_cell — the trusted assumption — is that the cell is **written at most once**: a store
into a full cell is discarded.

The initialiser receives the id of the calling thread as a stand-in for every ambient input it
might read; it is *pure* when it ignores it.
Core Lean only.
-/
namespace Moyo.Shared

inductive TState (V : Type)
  | idle
  | sawEmpty
  | computed (v : V)
  | stored
  | done (v : V)
  deriving DecidableEq, Repr

structure LState (V : Type) where
  cell : Option V
  threads : List (TState V)
  deriving DecidableEq, Repr

variable {V : Type}

/-- Thread `i` takes one step. -/
def stepThread (init : Nat → V) (i : Nat) (s : LState V) : LState V :=
  match s.threads[i]? with
  | none => s
  | some .idle =>
      match s.cell with
      | some v => { s with threads := s.threads.set i (.done v) }
      | none => { s with threads := s.threads.set i .sawEmpty }
  | some .sawEmpty => { s with threads := s.threads.set i (.computed (init i)) }
  | some (.computed v) =>
      { cell := match s.cell with
                | none => some v          -- first store wins
                | some w => some w        -- at most once: later stores are discarded
        threads := s.threads.set i .stored }
  | some .stored =>
      match s.cell with
      | some v => { s with threads := s.threads.set i (.done v) }
      | none => s
  | some (.done _) => s

def initial (k : Nat) : LState V := ⟨none, List.replicate k .idle⟩

def runSched (init : Nat → V) (sched : List Nat) (s : LState V) : LState V :=
  sched.foldl (fun s i => stepThread init i s) s

/-- Thread `i` has finished and read `v`. -/
def LState.read (s : LState V) (i : Nat) : Option V :=
  match s.threads[i]? with
  | some (.done v) => some v
  | _ => none

end Moyo.Shared
