/-
Line-protocol helpers shared by the driver: token parsing and canonical printing.
Floats arrive as exact dyadics `M@E` (value `M * 2^E`, `M`,`E` decimal integers) or as `p/q`.
-/
namespace Moyo.Wire

def parseInt? (s : String) : Option Int := s.toInt?

/-- `2^e` as a rational for any integer `e`. -/
def pow2 (e : Int) : Rat :=
  if e ≥ 0 then ((2 ^ e.toNat : Nat) : Rat) else 1 / ((2 ^ (-e).toNat : Nat) : Rat)

/-- Parse `M@E`, `p/q` or a plain integer into an exact rational. -/
def parseRat? (s : String) : Option Rat :=
  match s.splitOn "@" with
  | [m, e] => do
      let m ← m.toInt?
      let e ← e.toInt?
      pure ((m : Rat) * pow2 e)
  | _ =>
    match s.splitOn "/" with
    | [p, q] => do
        let p ← p.toInt?
        let q ← q.toNat?
        if q = 0 then none else pure ((p : Rat) / (q : Rat))
    | [p] => do let p ← p.toInt?; pure (p : Rat)
    | _ => none

def ratToString (q : Rat) : String :=
  if q.den = 1 then toString q.num else s!"{q.num}/{q.den}"

def intsToString (xs : List Int) : String := " ".intercalate (xs.map toString)
def natsToString (xs : List Nat) : String := " ".intercalate (xs.map toString)
def ratsToString (xs : List Rat) : String := " ".intercalate (xs.map ratToString)

def parseInts? (ts : List String) : Option (List Int) := ts.mapM parseInt?
def parseRats? (ts : List String) : Option (List Rat) := ts.mapM parseRat?
def parseNats? (ts : List String) : Option (List Nat) := ts.mapM String.toNat?

/-- Split a request line into whitespace-separated tokens. -/
def tokens (line : String) : List String :=
  (line.trimAscii.toString.splitOn " ").filter (· ≠ "")

end Moyo.Wire
