import Moyo.Model.Geom3
/-
Model of the three breadth-first group closures of moyo (C08):

* `base::operation::traverse` (moyo/src/base/operation.rs) — elements and keys are rotations;
* the closure loop of `PrimitiveSymmetrySearch::new` (search/primitive_symmetry_search.rs) — elements are
  (operation, permutation) pairs, the visited set is keyed by the rotation part;
* `HallSymbol::traverse` / `MagneticHallSymbol::traverse` (data/hall_symbol.rs) — elements are operations,
  the visited map is keyed by the rotation (resp. rotation and time reversal), and a product is only
  enqueued when its key is not yet in the map (`filter = true`).

All three are the same loop: pop the front of a queue; if its key was seen, drop it; otherwise record the
key, output the element and enqueue its products with every generator.  None of them bounds the number of
elements.  `Sys.run` runs the loop for a given number of dequeues (`fuel`); the theorems of
`Moyo/Props/C08.lean` are about *every* fuel.  `capGo` is the same loop with the cap of the proposed fix
(stop as soon as more than `cap` elements were found); it is defined by well-founded recursion, i.e. its
termination is proved, not assumed.
Import-free (core Lean only).
-/
namespace Moyo.Trav

/-- What a closure loop works on: elements `α`, keys `κ` of the visited set. -/
structure Sys (α κ : Type) where
  key : α → κ
  mul : α → α → α
  one : α
  /-- enqueue a product only if its key is not in the visited set (HallSymbol::traverse) -/
  filter : Bool

/-- Loop state: pending queue, keys seen so far (most recent first), output (most recent first). -/
structure St (α κ : Type) where
  queue : List α
  seen : List κ
  out : List α

variable {α κ : Type} [DecidableEq κ]

def Sys.init (S : Sys α κ) : St α κ := ⟨[S.one], [], []⟩

/-- One iteration of `while !queue.is_empty()`; `none` when the queue is empty (the loop has ended). -/
def Sys.step (S : Sys α κ) (gens : List α) (s : St α κ) : Option (St α κ) :=
  match s.queue with
  | [] => none
  | q :: rest =>
    if s.seen.contains (S.key q) then some ⟨rest, s.seen, s.out⟩
    else
      let seen' := S.key q :: s.seen
      let prods := gens.map (S.mul q)
      let new := if S.filter then prods.filter (fun p => !seen'.contains (S.key p)) else prods
      some ⟨rest ++ new, seen', q :: s.out⟩

/-- At most `fuel` iterations. -/
def Sys.run (S : Sys α κ) (gens : List α) : Nat → St α κ → St α κ
  | 0, s => s
  | n + 1, s =>
    match S.step gens s with
    | none => s
    | some s' => Sys.run S gens n s'

/-- The loop has ended within `fuel` iterations. -/
def Sys.terminated (S : Sys α κ) (gens : List α) (fuel : Nat) : Bool :=
  (S.run gens fuel S.init).queue.isEmpty

/-- `base::operation::traverse`: rotations, keyed by themselves. -/
def rotSys : Sys M3 M3 := ⟨id, M3.mul, M3.one, false⟩

/-- The rotation part of `HallSymbol::traverse` (translations do not influence the control flow). -/
def hallRotSys : Sys M3 M3 := ⟨id, M3.mul, M3.one, true⟩

/-- Closure loop of `PrimitiveSymmetrySearch::new`: elements carry a payload (translation, permutation)
that is multiplied along but only the rotation is the key. -/
def payloadSys {β : Type} (pmul : M3 × β → M3 × β → β) (pone : β) : Sys (M3 × β) M3 :=
  ⟨Prod.fst, fun a b => (a.1.mul b.1, pmul a b), (M3.one, pone), false⟩

/-- A shear of infinite order: all entries in {-1,0,1}, determinant 1. -/
def shear : M3 := ⟨1, 1, 0, 0, 1, 0, 0, 0, 1⟩

/-- `shear ^ n`, by an explicit formula. -/
def shearPow (n : Nat) : M3 := ⟨1, n, 0, 0, 1, 0, 0, 0, 1⟩

/-- A candidate set as a loose tolerance produces it: identity, shear, and their negatives. -/
def shearSet : List M3 := [M3.one, shear, M3.one.neg, shear.neg]

/-- Products of `q` with every generator, in order (`for generator in generators`). -/
def products (gens : List M3) (q : M3) : List M3 := gens.map (q.mul ·)

theorem products_length (gens : List M3) (q : M3) : (products gens q).length = gens.length := by
  simp [products]

/-- `traverse` with the cap of the proposed fix: stop as soon as more than `cap` elements were found.
Returns the output (in order of discovery) and the number of dequeues. -/
def capGo (gens : List M3) (cap : Nat) (queue visited : List M3) (deq : Nat) : List M3 × Nat :=
  match queue with
  | [] => (visited.reverse, deq)
  | q :: rest =>
    if visited.contains q then capGo gens cap rest visited (deq + 1)
    else if cap < visited.length + 1 then ((q :: visited).reverse, deq + 1)
    else capGo gens cap (rest ++ products gens q) (q :: visited) (deq + 1)
termination_by (cap - visited.length) * (gens.length + 1) + queue.length
decreasing_by
  · simp only [List.length_cons]; omega
  · rename_i hlt
    have h1 : cap - visited.length = (cap - (visited.length + 1)) + 1 := by omega
    simp only [List.length_cons, List.length_append, products_length]
    rw [h1, Nat.add_mul]
    omega

def traverseCapped (gens : List M3) (cap : Nat) : List M3 × Nat := capGo gens cap [M3.one] [] 0

end Moyo.Trav
