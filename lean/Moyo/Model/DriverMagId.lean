import Moyo.Model.StageMagIdentify
import Moyo.Model.StageMagStd
import Moyo.Model.DriverS5
import Moyo.Model.DriverS6
/-
Driver commands of the magnetic identification / standardization stage models (`Moyo/Model/StageMagIdentify.lean`,
`Moyo/Model/StageMagStd.lean`); request formats as written by `harness/src/magid.rs`.

`s5m <tag> ; nops k ; mops <k × (9 ints, 3 exact floats, 0|1)> ; epsilon e [; row u]` answers
  `ok ; uni u ; ctype c ; ulinear <9 ints> ; ushift <3 rationals> ; nxsg a ; nfsg b ; type2 0|1 ; fragile 0|1 [; row 0|1]`  or
  `err <MoyoError variant> ; nxsg a ; nfsg b ; type2 0|1 ; fragile 0|1`  or  `PANIC <site> ; fragile 0|1`.
  `row u`: the operations are (a re-description of) the tabulated operations of UNI number `u`; `row 1` iff the model's
  answer is `u` with the construct type of the type table and the transformed operations match the tabulated ones
  (`S5m.soundAnswer`, the executable statement of `identify_mag_sound`) — the row checker of `identify_mag_tables_partial`.

`s6m <tag> ; lat 9 ; n k ; pos 3k ; num k ; mom (k | 3k) ; kind collinear|noncollinear ; action polar|axial ; nops m ; mops 13m ;
     perms p1 , p2 , … ; uni u ; ulinear 9 ; ushift 3 ; symprec s ; magsymprec m ; epsilon e [; rot 9] [; impltlinear 9]` answers
  `ok ; primlat … ; primn … ; primpos … ; primnum … ; primmom … ; ptlinear … ; ushift … ; stdlat … ; stdn … ; stdpos … ; stdnum … ;
      stdmom … ; tlinear … ; tshift … ; sitemap … ; ctype c ; branch b ; fragile r,… ; rotchk orthErr detQ lowTri metricDev ;
      hyp compat small invariant ; mhyp magCompat momInvariant stdMomInvariant ; ahyp hypAnti antiInvariant`
  or `err <name> ; fragile …`, `PANIC <site> ; fragile …`, `MISMATCH <what>`.

Fragility (DESIGN §2.3): every comparison of a computed real quantity against a threshold in this stage is a
`< epsilon` / `> epsilon` test on a translation difference; all are monotone in the threshold.  The model is evaluated at
`epsilon` and at `epsilon·(1 ± 1e-9) ± 4e-15`; if the three answers differ the case is `fragile 1` (as `DriverS5`).
-/
namespace Moyo.DriverMagId
open Moyo Moyo.Wire Moyo.S5m Moyo.StageStd

def b01 (b : Bool) : String := if b then "1" else "0"

structure S5mAnswer where
  res : Except Err MagSpaceGroup
  nxsg : Nat
  nfsg : Nat
  type2 : Bool

def answerAt (normf : Option Nat → Thunk (Option (List UTrans))) (ops : List MOpQ) (eps : Rat) : S5mAnswer :=
  let f := family ops eps
  ⟨identifyMagN normf ops eps, (xsg ops).length, f.ops.length, f.isType2⟩

/-- The reference Hall number whose normalizer a type-III identification at `eps` will enumerate (`none` otherwise). -/
def normalizerKey (ops : List MOpQ) (eps : Rat) : Option Nat :=
  match identifyReference ops eps with
  | some (ref, 3) =>
    match S5.identify ref .standard eps with
    | .ok sg => (uniRange? sg.number).bind fun range => range.head?.bind refHall?
    | .error _ => none
  | _ => none

def sameAnswer (a b : S5mAnswer) : Bool :=
  a.nxsg == b.nxsg && a.nfsg == b.nfsg && a.type2 == b.type2 &&
  match a.res, b.res with
  | .ok x, .ok y =>
    x.uni == y.uni && x.ctype == y.ctype && x.T.linear == y.T.linear &&
      (List.range 3).all fun i =>
        decide (S5.ratAbs (ratWrap (S5.qget x.T.shift i - S5.qget y.T.shift i)) ≤ 1 / 1000000000)
  | .error e, .error f => e == f
  | _, _ => false

def answerOut (a : S5mAnswer) : String :=
  let parts := s!"nxsg {a.nxsg} ; nfsg {a.nfsg} ; type2 {b01 a.type2}"
  match a.res with
  | .ok g => s!"ok ; uni {g.uni} ; ctype {g.ctype} ; ulinear {intsToString g.T.linear.toList} ; ushift {ratsToString g.T.shift.toList} ; {parts}"
  | .error (.panic site) => s!"PANIC {site}"
  | .error e => s!"err {e.name} ; {parts}"

def cmdS5m (ts : List String) : String :=
  let segs := segments ts
  match (do
    let nops ← ((← seg? segs "nops").head?).bind String.toNat?
    let ops ← parseMOps? nops ((seg? segs "mops").getD [])
    let eps ← ((← seg? segs "epsilon").head?).bind parseRat?
    pure (ops.toList, eps)) with
  | none => "bad-case"
  | some (ops, eps) =>
    -- The normalizer of the tabulated reference group (type III) is by far the most expensive part.  It depends on the
    -- threshold only through `solve_mod1` residuals of translations that are exact twelfths (multiples of 1/48 after the
    -- Smith division): for `eps < 1/100` no such residual is within 1e-9 of the threshold, so the three evaluations of the
    -- fragility band share ONE computation (`identifyMag_eq_N`: the answer at `eps` is the proven model's).
    let key := normalizerKey ops eps
    let shared := sharedNormalizer key eps
    let normf : Rat → Option Nat → Thunk (Option (List UTrans)) := fun e h0 =>
      if decide (eps < 1 / 100) && h0 == key then shared else sharedNormalizer h0 e
    let a := answerAt (if decide (eps < 1 / 100) then normf eps else fun h0 => sharedNormalizer h0 eps) ops eps
    let fragile := !(sameAnswer a (answerAt (normf (DriverS5.band eps 1)) ops (DriverS5.band eps 1)) &&
      sameAnswer a (answerAt (normf (DriverS5.band eps (-1))) ops (DriverS5.band eps (-1))))
    let row := match (seg? segs "row").bind (·.head?) |>.bind String.toNat? with
      | none => ""
      | some u =>
        let ok := match a.res with
          | .ok g => g.uni == u && soundAnswer ops eps g
          | _ => false
        s!" ; row {b01 ok}"
    s!"{answerOut a} ; fragile {b01 fragile}{row}"

def momsOut (collinear : Bool) (l : List Q3) : String :=
  if collinear then ratsToString (l.map (·.x)) else DriverS6.q3sOut l

def parseS6m? (ts : List String) : Option S6m.Input := do
  let segs := segments ts
  let collinear ← match seg? segs "kind" with
    | some ["collinear"] => some true
    | some ["noncollinear"] => some false
    | _ => none
  let axial ← match seg? segs "action" with
    | some ["axial"] => some true
    | some ["polar"] => some false
    | _ => none
  let mc ← parseMagCell? segs "" collinear
  let nops ← ((← seg? segs "nops").head?).bind String.toNat?
  let mops ← parseMOps? nops ((seg? segs "mops").getD [])
  let perms ← DriverS6.parsePerms? ((seg? segs "perms").getD [])
  let uni ← ((← seg? segs "uni").head?).bind String.toNat?
  let P ← (← parseInts? (← seg? segs "ulinear")) |> M3.ofList?
  let p ← (← parseRats? (← seg? segs "ushift")) |> Q3.ofList?
  let symprec ← ((← seg? segs "symprec").head?).bind parseRat?
  let msp ← ((← seg? segs "magsymprec").head?).bind parseRat?
  let epsilon ← ((← seg? segs "epsilon").head?).bind parseRat?
  let rot := (seg? segs "rot").bind fun v => (parseRats? v).bind QM3.ofList?
  let itl := (seg? segs "impltlinear").bind fun v => (parseInts? v).bind M3.ofList?
  pure { lat := mc.cell.lat, pos := mc.cell.pos.toList, num := mc.cell.num.toList, mom := mc.mom.toList, collinear := collinear,
         axial := axial, mops := mops.toList, perms := perms, uni := uni, P := P, p := p, symprec := symprec, msp := msp,
         epsilon := epsilon, rot := rot, implTlinear := itl }

def s6mOut (collinear : Bool) (r : S6m.Result) : String :=
  let f := r.ref
  s!"ok ; primlat {ratsToString f.primLat.toList} ; primn {f.primPos.length} ; primpos {DriverS6.q3sOut f.primPos} ; primnum {intsToString f.primNum}" ++
  s!" ; primmom {momsOut collinear r.primMom}" ++
  s!" ; ptlinear {intsToString f.primTrans.linear.toList} ; ushift {ratsToString f.primTrans.shift.toList}" ++
  s!" ; stdlat {ratsToString r.stdLat.toList} ; stdn {r.stdPos.length} ; stdpos {DriverS6.q3sOut r.stdPos} ; stdnum {intsToString r.stdNum}" ++
  s!" ; stdmom {momsOut collinear r.stdMom}" ++
  s!" ; tlinear {intsToString f.tlinear.toList} ; tshift {ratsToString f.tshift.toList}" ++
  s!" ; sitemap {natsToString f.siteMapping} ; ctype {r.ctype} ; branch {f.branch.toString} ; fragile {DriverS6.fragOut r.fragile}" ++
  s!" ; rotchk {DriverS6.approx f.orthErr} {DriverS6.approx f.detQ} {DriverS6.approx f.lowTri} {DriverS6.approx f.metricDev}" ++
  s!" ; hyp {b01 f.hypCompat} {b01 f.hypSmall} {b01 f.exactInvariant}" ++
  s!" ; mhyp {b01 r.hypMom} {b01 r.momInvariant} {b01 r.stdMomInvariant}" ++
  s!" ; ahyp {b01 r.hypAnti} {b01 r.antiInvariant}"

def cmdS6m (ts : List String) : String :=
  match parseS6m? ts with
  | none => "bad-case"
  | some inp =>
    match S6m.run inp with
    | .ok r => s6mOut inp.collinear r
    | .err name fr => s!"err {name} ; fragile {DriverS6.fragOut fr}"
    | .panic site fr => s!"PANIC {site} ; fragile {DriverS6.fragOut fr}"
    | .mismatch what => s!"MISMATCH {what}"

def step? (line : String) : Option String :=
  match tokens line with
  | "s5m" :: _tag :: rest => some (cmdS5m rest)
  | "s6m" :: _tag :: rest => some (cmdS6m rest)
  | _ => none

end Moyo.DriverMagId
