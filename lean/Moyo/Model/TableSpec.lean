import Moyo.Model.Hall
/-
Executable (Bool-valued) consistency checkers for the rows of the space-group and magnetic
space-group tables (properties C16 and C17).  Import-free; engineered for kernel evaluation
(`decide +kernel`): operation lists travel as packed `Nat` certificates, comparisons are made on
small literals, nothing inspects a `String` more than once.

Nothing here mentions the regenerated tables: every checker takes the row data and the searched
certificates as arguments.  `Moyo/Tables/Spec.lean` binds them to `Moyo/Generated/*`, the driver
(`Moyo/Model/DriverC16.lean`) binds them to natively computed values.
-/
namespace Moyo.TableSpec
open Moyo

/-! ### Packed operation lists -/

def tmod (x : Int) : Nat := (x % 12).toNat

def transCode (t : Z3) : Nat := tmod t.x + 12 * (tmod t.y + 12 * tmod t.z)

/-- `Nat` code of an operation whose rotation has entries in {-1,0,1} (translation modulo 12). -/
def opCode (o : HOp) : Nat :=
  o.rot.key + 19683 * (transCode o.trans + 1728 * (if o.tr then 1 else 0))

/-- `19683 * 1728 * 2`. -/
def opBase : Nat := 68024448

def unDig (n : Nat) : Int := (n : Int) - 1

def rotOfKey (k : Nat) : M3 :=
  ⟨unDig (k % 3), unDig (k / 3 % 3), unDig (k / 9 % 3), unDig (k / 27 % 3), unDig (k / 81 % 3),
   unDig (k / 243 % 3), unDig (k / 729 % 3), unDig (k / 2187 % 3), unDig (k / 6561 % 3)⟩

def opOfCode (c : Nat) : HOp :=
  let r := c / 19683
  let t := r % 1728
  ⟨rotOfKey (c % 19683), ⟨((t % 12 : Nat) : Int), ((t / 12 % 12 : Nat) : Int), ((t / 144 : Nat) : Int)⟩, r / 1728 % 2 == 1⟩

/-- Decode a packed list: digits in base `opBase`, least significant first, terminated by `1`. -/
def unpack : Nat → Nat → List HOp
  | 0, _ => []
  | fuel + 1, n => if n ≤ 1 then [] else opOfCode (n % opBase) :: unpack fuel (n / opBase)

def pack : List HOp → Nat
  | [] => 1
  | o :: rest => opCode o + opBase * pack rest

/-- Every group in the tables has at most 96 coset representatives. -/
def unpackOps (n : Nat) : List HOp := unpack 200 n

/-- Decode `count` integers packed as base-65536 digits `e + 32768`, least significant first. -/
def intsOfNat : Nat → Nat → List Int
  | 0, _ => []
  | count + 1, n => (((n % 65536 : Nat) : Int) - 32768) :: intsOfNat count (n / 65536)

/-- Read entry `i` (0-based) of a table stored as consecutive chunks of 64 rows. -/
def chunkGet {α : Type} (chunks : List (List α)) (i : Nat) : Option α :=
  (chunks[i / 64]?).bind fun c => c[i % 64]?

def m3OfList (l : List Int) : M3 :=
  match l with
  | [a, b, c, d, e, f, g, h, i] => ⟨a, b, c, d, e, f, g, h, i⟩
  | _ => M3.zero

/-- Affine certificate `(P, p/den)`: 9 entries of `P`, 3 numerators, `den`. -/
structure AffCert where
  P : M3
  p : Z3
  den : Int

def affOfList (l : List Int) : AffCert :=
  match l with
  | [a, b, c, d, e, f, g, h, i, x, y, z, n] => ⟨⟨a, b, c, d, e, f, g, h, i⟩, ⟨x, y, z⟩, n⟩
  | _ => ⟨M3.zero, Z3.zero, 0⟩

/-! ### (a) closure modulo the centring lattice -/

/-- `d` is a vector of the centring lattice (units 1/12): congruent modulo 12 to a lattice point. -/
def latMem (c : Centering) (d : Z3) : Bool :=
  c.latticePoints.any fun l => (d.sub l).mod 12 == Z3.zero

/-- Same rotation and prime flag, translations congruent modulo the centring lattice. -/
def eqvMod (c : Centering) (p q : HOp) : Bool :=
  p.rot == q.rot && p.tr == q.tr && latMem c (p.trans.sub q.trans)

def memMod (c : Centering) (ops : List HOp) (x : HOp) : Bool := ops.any fun s => eqvMod c x s

/-- Every rotation of the list maps the centring lattice into itself. -/
def latInvariant (c : Centering) (ops : List HOp) : Bool :=
  ops.all fun o => c.latticePoints.all fun l => latMem c (o.rot.apply l)

/-- Row `o` of the right-multiplication table: `row[k]` is the position in `ops` of the class of
`o · gens[k]` modulo the centring lattice. -/
def mulRowOK (c : Centering) (gens ops : List HOp) (o : HOp) (row : List Nat) : Bool :=
  row.length == gens.length &&
    (gens.zip row).all fun gj =>
      match ops[gj.2]? with
      | some s => eqvMod c (o.mul gj.1) s
      | none => false

/-- Parent certificate of position `i`: `code = i' * 8 + k` with `i' < i` and
`ops[i'] · gens[k] ≡ ops[i]` according to the table. -/
def parentOK (tbl : List (List Nat)) (i code : Nat) : Bool :=
  decide (code / 8 < i) && ((tbl[code / 8]?).bind fun row => row[code % 8]?) == some i

/-- Certificate that the list `ops` of coset representatives is closed under composition modulo
the centring lattice (see `Moyo.Tables.closed_of_closedCert`): the first operation is the
identity, `tbl` is a right-multiplication table by the generators (each entry verified by one
product), every later operation is reached from an earlier one through the table (so every
operation is a word in the generators), and the lattice is invariant under every rotation. -/
def closedCert (c : Centering) (gens ops : List HOp) (tbl : List (List Nat)) (par : List Nat) : Bool :=
  ops.head? == some HOp.one && tbl.length == ops.length && par.length == ops.length &&
    (ops.zip tbl).all (fun x => mulRowOK c gens ops x.1 x.2) &&
    ((List.range ops.length).zip par).all (fun x => x.1 == 0 || parentOK tbl x.1 x.2) &&
    latInvariant c ops

/-- Decode `count` digits in base `base`, least significant first. -/
def natsOfNat (base : Nat) : Nat → Nat → List Nat
  | 0, _ => []
  | count + 1, n => n % base :: natsOfNat base count (n / base)

/-- Split a list into `k` consecutive rows of width `m`. -/
def rowsOf (m : Nat) : Nat → List Nat → List (List Nat)
  | 0, _ => []
  | k + 1, l => l.take m :: rowsOf m k (l.drop m)

/-- The packed multiplication table (`n·m` digits in base 128) as `n` rows of width `m`. -/
def tableOfNat (n m code : Nat) : List (List Nat) := rowsOf m n (natsOfNat 128 (n * m) code)

/-! ### (b), (c) order and rotation-type histogram -/

/-- Counter slot of a rotation (`identify_rotation_type` + slot table); `10` = unknown type. -/
def rotSlot (types : List (Int × Int × Nat)) (m : M3) : Nat :=
  let t := m.trace
  let d := m.det
  match types.find? fun x => x.1 == t && x.2.1 == d with
  | some x => x.2.2
  | none => 10

def selType (types : List (Int × Int × Nat)) (s : Nat) (rots : List M3) : List M3 :=
  rots.filter fun r => rotSlot types r == s

def histogram (types : List (Int × Int × Nat)) (rots : List M3) : List Nat :=
  (List.range 10).map fun s => (selType types s rots).length

def rotsNodup : List M3 → Bool
  | [] => true
  | r :: rest => !rest.contains r && rotsNodup rest

def sumList (l : List Nat) : Nat := l.foldl (· + ·) 0

/-! ### (e) arithmetic class -/

def natsNodup : List Nat → Bool
  | [] => true
  | r :: rest => !rest.contains r && natsNodup rest

/-- `P` is unimodular and `P⁻¹ · prim[i] · P = rep[perm[i]]` for every `i`, where `perm` has no
repetition and both lists have the same length (so conjugation by `P` is a bijection of `prim`
onto `rep`). -/
def arithOK (prim rep : List M3) (P : M3) (perm : List Nat) : Bool :=
  let d := P.det
  (d == 1 || d == -1) && prim.length == rep.length && perm.length == prim.length && natsNodup perm &&
    (let Pinv := M3.smul d P.adj
     (prim.zip perm).all fun x => rep[x.2]? == some ((Pinv.mul x.1).mul P))

def vecsMod (p : Nat) : List Z3 :=
  (List.range p).flatMap fun (x : Nat) => (List.range p).flatMap fun (y : Nat) => (List.range p).map fun (z : Nat) =>
    (⟨(x : Int), (y : Int), (z : Int)⟩ : Z3)

def fixedBy (p : Int) (g : M3) (v : Z3) : Bool := ((g.apply v).sub v).mod p == Z3.zero

/-- Number of vectors of `(ℤ/p)³` fixed by every matrix of the list. -/
def fixCount (p : Nat) (els : List M3) : Nat :=
  (vecsMod p).countP fun v => els.all fun g => fixedBy (p : Int) g v

def fixRow (types : List (Int × Int × Nat)) (p : Nat) (rots : List M3) : List Nat :=
  ((List.range 10).map fun s => fixCount p (selType types s rots)) ++ [fixCount p rots]

/-- Invariants of a finite subgroup of GL₃(ℤ) under conjugation by unimodular matrices:
the rotation-type histogram, and for `p ∈ {2,3}`, for the group and for its transpose, the number
of points of `(ℤ/p)³` fixed by all elements of each rotation type / by the whole group. -/
def invVec (types : List (Int × Int × Nat)) (rots : List M3) : List Nat :=
  let tr := rots.map M3.transpose
  histogram types rots ++ fixRow types 2 rots ++ fixRow types 2 tr ++ fixRow types 3 rots ++ fixRow types 3 tr

/-! ### (f) conjugacy of settings -/

/-- `(P, p/den)` is a proper affine map with
`(P,p)⁻¹ (R,t) (P,p) = (P⁻¹RP, P⁻¹(Rp + t − p)) ≡ tgt[perm[i]] (mod ℤ³)` for the `i`-th operation
`(R,t)` of `src`; translations in twelfths, operations given in primitive bases (lattice ℤ³);
`perm` has no repetition and the lists have equal length, so the conjugated group is `tgt`.
The translation condition is written without `P⁻¹`: `R p + t − p − P t₀ ∈ ℤ³`. -/
def conjOK (src tgt : List HOp) (c : AffCert) (perm : List Nat) : Bool :=
  c.P.det == 1 && decide (0 < c.den) && c.den % 12 == 0 && src.length == tgt.length &&
    perm.length == src.length && natsNodup perm &&
    (let Pinv := c.P.adj
     let s : Int := c.den / 12
     (src.zip perm).all fun x =>
       match tgt[x.2]? with
       | none => false
       | some o0 =>
         let o := x.1
         o0.rot == (Pinv.mul o.rot).mul c.P && o0.tr == o.tr &&
           ((((o.rot.apply c.p).add (Z3.smul s o.trans)).sub (c.p.add (Z3.smul s (c.P.apply o0.trans)))).mod c.den
             == Z3.zero))

/-! ### C17: construct type, reference group, UNI ranges -/

/-- Construct type recomputed from coset representatives modulo the centring lattice
(`0` = not a valid magnetic group list). -/
def constructType (c : Centering) (ops : List HOp) : Nat :=
  let nU := ops.countP fun o => !o.tr
  if nU == ops.length then 1
  else if nU * 2 != ops.length then 0
  else
    match ops.filter fun o => o.tr && o.rot == M3.one with
    | [] => 3
    | [a] => if latMem c a.trans then 2 else 4
    | _ => 0

/-- Reference group in the BNS setting: family group (primes dropped) for type III, the unprimed
subgroup otherwise (for types I, II it coincides with the family group). -/
def refOps (ct : Nat) (ops : List HOp) : List HOp :=
  if ct == 3 then ops.map fun o => { o with tr := false } else ops.filter fun o => !o.tr

/-- Model of `ITA_NUMBER_TO_UNI_NUMBERS`: maximal runs of equal `number`, as inclusive ranges. -/
def uniRangesAux : List Nat → Nat → Nat → List (Nat × Nat)
  | [], _, _ => []
  | [_], u, s => [(s, u)]
  | a :: b :: rest, u, s =>
    if a != b then (s, u) :: uniRangesAux (b :: rest) (u + 1) (u + 1)
    else uniRangesAux (b :: rest) (u + 1) s

def uniRanges (numbers : List Nat) : List (Nat × Nat) := uniRangesAux numbers 1 1

/-- Model of `uni_number_range` (`none` for every argument outside 1..=len). -/
def uniNumberRange (ranges : List (Nat × Nat)) (n : Int) : Option (Nat × Nat) :=
  if n ≤ 0 then none else ranges[n.toNat - 1]?

/-- Leading decimal number of a BNS symbol such as `"123.340"`. -/
def bnsPrefix (s : String) : Option Nat :=
  let ds := s.toList.takeWhile fun c => c != '.'
  if ds.isEmpty || ds.length == s.toList.length then none else Hall.parseNat? ds

def insertSorted (x : Nat) : List Nat → List Nat
  | [] => [x]
  | y :: rest => if x ≤ y then x :: y :: rest else y :: insertSorted x rest

def sortNat (l : List Nat) : List Nat := l.foldr insertSorted []

def packNats : List Nat → Nat
  | [] => 1
  | x :: rest => x + opBase * packNats rest

/-- Order-independent code of a list of primitive operations (the set of operations modulo ℤ³):
the sorted operation codes, packed in base `opBase`. -/
def setCode (ops : List HOp) : Nat := packNats (sortNat (ops.map opCode))

/-! ### Named clause lists (the driver prints the failing names; a row is fine iff all hold) -/

def allOK (cl : List (String × Bool)) : Bool := cl.all (·.2)

def failing (cl : List (String × Bool)) : List String := (cl.filter fun x => !x.2).map (·.1)

/-- `primitive_traverse` with translations reduced modulo 1 (the lattice of the primitive basis is ℤ³). -/
def primitiveMod (hs : HallSymbol) : Option (List HOp) := hs.primitiveTraverse.map fun l => l.map HOp.mod12

/-- Data of one Hall row after resolution of its strings. -/
structure HallRowIn where
  symbol : String
  centering : String
  /-- packed `traverse` / `primitive_traverse` certificates -/
  opsC : Nat
  primC : Nat
  /-- packed right-multiplication table and parent codes (closure certificate) -/
  mulC : Nat
  parC : Nat
  /-- order and histogram of the geometric class of the row's arithmetic class -/
  geoOrder : Nat
  geoHist : List Nat
  /-- primitive rotations of the representative of the arithmetic class -/
  rep : List M3
  arithP : M3
  arithPerm : Nat
  /-- allowed centring letters for the Bravais class of the arithmetic class -/
  allowedCentering : List String
  /-- primitive operations of the first setting of the same type, and the conjugator onto it -/
  first : List HOp
  aff : AffCert
  affPerm : Nat

def hallRowClauses (types : List (Int × Int × Nat)) (r : HallRowIn) : List (String × Bool) :=
  match HallSymbol.new r.symbol with
  | none => [("a:parse", false)]
  | some hs =>
    let ops := unpackOps r.opsC
    let prim := unpackOps r.primC
    let rots := ops.map (·.rot)
    let n := ops.length
    [("a:traverse", decide (hs.traverse = some ops)),
     ("a:primitive", decide (primitiveMod hs = some prim)),
     ("a:closed", closedCert hs.centering hs.generators ops (tableOfNat n hs.generators.length r.mulC)
        (natsOfNat 1024 n r.parC)),
     ("b:order", n == r.geoOrder && natsNodup (rots.map M3.key) && ops.all (fun o => !o.tr) &&
        hs.centering.latticePoints.length == hs.centering.order),
     ("c:histogram", histogram types rots == r.geoHist),
     ("d:centering", Centering.ofString? r.centering == some hs.centering && r.allowedCentering.contains r.centering),
     ("e:arithmetic", arithOK (prim.map (·.rot)) r.rep r.arithP (natsOfNat 128 n r.arithPerm)),
     ("f:setting", conjOK prim r.first r.aff (natsOfNat 128 n r.affPerm))]

/-- Data of one magnetic row. -/
structure MagRowIn where
  symbol : String
  uni : Nat
  uniHall : Nat
  uniType : Nat
  bns : String
  number : Nat
  ct : Nat
  opsC : Nat
  primC : Nat
  mulC : Nat
  parC : Nat
  /-- Standard-setting Hall entry of `number`: centring letter and primitive operations -/
  refCentering : String
  ref : List HOp
  aff : AffCert
  affPerm : Nat
  setC : Nat

def magRowClauses (r : MagRowIn) : List (String × Bool) :=
  match HallSymbol.newMagnetic r.symbol with
  | none => [("parse", false)]
  | some hs =>
    let ops := unpackOps r.opsC
    let prim := unpackOps r.primC
    [("traverse", decide (hs.traverse = some ops)),
     ("primitive", decide (primitiveMod hs = some prim)),
     ("closed", closedCert hs.centering hs.generators ops (tableOfNat ops.length hs.generators.length r.mulC)
        (natsOfNat 1024 ops.length r.parC)),
     ("construct-type", constructType hs.centering ops == r.ct && decide (1 ≤ r.ct)),
     ("reference", Centering.ofString? r.refCentering == some hs.centering && (let ref := refOps r.ct prim
         conjOK ref r.ref r.aff (natsOfNat 128 ref.length r.affPerm))),
     ("numbering", r.uniHall == r.uni && r.uniType == r.uni && bnsPrefix r.bns == some r.number),
     ("set-code", setCode prim == r.setC)]

end Moyo.TableSpec
