import Moyo.Generated.Constants
/-
Model of `moyo/src/base/tolerance.rs` (`ToleranceHandler`) and of the retry loops of
`moyo/src/search/symmetry_search.rs` (`iterative_symmetry_search`, magnetic twin).
Tolerances are `s₀ · S^e` with `S = INITIAL_SYMMETRY_SEARCH_STRIDE` and `e` a dyadic rational: the
handler's stride after `k` square roots is `S^(1/2^k)`, so only the exponent needs to be tracked and
the model is exact.  Errors are identified by their `MoyoError` variant name.
-/
namespace Moyo.Tol
open Moyo.Generated

structure Handler where
  /-- current tolerances are `requested · S^e` -/
  e : Rat
  /-- the stride is `S^(1/2^k)` -/
  k : Nat
  prev : Option String
deriving Repr, DecidableEq

def Handler.new (e : Rat) : Handler := ⟨e, 0, none⟩

def tooSmall : String := "TooSmallToleranceError"

/-- `ToleranceHandler::update`. -/
def Handler.update (h : Handler) (err : String) : Handler :=
  let k' := if h.prev.isSome && h.prev != some err then h.k + 1 else h.k
  let step : Rat := 1 / ((2 ^ k' : Nat) : Rat)
  { e := if err = tooSmall then h.e + step else h.e - step, k := k', prev := some err }

structure Result (α : Type) where
  /-- `some (a, e)`: success with value `a` at exponent `e`; `none`: `PrimitiveSymmetrySearchError` -/
  value : Option (α × Rat)
  /-- exponents at which an attempt was made, in order -/
  tried : List Rat

/-- Inner `for _ in 0..MAX_SYMMETRY_SEARCH_TRIALS` loop. Returns either the success or the handler
state after the last update. -/
def inner {α : Type} (attempt : Rat → Except String α) : Nat → Handler → List Rat → (Option (α × Rat)) × Handler × List Rat
  | 0, h, tried => (none, h, tried)
  | n + 1, h, tried =>
    match attempt h.e with
    | .ok a => (some (a, h.e), h, h.e :: tried)
    | .error err => inner attempt n (h.update err) (h.e :: tried)

/-- Outer `for _ in 0..MAX_TOLERANCE_HANDLER_TRIALS` loop: a fresh handler starts from the tolerances
the previous one ended with. -/
def outer {α : Type} (attempt : Rat → Except String α) (trials : Nat) : Nat → Rat → List Rat → Result α
  | 0, _, tried => ⟨none, tried.reverse⟩
  | m + 1, e, tried =>
    match inner attempt trials (Handler.new e) tried with
    | (some r, _, tried') => ⟨some r, tried'.reverse⟩
    | (none, h, tried') => outer attempt trials m h.e tried'

/-- Model of `iterative_symmetry_search`: `attempt e` stands for `PrimitiveCell::new` followed by
`PrimitiveSymmetrySearch::new` at tolerances `requested · S^e`. -/
def search {α : Type} (attempt : Rat → Except String α) : Result α :=
  outer attempt maxSymmetrySearchTrials maxToleranceHandlerTrials 0 []

/-- Replay of a recorded error sequence (the i-th attempt failed with `errs[i]`): exponents at which
the attempts were made, followed by the exponent reached after the last update. -/
def replayGo : List String → Nat → Nat → Handler → List Rat → List Rat
  | [], _, _, h, acc => (h.e :: acc).reverse
  | err :: rest, fi, fo, h, acc =>
    if fi = 0 then
      -- inner budget used up: a fresh handler continues from the current tolerances
      if fo = 0 then acc.reverse
      else replayGo rest (maxSymmetrySearchTrials - 1) (fo - 1) ((Handler.new h.e).update err) (h.e :: acc)
    else replayGo rest (fi - 1) fo (h.update err) (h.e :: acc)

def replayErrors (errs : List String) : List Rat :=
  replayGo errs maxSymmetrySearchTrials (maxToleranceHandlerTrials - 1) (Handler.new 0) []

end Moyo.Tol
