import Moyo.Model.TableSpec
/-
Counting invariants of a space group (or magnetic space group) given by coset representatives
modulo the lattice ℤ³ of a primitive basis (translations in twelfths), used to tell space-group
types of one arithmetic class apart (C16 (g)) and magnetic types of one family apart (C17).
Import-free apart from the model files; engineered for kernel evaluation.

For a list `prim` of coset representatives `(R, t, θ)` (`θ` = time-reversal flag) the group is
`G = { (R, t/12 + n, θ) : (R,t,θ) ∈ prim, n ∈ ℤ³ }`.  For a modulus `m` the finite quotient `G / mT`
(`T` = ℤ³) is listed by `lift n o`, `o ∈ prim`, `n ∈ {0..m-1}³`.  A `Spec` describes a system of
equations in `r` unknowns ranging over the elements of `G / mT` of prescribed rotation types:

* `eqs`: pairs of words `(u, v)`; the products `u(g)`, `v(g)` have to agree modulo `mT`;
* `dets`: triples of pairs of words; each pair has to evaluate to operations with the same linear
  part whose translations differ by a lattice vector `dᵢ`; the condition is `det[d₁ d₂ d₃] ≡ c (mod m)`.

`count spec prim` is the number of solutions.  A proper affine map `(P, p)`, `P ∈ SL₃(ℤ)`, that
conjugates `G` onto `G'` maps `T` onto `T`, `mT` onto `mT`, preserves trace, determinant and
time-reversal flag of every element, is compatible with products and multiplies determinants of
lattice vectors by `det P = 1`; hence it maps solutions to solutions bijectively and
`count spec prim = count spec prim'` (`Moyo.TypeInv.count_eq_of_affConj`).
The `dets` conditions are the only orientation-sensitive ones (they separate enantiomorphic pairs).
-/
namespace Moyo.TypeInvariant
open Moyo Moyo.TableSpec

/-! ### forcing evaluation in the kernel

The kernel evaluates lazily and without sharing; `force… x k` evaluates `x` to a literal first and
passes the literal to `k`.  All of them are the identity: `force… x k = k x`. -/

def forceNat {α : Type} (n : Nat) (k : Nat → α) : α :=
  match n with
  | .zero => k .zero
  | .succ n => k (.succ n)

def forceInt {α : Type} (i : Int) (k : Int → α) : α :=
  match i with
  | .ofNat n => forceNat n fun n' => k (.ofNat n')
  | .negSucc n => forceNat n fun n' => k (.negSucc n')

def forceZ3 {α : Type} (v : Z3) (k : Z3 → α) : α :=
  forceInt v.x fun x => forceInt v.y fun y => forceInt v.z fun z => k ⟨x, y, z⟩

def forceM3 {α : Type} (p : M3) (k : M3 → α) : α :=
  forceInt p.a fun a => forceInt p.b fun b => forceInt p.c fun c => forceInt p.d fun d => forceInt p.e fun e =>
  forceInt p.f fun f => forceInt p.g fun g => forceInt p.h fun h => forceInt p.i fun i => k ⟨a, b, c, d, e, f, g, h, i⟩

def forceBool {α : Type} (b : Bool) (k : Bool → α) : α :=
  match b with
  | true => k true
  | false => k false

def forceOp {α : Type} (o : HOp) (k : HOp → α) : α :=
  forceM3 o.rot fun r => forceZ3 o.trans fun t => forceBool o.tr fun b => k ⟨r, t, b⟩

def forceOps {α : Type} : List HOp → (List HOp → α) → α
  | [], k => k []
  | o :: rest, k => forceOp o fun o' => forceOps rest fun rest' => k (o' :: rest')

def forceLists {α : Type} : List (List HOp) → (List (List HOp) → α) → α
  | [], k => k []
  | l :: rest, k => forceOps l fun l' => forceLists rest fun rest' => k (l' :: rest')

/-- A word in the unknowns: slot indices, multiplied from left to right; `[]` is the identity. -/
abbrev Word := List Nat

/-- `det[d₁ d₂ d₃] ≡ c (mod m)` with `12·dᵢ = trans(aᵢ(g)) − trans(bᵢ(g))`. -/
structure DetCond where
  a1 : Word
  b1 : Word
  a2 : Word
  b2 : Word
  a3 : Word
  b3 : Word
  c : Int

/-- Rotation type of a slot: trace, determinant, time-reversal flag. -/
abbrev SlotType := Int × Int × Bool

structure Spec where
  m : Nat
  types : List SlotType
  eqs : List (Word × Word)
  dets : List DetCond

def typeIs (τ : SlotType) (o : HOp) : Bool :=
  o.rot.trace == τ.1 && o.rot.det == τ.2.1 && o.tr == τ.2.2

/-- The representative of the coset of `o` shifted by the lattice vector `n`. -/
def lift (n : Z3) (o : HOp) : HOp := ⟨o.rot, o.trans.add (Z3.smul 12 n), o.tr⟩

/-- Elements of `G / mT` of rotation type `τ`. -/
def slotElems (m : Nat) (prim : List HOp) (τ : SlotType) : List HOp :=
  (prim.filter (typeIs τ)).flatMap fun o => (vecsMod m).map fun n => lift n o

/-- All ways to pick one element from each list. -/
def tuples : List (List HOp) → List (List HOp)
  | [] => [[]]
  | l :: rest => l.flatMap fun x => (tuples rest).map fun t => x :: t

def slot (gs : List HOp) (i : Nat) : HOp := (gs[i]?).getD HOp.one

/-- `acc · gs[w₀] · gs[w₁] · …` (every partial product is evaluated before the next factor). -/
def evalAcc (gs : List HOp) : HOp → Word → HOp
  | acc, [] => acc
  | acc, i :: w => forceOp (acc.mul (slot gs i)) fun acc' => evalAcc gs acc' w

def evalWord (gs : List HOp) (w : Word) : HOp := evalAcc gs HOp.one w

/-- Same linear part and flag, translations congruent modulo `mT` (twelfths: modulo `12 m`). -/
def eqMod (m : Int) (a b : HOp) : Bool :=
  a.rot == b.rot && a.tr == b.tr && (a.trans.sub b.trans).mod (12 * m) == Z3.zero

/-- The lattice vector by which the translations differ (same linear part and flag). -/
def diffVec (a b : HOp) : Option Z3 :=
  let d := a.trans.sub b.trans
  if a.rot == b.rot && a.tr == b.tr && d.mod 12 == Z3.zero then some ⟨d.x / 12, d.y / 12, d.z / 12⟩ else none

/-- Determinant of the matrix with columns `u, v, w`. -/
def det3 (u v w : Z3) : Int :=
  u.x * (v.y * w.z - v.z * w.y) - v.x * (u.y * w.z - u.z * w.y) + w.x * (u.y * v.z - u.z * v.y)

def detOK3 (m c : Int) (a1 b1 a2 b2 a3 b3 : HOp) : Bool :=
  match diffVec a1 b1, diffVec a2 b2, diffVec a3 b3 with
  | some u, some v, some w => (det3 u v w - c) % m == 0
  | _, _, _ => false

def detOK (m : Int) (gs : List HOp) (d : DetCond) : Bool :=
  forceOp (evalWord gs d.a1) fun a1 => forceOp (evalWord gs d.b1) fun b1 =>
  forceOp (evalWord gs d.a2) fun a2 => forceOp (evalWord gs d.b2) fun b2 =>
  forceOp (evalWord gs d.a3) fun a3 => forceOp (evalWord gs d.b3) fun b3 => detOK3 m d.c a1 b1 a2 b2 a3 b3

def eqOK (m : Int) (gs : List HOp) (e : Word × Word) : Bool :=
  forceOp (evalWord gs e.1) fun a => forceOp (evalWord gs e.2) fun b => eqMod m a b

def sat (s : Spec) (gs : List HOp) : Bool :=
  (s.eqs.all (eqOK s.m gs)) && s.dets.all (detOK s.m gs)

/-- Number of solutions of the system `s` in `G / mT` (the definition; `count` below computes it). -/
def countSpec (s : Spec) (prim : List HOp) : Nat :=
  (tuples (s.types.map (slotElems s.m prim))).countP (sat s)

/-! ### evaluation

For fixed coset representatives `os = (o₁,…,o_r)` the value of a word on the lifted tuple
`(lift n₁ o₁, …, lift n_r o_r)` is `lift (Σⱼ Cⱼ nⱼ)` of its value on `os`, where `Cⱼ` is the sum of the
linear parts of the prefixes that precede an occurrence of slot `j`.  Every condition therefore
becomes a linear congruence in `(n₁,…,n_r)` whose coefficients are computed once per `os`. -/

def forceM3s {α : Type} : List M3 → (List M3 → α) → α
  | [], k => k []
  | p :: rest, k => forceM3 p fun p' => forceM3s rest fun rest' => k (p' :: rest')

def forceZ3s {α : Type} : List Z3 → (List Z3 → α) → α
  | [], k => k []
  | p :: rest, k => forceZ3 p fun p' => forceZ3s rest fun rest' => k (p' :: rest')

def forceZ3ss {α : Type} : List (List Z3) → (List (List Z3) → α) → α
  | [], k => k []
  | p :: rest, k => forceZ3s p fun p' => forceZ3ss rest fun rest' => k (p' :: rest')

/-- Coset representatives of rotation type `τ`. -/
def reps (prim : List HOp) (τ : SlotType) : List HOp := prim.filter (typeIs τ)

/-- All `r`-tuples of residues modulo `m`. -/
def ntuples (m : Nat) : Nat → List (List Z3)
  | 0 => [[]]
  | r + 1 => (vecsMod m).flatMap fun n => (ntuples m r).map fun t => n :: t

def nslot (ns : List Z3) (i : Nat) : Z3 := (ns[i]?).getD Z3.zero

def addAt : List M3 → Nat → M3 → List M3
  | [], _, _ => []
  | a :: rest, 0, r => a.add r :: rest
  | a :: rest, j + 1, r => a :: addAt rest j r

/-- Coefficient matrices of a word: `R` = linear part of the prefix read so far. -/
def coefAcc (os : List HOp) : M3 → List M3 → Word → List M3
  | _, c, [] => c
  | r, c, i :: w => forceM3 (r.mul (slot os i).rot) fun r' => forceM3s (addAt c i r) fun c' => coefAcc os r' c' w

def coef (os : List HOp) (w : Word) : List M3 := coefAcc os M3.one (List.replicate os.length M3.zero) w

def subL : List M3 → List M3 → List M3
  | a :: as, b :: bs => a.sub b :: subL as bs
  | _, _ => []

/-- `Σⱼ Cⱼ nⱼ`. -/
def dot : List M3 → List Z3 → Z3
  | a :: as, n :: ns => (a.apply n).add (dot as ns)
  | _, _ => Z3.zero

/-- A pair of words on `os`: do linear part and flag agree, difference of the translations,
difference of the coefficient matrices. -/
structure PairData where
  ok : Bool
  d : Z3
  c : List M3

def compilePair (os : List HOp) (wa wb : Word) : PairData :=
  forceOp (evalWord os wa) fun a => forceOp (evalWord os wb) fun b =>
  forceZ3 (a.trans.sub b.trans) fun d => forceM3s (subL (coef os wa) (coef os wb)) fun c =>
    ⟨a.rot == b.rot && a.tr == b.tr, d, c⟩

/-- `d + 12 Σ Cⱼ nⱼ ≡ 0 (mod 12 m)`. -/
def eqN (m : Int) (ns : List Z3) (e : PairData) : Bool :=
  ((e.d.add (Z3.smul 12 (dot e.c ns))).mod (12 * m)) == Z3.zero

structure DetData where
  p1 : PairData
  p2 : PairData
  p3 : PairData
  c : Int

def compileDet (os : List HOp) (d : DetCond) : DetData :=
  ⟨compilePair os d.a1 d.b1, compilePair os d.a2 d.b2, compilePair os d.a3 d.b3, d.c⟩

def div12 (d : Z3) : Z3 := ⟨d.x / 12, d.y / 12, d.z / 12⟩

def DetData.ok (d : DetData) : Bool :=
  d.p1.ok && d.p2.ok && d.p3.ok && d.p1.d.mod 12 == Z3.zero && d.p2.d.mod 12 == Z3.zero && d.p3.d.mod 12 == Z3.zero

def detN (m : Int) (ns : List Z3) (d : DetData) : Bool :=
  (det3 ((div12 d.p1.d).add (dot d.p1.c ns)) ((div12 d.p2.d).add (dot d.p2.c ns))
      ((div12 d.p3.d).add (dot d.p3.c ns)) - d.c) % m == 0

def forcePair {α : Type} (p : PairData) (k : PairData → α) : α :=
  forceBool p.ok fun ok => forceZ3 p.d fun d => forceM3s p.c fun c => k ⟨ok, d, c⟩

def forcePairs {α : Type} : List PairData → (List PairData → α) → α
  | [], k => k []
  | p :: rest, k => forcePair p fun p' => forcePairs rest fun rest' => k (p' :: rest')

def forceDet {α : Type} (d : DetData) (k : DetData → α) : α :=
  forcePair d.p1 fun p1 => forcePair d.p2 fun p2 => forcePair d.p3 fun p3 => forceInt d.c fun c => k ⟨p1, p2, p3, c⟩

def forceDets {α : Type} : List DetData → (List DetData → α) → α
  | [], k => k []
  | p :: rest, k => forceDet p fun p' => forceDets rest fun rest' => k (p' :: rest')

/-- Number of solutions whose coset representatives are `os`. -/
def countOs (s : Spec) (nts : List (List Z3)) (os : List HOp) : Nat :=
  forcePairs (s.eqs.map fun e => compilePair os e.1 e.2) fun eqD =>
  forceDets (s.dets.map (compileDet os)) fun detD =>
  if eqD.all (·.ok) && detD.all (·.ok) then nts.countP fun ns => eqD.all (eqN s.m ns) && detD.all (detN s.m ns)
  else 0

def sumNat : List Nat → Nat
  | [] => 0
  | a :: rest => a + sumNat rest

/-- Number of solutions of the system `s` in `G / mT`. -/
def count (s : Spec) (prim : List HOp) : Nat :=
  forceOps prim fun prim' => forceZ3ss (ntuples s.m s.types.length) fun nts =>
    sumNat ((tuples (s.types.map (reps prim'))).map (countOs s nts))

/-- Linear parts of the coset representatives that have a lift solving the one-unknown system `s`
(a subset of the point group; conjugation maps it onto the corresponding subset). -/
def satRots (s : Spec) (prim : List HOp) : List M3 :=
  match s.types with
  | [τ] => ((reps prim τ).filter fun o => (vecsMod s.m).any fun n => sat s [lift n o]).map (·.rot)
  | _ => []

/-- Invariant vector for a list of systems. -/
def invVecT (specs : List Spec) (prim : List HOp) : List Nat := specs.map fun s => count s prim

/-- Linear part and time-reversal flag: what distinguishes the cosets of `T` in a (magnetic) group. -/
def opKey (o : HOp) : M3 × Bool := (o.rot, o.tr)

/-- The pairs (linear part, flag) of the list are pairwise different. -/
def keysDistinct : List HOp → Bool
  | [] => true
  | o :: rest => rest.all (fun q => !(q.rot == o.rot && q.tr == o.tr)) && keysDistinct rest

/-- The rotations of the list are pairwise different (keys of matrices with entries in {-1,0,1}
are injective only there, so the entries are compared directly). -/
def rotsDistinct : List HOp → Bool
  | [] => true
  | o :: rest => rest.all (fun q => !(q.rot == o.rot)) && rotsDistinct rest

/-- Compact spec constructors for the static tables. -/
def eqSpec (m : Nat) (types : List SlotType) (eqs : List (Word × Word)) : Spec := ⟨m, types, eqs, []⟩

/-- Handedness system: `g` of proper rotation type `τ` and order `k`, `e` a lattice translation `v`;
condition `det[v, R v, w] ≡ c (mod m)` with `g^k = (1, w)`. -/
def chirSpec (m : Nat) (τ : SlotType) (k : Nat) (c : Int) : Spec :=
  ⟨m, [τ, (3, 1, false)], [], [⟨[1], [], [0, 1], [0], List.replicate k 0, [], c⟩]⟩

end Moyo.TypeInvariant
