import Moyo.Model.StageMag
import Moyo.Model.DriverS9
/-
Driver commands of the magnetic stage models (`Moyo/Model/StageMag.lean`); request formats as written by
`harness/src/magstages.rs`:

`s8m <tag> ; lat 9 ; n k ; pos 3k ; num k ; mom … ; kind collinear|noncollinear ; magsymprec m ;
      s1 ok ; ntrans j ; trans 3j ; perms p1 , p2 , …  |  s1 err <name>   [; impllinear 9]`
   answers `ok ; plat … ; pn … ; ppos … ; pnum … ; pmom … ; linear … ; sitemap … ; ntrans … ; trans … ; perms … ; fragile 0|1`
`s9m <tag> ; lat … ; mom … ; kind … ; action polar|axial ; symprec s ; magsymprec m ; cand ok ; ncand c ; cands 12c | cand err <name>`
   answers `ok ; nops … ; mops 13 each ; perms … ; fragile 0|1`
`s4m <tag> ; linear 9 ; ntrans k ; trans 3k ; nops m ; mops 13m` answers `nout n ; out 13n`
`s10m <tag> ; linear … ; sitemap … ; pn … ; ntrans … ; trans … ; nops … ; mops … ; perms … ; uni u ; kind … ; std… ; prim… ;
      tlinear … ; tshift … ; ptlinear … ; ptshift … ; rot … ; symprec … ; magsymprec … ; angtol …`
   answers in the format of `magpipe::mag_dataset_segments`.
Errors: `err <name>`, `PANIC <site>`, `MISMATCH <what>`.
-/
namespace Moyo.DriverMagStage
open Moyo Moyo.Wire Moyo.StageMag Moyo.Search

def momsOut (collinear : Bool) (l : List Q3) : String :=
  if collinear then ratsToString (l.map (·.x)) else DriverS6.q3sOut l

def magCellOut (collinear : Bool) (pre : String) (c : MagCellQ) : String :=
  s!"{DriverS9.cellOut pre c.cell} ; {pre}mom {momsOut collinear c.mom.toList}"

def mopsOut (ops : List MOpQ) : String :=
  " ".intercalate (ops.map fun o =>
    intsToString o.rot.toList ++ " " ++ ratsToString o.trans.toList ++ (if o.tr then " 1" else " 0"))

def permsOut (ps : List Perm) : String := " , ".intercalate (ps.map natsToString)

def b01 (b : Bool) : String := if b then "1" else "0"

def kind? (segs : List (String × List String)) : Option Bool :=
  match seg? segs "kind" with
  | some ["collinear"] => some true
  | some ["noncollinear"] => some false
  | _ => none

def resOut {α : Type} (f : α → String) : Res α → String
  | .ok a => f a
  | .err name => s!"err {name}"
  | .panic site => s!"PANIC {site}"
  | .mismatch what => s!"MISMATCH {what}"

def cmdS8m (ts : List String) : String :=
  let segs := segments ts
  match (do
    let collinear ← kind? segs
    let mc ← parseMagCell? segs "" collinear
    let msp ← ((← seg? segs "magsymprec").head?).bind parseRat?
    let s1 : Except String (List (Q3 × Perm)) ← match (← seg? segs "s1") with
      | ["ok"] => do
        let trans ← q3s? (← parseRats? (← seg? segs "trans"))
        let perms ← DriverS6.parsePerms? (← seg? segs "perms")
        if trans.size = perms.length then some (.ok (trans.toList.zip perms)) else none
      | "err" :: name => some (.error (" ".intercalate name))
      | _ => none
    let lin := (seg? segs "impllinear").bind fun v => (parseInts? v).bind M3.ofList?
    pure (collinear, mc, msp, s1, lin)) with
  | none => "bad-case"
  | some (collinear, mc, msp, s1, lin) =>
    resOut (fun (r : PrimMagRes) =>
      s!"ok ; {magCellOut collinear "p" r.cell} ; linear {intsToString r.linear.toList} ; sitemap {natsToString r.siteMapping}" ++
      s!" ; ntrans {r.translations.length} ; trans {DriverS6.q3sOut r.translations} ; perms {permsOut r.perms} ; fragile {b01 r.fragile}")
      (primitiveMagModel mc s1 msp lin)

def cmdS9m (ts : List String) : String :=
  let segs := segments ts
  match (do
    let collinear ← kind? segs
    let axial ← match (← seg? segs "action") with
      | ["axial"] => some true
      | ["polar"] => some false
      | _ => none
    let mc ← parseMagCell? segs "" collinear
    let symprec ← ((← seg? segs "symprec").head?).bind parseRat?
    let msp ← ((← seg? segs "magsymprec").head?).bind parseRat?
    let cand : Except String (List OpQ) ← match (← seg? segs "cand") with
      | ["ok"] => do
        let n ← ((← seg? segs "ncand").head?).bind String.toNat?
        let ops ← parseOps? n (← seg? segs "cands")
        some (.ok ops.toList)
      | "err" :: name => some (.error (" ".intercalate name))
      | _ => none
    pure (collinear, axial, mc, symprec, msp, cand)) with
  | none => "bad-case"
  | some (collinear, axial, mc, symprec, msp, cand) =>
    resOut (fun (r : SearchMagRes) =>
      s!"ok ; nops {r.ops.length} ; mops {mopsOut r.ops} ; perms {permsOut r.perms} ; fragile {b01 r.fragile}")
      (searchMagModel collinear axial mc symprec msp cand)

def cmdS4m (ts : List String) : String :=
  let segs := segments ts
  match (do
    let L ← (← parseInts? (← seg? segs "linear")) |> M3.ofList?
    let trans ← q3s? (← parseRats? (← seg? segs "trans"))
    let nops ← ((← seg? segs "nops").head?).bind String.toNat?
    let ops ← parseMOps? nops (← seg? segs "mops")
    pure (L, trans, ops)) with
  | none => "bad-case"
  | some (L, trans, ops) =>
    let out := magOperationsInCell L trans.toList ops.toList
    s!"nout {out.length} ; out {mopsOut out}"

def parseGlue? (ts : List String) : Option (Bool × GlueInput) := do
  let segs := segments ts
  let collinear ← kind? segs
  let L ← (← parseInts? (← seg? segs "linear")) |> M3.ofList?
  let sitemap ← parseNats? (← seg? segs "sitemap")
  let pn ← ((← seg? segs "pn").head?).bind String.toNat?
  let trans ← q3s? (← parseRats? (← seg? segs "trans"))
  let nops ← ((← seg? segs "nops").head?).bind String.toNat?
  let mops ← parseMOps? nops (← seg? segs "mops")
  let perms ← DriverS6.parsePerms? (← seg? segs "perms")
  let uni ← ((← seg? segs "uni").head?).bind String.toInt?
  let std ← parseMagCell? segs "std" collinear
  let prim ← parseMagCell? segs "prim" collinear
  let tlinear ← (← parseInts? (← seg? segs "tlinear")) |> M3.ofList?
  let tshift ← (← parseRats? (← seg? segs "tshift")) |> Q3.ofList?
  let ptlinear ← (← parseInts? (← seg? segs "ptlinear")) |> M3.ofList?
  let ptshift ← (← parseRats? (← seg? segs "ptshift")) |> Q3.ofList?
  let rot ← (← parseRats? (← seg? segs "rot")) |> QM3.ofList?
  let symprec ← ((← seg? segs "symprec").head?).bind parseRat?
  let msp ← ((← seg? segs "magsymprec").head?).bind parseRat?
  let angtol ← parseAngtol? (← seg? segs "angtol")
  pure (collinear,
    { primLinear := L, primSiteMapping := sitemap, primNatoms := pn, translations := trans.toList, mops := mops.toList,
      perms := perms, uni := uni, stdCell := std, primStdCell := prim, tlinear := tlinear, tshift := tshift,
      ptlinear := ptlinear, ptshift := ptshift, rot := rot, symprec := symprec, magSymprec := msp, angtol := angtol })

def glueOut (collinear : Bool) (d : GlueOutput) : String :=
  s!"out ok ; uni {d.uni} ; nops {d.magneticOperations.length} ; mops {mopsOut d.magneticOperations} ; orbits {natsToString d.orbits}" ++
  s!" ; {magCellOut collinear "std" d.stdCell} ; stdlinear {ratsToString d.stdLinear.toList} ; stdshift {ratsToString d.stdOriginShift.toList}" ++
  s!" ; stdrot {ratsToString d.stdRotationMatrix.toList}" ++
  s!" ; {magCellOut collinear "prim" d.primStdCell} ; primlinear {ratsToString d.primStdLinear.toList} ; primshift {ratsToString d.primStdOriginShift.toList}" ++
  s!" ; mapping {natsToString d.mappingStdPrim} ; osymprec {ratToString d.symprec} ; omagsymprec {ratToString d.magSymprec}" ++
  s!" ; oangtol {DriverS9.angtolOut d.angtol}"

def cmdS10m (ts : List String) : String :=
  match parseGlue? ts with
  | none => "bad-case"
  | some (collinear, inp) =>
    match glueMag inp with
    | some d => glueOut collinear d
    | none => "out panic ; msg prim_mag_cell.linear try_inverse unwrap"

def step? (line : String) : Option String :=
  match tokens line with
  | "s8m" :: _tag :: rest => some (cmdS8m rest)
  | "s9m" :: _tag :: rest => some (cmdS9m rest)
  | "s4m" :: _tag :: rest => some (cmdS4m rest)
  | "s10m" :: _tag :: rest => some (cmdS10m rest)
  | _ => none

end Moyo.DriverMagStage
