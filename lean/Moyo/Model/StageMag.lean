import Moyo.Model.StageGlue
import Moyo.Model.StageSearchPrim
import Moyo.Model.MagOracle
/-
Magnetic stages S8m – S10m: models of

  S8m   `PrimitiveMagneticCell::new` (moyo/src/search/primitive_cell.rs): the pure translations of the non-magnetic
        cell (stage S1) filtered by moment equality (`is_close` with `mag_symprec`), then — as in S1 — the HNF
        transformation matrix, `primitive_cell_from_transformation` (+ the moments of the orbit representatives) and the
        Minkowski change of basis;
  S9m   the time-reversal assignment of `PrimitiveMagneticSymmetrySearch::new` (primitive_symmetry_search.rs): for every
        candidate operation of the non-magnetic search the permutation of the sites (`solve_correspondence`), then
        θ = true, false in this order, kept when every acted moment is close to the moment of the image site; the
        emptiness test and the magnetic `check_closure`;
  S4m   `magnetic_operations_in_magnetic_cell` (the magnetic twin of stage S4: the time-reversal flag is carried along);
  S10m  the body of `MoyoMagneticDataset::new` after the stages (moyo/src/lib.rs).

Float-only pieces enter as checked oracle parameters (DESIGN §2.3): the Minkowski matrix of the primitive magnetic cell is
recovered from the implementation's `linear` (it must be an integer matrix of determinant 1 times the model's own
transformation matrix); the kd-tree only proposes the image site, which is found here by an exact periodic search
within `symprec`.  `norm(v) < r` is modelled as `0 < r ∧ v·v < r²`.  Collinear moments are `(m, 0, 0)`.  Core Lean only.
-/
namespace Moyo.StageMag
open Moyo Moyo.Search Moyo.MagOracle Moyo.Oracle

/-! ### moments -/

def momAt (mom : Array Q3) (i : Nat) : Q3 := mom.getD i Q3.zero

/-- `MagneticMoment::is_close`: `(a − b).norm() < mag_symprec` (`|a − b| < mag_symprec` for collinear moments). -/
def isClose (a b : Q3) (msp : Rat) : Bool := decide (0 < msp) && decide ((a.sub b).normSq < msp * msp)

/-- The comparison is within 4e-9 (relative, on squares) of the threshold: f64 could decide either way. -/
def closeFragile (a b : Q3) (msp : Rat) : Bool :=
  let d := (a.sub b).normSq - msp * msp
  decide (absR d ≤ (4 / 1000000000) * (msp * msp))

/-! ### S4m: `magnetic_operations_in_magnetic_cell` -/

/-- `Transformation::from_linear(L).transform_magnetic_operation`: the space-group part as in stage S4
(`Stage.transformOp`: `(L⁻¹ R L, L⁻¹ t)` when integral), the time-reversal flag unchanged. -/
def transformMOp (L : M3) (o : MOpQ) : Option MOpQ :=
  (Stage.transformOp L o.op).map fun q => ⟨q.rot, q.trans, o.tr⟩

/-- `magnetic_operations_in_magnetic_cell`: translations-major order, as the two nested loops of the code. -/
def magOperationsInCell (L : M3) (translations : List Q3) (primOps : List MOpQ) : List MOpQ :=
  let inputOps := primOps.filterMap (transformMOp L)
  translations.flatMap fun t1 => inputOps.map fun o2 => ⟨o2.rot, Stage.truncFrac3 (t1.add o2.trans), o2.tr⟩

/-! ### S8m: `PrimitiveMagneticCell::new` -/

/-- `magnetic_moments.iter().zip(new_magnetic_moments).all(|(m1, m2)| m1.is_close(m2, mag_symprec))` with
`new_magnetic_moments[i] = magnetic_moments[permutation.apply(i)]`. -/
def keepsMoments (mom : Array Q3) (n : Nat) (p : Perm) (msp : Rat) : Bool :=
  (List.range n).all fun i => isClose (momAt mom i) (momAt mom (papply p i)) msp

/-- "Filter translations that keep magnetic moments". -/
def filterTranslations (mom : Array Q3) (n : Nat) (cands : List (Q3 × Perm)) (msp : Rat) : List (Q3 × Perm) :=
  cands.filter fun c => keepsMoments mom n c.2 msp

def filterFragile (mom : Array Q3) (n : Nat) (cands : List (Q3 × Perm)) (msp : Rat) : Bool :=
  cands.any fun c => (List.range n).any fun i => closeFragile (momAt mom i) (momAt mom (papply c.2 i)) msp

structure PrimMagRes where
  cell : MagCellQ
  linear : M3
  siteMapping : List Nat
  translations : List Q3
  perms : List Perm
  /-- intermediate: `trans_mat` (primitive magnetic cell → input cell) -/
  transMat : M3
  fragile : Bool

inductive Res (α : Type)
  | ok (a : α)
  | err (name : String)
  | panic (site : String)
  /-- an oracle parameter taken from the implementation is not admissible -/
  | mismatch (what : String)

def m3IsInt (q : QM3) : Option M3 :=
  if q.toList.all (fun x => x.den == 1) then
    some ⟨q.a.num, q.b.num, q.c.num, q.d.num, q.e.num, q.f.num, q.g.num, q.h.num, q.i.num⟩
  else none

/-- `PrimitiveMagneticCell::new`.  `s1` = result of `PrimitiveCell::new(&magnetic_cell.cell, symprec)` (error name, or
its translations with their permutations); `implLinear` = the implementation's `linear`, used only to recover the
Minkowski matrix `prim_trans_mat` (`linear = prim_trans_mat⁻¹ · trans_mat`). -/
def primitiveMagModel (mc : MagCellQ) (s1 : Except String (List (Q3 × Perm))) (msp : Rat) (implLinear : Option M3) :
    Res PrimMagRes :=
  match s1 with
  | .error name => .err name
  | .ok cands =>
    let n := mc.cell.n
    if !(cands.all fun c => permOk mc.cell c.2) then .mismatch "s1 permutation out of range" else
    let kept := filterTranslations mc.mom n cands msp
    let size := kept.length
    if size = 0 ∨ n % size ≠ 0 then .err "TooSmallToleranceError" else
    match transformationMatrixFromTranslations (kept.map (·.1)) with
    | .panic => .panic "try_inverse"
    | .none => .err "TooSmallToleranceError"
    | .ok M =>
      let parts := primitiveCellFromTransformation mc.cell M kept
      let moms := parts.representatives.map (momAt mc.mom)
      match implLinear with
      | none => .mismatch "no linear"
      | some lin =>
        match m3IsInt ((QM3.ofM3 lin).mul (QM3.ofM3 M).inv) with
        | none => .mismatch "linear is not an integer multiple of trans_mat"
        | some T2inv =>
          match unimodInv? T2inv with
          | none => .mismatch "prim_trans_mat is not unimodular"
          | some T2 =>
            .ok { cell := ⟨transformCellU T2 T2inv parts.cell, moms.toArray⟩
                  linear := T2inv.mul M
                  siteMapping := parts.siteMapping
                  translations := kept.map (·.1)
                  perms := kept.map (·.2)
                  transMat := M
                  fragile := filterFragile mc.mom n cands msp }

/-! ### S9m: time-reversal assignment of `PrimitiveMagneticSymmetrySearch::new` -/

/-- One step of `solve_correspondence`: site `i` goes to the site within `symprec` of `R x_i + t` (exact periodic
search; the kd-tree of the implementation returns the nearest such site), `None` when there is none or the species differ. -/
def siteImage (ix : SiteIndex) (c : CellQ) (o : OpQ) (r2 : Rat) (i : Nat) : Option Nat :=
  match ix.findSel (opAct o (posAt c i)) (fun _ => true) r2 with
  | none => none
  | some j => if numAt c i = numAt c j then some j else none

/-- `for i in 0..n { … ? }`: the first failure ends the loop. -/
def mapOpt (f : Nat → Option Nat) : List Nat → Option (List Nat)
  | [] => some []
  | i :: rest =>
    match f i with
    | none => none
    | some j =>
      match mapOpt f rest with
      | none => none
      | some l => some (j :: l)

/-- `solve_correspondence(pkdtree, cell, new_positions)`. -/
def permOf (ix : SiteIndex) (c : CellQ) (o : OpQ) (r2 : Rat) : Option Perm :=
  mapOpt (siteImage ix c o r2) (List.range c.n)

/-- `act_rotation` with the rounded determinant `s = round(det Q)` computed once per operation
(`actRot … (ratRound cart.det) m = MagOracle.actRotation … cart m` by definition). -/
def actRot (collinear axial : Bool) (cart : QM3) (s : Rat) (m : Q3) : Q3 :=
  let v := if collinear then m else cart.apply m
  if axial then v.smul s else v

/-- All moments acted on by `(R, θ)` are close to the moments of the image sites. -/
def acceptTheta (collinear axial : Bool) (cart : QM3) (mom : Array Q3) (n : Nat) (p : Perm) (msp : Rat) (tr : Bool) : Bool :=
  let s : Rat := ratRound cart.det
  (List.range n).all fun i =>
    isClose (actTimeReversal tr (actRot collinear axial cart s (momAt mom i))) (momAt mom (papply p i)) msp

def thetaFragile (collinear axial : Bool) (cart : QM3) (mom : Array Q3) (n : Nat) (p : Perm) (msp : Rat) : Bool :=
  let s : Rat := ratRound cart.det
  [true, false].any fun tr => (List.range n).any fun i =>
    closeFragile (actTimeReversal tr (actRot collinear axial cart s (momAt mom i))) (momAt mom (papply p i)) msp

/-- `for time_reversal in [true, false] { if take { push } }` for one candidate with its permutation. -/
def thetasOf (collinear axial : Bool) (cart : QM3) (mom : Array Q3) (n : Nat) (msp : Rat) (o : OpQ) (p : Perm) :
    List (MOpQ × Perm) :=
  [true, false].filterMap fun tr =>
    if acceptTheta collinear axial cart mom n p msp tr then some (⟨o.rot, o.trans, tr⟩, p) else none

/-- The candidates with their permutations and Cartesian rotations `A R A⁻¹` (`none`: `solve_correspondence` failed). -/
def candPerms (ix : SiteIndex) (c : CellQ) (symprec : Rat) (cands : List OpQ) : List (OpQ × Option (Perm × QM3)) :=
  cands.map fun o => (o, (permOf ix c o (symprec * symprec)).map fun p => (p, cartRot c.lat o.rot))

/-- The loop over the candidate operations. -/
def assignTimeReversal (collinear axial : Bool) (mc : MagCellQ) (msp : Rat) (cp : List (OpQ × Option (Perm × QM3))) :
    List (MOpQ × Perm) :=
  cp.flatMap fun x =>
    match x.2 with
    | none => []
    | some pc => thetasOf collinear axial pc.2 mc.mom mc.cell.n msp x.1 pc.1

/-- `translations_map.insert((rotation, time_reversal), translation)` in order: the last one wins
(`rev` is the list of operations reversed). -/
def lastTransM (rev : List MOpQ) (R : M3) (tr : Bool) : Option Q3 :=
  (rev.find? fun o => decide (o.rot = R) && o.tr == tr).map (·.trans)

/-- Magnetic `check_closure` (`rev` = the operations in reverse order: the last insertion into the hash map wins). -/
def checkClosureM (ops : List MOpQ) (A : QM3) (symprec : Rat) : Bool :=
  let rev := ops.reverse
  ops.all fun a => ops.all fun b =>
    let p := mopMul a b
    match lastTransM rev p.rot p.tr with
    | none => false
    | some t =>
      let d := (t.sub p.trans).wrap
      !(decide (symprec < 0) || decide ((A.apply d).normSq > symprec * symprec))

structure SearchMagRes where
  ops : List MOpQ
  perms : List Perm
  fragile : Bool

/-- `PrimitiveMagneticSymmetrySearch::new` given the candidate operations (`cand` = error name of the non-magnetic
search, or `operations_in_cell(prim_nonmag_cell, prim_nonmag_symmetry.operations)`). -/
def searchMagModel (collinear axial : Bool) (mc : MagCellQ) (symprec msp : Rat) (cand : Except String (List OpQ)) :
    Res SearchMagRes :=
  match cand with
  | .error name => .err name
  | .ok cands =>
    let cp := candPerms (SiteIndex.build mc.cell) mc.cell symprec cands
    let kept := assignTimeReversal collinear axial mc msp cp
    if kept.isEmpty then .err "TooSmallToleranceError" else
    let ops := kept.map (·.1)
    if !checkClosureM ops mc.cell.lat symprec then .err "TooLargeToleranceError" else
    let frag := cp.any fun x =>
      match x.2 with
      | none => false
      | some pc => thetaFragile collinear axial pc.2 mc.mom mc.cell.n pc.1 msp
    .ok ⟨ops, kept.map (·.2), frag⟩

/-! ### S10m: the body of `MoyoMagneticDataset::new` after the stages -/

structure GlueInput where
  -- PrimitiveMagneticCell
  primLinear : M3
  primSiteMapping : List Nat
  primNatoms : Nat
  translations : List Q3
  -- PrimitiveMagneticSymmetrySearch
  mops : List MOpQ
  perms : List (List Nat)
  -- MagneticSpaceGroup
  uni : Int
  -- StandardizedMagneticCell
  stdCell : MagCellQ
  primStdCell : MagCellQ
  tlinear : M3
  tshift : Q3
  ptlinear : M3
  ptshift : Q3
  rot : QM3
  -- tolerances returned by `iterative_magnetic_symmetry_search`
  symprec : Rat
  magSymprec : Rat
  angtol : Option Rat

/-- The fields of `MoyoMagneticDataset`. -/
structure GlueOutput where
  uni : Int
  magneticOperations : List MOpQ
  orbits : List Nat
  stdCell : MagCellQ
  stdLinear : QM3
  stdOriginShift : Q3
  stdRotationMatrix : QM3
  primStdCell : MagCellQ
  primStdLinear : QM3
  primStdOriginShift : Q3
  mappingStdPrim : List Nat
  symprec : Rat
  magSymprec : Rat
  angtol : Option Rat

/-- `none` = `prim_mag_cell.linear … try_inverse().unwrap()` panics (singular `linear`). -/
def glueMag (inp : GlueInput) : Option GlueOutput :=
  let mops := magOperationsInCell inp.primLinear inp.translations inp.mops
  let mappingStdPrim := inp.primSiteMapping
  let orbits := Orbits.orbitsInCell inp.primNatoms inp.perms mappingStdPrim
  match Glue.linearInv inp.primLinear with
  | none => none
  | some Linv =>
    let std := Glue.composeInv Linv inp.tlinear inp.tshift
    let prim := Glue.composeInv Linv inp.ptlinear inp.ptshift
    some {
      uni := inp.uni
      magneticOperations := mops
      orbits := orbits
      stdCell := inp.stdCell
      stdLinear := std.1
      stdOriginShift := std.2
      stdRotationMatrix := inp.rot
      primStdCell := inp.primStdCell
      primStdLinear := prim.1
      primStdOriginShift := prim.2
      mappingStdPrim := mappingStdPrim
      symprec := inp.symprec
      magSymprec := inp.magSymprec
      angtol := inp.angtol }

end Moyo.StageMag
