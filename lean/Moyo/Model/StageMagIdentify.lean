import Moyo.Model.StageIdentify
import Moyo.Model.StageStd
import Moyo.Model.MagDataset
import Moyo.Generated.MagTable
/-
Stage S5m: model of magnetic space-group identification `identify::magnetic_space_group::MagneticSpaceGroup::new`
(moyo/src/identify/magnetic_space_group.rs, with `integral_normalizer` of identify/normalizer.rs and
`UnimodularTransformation` of base/transformation.rs).

Literal transcription over exact arithmetic, in the style of `StageIdentify.lean` (which it re-uses for
`SpaceGroup::new`, `match_origin_shift`, `iter_trans_mat_basis`, `iter_unimodular_trans_mat`): rotations are `M3`,
translations `Q3` (every `f64` of the implementation arrives as an exact dyadic), `epsilon : Rat`.

* `xsg`, `family`                 `primitive_maximal_space_subgroup_from_magnetic_space_group`,
                                   `family_space_group_from_magnetic_space_group` (hash map keyed by rotation: the last
                                   inserted translation of a rotation is the one compared with);
* `identifyReference`             `identify_reference_space_group`: construct type from `|MSG| / |XSG|`, the
                                   "two operations with one rotation and the same translation" flag and the presence
                                   of an anti-translation; reference group = FSG (types I–III) or XSG (type IV);
* `uniRange?`                     `uni_number_range` (runs of equal ITA number in the type table, indexed by position);
* `dbRef?`                        `db_reference_space_group_primitive`;
* `normalizerAll`                 `integral_normalizer` (one conjugator per null-space basis, all bases);
* `matchMagOps`                   `match_prim_mag_operations` (hash map keyed by (rotation, time reversal));
* `findConjugatorType4`           `find_conjugator_type4`;
* `identifyMag`                   `MagneticSpaceGroup::new`.

There is no float heuristic in this stage besides the `< epsilon` / `> epsilon` comparisons of translations; the driver
evaluates the model at `epsilon` and at the two band values `epsilon (1 ± 1e-9) ± 4e-15` and reports a case as fragile when
the three answers differ (as `DriverS5`).  Sites where the Rust code would panic are `Err.panic`.  Core Lean only.
-/
namespace Moyo.S5m
open Moyo Moyo.Generated Moyo.StageStd

/-! ### magnetic operations -/

/-- `diff.iter().all(|e| (e - e.round()).abs() < epsilon)`. -/
def closeMod1 (d : Q3) (eps : Rat) : Bool :=
  decide (S5.ratAbs (ratWrap d.x) < eps) && decide (S5.ratAbs (ratWrap d.y) < eps) && decide (S5.ratAbs (ratWrap d.z) < eps)

/-- `UnimodularTransformation::transform_magnetic_operation`: the space-group part is conjugated, the flag is kept. -/
def transformMOp (u : UTrans) (o : MOpQ) : MOpQ :=
  let q := u.transformOp o.op
  ⟨q.rot, q.trans, o.tr⟩

/-- XSG: the operations without time reversal, in order. -/
def xsg (ops : List MOpQ) : List OpQ := (ops.filter fun o => !o.tr).map MOpQ.op

/-- The `contained` flags returned with the XSG. -/
def xsgContained (ops : List MOpQ) : List Bool := ops.map fun o => !o.tr

structure Family where
  /-- the operations pushed, in order -/
  ops : List OpQ
  isType2 : Bool
  contained : List Bool
deriving Inhabited

/-- One iteration of the loop of `family_space_group_from_magnetic_space_group`.  State: the operations pushed so far in
**reverse** order (so that `S5.hmGet` finds the last inserted translation of a rotation), the flag, the `contained`
flags in reverse order. -/
def familyStep (eps : Rat) (st : List OpQ × Bool × List Bool) (o : MOpQ) : List OpQ × Bool × List Bool :=
  match S5.hmGet st.1 o.rot with
  | some t =>
    if closeMod1 (o.trans.sub t) eps then (st.1, true, false :: st.2.2)
    else (o.op :: st.1, st.2.1, true :: st.2.2)
  | none => (o.op :: st.1, st.2.1, true :: st.2.2)

/-- FSG: all operations ignoring the time-reversal parts; an operation whose rotation was seen with the same translation
(modulo 1, within `eps`) is skipped and marks the group as type II. -/
def family (ops : List MOpQ) (eps : Rat) : Family :=
  let r := ops.foldl (familyStep eps) ([], false, [])
  ⟨r.1.reverse, r.2.1, r.2.2.reverse⟩

def hasAntiTranslation (ops : List MOpQ) : Bool := ops.any fun o => o.tr && o.rot == M3.one

/-- `identify_reference_space_group`: `(reference operations, construct type 1..4)`. -/
def identifyReference (ops : List MOpQ) (eps : Rat) : Option (List OpQ × Nat) :=
  let x := xsg ops
  let f := family ops eps
  if x.isEmpty || f.ops.isEmpty then none else
  if ops.length % x.length ≠ 0 || ops.length % f.ops.length ≠ 0 then none else
  match ops.length / x.length, f.isType2 with
  | 1, false => some (f.ops, 1)
  | 2, true => some (f.ops, 2)
  | 2, false => if hasAntiTranslation ops then some (x, 4) else some (f.ops, 3)
  | _, _ => none

/-! ### tables -/

def magType? (u : Nat) : Option MagTypeEntry := if u = 0 then none else magTypeTable[u - 1]?

/-- The loop of `ITA_NUMBER_TO_UNI_NUMBERS` over the rest of the type table: `start` is the first UNI number of the
current run, `u` the UNI number of the head entry; a run ends at the last entry or where the ITA number changes. -/
def runsFrom : List MagTypeEntry → Nat → Nat → List (Nat × Nat)
  | [], _, _ => []
  | [_], start, u => [(start, u)]
  | e :: e' :: rest, start, u =>
    if e.number != e'.number then (start, u) :: runsFrom (e' :: rest) (u + 1) (u + 1)
    else runsFrom (e' :: rest) start (u + 1)

/-- `ITA_NUMBER_TO_UNI_NUMBERS`: the maximal runs of consecutive entries with the same ITA number, as
`(first, last)` UNI numbers, in table order. -/
def uniRuns : List (Nat × Nat) := runsFrom magTypeTableList 1 1

/-- `uni_number_range(number)`: the `number`-th run. -/
def uniRange? (number : Nat) : Option (List Nat) :=
  if number = 0 then none else (uniRuns[number - 1]?).map fun r => (List.range (r.2 + 1 - r.1)).map (· + r.1)

/-- `MagneticHallSymbolEntry::reference_hall_number`: the standard-setting Hall number of the family ITA number. -/
def refHall? (u : Nat) : Option Nat := (magType? u).bind fun t => if t.number = 0 then none else standardHallNumbers[t.number - 1]?

def hopToOpQ (o : HOp) : OpQ := ⟨o.rot, o.trans.toQ 12⟩
def hopToMOpQ (o : HOp) : MOpQ := ⟨o.rot, o.trans.toQ 12, o.tr⟩

/-- `MagneticHallSymbol::new(entry.magnetic_hall_symbol)?.primitive_traverse()`. -/
def dbMagOps? (u : Nat) : Option (List MOpQ) :=
  if u = 0 then none else
  (magHallTable[u - 1]?).bind fun e => (HallSymbol.newMagnetic e.symbol).bind fun hs => hs.primitiveTraverse.map (·.map hopToMOpQ)

/-- `db_reference_space_group_primitive` for Hall number `h`: primitive operations and the primitive generators with a
rotation part other than the identity (`[identity]` when there is none). -/
def dbRef? (h : Nat) : Option (List OpQ × Array S5.Gen) :=
  (S5.hallSymbol? h).bind fun hs =>
    hs.primitiveTraverse.map fun ops =>
      let gens := (hs.primitiveGenerators.filter fun g => g.rot != M3.one).map fun g => (⟨g.rot, g.trans.toQ 12⟩ : S5.Gen)
      (ops.map hopToOpQ, (if gens.isEmpty then [⟨M3.one, Q3.zero⟩] else gens).toArray)

/-! ### `integral_normalizer` -/

/-- `multi_cartesian_product` as a list: lexicographic, last factor fastest; the empty product is `[[]]`. -/
def prodAll {α : Type} : List (List α) → List (List α)
  | [] => [[]]
  | c :: cs => c.flatMap fun x => (prodAll cs).map fun rest => x :: rest

/-- `iter_trans_mat_basis(rots, types, gens)` as a list. -/
def transMatBases (rots : Array M3) (types : Array Nat) (gens : List M3) : List (List M3) :=
  let gensA := gens.toArray
  let cands : List (List Nat) := gens.map fun gen =>
    match S5.rotType? gen with
    | none => []
    | some t => (List.range rots.size).filter fun i => types.getD i 99 == t
  (prodAll cands).filterMap fun pivot => S5.sylvester3 (pivot.map fun i => rots.getD i M3.zero).toArray gensA

/-- `integral_normalizer(prim_operations, prim_generators, epsilon)`: for every null-space basis the first unimodular
combination for which an origin shift exists.  `none` = `identify_rotation_type` panics. -/
def normalizerAll (ops : List OpQ) (gens : Array S5.Gen) (eps : Rat) : Option (List UTrans) :=
  match (ops.map (·.rot)).mapM S5.rotType? with
  | none => none
  | some types =>
    some ((transMatBases (ops.map (·.rot)).toArray types.toArray (gens.toList.map (·.rot))).filterMap fun basis =>
      S5.unimodularFirst basis fun P => (S5.matchOriginShift ops P gens eps).map fun p => (⟨P, p⟩ : UTrans))

/-! ### `match_prim_mag_operations` -/

/-- `hm_translation.get(&(rotation, time_reversal))` after inserting the operations in order (`rev` = reversed list). -/
def lastTrans (rev : List MOpQ) (R : M3) (tr : Bool) : Option Q3 :=
  (rev.find? fun o => o.rot == R && o.tr == tr).map (·.trans)

def matchMagOps (ops1 ops2 : List MOpQ) (eps : Rat) : Bool :=
  ops1.length == ops2.length &&
  let rev := ops1.reverse
  ops2.all fun m2 =>
    match lastTrans rev m2.rot m2.tr with
    | some t1 => closeMod1 (m2.trans.sub t1) eps
    | none => false

/-! ### `find_conjugator_type4` -/

def findConjugatorType4 (gens : Array S5.Gen) (ops : List OpQ) (src dst : Q3) (eps : Rat) : Option UTrans :=
  match (ops.map (·.rot)).mapM S5.rotType? with
  | none => none
  | some types =>
    S5.transMatBasisFirst (ops.map (·.rot)).toArray types.toArray (gens.toList.map (·.rot)) fun basis =>
      S5.unimodularFirst basis fun P =>
        if closeMod1 ((P.applyQ dst).sub src) eps then (S5.matchOriginShift ops P gens eps).map fun p => (⟨P, p⟩ : UTrans)
        else none

/-! ### `MagneticSpaceGroup::new` -/

inductive Err
  | constructType          -- ConstructTypeIdentificationError
  | magType                -- MagneticSpaceGroupTypeIdentificationError
  | sg (e : S5.Err)        -- errors of `SpaceGroup::new`
  | panic (site : String)
deriving Repr, DecidableEq, Inhabited

def Err.name : Err → String
  | .constructType => "ConstructTypeIdentificationError"
  | .magType => "MagneticSpaceGroupTypeIdentificationError"
  | .sg e => e.name
  | .panic s => "PANIC " ++ s

structure MagSpaceGroup where
  uni : Nat
  ctype : Nat
  T : UTrans
deriving Repr, Inhabited

def sgTrans (sg : S5.SpaceGroup) : UTrans := ⟨sg.linear, sg.shift⟩

/-- Type III, one UNI number: the first element of the normalizer of the tabulated reference group that carries the
operations onto the tabulated magnetic operations. -/
def tryType3 (ops : List MOpQ) (eps : Rat) (stdT : UTrans) (dbM : List MOpQ) (norm : List UTrans) : Option UTrans :=
  norm.findSome? fun corr =>
    let T := stdT.mul corr
    if matchMagOps (ops.map (transformMOp T)) dbM eps then some T else none

/-- Type IV, one UNI number.  `some (.error _)` = a panic of the code (`unwrap` of a missing anti-translation). -/
def tryType4 (ops : List MOpQ) (eps : Rat) (stdT : UTrans) (dbM : List MOpQ) (dbOps : List OpQ) (gens : Array S5.Gen) :
    Option (Except Err UTrans) :=
  match ops.find? (fun o => o.rot == M3.one && o.tr), dbM.find? (fun o => o.rot == M3.one && o.tr) with
  | none, _ => some (.error (.panic "type4: no anti-translation in the input"))
  | _, none => some (.error (.panic "type4: no anti-translation in the table"))
  | some a, some d =>
    let src := (transformMOp stdT a).trans
    match findConjugatorType4 gens dbOps src d.trans eps with
    | none => none
    | some corr =>
      let T := stdT.mul corr
      if matchMagOps (ops.map (transformMOp T)) dbM eps then some (.ok T) else none

/-- One iteration of `for uni_number in uni_number_range`: `none` = continue. `norm0` is the normalizer of the reference
group of Hall number `h0` (shared by the iterations: every UNI number of the range has the same reference Hall number;
when it has not, the normalizer is recomputed as the code does). -/
def tryUni (ops : List MOpQ) (eps : Rat) (ctype : Nat) (stdT : UTrans) (h0 : Option Nat) (norm0 : Thunk (Option (List UTrans)))
    (u : Nat) : Option (Except Err MagSpaceGroup) :=
  match magType? u with
  | none => some (.error (.panic "get_magnetic_space_group_type unwrap"))
  | some t =>
    if t.constructType ≠ ctype then none else
    if ctype = 1 ∨ ctype = 2 then some (.ok ⟨u, ctype, stdT⟩) else
    match dbMagOps? u with
    | none => some (.error .magType)
    | some dbM =>
      match refHall? u with
      | none => some (.error (.panic "reference_hall_number unwrap"))
      | some h =>
        match dbRef? h with
        | none => some (.error (.panic "db_reference_space_group_primitive unwrap"))
        | some (dbOps, gens) =>
          if ctype = 3 then
            match (if some h == h0 then norm0.get else normalizerAll dbOps gens eps) with
            | none => some (.error (.panic "identify_rotation_type: unreachable"))
            | some norm => (tryType3 ops eps stdT dbM norm).map fun T => .ok ⟨u, ctype, T⟩
          else
            (tryType4 ops eps stdT dbM dbOps gens).map fun r => r.map fun T => ⟨u, ctype, T⟩

/-- The normalizer of the tabulated reference group of Hall number `h0`, computed at most once per identification
(the code recomputes it for every UNI number of the range: "TODO: precompute the normalizer"). -/
def sharedNormalizer (h0 : Option Nat) (eps : Rat) : Thunk (Option (List UTrans)) :=
  Thunk.mk fun _ =>
    match h0.bind dbRef? with
    | none => some []
    | some (dbOps, gens) => normalizerAll dbOps gens eps

/-- `MagneticSpaceGroup::new` after `SpaceGroup::new(&ref_spg, Setting::Standard, epsilon)` has produced `sgr`, with the
(lazy) normalizer of the reference group of a Hall number supplied by `normf` (`identifyMagFrom`: computed from the tables;
the driver shares one computation between the evaluations of its fragility band). -/
def identifyMagFromN (normf : Option Nat → Thunk (Option (List UTrans))) (ops : List MOpQ) (eps : Rat) (ctype : Nat)
    (sgr : Except S5.Err S5.SpaceGroup) : Except Err MagSpaceGroup :=
  match sgr with
  | .error e => .error (.sg e)
  | .ok sg =>
    match uniRange? sg.number with
    | none => .error (.sg .spaceGroupType)
    | some range =>
      let stdT := sgTrans sg
      let h0 := range.head?.bind refHall?
      match range.findSome? (tryUni ops eps ctype stdT h0 (normf h0)) with
      | some r => r
      | none => .error .magType

def identifyMagN (normf : Option Nat → Thunk (Option (List UTrans))) (ops : List MOpQ) (eps : Rat) : Except Err MagSpaceGroup :=
  match identifyReference ops eps with
  | none => .error .constructType
  | some (ref, ctype) => identifyMagFromN normf ops eps ctype (S5.identify ref .standard eps)

/-- `MagneticSpaceGroup::new` after `SpaceGroup::new(&ref_spg, Setting::Standard, epsilon)` has produced `sgr`. -/
def identifyMagFrom (ops : List MOpQ) (eps : Rat) (ctype : Nat) (sgr : Except S5.Err S5.SpaceGroup) :
    Except Err MagSpaceGroup :=
  match sgr with
  | .error e => .error (.sg e)
  | .ok sg =>
    match uniRange? sg.number with
    | none => .error (.sg .spaceGroupType)
    | some range =>
      let stdT := sgTrans sg
      let h0 := range.head?.bind refHall?
      match range.findSome? (tryUni ops eps ctype stdT h0 (sharedNormalizer h0 eps)) with
      | some r => r
      | none => .error .magType

/-- `MagneticSpaceGroup::new(prim_mag_operations, epsilon)`. -/
def identifyMag (ops : List MOpQ) (eps : Rat) : Except Err MagSpaceGroup :=
  match identifyReference ops eps with
  | none => .error .constructType
  | some (ref, ctype) => identifyMagFrom ops eps ctype (S5.identify ref .standard eps)

/-- The proven model is the instance of the parameterised one with the tabulated normalizer. -/
theorem identifyMag_eq_N (ops : List MOpQ) (eps : Rat) :
    identifyMag ops eps = identifyMagN (fun h0 => sharedNormalizer h0 eps) ops eps := rfl

/-! ### the executable statement of soundness (evaluated by the driver on every table row; `identify_mag_sound`) -/

/-- The answer `g` is consistent with the tables: the construct type is the tabulated one of `g.uni`, the transformation
is unimodular, and — for types III and IV, where the code compares magnetic operations — the operations transformed by
`g.T` match the tabulated primitive magnetic operations of `g.uni` (same number, every tabulated `(R, θ)` present with a
translation equal modulo 1 within `eps`). -/
def soundAnswer (ops : List MOpQ) (eps : Rat) (g : MagSpaceGroup) : Bool :=
  match magType? g.uni, dbMagOps? g.uni with
  | some t, some dbM =>
    t.constructType == g.ctype && g.T.linear.det == 1 &&
      (if g.ctype = 3 ∨ g.ctype = 4 then matchMagOps (ops.map (transformMOp g.T)) dbM eps else true)
  | _, _ => false

end Moyo.S5m
