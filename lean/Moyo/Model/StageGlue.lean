import Moyo.Model.StageOps
import Moyo.Model.OrbitsC07
import Moyo.Generated.HallTable
import Moyo.Generated.ArithTable
/-
Stage S9 ("glue"): model of the body of `MoyoDataset::new` (moyo/src/lib.rs) *after* the stages, i.e. of
everything lib.rs itself computes from the stage results:

  operations          = operations_in_cell(prim_cell, search.operations)             (stage model S4)
  orbits              = orbits_in_cell(prim natoms, search.permutations, prim_cell.site_mapping)   (S7)
  mapping_std_prim    = prim_cell.site_mapping
  std_prim_wyckoffs[j]= the Wyckoff position of the FIRST site i of the standardized cell with
                        std_cell.site_mapping[i] = j      (loop with `is_none()` guard)
  wyckoffs[a]         = std_prim_wyckoffs[mapping_std_prim[a]]   (`None` -> WyckoffPositionAssignmentError)
  (std_linear, std_origin_shift)           = (L⁻¹ P,  L⁻¹ p)   with L = prim_cell.linear, (P,p) = std_cell.transformation
  (prim_std_linear, prim_std_origin_shift) = (L⁻¹ P', L⁻¹ p')  with (P',p') = std_cell.prim_transformation
  pearson_symbol      = bravais class of (hall number -> arithmetic number) ++ number of atoms of std_cell
  number, hall_number, std_cell, prim_std_cell, std_rotation_matrix, symprec, angle_tolerance: copies.

Direction conventions (lib.rs comment `cell <-(prim_cell.linear, 0)- prim_cell.cell -(std_cell.transformation)-> std_cell.cell`):
`A_in = A_prim · L`, `x_prim = L · x_in`; `A_std = A_prim · P`, `x_std = P⁻¹ (x_prim − p)`.

The evaluation order is the order of the statements of lib.rs (the Wyckoff error is returned before the
`try_inverse().unwrap()` and the table `unwrap()`s are reached).  Exact rational arithmetic, core Lean only.
-/
namespace Moyo.Glue
open Moyo Moyo.Generated

/-- `WyckoffPosition` as far as lib.rs looks at it. -/
structure Wy where
  letter : String
  multiplicity : Nat
  siteSymmetry : String
deriving DecidableEq, Repr, Inhabited

/-- The results of the stages that the body of `MoyoDataset::new` reads. -/
structure Input where
  -- PrimitiveCell
  primLinear : M3
  primSiteMapping : List Nat
  /-- `prim_cell.cell.num_atoms()` -/
  primNatoms : Nat
  translations : List Q3
  -- PrimitiveSymmetrySearch
  ops : List OpQ
  perms : List (List Nat)
  -- SpaceGroup
  number : Int
  hallNumber : Int
  -- StandardizedCell
  stdCell : CellQ
  primStdCell : CellQ
  tlinear : M3
  tshift : Q3
  ptlinear : M3
  ptshift : Q3
  rot : QM3
  stdSiteMapping : List Nat
  wyckoffs : List Wy
  -- tolerances returned by `iterative_symmetry_search`
  symprec : Rat
  angtol : Option Rat

/-- The fields of `MoyoDataset`, in the order of the struct. -/
structure Output where
  number : Int
  hallNumber : Int
  operations : List OpQ
  orbits : List Nat
  wyckoffs : List String
  siteSymmetrySymbols : List String
  stdCell : CellQ
  stdLinear : QM3
  stdOriginShift : Q3
  stdRotationMatrix : QM3
  pearsonSymbol : String
  primStdCell : CellQ
  primStdLinear : QM3
  primStdOriginShift : Q3
  mappingStdPrim : List Nat
  symprec : Rat
  angtol : Option Rat

inductive Outcome
  | ok (d : Output)
  | err (name : String)
  | panic (site : String)

def Outcome.get? : Outcome → Option Output
  | .ok d => some d
  | _ => none

def Outcome.tag : Outcome → String
  | .ok _ => "ok"
  | .err name => "err " ++ name
  | .panic site => "panic " ++ site

/-- How the lookup of the per-atom Wyckoff positions can fail. -/
inductive Fail
  | err (name : String)
  | panic (site : String)

def Fail.toOutcome : Fail → Outcome
  | .err name => .err name
  | .panic site => .panic site

/-- The loop
```
for (i, wyckoff) in std_cell.wyckoffs.iter().enumerate() {
    let j = std_cell.site_mapping[i];
    if std_prim_wyckoffs[j].is_none() { std_prim_wyckoffs[j] = Some(wyckoff.clone()); }
}
```
run on the remaining Wyckoff positions `ws` and the remaining entries `js` of `site_mapping`
(`error` = index out of bounds, a panic in Rust). -/
def fillWy : List Wy → List Nat → List (Option Wy) → Except String (List (Option Wy))
  | [], _, acc => .ok acc
  | _ :: _, [], _ => .error "std_cell.site_mapping[i]"
  | w :: ws, j :: js, acc =>
    if j < acc.length then
      fillWy ws js (if (acc.getD j none).isNone then acc.set j (some w) else acc)
    else .error "std_prim_wyckoffs[j]"

/-- `vec![None; prim natoms]` filled by the loop. -/
def stdPrimWyckoffs (n : Nat) (ws : List Wy) (siteMapping : List Nat) : Except String (List (Option Wy)) :=
  fillWy ws siteMapping (List.replicate n none)

/-- `mapping_std_prim.iter().map(|&i| std_prim_wyckoffs[i].clone()).collect::<Option<Vec<_>>>()` followed by
`ok_or(WyckoffPositionAssignmentError)?`: sequential, the first `None` ends the iteration (later indices are
not touched), an index out of bounds panics. -/
def lookupWy (tbl : List (Option Wy)) : List Nat → Except Fail (List Wy)
  | [] => .ok []
  | i :: rest =>
    match tbl[i]? with
    | none => .error (.panic "std_prim_wyckoffs[i]")
    | some none => .error (.err "WyckoffPositionAssignmentError")
    | some (some w) =>
      match lookupWy tbl rest with
      | .ok l => .ok (w :: l)
      | .error e => .error e

/-- `prim_cell.linear.map(|e| e as f64).try_inverse()` (exact: adjugate over determinant). -/
def linearInv (L : M3) : Option QM3 :=
  if L.det = 0 then none else some (QM3.ofM3 L).inv

/-- `(L⁻¹, 0) * (P, p)`: the pair `(L⁻¹ P, L⁻¹ p)`. -/
def composeInv (Linv : QM3) (P : M3) (p : Q3) : QM3 × Q3 :=
  (Linv.mul (QM3.ofM3 P), Linv.apply p)

/-- `hall_symbol_entry(h)` → `arithmetic_crystal_class_entry(arithmetic_number)` → `bravais_class.to_string()`
(`BravaisClass::to_string` prints the variant name, which is what the regenerated table stores);
`error` names the `unwrap()` that panics. -/
def bravaisOfHall (hall : Int) : Except String String :=
  if hall ≤ 0 then .error "hall_symbol_entry unwrap" else
  match hallTable[hall.toNat - 1]? with
  | none => .error "hall_symbol_entry unwrap"
  | some e =>
    if e.arithmeticNumber = 0 then .error "arithmetic_crystal_class_entry unwrap" else
    match arithTable[e.arithmeticNumber - 1]? with
    | none => .error "arithmetic_crystal_class_entry unwrap"
    | some a => .ok a.bravaisClass

/-- `format!("{}{}", bravais_class.to_string(), std_cell.cell.num_atoms())`. -/
def pearson (bravais : String) (natoms : Nat) : String := bravais ++ toString natoms

/-- The body of `MoyoDataset::new` after the stages. -/
def glue (inp : Input) : Outcome :=
  let operations := Stage.operationsInCell inp.primLinear inp.translations inp.ops
  let orbits := Orbits.orbitsInCell inp.primNatoms inp.perms inp.primSiteMapping
  let mappingStdPrim := inp.primSiteMapping
  match stdPrimWyckoffs inp.primNatoms inp.wyckoffs inp.stdSiteMapping with
  | .error site => .panic site
  | .ok tbl =>
  match lookupWy tbl mappingStdPrim with
  | .error f => f.toOutcome
  | .ok wys =>
  match linearInv inp.primLinear with
  | none => .panic "prim_cell.linear try_inverse unwrap"
  | some Linv =>
  let std := composeInv Linv inp.tlinear inp.tshift
  let prim := composeInv Linv inp.ptlinear inp.ptshift
  match bravaisOfHall inp.hallNumber with
  | .error site => .panic site
  | .ok bravais =>
  .ok {
    number := inp.number
    hallNumber := inp.hallNumber
    operations := operations
    orbits := orbits
    wyckoffs := wys.map (·.letter)
    siteSymmetrySymbols := wys.map (·.siteSymmetry)
    stdCell := inp.stdCell
    stdLinear := std.1
    stdOriginShift := std.2
    stdRotationMatrix := inp.rot
    pearsonSymbol := pearson bravais inp.stdCell.n
    primStdCell := inp.primStdCell
    primStdLinear := prim.1
    primStdOriginShift := prim.2
    mappingStdPrim := mappingStdPrim
    symprec := inp.symprec
    angtol := inp.angtol }

/-- Worked input (non-vacuity of the theorems): a body-centred supercell description (`L` of determinant 2,
two input atoms on one primitive site), identity standardization to a two-site conventional cell of
Hall number 529 (`-I 4 2 3`, `cI`). -/
def exampleInput : Input :=
  { primLinear := ⟨1, 0, 0, 0, 1, 0, 0, 0, 2⟩, primSiteMapping := [0, 0], primNatoms := 1,
    translations := [⟨0, 0, 0⟩, ⟨0, 0, 1 / 2⟩],
    ops := [⟨M3.one, Q3.zero⟩, ⟨M3.one.neg, Q3.zero⟩], perms := [[0], [0]],
    number := 229, hallNumber := 529,
    stdCell := ⟨QM3.one, #[⟨0, 0, 0⟩, ⟨1 / 2, 1 / 2, 1 / 2⟩], #[1, 1]⟩,
    primStdCell := ⟨⟨-1 / 2, 1 / 2, 1 / 2, 1 / 2, -1 / 2, 1 / 2, 1 / 2, 1 / 2, -1 / 2⟩, #[⟨0, 0, 0⟩], #[1]⟩,
    tlinear := ⟨0, 1, 1, 1, 0, 1, 1, 1, 0⟩, tshift := ⟨1 / 4, 0, 1 / 2⟩,
    ptlinear := M3.one, ptshift := ⟨1 / 4, 0, 1 / 2⟩,
    rot := QM3.one, stdSiteMapping := [0, 0],
    wyckoffs := [⟨"a", 2, "m-3m"⟩, ⟨"a", 2, "m-3m"⟩],
    symprec := 1 / 10000, angtol := none }

end Moyo.Glue
