import Moyo.Model.StageStd
import Moyo.Model.StageStdMono
import Moyo.Model.Wyckoff
import Moyo.Model.OrbitsC07
/-
Stage S6, part 3: `assign_wyckoffs` / `assign_wyckoff_position` (moyo/src/symmetrize/standardize.rs).

For a site of the standardized cell and the multiplicity of its orbit, the rows of the Wyckoff table
with that Hall number and multiplicity are tried in table order; for each row the 27 offsets of
`[-1,1]³` and then the 98 offsets of the `|n|∞ = 2` shell are tried in the order of `iproduct!`; the
free parameters are solved through the Smith normal form `D = L · linear · R` and the first
`(row, offset)` with `‖lattice · diff‖ < symprec` wins (compared on exact squares; the comparison is
flagged fragile within 1e-9 relative of the threshold).  Orbits are those of `orbits_in_cell`.
Core Lean only.
-/
namespace Moyo.StageStd
open Moyo Moyo.Generated Moyo.Wyckoff

def r2 : List Int := [-2, -1, 0, 1, 2]

/-- `iter_multi_1.chain(iter_multi_2)`. -/
def wyckoffOffsets : List Z3 :=
  (r1.flatMap fun a => r1.flatMap fun b => r1.map fun c => (⟨a, b, c⟩ : Z3)) ++
  ((r2.flatMap fun a => r2.flatMap fun b => r2.map fun c => (⟨a, b, c⟩ : Z3)).filter fun v =>
    v.x.natAbs == 2 || v.y.natAbs == 2 || v.z.natAbs == 2)

/-- A table row with its parsed coordinate space and the SNF of `space.linear`. -/
structure WyRow where
  entry : WyckoffEntry
  space : Space
  d : Z3
  l : M3
  r : M3

def WyRow.ofEntry? (e : WyckoffEntry) : Option WyRow :=
  (Space.new? e.coordinates).map fun sp =>
    let s := snf (toIMat sp.linear)
    ⟨e, sp, ⟨s.d.get 0 0, s.d.get 1 1, s.d.get 2 2⟩, ofIMat s.l, ofIMat s.r⟩

/-- `diff = linear · y + origin − position − offset` with `y = R · (b_i / D_ii)`, `b = L (offset + position − origin)`. -/
def residual (w : WyRow) (position : Q3) (offset : Z3) : Q3 :=
  let off := Z3.toQ3 offset
  let b := w.l.applyQ ((off.add position).sub w.space.origin)
  let rinvy : Q3 := ⟨if w.d.x ≠ 0 then b.x / (w.d.x : Rat) else 0,
                     if w.d.y ≠ 0 then b.y / (w.d.y : Rat) else 0,
                     if w.d.z ≠ 0 then b.z / (w.d.z : Rat) else 0⟩
  let y := w.r.applyQ rinvy
  (((w.space.linear.applyQ y).add w.space.origin).sub position).sub off

/-- Margin of the threshold comparison `norm < symprec`: relative 1e-9 on the norm. -/
def normFragile (nsq ssq : Rat) : Bool := decide (rabs (nsq - ssq) ≤ 3 * e9 * ssq)

inductive WyAnswer
  | found (e : WyckoffEntry)
  | notFound
  | panic (msg : String)

/-- `assign_wyckoff_position(position, multiplicity, hall_number, lattice, symprec)`: answer and fragility. -/
def assignWyckoffPosition (lat : QM3) (symprec : Rat) (hall mult : Nat) (position : Q3) : WyAnswer × Bool :=
  let ssq := symprec * symprec
  let rec rows (es : List WyckoffEntry) (frag : Bool) : WyAnswer × Bool :=
    match es with
    | [] => (.notFound, frag)
    | e :: rest =>
      match WyRow.ofEntry? e with
      | none => (.panic s!"WyckoffPositionSpace::new on '{e.coordinates}'", frag)
      | some w =>
        let rec offs (os : List Z3) (frag : Bool) : Bool × Bool :=
          match os with
          | [] => (false, frag)
          | o :: os' =>
            let nsq := (lat.apply (residual w position o)).normSq
            let fr := frag || normFragile nsq ssq
            if nsq < ssq then (true, fr) else offs os' fr
        let (hit, fr) := offs wyckoffOffsets frag
        if hit then (.found e, fr) else rows rest fr
  rows (iterWyckoffPositions hall mult) false

structure WyResult where
  /-- per site of the standardized cell -/
  wyckoffs : List WyckoffEntry := []
  orbits : List Nat := []
  fragile : Bool := false
  /-- `err WyckoffPositionAssignmentError` / `panic …` -/
  bad : Option String := none

/-- `assign_wyckoffs(prim_std_cell, prim_std_permutations, std_cell, site_mapping, hall_number, symprec)`. -/
def assignWyckoffs (primN : Nat) (perms : List (List Nat)) (stdPos : List Q3) (stdLat : QM3)
    (siteMapping : List Nat) (hall : Nat) (symprec : Rat) : WyResult :=
  let orbits := Orbits.orbitsInCell primN perms siteMapping
  let n := stdPos.length
  -- mapping: site -> orbit number; remapping is not used afterwards
  let (mapping, numOrbits) := (List.range n).foldl (fun (acc : Array Nat × Nat) i =>
    let (mp, k) := acc
    if orbits.getD i i == i then (mp.push k, k + 1) else (mp.push (mp.getD (orbits.getD i i) 0), k)) (#[], 0)
  let multiplicities := (List.range n).foldl (fun (acc : Array Nat) i =>
    let o := mapping.getD i 0
    acc.setIfInBounds o (acc.getD o 0 + 1)) (Array.replicate numOrbits 0)
  let (reps, frag, pan) := (List.range n).foldl (fun (acc : Array (Option WyckoffEntry) × Bool × Option String) i =>
    let (reps, frag, pan) := acc
    let o := mapping.getD i 0
    if (reps.getD o none).isSome || pan.isSome then acc else
    match assignWyckoffPosition stdLat symprec hall (multiplicities.getD o 0) (stdPos.getD i Q3.zero) with
    | (.found e, fr) => (reps.setIfInBounds o (some e), frag || fr, pan)
    | (.notFound, fr) => (reps, frag || fr, pan)
    | (.panic m, fr) => (reps, frag || fr, some m))
    (Array.replicate numOrbits none, false, none)
  match pan with
  | some m => { orbits := orbits, fragile := frag, bad := some ("panic " ++ m) }
  | none =>
    if reps.any (·.isNone) then { orbits := orbits, fragile := frag, bad := some "err WyckoffPositionAssignmentError" }
    else
      { orbits := orbits, fragile := frag,
        wyckoffs := (List.range n).filterMap fun i => reps.getD (mapping.getD (orbits.getD i i) 0) none }

end Moyo.StageStd
