/-
C19 model: JSON values, the schema language `Ty` of the serde data model as moyo uses it, typed
values `Val`, and the codec `encode : Ty → Val → Json`, `decode : Ty → Json → Option Val`.
Import-free (core Lean only): linked into the native driver.

Numbers.  serde_json distinguishes, syntactically, integer tokens (`-?digits`) from tokens with a
fraction or an exponent.  An integer field accepts only the former; `f64` fields are *printed* with a
fraction or an exponent always (`1.0`, `1e-6`).  The model keeps an integer token as the `Int` it
denotes and a decimal token as its text: the codec is exact on tokens.  Which f64 a decimal token
denotes, and which token an f64 is printed as (`ryu`, `serde_json`'s number parser), are outside the
model; the assumed law "parse ∘ print is within 1e-15 relative" is in the trusted base and is
observed on every explored value by the harness.

Matrices.  nalgebra serialises `Matrix<T, R, C>` as ONE flat sequence of `R*C` elements in
column-major order (position `j*R + i` holds entry `(i, j)`).  A matrix value is kept here as the list
of its rows, `Val.list [Val.list row₀, …]`, so entry `(i, j)` is `rows[i][j]`; `encode` performs the
column-major flattening and `decode` undoes it.
-/
namespace Moyo.Json

inductive Json where
  | null
  | bool (b : Bool)
  /-- integer token -/
  | int (i : Int)
  /-- number token with fraction and/or exponent, kept verbatim -/
  | dec (tok : String)
  | str (s : String)
  | arr (xs : List Json)
  /-- object with its fields in document order -/
  | obj (fields : List (String × Json))
  deriving Repr, Inhabited

inductive Ty where
  /-- integer with the range of the Rust type -/
  | int (lo hi : Int)
  | float
  | string
  | char
  | bool
  | seq (t : Ty)
  | array (n : Nat) (t : Ty)
  /-- nalgebra `Matrix<t, r, c>`: flat column-major sequence of `r*c` elements -/
  | matrix (r c : Nat) (t : Ty)
  /-- struct with named fields, in declaration order -/
  | struct (fields : List (String × Ty))
  /-- externally tagged enum; `none` = unit variant, `some t` = newtype variant -/
  | enum (variants : List (String × Option Ty))
  /-- newtype struct: serialised as its content -/
  | newtype (t : Ty)
  deriving Repr, Inhabited

inductive Val where
  | int (i : Int)
  /-- a float, as the decimal token it is printed as -/
  | float (tok : String)
  | str (s : String)
  | char (c : Char)
  | bool (b : Bool)
  /-- sequences, arrays, and matrices (list of rows, each a `list`) -/
  | list (xs : List Val)
  | struct (fields : List (String × Val))
  | variant (name : String) (payload : Option Val)
  | newtype (v : Val)
  deriving Repr, Inhabited

/-- First variant with the given name. -/
def lookupVariant : List (String × Option Ty) → String → Option (Option Ty)
  | [], _ => none
  | (n, p) :: rest, k => if n = k then some p else lookupVariant rest k

/-! ### column-major layout -/

/-- Column-major flattening of an `r × c` matrix given as the list of its rows:
position `k = j*r + i` holds `M[i][j]`. -/
def cmFlatten {α : Type} [Inhabited α] (r c : Nat) (M : List (List α)) : List α :=
  (List.range (r * c)).map fun k => (M.getD (k % r) []).getD (k / r) default

/-- Inverse layout: rows of the `r × c` matrix stored column-major in `xs`. -/
def cmUnflatten {α : Type} [Inhabited α] (r c : Nat) (xs : List α) : List (List α) :=
  (List.range r).map fun i => (List.range c).map fun j => xs.getD (j * r + i) default

/-! ### encoding -/

mutual
def encode : Ty → Val → Json
  | .int _ _, .int i => .int i
  | .float, .float t => .dec t
  | .string, .str s => .str s
  | .char, .char c => .str (String.singleton c)
  | .bool, .bool b => .bool b
  | .seq t, .list xs => .arr (encodeList t xs)
  | .array _ t, .list xs => .arr (encodeList t xs)
  | .matrix r c t, .list rows => .arr (cmFlatten r c (encodeRows t rows))
  | .struct fs, .struct vs => .obj (encodeFields fs vs)
  | .enum _, .variant n none => .str n
  | .enum vs, .variant n (some p) =>
      match lookupVariant vs n with
      | some (some t) => .obj [(n, encode t p)]
      | _ => .null
  | .newtype t, .newtype v => encode t v
  | _, _ => .null
termination_by structural _ v => v
def encodeList : Ty → List Val → List Json
  | _, [] => []
  | t, v :: vs => encode t v :: encodeList t vs
termination_by structural _ vs => vs
/-- rows of a matrix value, each encoded element-wise -/
def encodeRows : Ty → List Val → List (List Json)
  | _, [] => []
  | t, .list es :: vs => encodeList t es :: encodeRows t vs
  | t, _ :: vs => [] :: encodeRows t vs
termination_by structural _ vs => vs
def encodeFields : List (String × Ty) → List (String × Val) → List (String × Json)
  | (n, t) :: fs, (_, v) :: vs => (n, encode t v) :: encodeFields fs vs
  | _, _ => []
termination_by structural _ vs => vs
end

/-! ### decoding (strict: exactly the schema's fields, in order; nothing extra, nothing missing) -/

mutual
def decode : Ty → Json → Option Val
  | .int lo hi, .int i => if lo ≤ i ∧ i ≤ hi then some (.int i) else none
  | .float, .dec t => some (.float t)
  | .string, .str s => some (.str s)
  | .char, .str s =>
      match s.toList with
      | [c] => some (.char c)
      | _ => none
  | .bool, .bool b => some (.bool b)
  | .seq t, .arr xs => (decodeList t xs).map .list
  | .array n t, .arr xs =>
      match decodeList t xs with
      | some vs => if vs.length = n then some (.list vs) else none
      | none => none
  | .matrix r c t, .arr xs =>
      match decodeList t xs with
      | some vs => if vs.length = r * c then some (.list ((cmUnflatten r c vs).map .list)) else none
      | none => none
  | .struct fs, .obj kvs => (decodeFields fs kvs).map .struct
  | .enum vs, .str n =>
      match lookupVariant vs n with
      | some none => some (.variant n none)
      | _ => none
  | .enum vs, .obj [(n, j)] =>
      match lookupVariant vs n with
      | some (some t) => (decode t j).map fun p => .variant n (some p)
      | _ => none
  | .newtype t, j => (decode t j).map .newtype
  | _, _ => none
def decodeList : Ty → List Json → Option (List Val)
  | _, [] => some []
  | t, j :: js =>
      match decode t j, decodeList t js with
      | some v, some vs => some (v :: vs)
      | _, _ => none
def decodeFields : List (String × Ty) → List (String × Json) → Option (List (String × Val))
  | [], [] => some []
  | (n, t) :: fs, (k, j) :: kvs =>
      if n = k then
        match decode t j, decodeFields fs kvs with
        | some v, some vs => some ((n, v) :: vs)
        | _, _ => none
      else none
  | _, _ => none
end

/-! ### well-typedness (decidable: a `Bool`-valued checker) -/

mutual
def wt : Ty → Val → Bool
  | .int lo hi, .int i => decide (lo ≤ i) && decide (i ≤ hi)
  | .float, .float _ => true
  | .string, .str _ => true
  | .char, .char _ => true
  | .bool, .bool _ => true
  | .seq t, .list xs => wtList t xs
  | .array n t, .list xs => decide (xs.length = n) && wtList t xs
  | .matrix r c t, .list rows => decide (rows.length = r) && wtRows c t rows
  | .struct fs, .struct vs => wtFields fs vs
  | .enum vs, .variant n none =>
      match lookupVariant vs n with
      | some none => true
      | _ => false
  | .enum vs, .variant n (some p) =>
      match lookupVariant vs n with
      | some (some t) => wt t p
      | _ => false
  | .newtype t, .newtype v => wt t v
  | _, _ => false
def wtList : Ty → List Val → Bool
  | _, [] => true
  | t, v :: vs => wt t v && wtList t vs
def wtRows : Nat → Ty → List Val → Bool
  | _, _, [] => true
  | c, t, .list es :: vs => decide (es.length = c) && wtList t es && wtRows c t vs
  | _, _, _ :: _ => false
def wtFields : List (String × Ty) → List (String × Val) → Bool
  | [], [] => true
  | (n, t) :: fs, (k, v) :: vs => decide (n = k) && wt t v && wtFields fs vs
  | _, _ => false
end

/-- `v` is a value of type `t`. -/
def WellTyped (t : Ty) (v : Val) : Prop := wt t v = true

instance (t : Ty) (v : Val) : Decidable (WellTyped t v) := by unfold WellTyped; infer_instance

/-- Names of the fields of an object, in document order. -/
def Json.keys : Json → List String
  | .obj kvs => kvs.map Prod.fst
  | _ => []

end Moyo.Json
