import Moyo.Model.StageSearch
import Moyo.Model.HNF
import Moyo.Model.OrbitsC07
/-
Stage S1: model of `PrimitiveCell::new` (moyo/src/search/primitive_cell.rs) with
`UnimodularTransformation::transform_cell`, `transformation_matrix_from_translations`,
`primitive_cell_from_transformation`, `site_mapping_from_orbits`.

Oracle record `H` (DESIGN §2.1): `mink1` = the Minkowski matrix of the input lattice (`none` = the
reduction reported `MinkowskiReductionError`), `cands` = the `(permutation, rough translation)` pairs that
came back from the kd-tree, `mink2` = the Minkowski matrix of the primitive lattice.  Everything else is
computed here in exact rational arithmetic.  Import-free.
-/
namespace Moyo.Search

/-- `UnimodularTransformation::from_linear(T)`: panics unless `det = 1`; `linear_inv = round(T⁻¹)`, which for an
integer matrix of determinant 1 is the adjugate. -/
def unimodInv? (T : M3) : Option M3 := if T.det = 1 then some T.adj else none

/-- `UnimodularTransformation::transform_cell` (zero origin shift): basis `A·T`, positions `T⁻¹ x`. -/
def transformCellU (T Tinv : M3) (c : CellQ) : CellQ :=
  ⟨c.lat.mul (QM3.ofM3 T), c.pos.map Tinv.applyQ, c.num⟩

def minColNormSq (A : QM3) : Rat :=
  let a := (A.col 0).normSq
  let b := (A.col 1).normSq
  let d := (A.col 2).normSq
  let m := if b < a then b else a
  if d < m then d else m

/-- A proposal of the kd-tree for a pure translation. -/
structure TCand where
  perm : Perm
  rough : Q3
deriving Repr, Inhabited

/-- "Purify translations by permutations": accepted `(translation, permutation)` pairs in order. -/
def purifyT (c : CellQ) (symprec : Rat) (cands : List TCand) : List (Q3 × Perm) :=
  cands.filterMap fun cd =>
    let t := symTranslation c cd.perm M3.one cd.rough
    if accept c symprec cd.perm M3.one t then some (t, cd.perm) else none

/-! ### `transformation_matrix_from_translations` -/

/-- The columns handed to `HNF::new`: `size·e₁, size·e₂, size·e₃`, then `round(size·t)` per translation. -/
def translationColumns (ts : List Q3) : List Z3 :=
  let size : Int := ts.length
  [⟨size, 0, 0⟩, ⟨0, size, 0⟩, ⟨0, 0, size⟩] ++
    ts.map fun t => ⟨ratRound (t.x * size), ratRound (t.y * size), ratRound (t.z * size)⟩

def colsToIMat (cols : List Z3) : IMat 3 cols.length :=
  IMat.ofFn fun i j =>
    let v := cols.getD j.val ⟨0, 0, 0⟩
    if i.val = 0 then v.x else if i.val = 1 then v.y else v.z

def IMat.getD' {m n : Nat} (A : IMat m n) (i j : Nat) : Int :=
  if h : i < m ∧ j < n then A.get ⟨i, h.1⟩ ⟨j, h.2⟩ else 0

/-- First three columns of the Hermite normal form. -/
def hnfLeading (cols : List Z3) : M3 :=
  let h := (hnf (colsToIMat cols)).h
  ⟨IMat.getD' h 0 0, IMat.getD' h 0 1, IMat.getD' h 0 2,
   IMat.getD' h 1 0, IMat.getD' h 1 1, IMat.getD' h 1 2,
   IMat.getD' h 2 0, IMat.getD' h 2 1, IMat.getD' h 2 2⟩

/-- `round(size · H⁻¹)` entry-wise, `H⁻¹ = adj H / det H`. -/
def roundScaledInv (size : Int) (H : M3) : M3 :=
  let d : Rat := H.det
  let f (x : Int) : Int := ratRound ((size : Rat) * (x : Rat) / d)
  let a := H.adj
  ⟨f a.a, f a.b, f a.c, f a.d, f a.e, f a.f, f a.g, f a.h, f a.i⟩

inductive TransMat
  | ok (M : M3)
  /-- `None`: determinant test failed -/
  | none
  /-- `try_inverse().unwrap()` on a singular matrix -/
  | panic
deriving Repr, DecidableEq

def transformationMatrixFromTranslations (ts : List Q3) : TransMat :=
  let size : Int := ts.length
  let H := hnfLeading (translationColumns ts)
  if H.det = 0 then .panic else
  let M := roundScaledInv size H
  if M.det ≠ size then .none else .ok M

/-! ### `primitive_cell_from_transformation` -/

/-- `site_mapping_from_orbits`: orbit labels are renumbered in order of first appearance. -/
def siteMappingFromOrbits (orbits : List Nat) : List Nat :=
  let keys := orbits.foldl (fun seen r => if seen.contains r then seen else seen ++ [r]) []
  orbits.map fun r => keys.idxOf r

/-- Averaged position of the orbit representative `o`, Eq. (25): `M (x_o + (Σ_k wrap(x_{π_k⁻¹(o)} + t_k - x_o)) / size)`. -/
def averagedPosition (c : CellQ) (M : M3) (acc : List (Q3 × Perm)) (invs : List Perm) (o : Nat) : Q3 :=
  let terms := (invs.zip (acc.map (·.1))).map fun (ip, t) =>
    let d := ((posAt c (papply ip o)).add t).sub (posAt c o)
    d.sub (Q3.roundV d)
  M.applyQ ((posAt c o).add (Q3.smul (1 / (acc.length : Rat)) (sumQ3 terms)))

structure PrimParts where
  cell : CellQ
  siteMapping : List Nat
  representatives : List Nat

def primitiveCellFromTransformation (c : CellQ) (M : M3) (acc : List (Q3 × Perm)) : PrimParts :=
  let Minv : QM3 := (QM3.ofM3 M).inv
  let orbits := Orbits.orbitsFromPermutations c.n (acc.map (·.2))
  let reps := (List.range c.n).filter fun i => orbits.getD i i == i
  let invs := acc.map fun a => pinv a.2
  let pos := reps.map (averagedPosition c M acc invs)
  let num := reps.map (numAt c)
  ⟨⟨c.lat.mul Minv, pos.toArray, num.toArray⟩, siteMappingFromOrbits orbits, reps⟩

/-! ### `PrimitiveCell::new` -/

structure PrimRes where
  /-- reduced primitive cell -/
  cell : CellQ
  linear : M3
  siteMapping : List Nat
  /-- translations in the input cell -/
  translations : List Q3
  perms : List Perm
  /-- intermediate: `trans_mat` (primitive → reduced input cell) -/
  transMat : M3
  /-- intermediate: the reduced input cell -/
  reduced : CellQ
deriving Inhabited

def primitiveModel (c : CellQ) (symprec : Rat) (mink1 : Option M3) (cands : List TCand) (mink2 : Option M3) :
    Except Err PrimRes :=
  match mink1 with
  | none => .error .minkowski
  | some T1 =>
  match unimodInv? T1 with
  | none => .error (.panic "UnimodularTransformation::new")
  | some T1inv =>
    let red := transformCellU T1 T1inv c
    if guardTooLarge (minColNormSq red.lat) symprec then .error .tooLarge else
    if c.n = 0 then .error (.panic "pivot_site_indices") else
    if !(cands.all fun cd => permOk red cd.perm) then .error .badProposal else
    let acc := purifyT red symprec cands
    let size := acc.length
    if size = 0 ∨ c.n % size ≠ 0 then .error .tooSmall else
    match transformationMatrixFromTranslations (acc.map (·.1)) with
    | .panic => .error (.panic "try_inverse")
    | .none => .error .tooSmall
    | .ok M =>
      let parts := primitiveCellFromTransformation red M acc
      match mink2 with
      | none => .error .minkowski
      | some T2 =>
      match unimodInv? T2 with
      | none => .error (.panic "UnimodularTransformation::new")
      | some T2inv =>
        .ok { cell := transformCellU T2 T2inv parts.cell
              linear := (T2inv.mul M).mul T1inv
              siteMapping := parts.siteMapping
              translations := acc.map fun a => T1.applyQ a.1
              perms := acc.map (·.2)
              transMat := M
              reduced := red }

end Moyo.Search
