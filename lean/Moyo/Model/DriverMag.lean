import Moyo.Model.MagOracle
/-
Driver command for the magnetic pipeline oracles: `mds <case line>` answers
`<tag> | <outcome> | <summary> | <failed clauses separated by " || ">`.
-/
namespace Moyo.DriverMag
open Moyo Moyo.MagOracle

def outcomeName : MagOutcome → String
  | .ok _ => "ok"
  | .err n => s!"err:{n}"
  | .panic _ => "panic"

def step? (line : String) : Option String :=
  match Wire.tokens line with
  | "mds" :: rest =>
    match parseMagCase? ("mds" :: rest) with
    | none => some "bad-case"
    | some cs =>
      let fails := checkAllMag cs
      let summ := match cs.out with
        | .ok d => magSummary d
        | _ => "-"
      some s!"{cs.tag} | {outcomeName cs.out} | {summ} | {" || ".intercalate fails}"
  -- `mdsN <case line>` (N = 11, 12, 13): one property's clauses only (profiling / replay aid)
  | cmd :: rest =>
    if cmd == "mds11" || cmd == "mds12" || cmd == "mds13" then
      match parseMagCase? ("mds" :: rest) with
      | none => some "bad-case"
      | some cs =>
        match cs.out with
        | .ok d =>
          let fails := if cmd == "mds11" then checkC11 cs d else if cmd == "mds12" then checkC12 cs d else checkC13 cs d
          some s!"{cs.tag} | ok | {magSummary d} | {" || ".intercalate fails}"
        | _ => some s!"{cs.tag} | {outcomeName cs.out} | - | "
    else none
  | _ => none

end Moyo.DriverMag
