import Moyo.Model.MagOracle
/-
Driver command for the magnetic pipeline oracles: `mds <case line>` answers
`<tag> | <outcome> | <summary> | <failed clauses separated by " || ">`.
-/
namespace Moyo.DriverMag
open Moyo Moyo.MagOracle

def outcomeName : MagOutcome → String
  | .ok _ => "ok"
  | .err n => s!"err:{n}"
  | .panic _ => "panic"

def step? (line : String) : Option String :=
  match Wire.tokens line with
  | "mds" :: rest =>
    match parseMagCase? ("mds" :: rest) with
    | none => some "bad-case"
    | some cs =>
      let fails := checkAllMag cs
      let summ := match cs.out with
        | .ok d => magSummary d
        | _ => "-"
      some s!"{cs.tag} | {outcomeName cs.out} | {summ} | {" || ".intercalate fails}"
  | _ => none

end Moyo.DriverMag
