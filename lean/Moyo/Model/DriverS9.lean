import Moyo.Model.StageGlue
import Moyo.Model.DriverS6
/-
Driver command of the stage model S9 (glue of `MoyoDataset::new`, `Moyo/Model/StageGlue.lean`).

`s9 <tag> ; linear 9 ; sitemap … ; pn n ; ntrans k ; trans 3k ; nops m ; ops 12m ; perms p1 , p2 , … ;
    number N ; hallnum H ; stdlat 9 ; stdn a ; stdpos 3a ; stdnum a ; primlat 9 ; primn b ; primpos 3b ; primnum b ;
    tlinear 9 ; tshift 3 ; ptlinear 9 ; ptshift 3 ; rot 9 ; ssitemap … ; wyck l:m:sym … ; symprec s ; angtol default|radian r`
answers in the format of `pipeline::dataset_segments` of the harness:
`out ok ; number … ; hallnum … ; nops … ; ops … ; orbits … ; wyck … ; sitesym … ; stdlat … ; stdn … ; stdpos … ; stdnum … ;
    stdlinear … ; stdshift … ; stdrot … ; pearson … ; primlat … ; primn … ; primpos … ; primnum … ; primlinear … ;
    primshift … ; mapping … ; osymprec … ; oangtol …`, `out err ; errname <name>` or `out panic ; msg <site>`.
-/
namespace Moyo.DriverS9
open Moyo Moyo.Wire Moyo.Glue

/-- `letter:multiplicity:site_symmetry`. -/
def parseWy? (t : String) : Option Wy :=
  match t.splitOn ":" with
  | [l, m, s] => m.toNat?.map fun m => ⟨l, m, s⟩
  | _ => none

def parseInput? (ts : List String) : Option Input := do
  let segs := segments ts
  let L ← (← parseInts? (← seg? segs "linear")) |> M3.ofList?
  let sitemap ← parseNats? (← seg? segs "sitemap")
  let pn ← ((← seg? segs "pn").head?).bind String.toNat?
  let trans ← q3s? (← parseRats? (← seg? segs "trans"))
  let nops ← ((← seg? segs "nops").head?).bind String.toNat?
  let ops ← parseOps? nops (← seg? segs "ops")
  let perms ← DriverS6.parsePerms? (← seg? segs "perms")
  let number ← ((← seg? segs "number").head?).bind String.toInt?
  let hall ← ((← seg? segs "hallnum").head?).bind String.toInt?
  let stdCell ← parseCell? segs "std"
  let primCell ← parseCell? segs "prim"
  let tlinear ← (← parseInts? (← seg? segs "tlinear")) |> M3.ofList?
  let tshift ← (← parseRats? (← seg? segs "tshift")) |> Q3.ofList?
  let ptlinear ← (← parseInts? (← seg? segs "ptlinear")) |> M3.ofList?
  let ptshift ← (← parseRats? (← seg? segs "ptshift")) |> Q3.ofList?
  let rot ← (← parseRats? (← seg? segs "rot")) |> QM3.ofList?
  let ssitemap ← parseNats? (← seg? segs "ssitemap")
  let wy ← (← seg? segs "wyck").mapM parseWy?
  let symprec ← ((← seg? segs "symprec").head?).bind parseRat?
  let angtol ← parseAngtol? (← seg? segs "angtol")
  pure { primLinear := L, primSiteMapping := sitemap, primNatoms := pn, translations := trans.toList,
         ops := ops.toList, perms := perms, number := number, hallNumber := hall,
         stdCell := stdCell, primStdCell := primCell, tlinear := tlinear, tshift := tshift,
         ptlinear := ptlinear, ptshift := ptshift, rot := rot, stdSiteMapping := ssitemap, wyckoffs := wy,
         symprec := symprec, angtol := angtol }

def cellOut (pre : String) (c : CellQ) : String :=
  s!"{pre}lat {ratsToString c.lat.toList} ; {pre}n {c.n} ; {pre}pos {DriverS6.q3sOut c.pos.toList} ; {pre}num {intsToString c.num.toList}"

def opsOut (ops : List OpQ) : String :=
  " ".intercalate (ops.map fun o => intsToString o.rot.toList ++ " " ++ ratsToString o.trans.toList)

def angtolOut : Option Rat → String
  | none => "default"
  | some r => s!"radian {ratToString r}"

def outputOut (d : Output) : String :=
  s!"out ok ; number {d.number} ; hallnum {d.hallNumber} ; nops {d.operations.length} ; ops {opsOut d.operations}" ++
  s!" ; orbits {natsToString d.orbits} ; wyck {" ".intercalate d.wyckoffs} ; sitesym {" ".intercalate d.siteSymmetrySymbols}" ++
  s!" ; {cellOut "std" d.stdCell} ; stdlinear {ratsToString d.stdLinear.toList} ; stdshift {ratsToString d.stdOriginShift.toList}" ++
  s!" ; stdrot {ratsToString d.stdRotationMatrix.toList} ; pearson {d.pearsonSymbol}" ++
  s!" ; {cellOut "prim" d.primStdCell} ; primlinear {ratsToString d.primStdLinear.toList} ; primshift {ratsToString d.primStdOriginShift.toList}" ++
  s!" ; mapping {natsToString d.mappingStdPrim} ; osymprec {ratToString d.symprec} ; oangtol {angtolOut d.angtol}"

def cmdS9 (ts : List String) : String :=
  match parseInput? ts with
  | none => "bad-case"
  | some inp =>
    match glue inp with
    | .ok d => outputOut d
    | .err name => s!"out err ; errname {name}"
    | .panic site => s!"out panic ; msg {site}"

def step? (line : String) : Option String :=
  match tokens line with
  | "s9" :: _tag :: rest => some (cmdS9 rest)
  | _ => none

end Moyo.DriverS9
