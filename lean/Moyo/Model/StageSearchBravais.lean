import Moyo.Model.Reduce
import Moyo.Model.Dataset
/-
Stage S2: executable model of `search_bravais_group`, `compare_nondiagonal_matrix_tensor_element`
(moyo/src/search/primitive_symmetry_search.rs) and `traverse` (moyo/src/base/operation.rs).

The code works in f64; the model works over exact rationals.  Every quantity the code compares with a
threshold is an algebraic expression in square roots of rationals:

* lengths `|v| = √(v·v)`;
* with `θ = angle(u, v) = acos(clamp(u·v / (|u||v|)))` in `[0, π]`:  `cos θ = u·v / (|u||v|)` and
  `sin θ = √(1 - r) ≥ 0` where `r = (u·v)² / (|u|²|v|²)` is rational, hence
  `cos_dtheta = cos θo cos θn + sin θo sin θn` needs lengths and one square root of a rational per angle;
* `acos(clamp(c)).abs() < tol` is `c > cos tol` for `0 < tol ≤ π` (never for `tol ≤ 0`, always for `tol > π`).

Square roots are enclosed by `sqrtDy` (width 2⁻¹⁰⁰, `Proofs/SearchBravais.lean: sqrtDy_sound`), `cos tol` by consecutive
partial sums of its alternating Taylor series, and everything is propagated by interval arithmetic.
A comparison whose exact value lies closer to the threshold than the error of the f64 evaluation is
*fragile*: the model takes the nominal verdict and raises the `frag` flag of the answer (such an answer is
not compared with the implementation's).
Import-free apart from the two model files (core Lean only).
-/
namespace Moyo.SearchBravais
open Moyo Moyo.Reduce Moyo.Wire

/-! ## Constants -/

def e9 : Rat := (1 : Rat) / ((10 ^ 9 : Nat) : Rat)
def e13 : Rat := (1 : Rat) / ((10 ^ 13 : Nat) : Rat)
def e15 : Rat := (1 : Rat) / ((10 ^ 15 : Nat) : Rat)

/-- `std::f64::consts::PI`, exactly (the largest value `acos` returns). -/
def PI64 : Rat := (884279719003555 : Rat) / ((2 ^ 48 : Nat) : Rat)

/-! ## Intervals and three-valued comparisons

A comparison returns `(verdict, fragile)`: when `fragile = false` the verdict is certain for every f64
evaluation whose error is below the margin `m`; otherwise the verdict is the nominal one. -/

/-- Enclosure of `|x|` from an enclosure of `x`. -/
def absIv (lo hi : Rat) : Rat × Rat :=
  if 0 ≤ lo then (lo, hi) else if hi ≤ 0 then (-hi, -lo) else (0, maxR (-lo) hi)

/-- Enclosure of `x²` from an enclosure of `x`. -/
def sqIv (lo hi : Rat) : Rat × Rat :=
  let (a, b) := absIv lo hi
  (a * a, b * b)

/-- `x < t` for `x ∈ [lo, hi]` with margin `m`. -/
def ltIv (lo hi t m : Rat) : Bool × Bool :=
  if hi < t - m then (true, false)
  else if t + m < lo then (false, false)
  else (decide (lo < t), true)

/-- `x > y` for `x ∈ [xl, xh]`, `y ∈ [yl, yh]` with margin `m`. -/
def gtIv (xl xh yl yh m : Rat) : Bool × Bool :=
  if m < xl - yh then (true, false)
  else if m < yl - xh then (false, false)
  else (decide (yh < xl), true)

/-! ## Square roots -/

/-- Newton iteration of `Nat.sqrt`, by structural recursion on fuel (so that the kernel can evaluate it). -/
def isqrtIter (n : Nat) : Nat → Nat → Nat
  | 0, g => g
  | fuel + 1, g =>
    let next := (g + n / g) / 2
    if next < g then isqrtIter n fuel next else g

/-- `⌊√n⌋`: the Newton result is checked (`s² ≤ n < (s+1)²`); `Nat.sqrt` is the (never needed) fallback. -/
def isqrt (n : Nat) : Nat :=
  if n ≤ 1 then n else
  let s := isqrtIter n (n.log2 + 2) (1 <<< (n.log2 / 2 + 1))
  if s * s ≤ n ∧ n < (s + 1) * (s + 1) then s else Nat.sqrt n

/-- `lo ≤ √q < hi` with `hi - lo = 2⁻¹⁰⁰`: with `m = ⌊q·4¹⁰⁰⌋` and `s = ⌊√m⌋` one has
`s ≤ √m ≤ 2¹⁰⁰√q < √(m+1) ≤ s + 1`.  (`(0, 0)` for `q ≤ 0`.) -/
def sqrtDy (q : Rat) : Rat × Rat :=
  if q ≤ 0 then (0, 0) else
  let m := (q.num.toNat * 2 ^ 200) / q.den
  let s := isqrt m
  let d : Rat := ((2 ^ 100 : Nat) : Rat)
  ((s : Rat) / d, ((s + 1 : Nat) : Rat) / d)

/-! ## Lattice points -/

/-- `iproduct!(-1..=1, -1..=1, -1..=1)`: the last factor varies fastest. -/
def coeffs27 : List Z3 :=
  [-1, 0, 1].flatMap fun x => [-1, 0, 1].flatMap fun y => [-1, 0, 1].map fun z => (⟨x, y, z⟩ : Z3)

/-- Position of `c` in `coeffs27`. -/
def idxOf (c : Z3) : Nat := ((c.x + 1) * 9 + (c.y + 1) * 3 + (c.z + 1)).toNat

/-- A lattice point `basis * coeffs` with its squared length and an enclosure of its length. -/
structure VInfo where
  c : Z3
  v : Q3
  nsq : Rat
  lo : Rat
  hi : Rat
deriving Repr, Inhabited

def mkInfo (B : QM3) (c : Z3) : VInfo :=
  let v := comb B c
  let n := v.normSq
  let (lo, hi) := sqrtDy n
  ⟨c, v, n, lo, hi⟩

/-- `(v_length - length).abs() < symprec`.
Fragile iff the exact value is within `1e-9·symprec + 1e-13·length` of `symprec`. -/
def lenTest (sp : Rat) (o w : VInfo) : Bool × Bool :=
  let (alo, ahi) := absIv (w.lo - o.hi) (w.hi - o.lo)
  ltIv alo ahi sp (e9 * absR sp + e13 * o.hi)

/-! ## Angles -/

/-- Interval product. -/
def mulIv (a b : Rat × Rat) : Rat × Rat :=
  let p1 := a.1 * b.1
  let p2 := a.1 * b.2
  let p3 := a.2 * b.1
  let p4 := a.2 * b.2
  (minR (minR p1 p2) (minR p3 p4), maxR (maxR p1 p2) (maxR p3 p4))

/-- `θ = u.angle(w) ∈ [0, π]`: enclosures of `cos θ = u·w/(|u||w|)` and of `sin θ = √(1 - cos²θ) ≥ 0`
(`cos²θ = (u·w)²/(|u|²|w|²)` is rational), and `s2 = sin²θ` exactly. -/
structure Ang where
  cl : Rat
  ch : Rat
  sl : Rat
  sh : Rat
  s2 : Rat
deriving Repr, Inhabited

/-- nalgebra's `angle`: `0` when one of the norms is zero, else `acos(clamp(u·w / (|u||w|), -1, 1))`. -/
def angOf (u w : VInfo) : Ang :=
  if u.nsq = 0 ∨ w.nsq = 0 then ⟨1, 1, 0, 0, 0⟩
  else
    let p := u.v.dot w.v
    let s2 := maxR 0 (1 - p * p / (u.nsq * w.nsq))
    let (sl, sh) := sqrtDy s2
    let dl := u.lo * w.lo
    let dh := u.hi * w.hi
    if dl ≤ 0 then ⟨-1, 1, sl, sh, s2⟩
    else if 0 < p then ⟨p / dh, minR 1 (p / dl), sl, sh, s2⟩
    else if p < 0 then ⟨maxR (-1) (p / dl), p / dh, sl, sh, s2⟩
    else ⟨0, 0, sl, sh, s2⟩

/-- Enclosure of `cos_dtheta = cos θo cos θn + sin θo sin θn`. -/
def cosDiff (o n : Ang) : Rat × Rat :=
  let (al, ah) := mulIv (o.cl, o.ch) (n.cl, n.ch)
  (al + o.sl * n.sl, ah + o.sh * n.sh)

/-- Bound of the f64 error of `sin(acos(c))`: the error `≈ 3e-16` of `c` is amplified by `|cos θ| / sin θ`
(and `acos(1 - 1e-16) ≈ 1.5e-8`), which matters when the two vectors are nearly (anti)parallel. -/
def sinErr (a : Ang) : Rat :=
  let s2 := a.s2
  if (1 : Rat) / 4 ≤ s2 then 2 * e15
  else if (1 : Rat) / 10000 ≤ s2 then e13
  else if (1 : Rat) / ((10 ^ 12 : Nat) : Rat) ≤ s2 then e9
  else 50 * e9

/-- Enclosure of `cos t` for `0 ≤ t ≤ 3.2`: partial sums `S₂₄ ≥ cos t ≥ S₂₅` of the alternating series
`Σ (-1)^k t^(2k)/(2k)!`, whose terms decrease from `k = 2` on since `t² < 12`. -/
def cosEncl (t : Rat) : Rat × Rat :=
  let t2 := t * t
  let step (st : Rat × Rat × Rat) (k : Nat) : Rat × Rat × Rat :=
    -- st = (term_k with sign, S_k, S_{k-1})
    let (term, s, _) := st
    let term' := -(term * t2) / (((2 * k + 1) * (2 * k + 2) : Nat) : Rat)
    (term', s + term', s)
  let (_, s25, s24) := (List.range 25).foldl step ((1 : Rat), (1 : Rat), (1 : Rat))
  (s25, s24)

/-- The angle tolerance, prepared once per call. -/
inductive TolPrep
  /-- `AngleTolerance::Default` -/
  | dflt
  /-- `Radian(tol)` with `tol ≤ 0`: `acos(..).abs() < tol` never holds -/
  | never
  /-- `Radian(tol)` with `tol > π` -/
  | always
  /-- `Radian(tol)`, `0 < tol ≤ π`: enclosure of `cos tol` -/
  | cos (lo hi : Rat)
deriving Repr, Inhabited

def prepTol : Option Rat → TolPrep
  | none => .dflt
  | some t =>
    if t ≤ 0 then .never
    else if PI64 < t then .always
    else let (lo, hi) := cosEncl t; .cos lo hi

/-- Everything `compare_nondiagonal_matrix_tensor_element` needs about the basis. -/
structure Ctx where
  sp : Rat
  tol : TolPrep
  e0 : VInfo
  e1 : VInfo
  e2 : VInfo
  a01 : Ang
  a12 : Ang
  a20 : Ang

def mkCtx (B : QM3) (sp : Rat) (ang : Option Rat) : Ctx :=
  let e0 := mkInfo B ⟨1, 0, 0⟩
  let e1 := mkInfo B ⟨0, 1, 0⟩
  let e2 := mkInfo B ⟨0, 0, 1⟩
  ⟨sp, prepTol ang, e0, e1, e2, angOf e0 e1, angOf e1 e2, angOf e2 e0⟩

/-- `compare_nondiagonal_matrix_tensor_element(basis, b1, b2, col1, col2, symprec, angle_tolerance)` with
`(col1, col2) = (k, k+1 mod 3)`.
* Radian: fragile iff `|cos_dtheta - cos tol| ≤ 1e-9·(1 - cos tol) + 1e-14 + sinErr`.
* Default: `(1 - cos_dtheta²)·length_ave2 < symprec²`, no clamp; fragile iff the exact difference is at most
  `1e-9·symprec² + (1e-13 + 2·sinErr)·length_ave2`. -/
def angleTest (cx : Ctx) (k : Nat) (b1 b2 : VInfo) : Bool × Bool :=
  let (o1, o2, ao) :=
    match k with
    | 0 => (cx.e0, cx.e1, cx.a01)
    | 1 => (cx.e1, cx.e2, cx.a12)
    | _ => (cx.e2, cx.e0, cx.a20)
  match cx.tol with
  | .never => (false, false)
  | .always => (true, false)
  | .cos tl th =>
    let an := angOf b1 b2
    let (cl, ch) := cosDiff ao an
    gtIv cl ch tl th (e9 * (1 - tl) + e14 + sinErr ao + sinErr an)
  | .dflt =>
    let an := angOf b1 b2
    let (cl, ch) := cosDiff ao an
    let (ql, qh) := sqIv cl ch
    let s2l := 1 - qh
    let s2h := 1 - ql
    let ll := (o1.lo + b1.lo) * (o2.lo + b2.lo) / 4
    let lh := (o1.hi + b1.hi) * (o2.hi + b2.hi) / 4
    let lo := minR (s2l * ll) (s2l * lh)
    let hi := maxR (s2h * ll) (s2h * lh)
    let sp2 := cx.sp * cx.sp
    ltIv lo hi sp2 (e9 * sp2 + (e13 + 2 * (sinErr ao + sinErr an)) * lh)

/-! ## The filter

Loops are written over an arbitrary test so that the structural theorems do not depend on the numerics.
An *item* is `(fragile, result?)` for one executed comparison sequence. -/

/-- The candidates of column `i`: the lattice points `w` (in loop order) passing `test w`. -/
def candItems (test : VInfo → Bool × Bool) (pts : List VInfo) : List (Bool × Option VInfo) :=
  pts.map fun w => let (b, f) := test w; (f, if b then some w else none)

/-- The loop `for c2 in candidate_lattice_points[2]`. -/
def tripleItems (test : Nat → VInfo → VInfo → Bool × Bool) (i0 i1 : VInfo) (cand2 : List VInfo) :
    List (Bool × Option M3) :=
  cand2.map fun i2 =>
    let R := fromColumns i0.c i1.c i2.c
    -- `relative_ne!(det.abs(), 1.0)` on an integer-valued determinant
    if R.det.natAbs ≠ 1 then (false, none) else
    let (b12, f12) := test 1 i1 i2
    if !b12 then (f12, none) else
    let (b20, f20) := test 2 i2 i0
    (f12 || f20, if b20 then some R else none)

/-- The loop `for (c0, c1) in iproduct!(cand[0], cand[1])` (`c1` fastest). -/
def pairItems (test : Nat → VInfo → VInfo → Bool × Bool) (cand0 cand1 cand2 : List VInfo) :
    List (Bool × Option M3) :=
  cand0.flatMap fun i0 => cand1.flatMap fun i1 =>
    let (b01, f01) := test 0 i0 i1
    (f01, none) :: (if b01 then tripleItems test i0 i1 cand2 else [])

def collect {α : Type} (items : List (Bool × Option α)) : List α := items.filterMap (·.2)
def anyFrag {α : Type} (items : List (Bool × Option α)) : Bool := items.any (·.1)

/-! ## `traverse` -/

/-- The loop of `traverse`: `queue`, `group` (most recent first).  After recording a new element the code
stops when the group has more than 48 elements (`if group.len() > 48 { break; }`).  `none`: out of fuel (pops);
unreachable with the fuel of `traverse` (`Proofs/SearchBravais.lean: traverse_ne_none`). -/
def bfs (gens : List M3) : Nat → List M3 → List M3 → Option (List M3)
  | _, [], group => some group.reverse
  | 0, _ :: _, _ => none
  | fuel + 1, e :: q, group =>
    if group.contains e then bfs gens fuel q group
    else if (e :: group).length > 48 then some (e :: group).reverse
    else bfs gens fuel (q ++ gens.map (M3.mul e)) (e :: group)

/-- `traverse(generators)`.  Only the first 48 recorded elements enqueue their `|generators|` products, so
there are at most `1 + 48·|generators|` pops and the fuel always suffices. -/
def traverse (gens : List M3) : Option (List M3) :=
  bfs gens (2 + 49 * gens.length) [M3.one] []

/-! ## `search_bravais_group` -/

inductive Res
  | ok (rots : List M3)
  | tooLarge
  /-- model fuel exhausted; never produced (`Proofs/SearchBravais.lean: searchBravais_ne_diverged`) -/
  | diverged
deriving Repr, Inhabited, DecidableEq

structure Out where
  /-- `rotations` before `traverse` (filter order) -/
  filtered : List M3
  res : Res
  frag : Bool
deriving Repr, Inhabited

/-- Everything after the filter. -/
def finish (rotations : List M3) : Res :=
  if rotations.isEmpty || 48 % rotations.length != 0 then .tooLarge
  else
    match traverse rotations with
    | none => .diverged
    | some g => if g.length != rotations.length then .tooLarge else .ok g

/-- The filter loops with an arbitrary pair of tests. -/
def filterWith (lenT : Nat → VInfo → Bool × Bool) (angT : Nat → VInfo → VInfo → Bool × Bool)
    (pts : List VInfo) : List (Bool × Option M3) × Bool :=
  let c0 := candItems (lenT 0) pts
  let c1 := candItems (lenT 1) pts
  let c2 := candItems (lenT 2) pts
  let items := pairItems angT (collect c0) (collect c1) (collect c2)
  (items, anyFrag c0 || anyFrag c1 || anyFrag c2 || anyFrag items)

def points (B : QM3) : List VInfo := coeffs27.map (mkInfo B)

def lenT (cx : Ctx) (i : Nat) : VInfo → Bool × Bool :=
  lenTest cx.sp (match i with | 0 => cx.e0 | 1 => cx.e1 | _ => cx.e2)

/-- Cache of `angleTest cx k pts[i] pts[j]` at position `729·k + 27·i + j`, evaluated on demand (the
loops repeat the same comparison for every value of the third index). -/
def mkTable (cx : Ctx) (pts : Array VInfo) : Array (Thunk (Bool × Bool)) :=
  ((List.range (3 * 729)).map fun i =>
    Thunk.mk fun _ => angleTest cx (i / 729) pts[(i % 729) / 27]! pts[i % 27]!).toArray

/-- `angleTest cx k a b` through the cache (`a`, `b` are elements of `points B`). -/
def lookup (cx : Ctx) (tbl : Array (Thunk (Bool × Bool))) (k : Nat) (a b : VInfo) : Bool × Bool :=
  let i := idxOf a.c
  let j := idxOf b.c
  if k < 3 ∧ i < 27 ∧ j < 27 then
    match tbl[729 * k + 27 * i + j]? with
    | some t => t.get
    | none => angleTest cx k a b
  else angleTest cx k a b

/-- `rotations` of `search_bravais_group` before `traverse`, with the fragility flag. -/
def filterRun (B : QM3) (sp : Rat) (ang : Option Rat) : List (Bool × Option M3) × Bool :=
  let cx := mkCtx B sp ang
  let pts := points B
  let tbl := mkTable cx pts.toArray
  filterWith (lenT cx) (lookup cx tbl) pts

def filteredRotations (B : QM3) (sp : Rat) (ang : Option Rat) : List M3 :=
  collect (filterRun B sp ang).1

/-- `search_bravais_group(lattice, symprec, angle_tolerance)`; the basis vectors are the columns of `B`,
`ang = none` is `AngleTolerance::Default`. -/
def searchBravais (B : QM3) (sp : Rat) (ang : Option Rat) : Out :=
  let (items, frag) := filterRun B sp ang
  let rots := collect items
  ⟨rots, finish rots, frag⟩

/-! ## Driver command -/

def render (o : Out) : String :=
  let fr := if o.frag then "1" else "0"
  match o.res with
  | .ok g => s!"ok ; nrot {g.length} ; rots {intsToString (g.flatMap M3.toList)} ; frag {fr}"
  | .tooLarge => s!"err TooLargeToleranceError ; frag {fr}"
  | .diverged => s!"err Diverged ; frag {fr}"

/-- `s2 <tag> ; lat <9, row-major, basis vectors = columns> ; symprec <x> ; angtol default | radian <x>` -/
def cmdS2 (ts : List String) : String :=
  let segs := segments ts
  match (do
    let B ← (← parseRats? (← seg? segs "lat")) |> QM3.ofList?
    let sp ← ((← seg? segs "symprec").head?).bind parseRat?
    let ang ← parseAngtol? (← seg? segs "angtol")
    pure (B, sp, ang)) with
  | none => "bad-case"
  | some (B, sp, ang) => render (searchBravais B sp ang)

def step? (line : String) : Option String :=
  match tokens line with
  | "s2" :: _tag :: rest => some (cmdS2 rest)
  | _ => none

end Moyo.SearchBravais
