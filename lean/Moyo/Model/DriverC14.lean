import Moyo.Model.Wire
import Moyo.Model.ReduceSpec
/-
Driver commands of C14 (import-free):
  c14 mink|nig|del <9 basis entries row-major>            -> `T(9 ints) | bad | fragile | nsteps | exact`
                                                             (`nig` appends ` | branch:count,…`, see `niggliBranch`;
                                                              `del` appends ` | T | fragile` of the repaired selection)
  c14-isred mink|nig <9 basis entries>                    -> `1|0|?`   (`?` = within float uncertainty of a threshold)
  c14-check mink|nig|del <9 B0> ; <9 T ints> ; <9 reduced>  -> `holds` / `fails: …`
  c14-pair <9 B1> ; <9 B2> ; <9 R1> ; <9 R2>              -> Niggli metric tensors of R1, R2 equal to 1e-6 (B1, B2: the inputs, for replay)
  c14-idem mink|nig|del <9 R> ; <9 R'>                    -> near-idempotence
Entries are exact floats `M@E`, `p/q` or integers.
-/
namespace Moyo.DriverC14
open Moyo Moyo.Wire Moyo.Reduce

def splitSemi (ts : List String) : List (List String) :=
  let rec go (acc : List String) (out : List (List String)) : List String → List (List String)
    | [] => (acc.reverse :: out).reverse
    | t :: rest => if t = ";" then go [] (acc.reverse :: out) rest else go (t :: acc) out rest
  go [] [] ts

def parseQM3? (ts : List String) : Option QM3 := (parseRats? ts).bind QM3.ofList?
def parseM3? (ts : List String) : Option M3 := (parseInts? ts).bind M3.ofList?

/-- Integer-valued with entries small enough that every product/sum the f64 code forms is exact. -/
def isExact (B : QM3) : Bool := B.toList.all fun x => x.den = 1 && absR x ≤ 1048576

def verdict (vs : List String) : String :=
  if vs.isEmpty then "holds" else "fails: " ++ ", ".intercalate vs

def resToString (r : Res) (exact : Bool) : String :=
  s!"{intsToString r.T.toList} | {r.bad} | {if r.frag then 1 else 0} | {r.nsteps} | {if exact then 1 else 0}"

def kToString : K → String
  | some true => "1"
  | some false => "0"
  | none => "?"

def cmdReduce (kind : String) (ts : List String) : String :=
  match parseQM3? ts with
  | none => "bad-op"
  | some B =>
    let ex := isExact B
    match kind with
    | "mink" => resToString (minkowskiRes B ex) ex
    | "nig" =>
      -- appended: branch coverage `code:count,…` (codes of `niggliBranch`)
      let r := niggliRes B ex
      let counts := r.br.foldl (fun (acc : List (Nat × Nat)) c =>
        if acc.any (·.1 = c) then acc.map (fun e => if e.1 = c then (e.1, e.2 + 1) else e) else (c, 1) :: acc) []
      resToString r ex ++ " | " ++ ",".intercalate (counts.reverse.map fun e => s!"{e.1}:{e.2}")
    | "del" =>
      -- pinned selection, then the repaired ("guarded") selection: `… | TG | fragileG`
      let g := delaunayResG B ex
      resToString (delaunayRes B ex) ex ++ s!" | {intsToString g.T.toList} | {if g.frag then 1 else 0}"
    | _ => "bad-op"

def cmdIsRed (kind : String) (ts : List String) : String :=
  match parseQM3? ts with
  | none => "bad-op"
  | some B =>
    let ex := isExact B
    let S := 3 * B.maxAbs
    let tol := mkTol ex S B.maxAbs
    match kind with
    | "mink" => kToString (isMinkowskiK B tol.dLen)
    | "nig" => kToString (isNiggliK B (10 * tol.dSq))
    | _ => "bad-op"

def cmdCheck (kind : String) (ts : List String) : String :=
  match splitSemi ts with
  | [b, t, r] =>
    match parseQM3? b, parseM3? t, parseQM3? r with
    | some B0, some T, some R =>
      let spec := match kind with
        | "mink" => minkowskiViolations R
        | "nig" => niggliViolations R
        | _ => delaunayViolations R
      verdict (commonViolations B0 T R ++ spec)
    | _, _, _ => "bad-op"
  | _ => "bad-op"

def cmdPair (ts : List String) : String :=
  match splitSemi ts with
  | [_, _, a, b] =>
    match parseQM3? a, parseQM3? b with
    | some R1, some R2 => verdict (niggliPairViolations R1 R2)
    | _, _ => "bad-op"
  | _ => "bad-op"

def cmdIdem (kind : String) (ts : List String) : String :=
  match splitSemi ts with
  | [a, b] =>
    match parseQM3? a, parseQM3? b with
    | some R1, some R2 => verdict (idemViolations kind R1 R2)
    | _, _ => "bad-op"
  | _ => "bad-op"

def step? (line : String) : Option String :=
  match tokens line with
  | "c14" :: kind :: ts => some (cmdReduce kind ts)
  | "c14-isred" :: kind :: ts => some (cmdIsRed kind ts)
  | "c14-check" :: kind :: ts => some (cmdCheck kind ts)
  | "c14-pair" :: ts => some (cmdPair ts)
  | "c14-idem" :: kind :: ts => some (cmdIdem kind ts)
  | _ => none

end Moyo.DriverC14
