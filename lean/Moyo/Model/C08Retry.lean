import Moyo.Model.Tolerance
/-
C08: the magnetic retry loop (`iterative_magnetic_symmetry_search`, moyo/src/search/symmetry_search.rs)
in terms of the model of `Moyo/Model/Tolerance.lean`.

`MagneticSymmetryTolerances::{increase,reduce}_tolerances` multiply / divide `symprec`, the `Radian` angle
tolerance and `mag_symprec` by the same stride, and the loop structure (4 handlers x 16 trials, fresh handler
continuing from the tolerances reached) is textually the one of `iterative_symmetry_search`; so the three
tolerances are `requested_i * S^e` with ONE exponent `e`, and an attempt (PrimitiveMagneticCell::new followed
by PrimitiveMagneticSymmetrySearch::new) is a function of that exponent.  The correspondence S12 of
checks/c08.py checks exactly this on recorded runs: every `update` event of a magnetic run has all three
tolerances at the exponent `Tol.replayErrors` predicts.
Import-free.
-/
namespace Moyo.Tol

/-- Model of `iterative_magnetic_symmetry_search`: `attempt es ea em` is one trial at
`symprec * S^es`, `angle * S^ea`, `mag_symprec * S^em`. -/
def magSearch {α : Type} (attempt : Rat → Rat → Rat → Except String α) : Result α :=
  search (fun e => attempt e e e)

end Moyo.Tol
