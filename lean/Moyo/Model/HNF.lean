import Moyo.Model.IMat
/-
Model of `moyo/src/math/hnf.rs` (`HNF::new`) and `moyo/src/math/snf.rs` (`SNF::new`, `SNF::rank`).
Literal pivot rules: smallest non-zero absolute value, first on ties in the code's iteration order
(`min_by_key` returns the first minimum); Euclidean division in HNF, truncated division in SNF.
The inner `for j`/`for i` loops are modelled as one simultaneous update, which is what they
compute because the pivot column/row is not modified inside them.
-/
namespace Moyo
open IMat

/-- First element (in list order) minimising `key`: Rust's `Iterator::min_by_key`. -/
def argminBy {α : Type} (xs : List α) (key : α → Nat) : Option α :=
  xs.foldl (fun best x => match best with
    | none => some x
    | some b => if key x < key b then some x else some b) none

/-- One iteration of the `loop` body of `HNF::new` for row `s`; `none` when the loop breaks
before doing anything (row `s` is zero from column `s` on). The `Bool` is `update`. -/
def hnfIter {m n : Nat} (s : Nat) (hs : s < m) (h : IMat m n) (r : IMat n n) :
    Option (IMat m n × IMat n n × Bool) :=
  let row : Fin m := ⟨s, hs⟩
  let cands := (List.finRange n).filter fun j => decide (s ≤ j.val) && (h.get row j != 0)
  match argminBy cands (fun j => (h.get row j).natAbs) with
  | none => none
  | some pivot =>
    if hsn : s < n then
      let sc : Fin n := ⟨s, hsn⟩
      let h1 := swapCols h sc pivot
      let r1 := swapCols r sc pivot
      let neg := decide (h1.get row sc < 0)
      let h2 := if neg then negCol h1 sc else h1
      let r2 := if neg then negCol r1 sc else r1
      let p := h2.get row sc
      let k : Fin n → Int := fun j => if j = sc then 0 else h2.get row j / p   -- `Int./` is `div_euclid`
      let update := (List.finRange n).any fun j => k j != 0
      some (subColMultiples h2 sc k, subColMultiples r2 sc k, update)
    else none

def hnfRow {m n : Nat} (s : Nat) (hs : s < m) : Nat → IMat m n × IMat n n → IMat m n × IMat n n × Bool
  | 0, (h, r) => (h, r, false)   -- fuel exhausted (shown unreachable; flag = completed normally)
  | fuel + 1, (h, r) =>
    match hnfIter s hs h r with
    | none => (h, r, true)
    | some (h', r', update) => if update then hnfRow s hs fuel (h', r') else (h', r', true)

/-- Fuel for row `s`: two more than the largest absolute value in that row. -/
def hnfFuel {m n : Nat} (s : Nat) (hs : s < m) (h : IMat m n) : Nat :=
  ((List.finRange n).foldl (fun acc j => max acc (h.get ⟨s, hs⟩ j).natAbs) 0) + 2

structure HNFResult (m n : Nat) where
  h : IMat m n
  r : IMat n n
  /-- every row loop ended by its own `break`, not by running out of fuel -/
  completed : Bool

def hnfRows {m n : Nat} : (s : Nat) → (todo : Nat) → s + todo = m → HNFResult m n → HNFResult m n
  | _, 0, _, st => st
  | s, todo + 1, hm, st =>
    have hs : s < m := by omega
    let (h', r', ok) := hnfRow s hs (hnfFuel s hs st.h) (st.h, st.r)
    hnfRows (s + 1) todo (by omega) { h := h', r := r', completed := st.completed && ok }

/-- Model of `HNF::new`. -/
def hnf {m n : Nat} (A : IMat m n) : HNFResult m n :=
  hnfRows 0 m (by omega) { h := A, r := IMat.one n, completed := true }

/-! ### SNF -/

/-- One iteration of the `while let` body of `SNF::new` at diagonal position `s`. -/
def snfIter {m n : Nat} (s : Nat) (hsm : s < m) (hsn : s < n)
    (d : IMat m n) (l : IMat m m) (r : IMat n n) :
    Option (IMat m n × IMat m m × IMat n n × Bool) :=
  let cands : List (Fin m × Fin n) :=
    ((List.finRange m).flatMap fun i => (List.finRange n).map fun j => (i, j)).filter
      fun (i, j) => decide (s ≤ i.val) && decide (s ≤ j.val) && (d.get i j != 0)
  match argminBy cands (fun (i, j) => (d.get i j).natAbs) with
  | none => none
  | some (pi, pj) =>
    let sr : Fin m := ⟨s, hsm⟩
    let sc : Fin n := ⟨s, hsn⟩
    let d1 := swapCols (swapRows d sr pi) sc pj
    let l1 := swapRows l sr pi
    let r1 := swapCols r sc pj
    let neg := decide (d1.get sr sc < 0)
    let d2 := if neg then negCol d1 sc else d1
    let r2 := if neg then negCol r1 sc else r1
    let p := d2.get sr sc
    -- rows below `s`: truncated division
    let kr : Fin m → Int := fun i => if s < i.val then Int.tdiv (d2.get i sc) p else 0
    let upd1 := (List.finRange m).any fun i => kr i != 0
    let d3 := subRowMultiples d2 sr kr
    let l3 := subRowMultiples l1 sr kr
    -- columns right of `s`
    let kc : Fin n → Int := fun j => if s < j.val then Int.tdiv (d3.get sr j) p else 0
    let upd2 := (List.finRange n).any fun j => kc j != 0
    let d4 := subColMultiples d3 sc kc
    let r4 := subColMultiples r2 sc kc
    some (d4, l3, r4, upd1 || upd2)

def snfDiag {m n : Nat} (s : Nat) (hsm : s < m) (hsn : s < n) :
    Nat → IMat m n × IMat m m × IMat n n → IMat m n × IMat m m × IMat n n × Bool
  | 0, (d, l, r) => (d, l, r, false)
  | fuel + 1, (d, l, r) =>
    match snfIter s hsm hsn d l r with
    | none => (d, l, r, true)
    | some (d', l', r', update) =>
      if update then snfDiag s hsm hsn fuel (d', l', r') else (d', l', r', true)

/-- Fuel: twice the largest absolute value in the active sub-matrix, plus two. -/
def snfFuel {m n : Nat} (d : IMat m n) : Nat :=
  2 * ((List.finRange m).foldl (fun acc i =>
    (List.finRange n).foldl (fun acc j => max acc (d.get i j).natAbs) acc) 0) + 2

structure SNFResult (m n : Nat) where
  d : IMat m n
  l : IMat m m
  r : IMat n n
  completed : Bool

def snfSteps {m n : Nat} : (s : Nat) → (todo : Nat) → s + todo = min m n → SNFResult m n → SNFResult m n
  | _, 0, _, st => st
  | s, todo + 1, hm, st =>
    have hsm : s < m := by omega
    have hsn : s < n := by omega
    let (d', l', r', ok) := snfDiag s hsm hsn (snfFuel st.d) (st.d, st.l, st.r)
    snfSteps (s + 1) todo (by omega) { d := d', l := l', r := r', completed := st.completed && ok }

/-- Model of `SNF::new`. -/
def snf {m n : Nat} (A : IMat m n) : SNFResult m n :=
  snfSteps 0 (min m n) (by omega) { d := A, l := IMat.one m, r := IMat.one n, completed := true }

/-- Model of `SNF::rank`. -/
def SNFResult.rank {m n : Nat} (res : SNFResult m n) : Nat :=
  ((List.range (min m n)).filter fun i =>
    if h : i < m ∧ i < n then res.d.get ⟨i, h.1⟩ ⟨i, h.2⟩ != 0 else false).length

end Moyo
