import Moyo.Model.StageStd
import Moyo.Model.Hall
import Moyo.Model.Reduce
/-
Stage S6, part 2: the branch of `standardize_and_symmetrize_cell` that chooses the basis, by lattice
system (moyo/src/symmetrize/standardize.rs):

* triclinic   — the identified transformation composed with the Niggli matrix of the transformed
                lattice (`standardize_triclinic_cell`, after the repair ea888cc), through the Niggli
                decision model of `Moyo/Model/Reduce.lean` (fragile flag when a decision is within the
                float uncertainty of its threshold);
* monoclinic  — `standardize_monoclinic_conv_cell`: the matrices of `UNIMODULAR3_RANGE1` (all 3^9
                matrices with entries in -1..=1 and determinant 1, in the order of
                `multi_cartesian_product`) that keep the centering translations and the matrix
                representations of the Hall generators; skewness `Σ |cos angle|` is computed from the
                metric with certified square-root enclosures (`|cos γ| = |g12| / √(g11 g22)`);
* otherwise   — the centering matrix.

The f64 skewness of two candidates related by a lattice symmetry differs only by rounding noise, so
which of them `min_by` returns is not a function of the exact data.  The model therefore computes the
set of *near-minimal* candidates (within 1e-9 of the least skewness); the implementation's own choice
(recovered from its `transformation.linear`) is an **oracle parameter** that is *checked* to lie in
that set.  Without the parameter the first near-minimal candidate is taken and the case is fragile
unless the set is a singleton.
Core Lean only.
-/
namespace Moyo.StageStd
open Moyo

def r1 : List Int := [-1, 0, 1]

/-- `UNIMODULAR3_RANGE1` in the order of `(0..9).map(|_| -1..=1).multi_cartesian_product()` (first
factor slowest; `Matrix3::new` takes its arguments row-major). -/
def unimodular3Range1 : List M3 :=
  r1.flatMap fun a => r1.flatMap fun b => r1.flatMap fun c =>
  r1.flatMap fun d => r1.flatMap fun e => r1.flatMap fun f =>
  r1.flatMap fun g => r1.flatMap fun h => r1.filterMap fun i =>
    let m : M3 := ⟨a, b, c, d, e, f, g, h, i⟩
    if m.det = 1 then some m else none

def e9 : Rat := (1 : Rat) / ((10 ^ 9 : Nat) : Rat)

/-- `diff -= diff.round(); diff.iter().any(|e| e.abs() > epsilon)`; the second component tells
whether some comparison is within 1e-9 of its threshold. -/
def anyAbsGt (v : Q3) (eps : Rat) : Bool × Bool :=
  let w := v.wrap.toList.map rabs
  (w.any fun e => decide (e > eps), w.any fun e => decide (rabs (e - eps) < e9))

def twelfths (v : Z3) : Q3 := v.toQ 12

/-- "trans_corr should keep centering translations": `(rejected, fragile)`. -/
def breaksCentering (c : Centering) (U : M3) (eps : Rat) : Bool × Bool :=
  c.latticePoints.foldl (fun acc t =>
    let r := anyAbsGt ((U.applyQ (twelfths t)).sub (twelfths t)) eps
    (acc.1 || r.1, acc.2 || r.2)) (false, false)

/-- "trans_corr should keep the matrix representations of `conv_std_generators`": `(rejected, fragile)`.
`trans_corr.transform_operation((R, t)) = (U⁻¹ R U, U⁻¹ t)` (zero origin shift). -/
def breaksGenerators (gens : List HOp) (U : M3) (eps : Rat) : Bool × Bool :=
  gens.foldl (fun acc g =>
    let rot := (U.adj.mul g.rot).mul U
    if rot != g.rot then (true, acc.2)
    else
      let r := anyAbsGt ((U.adj.applyQ (twelfths g.trans)).sub (twelfths g.trans)) eps
      (acc.1 || r.1, acc.2 || r.2)) (false, false)

def metric (B : QM3) : QM3 := B.transpose.mul B

/-- Enclosure of `|g| / √(p q)`; `none` for a degenerate lattice. -/
def cosAbsEnclosure (g p q : Rat) : Option (Rat × Rat) :=
  let (lo, hi) := Reduce.sqrtLoHi (p * q)
  if lo ≤ 0 then none else some (rabs g / hi, rabs g / lo)

/-- Enclosure of the skewness `|cos α| + |cos β| + |cos γ|` of the lattice with basis `B`. -/
def skewness (B : QM3) : Option (Rat × Rat) :=
  let G := metric B
  match cosAbsEnclosure G.f G.e G.i, cosAbsEnclosure G.c G.a G.i, cosAbsEnclosure G.b G.a G.e with
  | some (a0, a1), some (b0, b1), some (c0, c1) => some (a0 + b0 + c0, a1 + b1 + c1)
  | _, _, _ => none

structure Cand where
  /-- `centering.linear() * trans_corr.linear` -/
  conv : M3
  lo : Rat
  hi : Rat
deriving Repr, Inhabited

structure MonoResult where
  conv : M3 := M3.one
  ncand : Nat := 0
  nnear : Nat := 0
  /-- the implementation's choice was supplied and used -/
  usedParam : Bool := false
  /-- the implementation's choice is the first near-minimal candidate in enumeration order -/
  implFirst : Bool := false
  fragile : Bool := false
  /-- `panic …` / `mismatch …` -/
  bad : Option String := none
deriving Repr, Inhabited

/-- Model of `standardize_monoclinic_conv_cell(prim_lattice, (P, p), centering, generators, epsilon)`.
`impl` is the implementation's `centering.linear() * trans_corr.linear` (oracle parameter, checked). -/
def standardizeMonoclinic (A : QM3) (P : M3) (c : Centering) (gens : List HOp) (eps : Rat)
    (impl : Option M3) : MonoResult :=
  let base := (QM3.ofM3 P).mul (QM3.ofM3 c.linear)
  let step (acc : List Cand × Bool × Bool) (U : M3) : List Cand × Bool × Bool :=
    let (cands, frag, degenerate) := acc
    let bc := breaksCentering c U eps
    if bc.1 then (cands, frag || bc.2, degenerate) else
    let bg := breaksGenerators gens U eps
    if bg.1 then (cands, frag || bc.2 || bg.2, degenerate) else
    match skewness ((A.mul base).mul (QM3.ofM3 U)) with
    | some (lo, hi) => (⟨c.linear.mul U, lo, hi⟩ :: cands, frag || bc.2 || bg.2, degenerate)
    | none => (cands, frag, true)
  let (candsRev, frag, degenerate) := unimodular3Range1.foldl step ([], false, false)
  let cands := candsRev.reverse
  match cands with
  | [] => { bad := some "panic no-candidate (min_by on an empty list, unwrap)", fragile := frag }
  | c0 :: _ =>
    let minHi := cands.foldl (fun m x => if x.hi < m then x.hi else m) c0.hi
    let near := cands.filter fun x => decide (x.lo ≤ minHi + e9)
    let first := (near.head?.getD c0).conv
    let res : MonoResult := { conv := first, ncand := cands.length, nnear := near.length,
                              fragile := frag || degenerate }
    match impl with
    | none => { res with fragile := res.fragile || decide (near.length ≠ 1) }
    | some ic =>
      if near.any fun x => x.conv == ic then
        { res with conv := ic, usedParam := true, implFirst := ic == first }
      else if cands.any fun x => x.conv == ic then
        { res with conv := ic, usedParam := true,
                   bad := some "mismatch monoclinic choice of the implementation is an admissible candidate but not of least skewness (1e-9)" }
      else
        { res with bad := some "mismatch monoclinic choice of the implementation is not an admissible candidate" }

/-- Integer-valued with entries small enough that every product/sum the f64 code forms is exact. -/
def isExactBasis (B : QM3) : Bool := B.toList.all fun x => x.den == 1 && Reduce.absR x ≤ 1048576

/-- `standardize_triclinic_cell(lattice).linear`: `(T, fragile, bad)`. -/
def standardizeTriclinic (B : QM3) : M3 × Bool × Nat :=
  let r := Reduce.niggliRes B (isExactBasis B)
  (r.T, r.frag, r.bad)

end Moyo.StageStd
