import Moyo.Model.Geom3
/-
Model of `moyo/src/data/hall_symbol.rs` (Hall symbols and magnetic Hall symbols: tokenizer, parser,
generators, BFS traversal, primitive operations) and of `moyo/src/data/centering.rs`.
Translations are exact: integer vectors in units of 1/12 (`MAX_DENOMINATOR`).
`none` is returned for every string the Rust code rejects (returns `None`) *or panics on*; the
correspondence on the malformed stream requires the implementation not to panic there (C08).
-/
namespace Moyo

inductive Centering | P | A | B | C | I | R | F
deriving DecidableEq, Repr, Inhabited

namespace Centering
def order : Centering → Nat
  | P => 1 | A => 2 | B => 2 | C => 2 | I => 2 | R => 3 | F => 4

/-- Transformation matrix from primitive to conventional cell (`Centering::linear`). -/
def linear : Centering → M3
  | P => M3.one
  | A => ⟨1, 0, 0, 0, 1, 1, 0, -1, 1⟩
  | B => ⟨1, 0, -1, 0, 1, 0, 1, 0, 1⟩
  | C => ⟨1, -1, 0, 1, 1, 0, 0, 0, 1⟩
  | R => ⟨1, 0, 1, -1, 1, 1, 0, -1, 1⟩
  | I => ⟨0, 1, 1, 1, 0, 1, 1, 1, 0⟩
  | F => ⟨-1, 1, 1, 1, -1, 1, 1, 1, -1⟩

/-- `Centering::lattice_points` in twelfths. -/
def latticePoints : Centering → List Z3
  | P => [⟨0, 0, 0⟩]
  | A => [⟨0, 0, 0⟩, ⟨0, 6, 6⟩]
  | B => [⟨0, 0, 0⟩, ⟨6, 0, 6⟩]
  | C => [⟨0, 0, 0⟩, ⟨6, 6, 0⟩]
  | I => [⟨0, 0, 0⟩, ⟨6, 6, 6⟩]
  | R => [⟨0, 0, 0⟩, ⟨8, 4, 4⟩, ⟨4, 8, 8⟩]
  | F => [⟨0, 0, 0⟩, ⟨0, 6, 6⟩, ⟨6, 0, 6⟩, ⟨6, 6, 0⟩]

def ofChar? : Char → Option Centering
  | 'P' => some P | 'A' => some A | 'B' => some B | 'C' => some C
  | 'I' => some I | 'R' => some R | 'F' => some F | _ => none

def toString : Centering → String
  | P => "P" | A => "A" | B => "B" | C => "C" | I => "I" | R => "R" | F => "F"

def ofString? (s : String) : Option Centering :=
  match s.toList with
  | [c] => ofChar? c
  | _ => none
end Centering

/-- Operation with exact translation in units of `1/12`, and a time-reversal flag. -/
structure HOp where
  rot : M3
  trans : Z3
  tr : Bool := false
deriving DecidableEq, Repr, Inhabited

namespace HOp
def one : HOp := ⟨M3.one, Z3.zero, false⟩
/-- `(r1,t1)(r2,t2) = (r1 r2, r1 t2 + t1)`, time reversal by xor. -/
def mul (p q : HOp) : HOp := ⟨p.rot.mul q.rot, (p.rot.apply q.trans).add p.trans, p.tr != q.tr⟩
def mod12 (p : HOp) : HOp := { p with trans := p.trans.mod 12 }
end HOp

namespace Hall

/-- `parse_rotation_matrix`: nfold digit followed by the axis string. -/
def rotationMatrix (nfold : Char) (axis : String) : Option M3 :=
  match nfold, axis with
  | '1', "x" | '1', "y" | '1', "z" => some ⟨1, 0, 0, 0, 1, 0, 0, 0, 1⟩
  | '2', "x" => some ⟨1, 0, 0, 0, -1, 0, 0, 0, -1⟩
  | '2', "y" => some ⟨-1, 0, 0, 0, 1, 0, 0, 0, -1⟩
  | '2', "z" => some ⟨-1, 0, 0, 0, -1, 0, 0, 0, 1⟩
  | '3', "x" => some ⟨1, 0, 0, 0, 0, -1, 0, 1, -1⟩
  | '3', "y" => some ⟨-1, 0, 1, 0, 1, 0, -1, 0, 0⟩
  | '3', "z" => some ⟨0, -1, 0, 1, -1, 0, 0, 0, 1⟩
  | '4', "x" => some ⟨1, 0, 0, 0, 0, -1, 0, 1, 0⟩
  | '4', "y" => some ⟨0, 0, 1, 0, 1, 0, -1, 0, 0⟩
  | '4', "z" => some ⟨0, -1, 0, 1, 0, 0, 0, 0, 1⟩
  | '6', "x" => some ⟨1, 0, 0, 0, 1, -1, 0, 1, 0⟩
  | '6', "y" => some ⟨0, 0, 1, 0, 1, 0, -1, 0, 1⟩
  | '6', "z" => some ⟨1, -1, 0, 1, 0, 0, 0, 0, 1⟩
  | '2', "px" => some ⟨-1, 0, 0, 0, 0, -1, 0, -1, 0⟩
  | '2', "ppx" => some ⟨-1, 0, 0, 0, 0, 1, 0, 1, 0⟩
  | '2', "py" => some ⟨0, 0, -1, 0, -1, 0, -1, 0, 0⟩
  | '2', "ppy" => some ⟨0, 0, 1, 0, -1, 0, 1, 0, 0⟩
  | '2', "pz" => some ⟨0, -1, 0, -1, 0, 0, 0, 0, -1⟩
  | '2', "ppz" => some ⟨0, 1, 0, 1, 0, 0, 0, 0, -1⟩
  | '3', "*" => some ⟨0, 0, 1, 1, 0, 0, 0, 1, 0⟩
  | _, _ => none

/-- `parse_translation_vector` in twelfths. -/
def translationVector : Char → Option Z3
  | 'a' => some ⟨6, 0, 0⟩ | 'b' => some ⟨0, 6, 0⟩ | 'c' => some ⟨0, 0, 6⟩ | 'n' => some ⟨6, 6, 6⟩
  | 'u' => some ⟨3, 0, 0⟩ | 'v' => some ⟨0, 3, 0⟩ | 'w' => some ⟨0, 0, 3⟩ | 'd' => some ⟨3, 3, 3⟩
  | _ => none

def digitVal? (c : Char) : Option Nat :=
  if '0' ≤ c ∧ c ≤ '9' then some (c.toNat - '0'.toNat) else none

/-- Suffix loop of `parse_operation`: digits set the z-translation to `c/nfold`, letters add,
`'` sets time reversal; any other character is an error (the Rust code asserts). -/
def parseSuffix (nfold : Nat) : List Char → Z3 → Bool → Option (Z3 × Bool)
  | [], t, tr => some (t, tr)
  | c :: rest, t, tr =>
    if c = '1' ∨ c = '2' ∨ c = '3' ∨ c = '4' ∨ c = '5' ∨ c = '6' then
      match digitVal? c with
      | some v =>
        if nfold = 0 ∨ (12 * v) % nfold ≠ 0 then none
        else parseSuffix nfold rest ⟨0, 0, ((12 * v) / nfold : Nat)⟩ tr
      | none => none
    else if c = '\'' then parseSuffix nfold rest t true
    else match translationVector c with
      | some v => parseSuffix nfold rest (t.add v) tr
      | none => none

/-- `parse_operation`; returns (rotation, translation, time reversal, nfold, axis). -/
def parseOperation (token : List Char) (count : Nat) (prevNfold : Option Char) (prevAxis : String) :
    Option (M3 × Z3 × Bool × Char × String) :=
  match token with
  | [] => none
  | c0 :: r0 =>
    let (improper, r1) := if c0 = '-' then (true, r0) else (false, token)
    match r1 with
    | [] => none
    | nfold :: r2 =>
      let (axis0, r3) := match r2 with
        | '^' :: r => ("p", r)
        | '=' :: r => ("pp", r)
        | _ => ("", r2)
      let (axis1, r4) := match r3 with
        | c :: r => if c = 'x' ∨ c = 'y' ∨ c = 'z' ∨ c = '*' then (axis0.push c, r) else (axis0, r3)
        | [] => (axis0, r3)
      let axis2 := if (axis1 = "p" ∨ axis1 = "pp") ∧ (prevAxis = "x" ∨ prevAxis = "y" ∨ prevAxis = "z")
        then axis1 ++ prevAxis else axis1
      let axis3 := if nfold = '1' then axis2.push 'z' else axis2
      let axis4? : Option String :=
        if axis3 = "" ∨ axis3 = "p" ∨ axis3 = "pp" then
          match count with
          | 0 => some (axis3.push 'z')
          | 1 =>
            if prevNfold = some '2' ∨ prevNfold = some '4' then some (axis3.push 'x')
            else if prevNfold = some '3' ∨ prevNfold = some '6' then some (axis3 ++ "pz")
            else none
          | 2 => if nfold = '3' then some (axis3.push '*') else none
          | _ => none
        else some axis3
      match axis4? with
      | none => none
      | some axis =>
        match rotationMatrix nfold axis, digitVal? nfold with
        | some rot, some nf =>
          let rot := if improper then rot.neg else rot
          match parseSuffix nf r4 Z3.zero false with
          | some (t, tr) => some (rot, t, tr, nfold, axis)
          | none => none
        | _, _ => none

def parseNat? (cs : List Char) : Option Nat :=
  if cs.isEmpty then none else
  cs.foldl (fun acc c => match acc, digitVal? c with
    | some a, some d => some (10 * a + d)
    | _, _ => none) (some 0)

/-- `parse_origin_shift` (integer entries only; the tables contain nothing else). -/
def parseOriginShift (tokens : List (List Char)) : Option Z3 :=
  let stripped := tokens.map fun s =>
    match s with
    | '(' :: r => r
    | _ => if s.getLast? = some ')' then s.dropLast else s
  match stripped.filter (fun s => !s.isEmpty) with
  | [a, b, c] =>
    match parseNat? a, parseNat? b, parseNat? c with
    | some a, some b, some c => some ⟨a, b, c⟩
    | _, _, _ => none
  | _ => none

structure Parsed where
  inversionAtOrigin : Bool
  centering : Centering
  ns : List (M3 × Z3 × Bool)
  originShift : Z3

def parseLattice (token : List Char) : Option (Bool × Centering) :=
  match token with
  | '-' :: c :: _ => (Centering.ofChar? c).map fun l => (true, l)
  | c :: _ => if c = '-' then none else (Centering.ofChar? c).map fun l => (false, l)
  | [] => none

def parseOps : List (List Char) → Nat → Option Char → String → List (M3 × Z3 × Bool) →
    Option (List (M3 × Z3 × Bool) × Z3)
  | [], _, _, _, acc => some (acc.reverse, Z3.zero)
  | tok :: rest, count, prevN, prevAxis, acc =>
    if tok.head? = some '(' then
      (parseOriginShift (tok :: rest)).map fun os => (acc.reverse, os)
    else
      match parseOperation tok count prevN prevAxis with
      | some (rot, t, tr, nfold, axis) => parseOps rest (count + 1) (some nfold) axis ((rot, t, tr) :: acc)
      | none => none

def tokenize (s : String) : List (List Char) :=
  ((s.toList.splitBy (fun a b => !(a.isWhitespace) && !(b.isWhitespace))).filter
    fun t => !(t.all Char.isWhitespace))

def parse (s : String) : Option Parsed :=
  match tokenize s with
  | [] => none
  | t0 :: rest =>
    match parseLattice t0 with
    | none => none
    | some (inv, lat) =>
      match parseOps rest 0 none "" [] with
      | some (ns, os) => some ⟨inv, lat, ns, os⟩
      | none => none

/-- Generators after the origin shift `(I, v)`: `(R, τ) ↦ (R, τ + v - R v)` mod 1. -/
def generatorsOf (p : Parsed) : List HOp :=
  let inv : List HOp := if p.inversionAtOrigin then [⟨M3.one.neg, Z3.smul 2 p.originShift, false⟩] else []
  inv ++ p.ns.map fun (rot, t, tr) =>
    ⟨rot, ((t.add p.originShift).sub (rot.apply p.originShift)).mod 12, tr⟩

end Hall

/-- Model of `HallSymbol` / `MagneticHallSymbol` (time-reversal flags all false for the former). -/
structure HallSymbol where
  centering : Centering
  generators : List HOp
deriving Repr

namespace HallSymbol

/-- `MagneticHallSymbol::new`. -/
def newMagnetic (s : String) : Option HallSymbol :=
  (Hall.parse s).map fun p => ⟨p.centering, Hall.generatorsOf p⟩

/-- `HallSymbol::new`: a primed generator makes it return `None`. -/
def new (s : String) : Option HallSymbol :=
  match Hall.parse s with
  | none => none
  | some p => if p.ns.any (fun (_, _, tr) => tr) then none else some ⟨p.centering, Hall.generatorsOf p⟩

/-- Key of (rotation, time reversal) for the visited bitset. -/
def opKey (o : HOp) : Nat := 2 * o.rot.key + (if o.tr then 1 else 0)

/-- BFS of `traverse`, keyed by (rotation, time reversal); first visit wins. `none` if a rotation
with an entry outside {-1,0,1} is met (no crystallographic generator set does) or fuel runs out. -/
def trav (gens : List HOp) : Nat → List HOp → Nat → List HOp → Option (List HOp)
  | _, [], _, acc => some acc.reverse
  | 0, _ :: _, _, _ => none
  | fuel + 1, q :: queue, seen, acc =>
    if !q.rot.small then none else
    let k := opKey q
    if seen.testBit k then trav gens fuel queue seen acc
    else
      let seen' := seen ||| (1 <<< k)
      let new := gens.filterMap fun g =>
        let n := q.mul g
        if n.rot.small && seen'.testBit (opKey n) then none else some n.mod12
      trav gens fuel (queue ++ new) seen' (q :: acc)

/-- `HallSymbol::traverse` / `MagneticHallSymbol::traverse`: coset representatives modulo the
centering translations, in BFS order. -/
def traverse (hs : HallSymbol) : Option (List HOp) :=
  trav hs.generators 4000 [HOp.one] 0 []

/-- All conventional operations: centering translations × `traverse` (centering-major order). -/
def conventionalOps (hs : HallSymbol) : Option (List HOp) :=
  hs.traverse.map fun ops =>
    hs.centering.latticePoints.flatMap fun c => ops.map fun o => { o with trans := (o.trans.add c).mod 12 }

/-- `Transformation::from_linear(C).inverse_transform_operation`: `(R,t) ↦ (C R C⁻¹, C t)`;
`none` when `C R C⁻¹` is not integral. -/
def toPrimitive (c : Centering) (o : HOp) : Option HOp :=
  let cm := c.linear
  let num := (cm.mul o.rot).mul cm.adj
  let dt := cm.det
  if num.divisibleBy dt then some ⟨num.divExact dt, cm.apply o.trans, o.tr⟩ else none

def primitiveTraverse (hs : HallSymbol) : Option (List HOp) :=
  hs.traverse.map fun ops => ops.filterMap (toPrimitive hs.centering)

def primitiveGenerators (hs : HallSymbol) : List HOp :=
  hs.generators.filterMap (toPrimitive hs.centering)

end HallSymbol
end Moyo
