import Moyo.Model.Wire
import Moyo.Model.Bindings
/-
Driver commands for C20 (model of the nalgebra layout, compared with the real nalgebra by the harness):
  c20conv <class> d0 .. d8      nested list (row by row) the conversion class yields for storage d0..d8
  c20get i j d0 .. d8           M[(i, j)]
  c20frombasis b00 b01 .. b22   storage of `Lattice::from_basis(b).basis` ; its `pyBasis`
-/
namespace Moyo.DriverC20
open Moyo Moyo.Wire Moyo.Bindings

def toMat? (xs : List Int) : Option (Matrix3 Int) :=
  if h : xs.toArray.size = 9 then some ⟨⟨xs.toArray, h⟩⟩ else none

def nestedToString (n : Nested Int) : String :=
  intsToString ((n.toList.map (·.toList)).flatten)

def toNested? (xs : List Int) : Option (Nested Int) :=
  match xs with
  | [a, b, c, d, e, f, g, h, i] => some #v[#v[a, b, c], #v[d, e, f], #v[g, h, i]]
  | _ => none

def step? (line : String) : Option String :=
  match tokens line with
  | "c20conv" :: cls :: rest =>
    some <| match Conv.ofString? cls, (parseInts? rest).bind toMat? with
    | some c, some m => nestedToString (c.apply m)
    | _, _ => "bad-op"
  | "c20get" :: is :: js :: rest =>
    some <| match is.toNat?, js.toNat?, (parseInts? rest).bind toMat? with
    | some i, some j, some m =>
      if h : i < 3 ∧ j < 3 then toString (m.get ⟨i, h.1⟩ ⟨j, h.2⟩) else "bad-op"
    | _, _, _ => "bad-op"
  | "c20frombasis" :: rest =>
    some <| match (parseInts? rest).bind toNested? with
    | some b =>
      let l := Lattice.fromBasis b
      s!"{intsToString l.basis.data.toList} ; {nestedToString l.pyBasis}"
    | none => "bad-op"
  | _ => none

end Moyo.DriverC20
