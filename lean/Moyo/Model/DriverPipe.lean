import Moyo.Model.Oracle
import Moyo.Model.Tolerance
/-
Driver commands for the pipeline oracles: `ds <case line>` answers
`<tag> | <outcome> | <summary> | <failed clauses separated by " || ">`.
-/
namespace Moyo.DriverPipe
open Moyo Moyo.Oracle

def outcomeName : Outcome → String
  | .ok _ => "ok"
  | .err n => s!"err:{n}"
  | .panic _ => "panic"

def step? (line : String) : Option String :=
  match Wire.tokens line with
  | "ds" :: rest =>
    match parseCase? ("ds" :: rest) with
    | none => some "bad-case"
    | some cs =>
      let fails := checkAll cs
      let summ := match cs.out with
        | .ok d => summary d
        | _ => "-"
      some s!"{cs.tag} | {outcomeName cs.out} | {summ} | {" || ".intercalate fails}"
  | "c09replay" :: errs =>
    -- exponents e_i (tolerance = requested * stride^e_i) at which attempts are made when the i-th attempt fails with errs[i]
    some (Wire.ratsToString (Tol.replayErrors (errs.filter (· != "none"))))
  | _ => none

end Moyo.DriverPipe
