import Moyo.Model.Dataset
import Moyo.Model.Hall
import Moyo.Generated.HallTable
import Moyo.Generated.ArithTable
import Moyo.Generated.WyckoffTable
/-
Executable statements of the pipeline properties (C01, C02, C03, C05, C06, C07, C09, C10) on a
returned dataset, in exact rational arithmetic.  Each clause that fails yields a string tagged
with the property it belongs to (`C01: …`).  Periodic distances are decided *completely* by the
Cauchy–Schwarz box (`Moyo/Proofs/Periodic.lean` proves the box is sufficient).
-/
namespace Moyo.Oracle
open Moyo Moyo.Generated

/-! ### exact helpers -/

def rabs (q : Rat) : Rat := if q < 0 then -q else q

/-- Upper bound of `sqrt q` (q ≥ 0), within 1e-12 relative of a 1e-24 grid. -/
def sqrtUp (q : Rat) : Rat :=
  if q ≤ 0 then 0 else
  let scaled : Nat := ((q * (10 ^ 24 : Nat)).ceil).toNat
  ((Nat.sqrt scaled + 1 : Nat) : Rat) / (10 ^ 12 : Nat)

/-- Lower bound of `sqrt q`. -/
def sqrtLo (q : Rat) : Rat :=
  if q ≤ 0 then 0 else
  let scaled : Nat := ((q * (10 ^ 24 : Nat)).floor).toNat
  ((Nat.sqrt scaled : Nat) : Rat) / (10 ^ 12 : Nat)

/-- Rows of `A⁻¹`, squared norms: the diagonal of `(AᵀA)⁻¹`. -/
def ginvDiag (A : QM3) : Q3 :=
  let Ai := A.inv
  ⟨Ai.a * Ai.a + Ai.b * Ai.b + Ai.c * Ai.c, Ai.d * Ai.d + Ai.e * Ai.e + Ai.f * Ai.f,
   Ai.g * Ai.g + Ai.h * Ai.h + Ai.i * Ai.i⟩

/-- Integers `n` with `(n + d)² ≤ b` (all of them; scan outwards from the nearest integer). -/
def axisCands (d b : Rat) : List Int :=
  if b < 0 then [] else
  let n0 := ratRound (-d)
  let ok (n : Int) : Bool := ((n : Rat) + d) * ((n : Rat) + d) ≤ b
  let rec down (fuel : Nat) (n : Int) (acc : List Int) : List Int :=
    match fuel with
    | 0 => acc
    | fuel + 1 => if ok n then down fuel (n - 1) (n :: acc) else acc
  let rec up (fuel : Nat) (n : Int) (acc : List Int) : List Int :=
    match fuel with
    | 0 => acc
    | fuel + 1 => if ok n then up fuel (n + 1) (n :: acc) else acc
  (down 64 (n0 - 1) []) ++ (if ok n0 then [n0] else []) ++ (up 64 (n0 + 1) []).reverse

/-- `∃ n ∈ ℤ³, |A (d + n)|² ≤ r2`, decided completely: every such `n` satisfies
`(n_i + d_i)² ≤ r2 · ((AᵀA)⁻¹)_ii` (Cauchy–Schwarz), so the box search is exhaustive. -/
def withinPeriodic (A : QM3) (gi : Q3) (d : Q3) (r2 : Rat) : Bool :=
  -- fast path: the minimum-image representative already certifies the bound
  if (A.apply d.wrap).normSq ≤ r2 then true else
  let xs := axisCands d.x (r2 * gi.x)
  if xs.isEmpty then false else
  let ys := axisCands d.y (r2 * gi.y)
  if ys.isEmpty then false else
  let zs := axisCands d.z (r2 * gi.z)
  xs.any fun nx => ys.any fun ny => zs.any fun nz =>
    (A.apply ⟨d.x + nx, d.y + ny, d.z + nz⟩).normSq ≤ r2

/-! Float-guided site search.  Floats only *order* the candidates (nearest first); the verdict is
always the exact, complete rational test `withinPeriodic`, and when the guided candidate fails the
exact test every site is scanned exactly — so floats never decide anything. -/

def ratToFloat (q : Rat) : Float := Float.ofInt q.num / Float.ofNat q.den

structure SiteIndex where
  cell : CellQ
  gi : Q3
  latF : Array Float
  posF : Array (Float × Float × Float)

def SiteIndex.build (c : CellQ) : SiteIndex :=
  { cell := c, gi := ginvDiag c.lat,
    latF := (c.lat.toList.map ratToFloat).toArray,
    posF := c.pos.map fun p => (ratToFloat p.x, ratToFloat p.y, ratToFloat p.z) }

def wrapF (x : Float) : Float := x - Float.round x

/-- Nearest site (minimum-image, in floats) among those accepted by `sel`. -/
def SiteIndex.nearestF (ix : SiteIndex) (y : Q3) (sel : Nat → Bool) : Option Nat := Id.run do
  let (yx, yy, yz) := (ratToFloat y.x, ratToFloat y.y, ratToFloat y.z)
  let l := ix.latF
  let mut best : Option Nat := none
  let mut bestD : Float := 1e300
  for j in [0:ix.cell.n] do
    if sel j then
      let (px, py, pz) := ix.posF[j]!
      let dx := wrapF (yx - px)
      let dy := wrapF (yy - py)
      let dz := wrapF (yz - pz)
      let cx := l[0]! * dx + l[1]! * dy + l[2]! * dz
      let cy := l[3]! * dx + l[4]! * dy + l[5]! * dz
      let cz := l[6]! * dx + l[7]! * dy + l[8]! * dz
      let d2 := cx * cx + cy * cy + cz * cz
      if d2 < bestD then
        bestD := d2
        best := some j
  return best

/-- Index of a site accepted by `sel` within distance² `r2` of fractional point `y` (periodic, exact). -/
def SiteIndex.findSel (ix : SiteIndex) (y : Q3) (sel : Nat → Bool) (r2 : Rat) : Option Nat :=
  let exact (j : Nat) : Bool := withinPeriodic ix.cell.lat ix.gi (y.sub ix.cell.pos[j]!) r2
  -- the float-guided candidate is only a hint: it is re-validated exactly (index range, `sel`, distance),
  -- and whenever it is absent or fails, every site is scanned exactly
  match ix.nearestF y sel with
  | none => (List.range ix.cell.n).find? fun k => sel k && exact k
  | some j =>
    if decide (j < ix.cell.n) && sel j && exact j then some j
    else (List.range ix.cell.n).find? fun k => sel k && exact k

/-- Index of an atom of species `sp` within distance² `r2` of `y`. -/
def SiteIndex.find (ix : SiteIndex) (y : Q3) (sp : Int) (r2 : Rat) : Option Nat :=
  ix.findSel y (fun j => ix.cell.num[j]! == sp) r2

def opAct (o : OpQ) (x : Q3) : Q3 := (o.rot.applyQ x).add o.trans

def opMul (p q : OpQ) : OpQ := ⟨p.rot.mul q.rot, (p.rot.applyQ q.trans).add p.trans⟩

/-- first `k` failures only (keeps answers short) -/
def cap (xs : List String) (k : Nat := 4) : List String := xs.take k

/-! ### C01 -/

def angleBound (symprec : Rat) (angtol : Option Rat) (gi : Q3) : Rat :=
  let g := max gi.x (max gi.y gi.z)
  8 * (symprec * sqrtUp g + (angtol.getD 0))

def checkC01 (cs : CaseQ) (d : DatasetQ) : List String :=
  let A := cs.cell.lat
  let Ai := A.inv
  let ix := SiteIndex.build cs.cell
  let gi := ix.gi
  let r := 4 * d.symprec
  let r2 := r * r
  let bound := angleBound d.symprec d.angtol gi
  let fails := (List.range d.ops.size).flatMap fun k =>
    let o := d.ops[k]!
    let dt := o.rot.det
    let f1 := if dt == 1 || dt == -1 then [] else [s!"C01: op {k} det {dt}"]
    let Q := (A.mul (QM3.ofM3 o.rot)).mul Ai
    let dev := ((Q.transpose.mul Q).sub QM3.one).maxAbs
    let f2 := if dev ≤ bound then [] else [s!"C01: op {k} does not preserve the metric (|QtQ-I| = {Wire.ratToString (dev)})"]
    let f3 := match (List.range cs.cell.n).find? (fun i =>
        (ix.find (opAct o cs.cell.pos[i]!) cs.cell.num[i]! r2).isNone) with
      | some i => [s!"C01: op {k} moves atom {i} onto no atom of its species within 4*symprec"]
      | none => []
    f1 ++ f2 ++ f3
  cap fails

/-! ### C02 -/

/-- translation parts equal modulo ℤ³ within Cartesian distance² `r2` -/
def transClose (A : QM3) (gi : Q3) (t u : Q3) (r2 : Rat) : Bool := withinPeriodic A gi (t.sub u) r2

def hasOp (A : QM3) (gi : Q3) (ops : Array OpQ) (o : OpQ) (r2 : Rat) : Bool :=
  ops.any fun p => p.rot == o.rot && transClose A gi p.trans o.trans r2

/-- Operations grouped by rotation part (at most 48 groups), for fast membership tests. -/
def groupByRot (ops : Array OpQ) : Array (M3 × Array Q3) :=
  ops.foldl (fun acc o =>
    match acc.findIdx? (fun g => g.1 == o.rot) with
    | some i => acc.modify i fun g => (g.1, g.2.push o.trans)
    | none => acc.push (o.rot, #[o.trans])) #[]

def hasOpG (A : QM3) (gi : Q3) (g : Array (M3 × Array Q3)) (o : OpQ) (r2 : Rat) : Bool :=
  match g.find? (fun e => e.1 == o.rot) with
  | none => false
  | some e => e.2.any fun t => transClose A gi t o.trans r2

/-- Conventional operations of Hall number `h` from the regenerated table and the parser model. -/
def convOpsOfHall (h : Nat) : Option (List HOp) :=
  if h = 0 then none else
  match hallTable[h - 1]? with
  | none => none
  | some e => (HallSymbol.new e.hallSymbol).bind HallSymbol.conventionalOps

/-- Coset representatives of `ℤ³ / P ℤ³` as fractional translations of the new cell: the first `m`
distinct values of `frac (P⁻¹ (i,j,k))`, `0 ≤ i,j,k < m`, in lexicographic order of `(i,j,k)`. -/
def cosetReps (Pinv : QM3) (m : Nat) : List Q3 :=
  let cands : List Q3 := (List.range m).flatMap fun (i : Nat) => (List.range m).flatMap fun (j : Nat) =>
    (List.range m).map fun (k : Nat) => (Pinv.apply ⟨(i : Rat), (j : Rat), (k : Rat)⟩).frac
  (cands.foldl (fun acc v => if acc.length < m && !(acc.contains v) then v :: acc else acc) []).reverse

/-- The elements of the generating group that preserve the input lattice, expressed in the input
cell: conjugation by the recorded re-description `(P, p)`, times the coset translations of ℤ³/Pℤ³. -/
def expectedOps (t : TruthQ) : Option (List OpQ) :=
  match convOpsOfHall t.hall with
  | none => none
  | some conv =>
    let P := t.p
    let dt := P.det
    if dt ≤ 0 then none else
    let Pinv : QM3 := QM3.smul (1 / (dt : Rat)) (QM3.ofM3 P.adj)
    let m := dt.toNat
    -- coset representatives of ℤ³ / P ℤ³ as fractional translations of the new cell
    let cosets : List Q3 := cosetReps Pinv m
    let base := conv.filterMap fun o =>
      let num := (P.adj.mul o.rot).mul P
      if num.divisibleBy dt then
        let N := num.divExact dt
        let tq := o.trans.toQ 12
        let s := Pinv.apply (((o.rot.applyQ t.shift).add tq).sub t.shift)
        some (⟨N, s⟩ : OpQ)
      else none
    some (cosets.flatMap fun c => base.map fun o => ⟨o.rot, o.trans.add c⟩)

def checkC02 (cs : CaseQ) (d : DatasetQ) : List String :=
  let A := cs.cell.lat
  let gi := ginvDiag A
  let r := 4 * d.symprec
  let r2 := r * r
  let tiny : Rat := 1 / 1000000
  let ops := d.ops
  let k := ops.size
  let idOp : OpQ := ⟨M3.one, Q3.zero⟩
  let grp := groupByRot ops
  let f0 := if hasOpG A gi grp idOp r2 then [] else ["C02: identity missing"]
  -- duplicates modulo lattice translations (fractional 1e-6)
  let f1 := (List.range k).filterMap fun i =>
    let o := ops[i]!
    if (List.range i).any fun j =>
        let p := ops[j]!
        p.rot == o.rot && (let w := (p.trans.sub o.trans).wrap; rabs w.x < tiny && rabs w.y < tiny && rabs w.z < tiny)
    then some s!"C02: operations {i} duplicates an earlier one modulo lattice translations" else none
  -- closure and inverses: all pairs when small, a fixed sub-family of right factors otherwise
  let rights : List Nat := if k ≤ 48 then List.range k else (List.range k).filter fun j => j < 8 || j % 7 == 0
  let f2 := (List.range k).filterMap fun i =>
    let a := ops[i]!
    match rights.find? (fun j => !(hasOpG A gi grp (opMul a ops[j]!) r2)) with
    | some j => some s!"C02: product of operations {i} and {j} is not reported"
    | none => none
  let f3 := (List.range k).filterMap fun i =>
    let a := ops[i]!
    if grp.any fun e => a.rot.mul e.1 == M3.one && e.2.any fun t =>
        transClose A gi ((a.rot.applyQ t).add a.trans) Q3.zero r2
    then none else some s!"C02: operation {i} has no inverse in the list"
  -- completeness against the constructed group
  let f4 := match expectedOps cs.truth with
    | none => ["C02: oracle could not construct the expected group"]
    | some exp =>
      let expG := groupByRot exp.toArray
      let missed := exp.filter fun e => !(hasOpG A gi grp e r2)
      let invented := ops.toList.filter fun o => !(hasOpG A gi expG o r2)
      (if missed.isEmpty then [] else [s!"C02: {missed.length} of {exp.length} expected operations are missed"]) ++
      (if invented.isEmpty then [] else [s!"C02: {invented.length} of {k} reported operations are not elements of the generating group"]) ++
      (if exp.length == k then [] else [s!"C02: {k} operations reported, {exp.length} expected"])
  -- pure translations = index of the primitive cell
  let ntrans := (ops.toList.filter fun o => o.rot == M3.one).length
  let f5 := if d.primCell.n * ntrans == cs.cell.n then [] else
    [s!"C02: {ntrans} pure translations but input has {cs.cell.n} atoms and the primitive cell {d.primCell.n}"]
  cap (f0 ++ f1.take 1 ++ f2.take 1 ++ f3.take 1 ++ f4 ++ f5) 6

/-! ### C03 / C10 -/

def expectedHall (setting : SettingQ) (number : Nat) : Option Nat :=
  match setting with
  | .spglib => spglibHallNumbers[number - 1]?
  | .standard => standardHallNumbers[number - 1]?
  | .hall h => some h.toNat

def checkC03 (cs : CaseQ) (d : DatasetQ) : List String :=
  match hallTable[cs.truth.hall - 1]? with
  | none => ["C03: bad truth"]
  | some e =>
    let f1 := if d.number == (e.number : Int) then [] else
      [s!"C03: number {d.number} but the crystal was generated from Hall {cs.truth.hall} of type {e.number}"]
    let f2 := match expectedHall cs.setting e.number with
      | some h => if d.hallNumber == (h : Int) then [] else [s!"C03: Hall number {d.hallNumber}, expected {h} for this setting"]
      | none => ["C03: no expected Hall number"]
    f1 ++ f2

/-! ### C05 -/

def matClose (p q : QM3) (tol : Rat) : Bool := (p.sub q).maxAbs ≤ tol * (1 + q.maxAbs)

def checkC05 (cs : CaseQ) (d : DatasetQ) : List String :=
  let A := cs.cell.lat
  let r := 4 * d.symprec
  let r2 := r * r
  let Q := d.stdRot
  let tol : Rat := 1 / 1000000000
  let f1 := if matClose (Q.transpose.mul Q) QM3.one tol && Q.det > 0 then [] else ["C05: std_rotation_matrix is not a proper rotation"]
  let f2 := if matClose ((Q.mul A).mul d.stdLinear) d.stdCell.lat tol then [] else
    ["C05: std_rotation_matrix * A * std_linear differs from the lattice of std_cell"]
  let f3 := if matClose ((Q.mul A).mul d.primLinear) d.primCell.lat tol then [] else
    ["C05: std_rotation_matrix * A * prim_std_linear differs from the lattice of prim_std_cell"]
  let ixS := SiteIndex.build d.stdCell
  let ixP := SiteIndex.build d.primCell
  let ixI := SiteIndex.build cs.cell
  let giP := ixP.gi
  let Li := d.stdLinear.inv
  let Pi := d.primLinear.inv
  let n := cs.cell.n
  -- every input atom lands on a std_cell site of its species
  let landed : List (Option Nat) := (List.range n).map fun i =>
    ixS.find (Li.apply (cs.cell.pos[i]!.sub d.stdShift)) cs.cell.num[i]! r2
  let f4 := match (List.range n).find? (fun i => (landed[i]!).isNone) with
    | some i => [s!"C05: input atom {i} is not carried onto a std_cell site of its species within 4*symprec"]
    | none => []
  -- every std_cell site is reached: its pre-image `std_linear * s + shift` is an input atom of its species
  let f5 := match (List.range d.stdCell.n).find? (fun j =>
      (ixI.find ((d.stdLinear.apply d.stdCell.pos[j]!).add d.stdShift) d.stdCell.num[j]! r2).isNone) with
    | some j => [s!"C05: std_cell site {j} is not the image of any input atom"]
    | none => []
  -- N * |det std_linear| atoms
  let detL := rabs d.stdLinear.det
  let f6 := if rabs ((d.stdCell.n : Rat) - (n : Rat) * detL) ≤ 1 / 1000 then [] else
    [s!"C05: std_cell has {d.stdCell.n} atoms, N*|det std_linear| = {Wire.ratToString ((n : Rat) * detL)}"]
  -- primitive transformation onto exactly mapping_std_prim[i]
  let f7 := (List.range n).filterMap fun i =>
    let y := Pi.apply (cs.cell.pos[i]!.sub d.primShift)
    match d.mapping[i]? with
    | none => some s!"C05: mapping_std_prim has no entry for atom {i}"
    | some j =>
      if j < d.primCell.n && d.primCell.num[j]! == cs.cell.num[i]! &&
         withinPeriodic d.primCell.lat giP (y.sub d.primCell.pos[j]!) r2 then none
      else some s!"C05: input atom {i} is not carried onto prim_std_cell site mapping_std_prim[{i}] = {j}"
  -- same primitive site ⇔ related by a reported pure translation:
  -- (a) every translate of atom i is an atom with the same primitive site, and
  -- (b) the atoms sharing i's primitive site are exactly as many as its distinct translates.
  let trans := d.ops.toList.filter fun o => o.rot == M3.one
  let f8 := (List.range n).filterMap fun i =>
    let images := trans.map fun t => ixI.find (cs.cell.pos[i]!.add t.trans) cs.cell.num[i]! r2
    if images.any Option.isNone then some s!"C05: a reported pure translation moves atom {i} onto no atom" else
    let js := (images.filterMap id).eraseDups
    if js.any fun j => d.mapping[j]? != d.mapping[i]? then
      some s!"C05: atom {i} and one of its translates have different primitive sites"
    else
      let sharing := (List.range n).filter fun j => d.mapping[j]? == d.mapping[i]?
      if sharing.length == js.length then none else
        some s!"C05: {sharing.length} atoms share the primitive site of atom {i} but it has {js.length} translates"
  cap (f1 ++ f2 ++ f3 ++ f4 ++ f5 ++ f6 ++ f7.take 1 ++ f8.take 1) 6

/-! ### C06 -/

def centeringOfHall (h : Nat) : Option Centering :=
  (hallTable[h - 1]?).bind fun e => Centering.ofString? e.centering

def bravaisOfHall (h : Nat) : Option String :=
  (hallTable[h - 1]?).bind fun e => (arithTable[e.arithmeticNumber - 1]?).map (·.bravaisClass)

def isMonoclinic (h : Nat) : Bool :=
  match bravaisOfHall h with
  | some b => b == "mP" || b == "mC"
  | none => false

def checkC06 (cs : CaseQ) (d : DatasetQ) : List String :=
  let S := d.stdCell
  let ixS := SiteIndex.build S
  let eps : Rat := 1 / 100000000
  let eps2 := eps * eps
  let r := 4 * d.symprec
  let r2 := r * r
  let h := d.hallNumber.toNat
  let f1 := match convOpsOfHall h with
    | none => [s!"C06: Hall number {h} has no tabulated operations"]
    | some conv =>
      (List.range conv.length).filterMap fun k =>
        let o : HOp := conv[k]!
        let tq := o.trans.toQ 12
        match (List.range S.n).find? (fun i =>
            (ixS.find ((o.rot.applyQ S.pos[i]!).add tq) S.num[i]! eps2).isNone) with
        | some i => some s!"C06: tabulated operation {k} of Hall {h} does not map std_cell site {i} onto a site (1e-8 A)"
        | none => none
  -- symmetrised sites stay close to the transformed input sites: covered by C05 (4*symprec) — repeat with std only
  -- lattice relation
  let M := (d.primCell.lat.inv).mul S.lat
  let Mr : QM3 := ⟨ratRound M.a, ratRound M.b, ratRound M.c, ratRound M.d, ratRound M.e, ratRound M.f, ratRound M.g, ratRound M.h, ratRound M.i⟩
  let tol : Rat := 1 / 10000000
  let f2 := if (M.sub Mr).maxAbs ≤ tol then [] else ["C06: std lattice is not an integer multiple of the prim_std lattice"]
  let f3 := match centeringOfHall h with
    | none => ["C06: unknown centering"]
    | some c =>
      (if Mr.det == (c.order : Rat) then [] else [s!"C06: det of the lattice relation is {Wire.ratToString Mr.det}, centering order {c.order}"]) ++
      (if isMonoclinic h || Mr == QM3.ofM3 c.linear then [] else ["C06: lattice relation is not the tabulated centering matrix"]) ++
      (if S.n == d.primCell.n * c.order then [] else [s!"C06: std_cell has {S.n} atoms, prim_std_cell {d.primCell.n}, centering order {c.order}"])
  -- prim_std_cell has no non-trivial pure translation
  let P := d.primCell
  let ixP := SiteIndex.build P
  let sp := d.symprec
  let sp2 := sp * sp
  let f4 := if P.n == 0 then ["C06: empty prim_std_cell"] else
    let x0 := P.pos[0]!
    match (List.range P.n).find? (fun j =>
        j != 0 && P.num[j]! == P.num[0]! &&
        (let t := P.pos[j]!.sub x0
         (List.range P.n).all fun i => (ixP.find (P.pos[i]!.add t) P.num[i]! sp2).isSome)) with
    | some j => [s!"C06: prim_std_cell is mapped onto itself by the translation from site 0 to site {j}"]
    | none => []
  -- orientation for undistorted input: a along x, b in the xy-plane
  let L := S.lat
  let scale := L.maxAbs
  let f5 := if cs.truth.noisy then [] else
    if rabs L.d ≤ eps * (1 + scale) && rabs L.g ≤ eps * (1 + scale) && rabs L.h ≤ eps * (1 + scale) then []
    else ["C06: std_cell basis is not upper triangular (a along x, b in the xy-plane)"]
  let f6 := match bravaisOfHall h with
    | some b => if d.pearson == s!"{b}{S.n}" then [] else [s!"C06: Pearson symbol {d.pearson}, expected {b}{S.n}"]
    | none => ["C06: no Bravais class"]
  -- each symmetrised std site within 4*symprec of the transformed input site is C05's clause; here the converse direction
  let _ := r2
  cap (f1.take 2 ++ f2 ++ f3 ++ f4 ++ f5 ++ f6) 6

/-! ### C07 (orbit partition and table facts; subspace clause in `Wyckoff.lean`) -/

def checkC07orbits (cs : CaseQ) (d : DatasetQ) : List String :=
  let n := cs.cell.n
  let f0 := if d.orbits.size == n && d.wyck.size == n && d.siteSym.size == n then [] else ["C07: per-atom arrays have the wrong length"]
  if !f0.isEmpty then f0 else
  -- same label ⇔ same generating orbit
  let f1 := (List.range n).filterMap fun i =>
    (List.range i).findSome? fun j =>
      let same := d.orbits[i]! == d.orbits[j]!
      let tr := cs.truth.orbit[i]! == cs.truth.orbit[j]!
      if same == tr then none else some s!"C07: atoms {j},{i}: same orbit label = {same}, equivalent in the generating group = {tr}"
  let f2 := (List.range n).filterMap fun i =>
    let l := d.orbits[i]!
    if l ≤ i && d.orbits[l]! == l && !((List.range l).any fun j => d.orbits[j]! == l) then none
    else some s!"C07: orbit label of atom {i} is {l}, not the smallest index of its orbit"
  let f3 := (List.range n).filterMap fun i =>
    let l := d.orbits[i]!
    if l < n && d.wyck[i]! == d.wyck[l]! && d.siteSym[i]! == d.siteSym[l]! then none
    else some s!"C07: Wyckoff letter or site symmetry differs inside the orbit of atom {i}"
  cap (f1.take 1 ++ f2.take 1 ++ f3.take 1)

/-! ### C09 (single-dataset clauses; twin comparison is done by the driver over two lines) -/

def checkC09 (cs : CaseQ) (d : DatasetQ) : List String :=
  let f1 := if d.symprec > 0 then [] else ["C09: returned symprec is not positive"]
  let f2 := match d.angtol with
    | some a => if a > 0 then [] else ["C09: returned angle tolerance is not positive"]
    | none => []
  -- every generated case satisfies the premise (symmetric crystal, noise <= 5% symprec, symmetry gap >= 20 symprec),
  -- so the first attempt must succeed and the returned tolerances are the requested ones
  let adjusting := (cs.truth.steps.splitOn "bignoise").length > 1
  let f3 := if adjusting || d.symprec == cs.symprec then [] else
    [s!"C09: returned symprec {Wire.ratToString d.symprec} differs from the requested {Wire.ratToString cs.symprec}"]
  let f4 := if adjusting || d.angtol == cs.angtol then [] else ["C09: returned angle tolerance differs from the requested one"]
  f1 ++ f2 ++ f3 ++ f4

/-- Tabulated multiplicity of Wyckoff letter `l` of Hall number `h` (0 if absent). -/
def wyckoffMultiplicity (h : Nat) (l : String) : Nat :=
  match wyckoffTableList.find? (fun e => e.hallNumber == h && l == String.singleton e.letter) with
  | some e => e.multiplicity
  | none => 0

/-- Orientation-free form of a site-symmetry symbol: its characters without dots, sorted. -/
def siteSymKey (s : String) : String :=
  String.ofList ((s.toList.filter (· != '.')).mergeSort (fun a b => a ≤ b))

/-- Summary used to compare a run with a twin (noisy / scaled / re-described):
`number hall nops | ntranslations pearson | orbit labels | Wyckoff multiplicities | site-symmetry keys`. -/
def summary (d : DatasetQ) : String :=
  let ntrans := (d.ops.toList.filter fun o => o.rot == M3.one).length
  let h := d.hallNumber.toNat
  let mults := d.wyck.toList.map (wyckoffMultiplicity h)
  let keys := d.siteSym.toList.map siteSymKey
  s!"{d.number} {d.hallNumber} {d.ops.size} ; {ntrans} {d.pearson} ; {d.orbits.toList} ; {mults} ; {keys}"

/-- ITA number of a Hall number (none when out of range). -/
def numberOfHall (h : Int) : Option Nat :=
  if h < 1 then none else (hallTable[h.toNat - 1]?).map (·.number)

def checkAll (cs : CaseQ) : List String :=
  let truthNumber := numberOfHall cs.truth.hall
  -- does the request (if any) name a Hall setting of the crystal's own type?
  let requestMatches : Bool := match cs.setting with
    | .hall h => numberOfHall h == truthNumber && truthNumber.isSome
    | _ => true
  match cs.out with
  | .panic msg => [s!"C08: panic {msg}"]
  | .err name =>
    -- C03/C10 require an answer on premise-satisfying inputs; a refusal is right for a non-matching request
    match cs.setting with
    | .hall _ => if requestMatches then [s!"C10: error {name} for a crystal of the requested type"] else []
    | _ => [s!"C03: error {name} on a crystal whose group is a tabulated setting"]
  | .ok d =>
    if !requestMatches then
      [s!"C10: a dataset (number {d.number}, Hall {d.hallNumber}) was returned although the crystal's type differs from the requested Hall setting's type or the Hall number is out of range"]
    else
    let c10 := match cs.setting with
      | .hall h => if d.hallNumber == h then [] else [s!"C10: Hall number {d.hallNumber} returned, {h} requested"]
      | _ => []
    c10 ++ checkC01 cs d ++ checkC02 cs d ++ checkC03 cs d ++ checkC05 cs d ++ checkC06 cs d ++ checkC07orbits cs d ++ checkC09 cs d

end Moyo.Oracle
