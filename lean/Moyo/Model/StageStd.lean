import Moyo.Model.Dataset
import Moyo.Model.HNF
/-
Stage S6, part 1: the exact-rational model of the cell bookkeeping of `StandardizedCell::new`
(moyo/src/symmetrize/standardize.rs) and of the transformations it uses
(moyo/src/base/transformation.rs):

* `UTrans`            — `UnimodularTransformation` (`new` panics unless `det = 1`; `linear_inv` is the
                        rounded float inverse, i.e. the adjugate), `Mul`, `transform_lattice`,
                        `transform_operation(s)`, `transform_cell`;
* `reorderPerms`      — the `HashMap<Rotation, Permutation>` re-ordering (last write wins, `.get().unwrap()`);
* `symmetrizePositions` — `symmetrize_positions` (Reynolds average of the wrapped displacements);
* `latticePoints`, `transformCellPos`, `transformCellMap` — `Transformation::transform_cell`:
  coset representatives `L⁻¹ f`, `f ∈ ∏ [0, D_ii)` of the Smith normal form `D = L M R`, in the literal
  order of `iproduct!`, positions `(M⁻¹ (x + n)) % 1.` (truncated remainder), `site_mapping`.

Everything is over exact rationals; lists (not arrays) so that the theorems of `Props/C05Stages.lean`
and `Props/C06Stages.lean` can speak about the very functions the driver runs.  Core Lean only.
-/
namespace Moyo.StageStd
open Moyo

/-! ### 3×3 bridge to the general integer matrices of the SNF model -/

/-- Entry `(i, j)` of a 3×3 matrix. -/
def entry (m : M3) (i j : Fin 3) : Int :=
  match i, j with
  | 0, 0 => m.a | 0, 1 => m.b | 0, 2 => m.c
  | 1, 0 => m.d | 1, 1 => m.e | 1, 2 => m.f
  | 2, 0 => m.g | 2, 1 => m.h | 2, 2 => m.i

def toIMat (m : M3) : IMat 3 3 := IMat.ofFn (entry m)

def ofIMat (A : IMat 3 3) : M3 :=
  ⟨A.get 0 0, A.get 0 1, A.get 0 2, A.get 1 0, A.get 1 1, A.get 1 2, A.get 2 0, A.get 2 1, A.get 2 2⟩

def Z3.toQ3 (v : Z3) : Q3 := ⟨v.x, v.y, v.z⟩

/-! ### `UnimodularTransformation` -/

structure UTrans where
  linear : M3
  shift : Q3
deriving Repr, Inhabited

namespace UTrans

/-- `UnimodularTransformation::new`: panics (here `none`) unless the determinant is one. -/
def new? (P : M3) (p : Q3) : Option UTrans := if P.det = 1 then some ⟨P, p⟩ else none

/-- `linear_inv` (`try_inverse().map(round)`): for `det = 1` the adjugate. -/
def linv (u : UTrans) : M3 := u.linear.adj

/-- `impl Mul`: `(P₁, p₁)(P₂, p₂) = (P₁ P₂, P₁ p₂ + p₁)`. -/
def mul (a b : UTrans) : UTrans := ⟨a.linear.mul b.linear, (a.linear.applyQ b.shift).add a.shift⟩

/-- `transform_lattice`: `A ↦ A·P` (basis vectors are columns). -/
def transformLattice (u : UTrans) (A : QM3) : QM3 := A.mul (QM3.ofM3 u.linear)

/-- Position map of `transform_cell`: `x ↦ P⁻¹ (x − p)`. -/
def transformPos (u : UTrans) (x : Q3) : Q3 := u.linv.applyQ (x.sub u.shift)

/-- `transform_operation`: `(P⁻¹ R P, P⁻¹ (R p + t − p))`. -/
def transformOp (u : UTrans) (o : OpQ) : OpQ :=
  ⟨(u.linv.mul o.rot).mul u.linear, u.linv.applyQ (((o.rot.applyQ u.shift).add o.trans).sub u.shift)⟩

end UTrans

/-! ### permutations re-ordered through the hash map keyed by rotation -/

/-- `permutation_mapping.get(&rotation)` after inserting `(rotations[k], perms[k])` in order: the
**last** entry with that key (`HashMap::insert` overwrites). -/
def lookupLast (keys : List M3) (perms : List (List Nat)) (r : M3) : Option (List Nat) :=
  ((keys.zip perms).reverse.find? fun kp => kp.1 == r).map (·.2)

/-- `prim_std_permutations`: `none` where the code's `.unwrap()` panics. -/
def reorderPerms (keys : List M3) (perms : List (List Nat)) (stdRots : List M3) : Option (List (List Nat)) :=
  stdRots.mapM (lookupLast keys perms)

/-! ### `symmetrize_positions` -/

/-- `Permutation::inverse().apply(i)`: the index `j` with `mapping[j] = i` (the code fills
`inv[mapping[j]] = j`; for a bijection that is the unique such `j`). -/
def permInv (p : List Nat) (i : Nat) : Nat := p.idxOf i

def sumQ3 (l : List Q3) : Q3 := l.foldr Q3.add Q3.zero

/-- Wrapped displacement of site `i` under the operation `o` paired with permutation `p`:
`R x[p⁻¹ i] + t − x[i]`, minus its rounding (each component in `[-1/2, 1/2]`). -/
def disp (pos : List Q3) (o : OpQ) (p : List Nat) (i : Nat) : Q3 :=
  (((o.rot.applyQ (pos.getD (permInv p i) Q3.zero)).add o.trans).sub (pos.getD i Q3.zero)).wrap

/-- New position of site `i`: `x[i] + (Σ_k disp_k) / permutations.len()`. -/
def symmetrizeOne (ops : List OpQ) (perms : List (List Nat)) (pos : List Q3) (i : Nat) : Q3 :=
  (pos.getD i Q3.zero).add
    (Q3.smul (1 / (perms.length : Rat)) (sumQ3 ((ops.zip perms).map fun op => disp pos op.1 op.2 i)))

/-- `symmetrize_positions(cell, operations, permutations)`. -/
def symmetrizePositions (ops : List OpQ) (perms : List (List Nat)) (pos : List Q3) : List Q3 :=
  (List.range pos.length).map (symmetrizeOne ops perms pos)

/-! ### `Transformation::transform_cell` -/

/-- Inverse of the unimodular `L` of the SNF (`try_inverse().map(round)`): `det L · adj L`, which is
the inverse because `det L = ±1`. -/
def unimodInv (L : M3) : M3 := M3.smul L.det L.adj

/-- `iproduct!(0..d0, 0..d1, 0..d2)`: first factor slowest. -/
def boxPoints (d0 d1 d2 : Nat) : List Z3 :=
  (List.range d0).flatMap fun (f0 : Nat) => (List.range d1).flatMap fun (f1 : Nat) =>
    (List.range d2).map fun (f2 : Nat) => (⟨Int.ofNat f0, Int.ofNat f1, Int.ofNat f2⟩ : Z3)

/-- The lattice points `L⁻¹ (f0, f1, f2)`, `f_i ∈ 0..D_ii`, in the order of `iproduct!`. -/
def latticePoints (M : M3) : List Z3 :=
  let s := snf (toIMat M)
  let linv := unimodInv (ofIMat s.l)
  (boxPoints (s.d.get 0 0).toNat (s.d.get 1 1).toNat (s.d.get 2 2).toNat).map linv.apply

/-- New fractional coordinates of the image of `x` displaced by the lattice point `n`:
`(M⁻¹ (x + n)).map(|e| e % 1.)`. -/
def newPosition (M : M3) (x : Q3) (n : Z3) : Q3 :=
  (((QM3.ofM3 M).inv.apply (x.add (Z3.toQ3 n)))).map ratTruncFrac

/-- Positions of the transformed cell: site-major, lattice points in order. -/
def transformCellPos (M : M3) (pos : List Q3) : List Q3 :=
  pos.flatMap fun x => (latticePoints M).map fun n => newPosition M x n

/-- `site_mapping` of the transformed cell. -/
def transformCellMap (M : M3) (n : Nat) : List Nat :=
  (List.range n).flatMap fun i => (latticePoints M).map fun _ => i

/-- Species of the transformed cell. -/
def transformCellNum (M : M3) (num : List Int) : List Int :=
  num.flatMap fun z => (latticePoints M).map fun _ => z

/-! ### the composed transformation -/

/-- `Transformation::new(prim_transformation.linear * conv_trans_linear, prim_transformation.origin_shift)`. -/
def composedLinear (prim : UTrans) (conv : M3) : M3 := prim.linear.mul conv

/-- Position map of a general `(M, p)`: `x ↦ M⁻¹ (x − p)` (rational inverse). -/
def transformPosQ (M : M3) (p : Q3) (x : Q3) : Q3 := (QM3.ofM3 M).inv.apply (x.sub p)

end Moyo.StageStd

/-! ### decidable hypotheses of `reynolds_positions` (evaluated by the driver on every case) -/
namespace Moyo.StageStd
open Moyo

def rabs (q : Rat) : Rat := if q < 0 then -q else q

def isInt (q : Rat) : Bool := q.den == 1
def isInt3 (v : Q3) : Bool := isInt v.x && isInt v.y && isInt v.z

/-- `p` is a bijection of `0..n` given by its list of images. -/
def isPerm (n : Nat) (p : List Nat) : Bool :=
  p.length == n && p.all (fun j => decide (j < n)) && decide p.Nodup && (List.range n).all fun i => p.contains i

def opAt (ops : List OpQ) (k : Nat) : OpQ := ops.getD k ⟨M3.one, Q3.zero⟩
def permAt (perms : List (List Nat)) (k : Nat) : List Nat := perms.getD k []

/-- Operation `c` is the product of `k` and `l` modulo lattice translations, and so are the paired
permutations: `R_c = R_k R_l`, `t_c − (R_k t_l + t_k) ∈ ℤ³`, `π_c = π_k ∘ π_l`. -/
def composes (ops : List OpQ) (perms : List (List Nat)) (n k l c : Nat) : Bool :=
  let ok := opAt ops k
  let ol := opAt ops l
  let oc := opAt ops c
  oc.rot == ok.rot.mul ol.rot &&
  isInt3 (oc.trans.sub ((ok.rot.applyQ ol.trans).add ok.trans)) &&
  (List.range n).all fun i => (permAt perms c).getD i 0 == (permAt perms k).getD ((permAt perms l).getD i 0) 0

/-- The permutations paired with the operations form a compatible action: as many permutations as
operations (at least one), every permutation a bijection of the `n` sites, rotations pairwise
distinct and invertible, and the set closed under composition with the permutations composing
accordingly. -/
def compatAction (ops : List OpQ) (perms : List (List Nat)) (n : Nat) : Bool :=
  let m := ops.length
  perms.length == m && decide (0 < m) && perms.all (isPerm n) &&
  decide (ops.map (·.rot)).Nodup && ops.all (fun o => o.rot.det != 0) &&
  (List.range m).all fun k => (List.range m).all fun l => (List.range m).any fun c => composes ops perms n k l c

def absLt3 (v : Q3) (b : Rat) : Bool := decide (rabs v.x < b) && decide (rabs v.y < b) && decide (rabs v.z < b)

/-- Every wrapped displacement has all components of absolute value `< 1/4`, and its image under
every rotation of the group has all components of absolute value `< 1/2` (the second clause follows
from the first when the rows of the rotation have at most two non-zero entries `±1`; primitive
bases of I, F, R lattices have rows `(±1, ±1, ±1)`). -/
def smallDisp (ops : List OpQ) (perms : List (List Nat)) (pos : List Q3) : Bool :=
  let m := ops.length
  (List.range m).all fun l => (List.range pos.length).all fun i =>
    let d := disp pos (opAt ops l) (permAt perms l) i
    absLt3 d (1 / 4) && (List.range m).all fun k => absLt3 ((opAt ops k).rot.applyQ d) (1 / 2)

end Moyo.StageStd
