import Moyo.Model.Dataset
/-
Parsed form of one magnetic pipeline case line written by the harness (`harness/src/magpipe.rs`):
input magnetic cell, parameters, generator ground truth and the implementation's
`MoyoMagneticDataset` (exact rationals; moments are exact dyadics).
A collinear moment `m` is stored as the vector `(m, 0, 0)`.
-/
namespace Moyo
open Moyo.Wire

structure MagCellQ where
  cell : CellQ
  mom : Array Q3
deriving Repr, Inhabited

/-- Magnetic operation `(R, t, θ)`; `tr = true` means time reversal. -/
structure MOpQ where
  rot : M3
  trans : Q3
  tr : Bool
deriving Repr, Inhabited

/-- The space-group part `(R, t)`. -/
def MOpQ.op (o : MOpQ) : OpQ := ⟨o.rot, o.trans⟩

structure MagTruthQ where
  /-- UNI number of the generating magnetic space group -/
  uni : Nat
  /-- construct type (1..4) the harness read from the running code's table (informative) -/
  ctype : Nat
  centering : String
  p : M3
  shift : Q3
  /-- accumulated rigid rotation applied to lattice and (non-collinear) moments -/
  q : QM3
  orbit : Array Int
  /-- "plain" | "reversed" | "zero" -/
  variant : String
  /-- the generating group forces the moment to vanish (grey groups) -/
  forcedZero : Bool
  steps : String
deriving Repr, Inhabited

structure MagDatasetQ where
  uni : Int
  ops : Array MOpQ
  orbits : Array Nat
  std : MagCellQ
  stdLinear : QM3
  stdShift : Q3
  stdRot : QM3
  prim : MagCellQ
  primLinear : QM3
  primShift : Q3
  mapping : Array Nat
  symprec : Rat
  magSymprec : Rat
  angtol : Option Rat
deriving Repr, Inhabited

inductive MagOutcome
  | ok (d : MagDatasetQ)
  | err (name : String)
  | panic (msg : String)
deriving Repr, Inhabited

structure MagCaseQ where
  tag : String
  mc : MagCellQ
  collinear : Bool
  axial : Bool
  symprec : Rat
  /-- `none` = `mag_symprec: None` (the code then uses `symprec`) -/
  magSymprec : Option Rat
  truth : MagTruthQ
  out : MagOutcome
deriving Repr, Inhabited

def parseMoments? (collinear : Bool) (n : Nat) (xs : List Rat) : Option (Array Q3) :=
  if collinear then
    if xs.length = n then some (xs.map fun m => (⟨m, 0, 0⟩ : Q3)).toArray else none
  else
    match q3s? xs with
    | some a => if a.size = n then some a else none
    | none => none

def parseMagCell? (segs : List (String × List String)) (pre : String) (collinear : Bool) : Option MagCellQ := do
  let cell ← parseCell? segs pre
  let mom ← parseMoments? collinear cell.n (← parseRats? (← seg? segs (pre ++ "mom")))
  some ⟨cell, mom⟩

def parseMOps? (n : Nat) (ts : List String) : Option (Array MOpQ) :=
  let rec go (fuel : Nat) (acc : Array MOpQ) (ts : List String) : Option (Array MOpQ) :=
    match fuel, ts with
    | _, [] => some acc
    | 0, _ => none
    | fuel + 1, a :: b :: c :: d :: e :: f :: g :: h :: i :: x :: y :: z :: th :: rest =>
      match parseInts? [a, b, c, d, e, f, g, h, i], parseRats? [x, y, z] with
      | some [a, b, c, d, e, f, g, h, i], some [x, y, z] =>
        if th = "0" || th = "1" then
          go fuel (acc.push ⟨⟨a, b, c, d, e, f, g, h, i⟩, ⟨x, y, z⟩, th = "1"⟩) rest
        else none
      | _, _ => none
    | _, _ => none
  match go (n + 1) #[] ts with
  | some a => if a.size = n then some a else none
  | none => none

def parseMagDataset? (segs : List (String × List String)) (collinear : Bool) : Option MagDatasetQ := do
  let uni ← ((← seg? segs "uni").head?).bind String.toInt?
  let nops ← ((← seg? segs "nops").head?).bind String.toNat?
  let ops ← parseMOps? nops (← seg? segs "mops")
  let orbits ← parseNats? (← seg? segs "orbits")
  let std ← parseMagCell? segs "std" collinear
  let stdLinear ← (← parseRats? (← seg? segs "stdlinear")) |> QM3.ofList?
  let stdShift ← (← parseRats? (← seg? segs "stdshift")) |> Q3.ofList?
  let stdRot ← (← parseRats? (← seg? segs "stdrot")) |> QM3.ofList?
  let prim ← parseMagCell? segs "prim" collinear
  let primLinear ← (← parseRats? (← seg? segs "primlinear")) |> QM3.ofList?
  let primShift ← (← parseRats? (← seg? segs "primshift")) |> Q3.ofList?
  let mapping ← parseNats? (← seg? segs "mapping")
  let symprec ← ((← seg? segs "osymprec").head?).bind parseRat?
  let magSymprec ← ((← seg? segs "omagsymprec").head?).bind parseRat?
  let angtol ← parseAngtol? (← seg? segs "oangtol")
  some { uni, ops, orbits := orbits.toArray, std, stdLinear, stdShift, stdRot, prim, primLinear, primShift,
         mapping := mapping.toArray, symprec, magSymprec, angtol }

def parseMagCase? (ts : List String) : Option MagCaseQ := do
  match ts with
  | "mds" :: tag :: rest =>
    let segs := segments rest
    let collinear ← match (← seg? segs "kind") with
      | ["collinear"] => some true
      | ["noncollinear"] => some false
      | _ => none
    let axial ← match (← seg? segs "action") with
      | ["axial"] => some true
      | ["polar"] => some false
      | _ => none
    let mc ← parseMagCell? segs "" collinear
    let symprec ← ((← seg? segs "symprec").head?).bind parseRat?
    let magSymprec ← match (← seg? segs "magsymprec") with
      | ["none"] => some none
      | [m] => (parseRat? m).map some
      | _ => none
    let tuni ← ((← seg? segs "tuni").head?).bind String.toNat?
    let tctype ← ((← seg? segs "tctype").head?).bind String.toNat?
    let tcent := " ".intercalate ((seg? segs "tcentering").getD [])
    let tP ← (← parseInts? (← seg? segs "tP")) |> M3.ofList?
    let tshift ← (← parseRats? (← seg? segs "tshift")) |> Q3.ofList?
    let tQ ← (← parseRats? (← seg? segs "tQ")) |> QM3.ofList?
    let torbit ← parseInts? (← seg? segs "torbit")
    let tvariant := " ".intercalate ((seg? segs "tvariant").getD [])
    let tforced := (seg? segs "tforcedzero") == some ["1"]
    let tsteps := " ".intercalate ((seg? segs "tsteps").getD [])
    let truth : MagTruthQ := ⟨tuni, tctype, tcent, tP, tshift, tQ, torbit.toArray, tvariant, tforced, tsteps⟩
    let out ← match (← seg? segs "out") with
      | ["ok"] => (parseMagDataset? segs collinear).map MagOutcome.ok
      | ["err"] => some (MagOutcome.err (" ".intercalate ((seg? segs "errname").getD [])))
      | ["panic"] => some (MagOutcome.panic (" ".intercalate ((seg? segs "msg").getD [])))
      | _ => none
    some ⟨tag, mc, collinear, axial, symprec, magSymprec, truth, out⟩
  | _ => none

end Moyo
