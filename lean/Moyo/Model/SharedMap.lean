/-
C18 — model of a hash map whose iteration order is chosen by an adversary.

Concrete state: an association list `List (K × V)` with distinct keys, in *some* order.  After every
operation an `Adversary` replaces the list by an arbitrary permutation of itself; it sees the whole
history of observations, so it subsumes every hash function, every per-process `RandomState` seed
and every rehash on growth.  `iterNext` (= `iter().next()`) returns the head of the list, i.e. the
first element *in iteration order*.

Abstract state (`AMap`): the function `K → Option V` plus its number of keys.  This is the
specification `HashMap` documents for the lookup-only interface.

Programs are adaptive: the next operation may depend on everything observed so far.
Core Lean only.
-/
namespace Moyo.Shared

/-- Operations on a map.  All but `iterNext` form the lookup-only interface. -/
inductive Op (K V : Type)
  /-- `HashMap::insert` (last write wins); observes the previous value. `HashSet::insert` is `V = Unit`. -/
  | insert (k : K) (v : V)
  | get (k : K)
  /-- `contains_key` / `HashSet::contains` -/
  | containsKey (k : K)
  /-- `entry(k).or_insert(v)`; observes the value stored afterwards -/
  | entryOrInsert (k : K) (v : V)
  | len
  | isEmpty
  /-- `map[&k]`: panics when absent -/
  | index (k : K)
  | remove (k : K)
  /-- `iter().next()`: first element in iteration order — NOT lookup-only -/
  | iterNext

def Op.lookupOnly {K V : Type} : Op K V → Bool
  | .iterNext => false
  | _ => true

/-- What the program sees. -/
inductive Obs (K V : Type)
  | val (o : Option V)
  | bool (b : Bool)
  | nat (n : Nat)
  | panic
  | item (o : Option (K × V))
  deriving DecidableEq, Repr

section
variable {K V : Type} [DecidableEq K]

def find (k : K) : List (K × V) → Option V
  | [] => none
  | (k', v) :: l => if k' = k then some v else find k l

def erase (k : K) : List (K × V) → List (K × V)
  | [] => []
  | (k', v) :: l => if k' = k then erase k l else (k', v) :: erase k l

/-- One operation on the concrete table. -/
def stepC (l : List (K × V)) : Op K V → List (K × V) × Obs K V
  | .insert k v => ((k, v) :: erase k l, .val (find k l))
  | .get k => (l, .val (find k l))
  | .containsKey k => (l, .bool (find k l).isSome)
  | .entryOrInsert k v =>
      match find k l with
      | some w => (l, .val (some w))
      | none => ((k, v) :: l, .val (some v))
  | .len => (l, .nat l.length)
  | .isEmpty => (l, .bool (l.length == 0))
  | .index k =>
      match find k l with
      | some w => (l, .val (some w))
      | none => (l, .panic)
  | .remove k => (erase k l, .val (find k l))
  | .iterNext => (l, .item l.head?)

/-- The adversary re-orders the table after every step, knowing the history of observations. -/
structure Adversary (K V : Type) where
  shuffle : List (Obs K V) → List (K × V) → List (K × V)
  perm : ∀ h l, (shuffle h l).Perm l

/-- The abstract map: a function with its number of keys. -/
structure AMap (K V : Type) where
  f : K → Option V
  size : Nat

def AMap.empty : AMap K V := ⟨fun _ => none, 0⟩

/-- The specification of every operation of the lookup-only interface on the abstract map
(`iterNext` is given a dummy meaning; no theorem uses it). -/
def stepA (a : AMap K V) : Op K V → AMap K V × Obs K V
  | .insert k v =>
      (⟨fun x => if x = k then some v else a.f x, if (a.f k).isSome then a.size else a.size + 1⟩, .val (a.f k))
  | .get k => (a, .val (a.f k))
  | .containsKey k => (a, .bool (a.f k).isSome)
  | .entryOrInsert k v =>
      match a.f k with
      | some w => (a, .val (some w))
      | none => (⟨fun x => if x = k then some v else a.f x, a.size + 1⟩, .val (some v))
  | .len => (a, .nat a.size)
  | .isEmpty => (a, .bool (a.size == 0))
  | .index k =>
      match a.f k with
      | some w => (a, .val (some w))
      | none => (a, .panic)
  | .remove k =>
      (⟨fun x => if x = k then none else a.f x, if (a.f k).isSome then a.size - 1 else a.size⟩, .val (a.f k))
  | .iterNext => (a, .item none)

/-- An adaptive program: the next operation as a function of the observations so far (`none` = stop). -/
abbrev Prog (K V : Type) := List (Obs K V) → Option (Op K V)

/-- Run at most `n` steps on the concrete table against an adversary; returns all observations. -/
def runC (adv : Adversary K V) (p : Prog K V) : Nat → List (K × V) → List (Obs K V) → List (Obs K V)
  | 0, _, h => h
  | n + 1, l, h =>
      match p h with
      | none => h
      | some op =>
          let r := stepC l op
          runC adv p n (adv.shuffle (h ++ [r.2]) r.1) (h ++ [r.2])

/-- Run at most `n` steps on the abstract map. -/
def runA (p : Prog K V) : Nat → AMap K V → List (Obs K V) → List (Obs K V)
  | 0, _, h => h
  | n + 1, a, h =>
      match p h with
      | none => h
      | some op =>
          let r := stepA a op
          runA p n r.1 (h ++ [r.2])

/-- A fixed operation sequence as a (non-adaptive) program. -/
def Prog.ofList (ops : List (Op K V)) : Prog K V := fun h => ops[h.length]?

/-- The adversary that never re-orders (insertion order, newest first). -/
def Adversary.id : Adversary K V := ⟨fun _ l => l, fun _ l => List.Perm.refl l⟩

/-- The adversary that reverses the table after every step. -/
def Adversary.rev : Adversary K V := ⟨fun _ l => l.reverse, fun _ l => List.reverse_perm l⟩

end
end Moyo.Shared
