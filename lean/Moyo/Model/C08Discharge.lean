import Moyo.Model.C08Inventory
import Moyo.Generated.C08Sites
/-
C08 — the hand-written discharge table of the panic-site inventory.

For every site of `Moyo.Generated.C08.sitesByFile` (regenerated from /repo by tools/translate_c08.py) one record
says why it cannot fire for a well-formed input (premise of C08: finite numbers, non-singular lattice, at least one
atom, positions / numbers / magnetic moments of equal length, positive finite tolerances), or names the known
finding that says it can.  Records match on file + fn + kind + expression text + multiplicity; a new `unwrap()`,
a new index expression or a changed guard produces a site that no record matches and
`Moyo.C08.all_sites_discharged` stops checking.

Every justification was written after reading the Rust source of the fn (and of its callers where the reason is
`callerValidated`).  `invariant "<name>"` names the statement that carries the argument; the ones that are Lean
theorems are qualified (`Moyo.C15.…`), the others are spelled out in the justification.

Global bulk rules (`bulkRules`) are restricted to lexical classes that establish the claim by themselves:
the translator read the declared fixed size of the indexed value off the source and compared the literal / the
literal loop bounds with it, or it saw that an operand of `/` has a float type.
-/
namespace Moyo.C08Inv.Table
open Moyo.C08Inv

private def ex (k : Kind) (e : String) (n : Nat) (r : Reason) (why : String) : Discharge := ⟨.exact k e n, r, why⟩

private def pWellFormed : Reason :=
  .outsidePremise "well-formed cell: positions, numbers (and magnetic_moments) have the same length"
private def pAtoms : Reason := .outsidePremise "at least one atom"
private def pNonSingular : Reason :=
  .outsidePremise "non-singular lattice: the f64 determinant of the basis is not exactly 0.0"
private def pFinite : Reason :=
  .outsidePremise "finite numbers: a NaN needs a non-finite coordinate or an overflowing intermediate (|entries| > ~1e150)"

/-- rules that hold for every site of the class, in any file -/
def bulkRules : List Discharge := [
  ⟨.cls .index "fixed-literal" none, .matrixLiteralIndex,
    "the translator read the declared fixed size of the base (array type / array literal / Matrix3 / Vector3 alias, not re-bound in the fn) and every literal is below it (evidence field: type and max)"⟩,
  ⟨.cls .index "fixed-loopvar" none, .loopBounded "literal bounds of the enclosing for / range closure, see evidence field",
    "as fixed-literal, with index variables of enclosing `for v in a..b` / `(a..b).map(|v| ..)` with literal bounds below the declared size"⟩,
  ⟨.cls .index "fixed-mod-literal" none, .loopBounded "`<usize expr> % <literal>` is below the literal",
    "as fixed-literal, each component is `% N` with N at most the declared size"⟩,
  ⟨.cls .div "float-operand" none, .notAPanic "IEEE-754 float division / remainder never panics",
    "one operand visibly has a float type (ends with `as f64`, float literal, float-only method, identifier declared f64); Rust has no mixed-type division"⟩
]

def tBase : List FileTable := [
  ⟨"base/cell.rs", [
    ⟨"Cell::new", 149412872181302, [
      ex .panic "panic ! ( \"positions and numbers should be the same length\" )" 1 pWellFormed
        "the constructor's own length check; internal callers (transform_cell, primitive_cell_from_transformation, standardize_and_symmetrize_cell) push / allocate both vectors with the same length"
    ]⟩,
    ⟨"orbits_from_permutations", 77661738891711, [
      ex .call "uf . union ( i , permutation . apply ( i ) )" 1
        (.callerValidated "primitive_cell_from_transformation, orbits_in_cell (assign_wyckoffs, MoyoDataset::new, MoyoMagneticDataset::new)")
        "uf has num_atoms keys, i < num_atoms by the loop, and every caller passes permutations computed by solve_correspondence for a cell with exactly num_atoms sites, whose mapping entries are kd-tree site indices < num_atoms",
      ex .call "uf . find ( i )" 2 (.loopBounded "for i in 0..num_atoms / (0..num_atoms).map; uf = QuickFindUf::new(num_atoms)")
        "key below the size the union-find was created with",
      ex .unwrap "identifier_mapping . get ( & uf . find ( i ) ) . unwrap ( )" 1
        (.checkedByGuard "identifier_mapping.entry(uf.find(i)).or_insert(i) for every i in 0..num_atoms")
        "the preceding loop inserted the key uf.find(i) for every i of the same range; no union happens in between"
    ]⟩
  ]⟩,
  ⟨"base/lattice.rs", [
    ⟨"Lattice::from_basis", 136481915483581, [
      ex .call "OMatrix :: from_rows ( & [ RowVector3 :: from ( basis [ 0 ] ) , RowVector3 :: from ( basis [ 1 ] ) , RowVector3 :: from ( basis [ 2 ] ) , ] )" 1
        (.fixedSize "three RowVector3 rows for the Matrix3<f64> that Lattice::new takes")
        "from_rows panics only when the number of rows differs from the static row count 3"
    ]⟩,
    ⟨"Lattice::lattice_constant", 111668194518029, [
      ex .index "g [ ( 0 , 0 ) ]" 1 .matrixLiteralIndex "g = self.metric_tensor() : Matrix3<f64>",
      ex .index "g [ ( 1 , 1 ) ]" 1 .matrixLiteralIndex "g : Matrix3<f64>",
      ex .index "g [ ( 2 , 2 ) ]" 1 .matrixLiteralIndex "g : Matrix3<f64>",
      ex .index "g [ ( 1 , 2 ) ]" 1 .matrixLiteralIndex "g : Matrix3<f64>",
      ex .index "g [ ( 0 , 2 ) ]" 1 .matrixLiteralIndex "g : Matrix3<f64>",
      ex .index "g [ ( 0 , 1 ) ]" 1 .matrixLiteralIndex "g : Matrix3<f64>",
      ex .div "g [ ( 1 , 2 ) ] / ( b * c )" 1 (.notAPanic "f64 / f64") "g has f64 entries, b and c are f64 square roots",
      ex .div "g [ ( 0 , 2 ) ] / ( a * c )" 1 (.notAPanic "f64 / f64") "as above",
      ex .div "g [ ( 0 , 1 ) ] / ( a * b )" 1 (.notAPanic "f64 / f64") "as above"
    ]⟩
  ]⟩,
  ⟨"base/magnetic_cell.rs", [
    ⟨"MagneticCell::from_cell", 112235483532080, [
      ex .panic "panic ! ( \"positions and magnetic_moments should be the same length\" )" 1 pWellFormed
        "the constructor's own length check; internal callers (transform_magnetic_cell, primitive_magnetic_cell_from_transformation, new_from_ref_cell) build one moment per site"
    ]⟩
  ]⟩,
  ⟨"base/operation.rs", [
    ⟨"Operation::cartesian_rotation", 160423541708002, [
      ex .unwrap "lattice . basis . try_inverse ( ) . unwrap ( )" 1 pNonSingular
        "nalgebra's 3x3 try_inverse returns None only when the computed determinant is exactly 0.0; callers pass the lattice of the reduced primitive (magnetic) cell, a unimodular / index-n re-basing of the input lattice (LOW CONFIDENCE for |entries| < ~1e-108 where the determinant underflows)"
    ]⟩,
    ⟨"Operation::fmt", 77682558569634, [
      ex .index "xyz [ 0 ]" 1 (.fixedSize "xyz = (0..3).map(..).collect::<Vec<_>>() has exactly 3 elements") "literal below 3",
      ex .index "xyz [ 1 ]" 1 (.fixedSize "xyz has exactly 3 elements") "literal below 3",
      ex .index "xyz [ 2 ]" 1 (.fixedSize "xyz has exactly 3 elements") "literal below 3"
    ]⟩,
    ⟨"traverse", 52601335803821, [
      ex .unwrap "queue . pop_front ( ) . unwrap ( )" 1 (.checkedByGuard "while !queue.is_empty()") "first statement of the loop body"
    ]⟩
  ]⟩,
  ⟨"base/permutation.rs", [
    ⟨"Permutation::apply", 249953521032595, [
      ex .index "self . mapping [ i ]" 1
        (.callerValidated "Permutation::mul, orbits_from_permutations, solve.rs, primitive_cell.rs, primitive_symmetry_search.rs, standardize.rs, magnetic_standardize.rs")
        "every call inside the crate passes i < size(): loops over 0..num_atoms of the cell the permutation was computed for, or a value of another permutation of the same size (public method with an unchecked precondition: not one of C08's entry points)"
    ]⟩,
    ⟨"Permutation::inverse", 274775359051122, [
      ex .index "inv [ j ]" 1
        (.callerValidated "solve_correspondence / solve_correspondence_naive / identity / mul / inverse are the only producers of mappings")
        "inv has size() entries and j is an entry of mapping; every mapping built in the crate has entries < its length (kd-tree site indices, 0..size, compositions), also when it is not a bijection"
    ]⟩
  ]⟩,
  ⟨"base/transformation.rs", [
    ⟨"UnimodularTransformation::new", 137728720298923, [
      ex .panic "panic ! ( \"Determinant of transformation matrix should be one.\" )" 1
        (.callerValidated "integral_normalizer, SpaceGroup::new, match_origin_shift, find_conjugator_type4, PrimitiveCell::new, PrimitiveMagneticCell::new, standardize_triclinic_cell, UNIMODULAR3_RANGE1, inverse, mul")
        "every caller passes a matrix of determinant +1: iter_unimodular_trans_mat and UNIMODULAR3_RANGE1 filter det == 1; point_group.prim_trans_mat (det 1 by match_with_cubic_point_group's check / iter_unimodular_trans_mat / identity) times corrections filtered to det 1; minkowski / niggli trans_mat are products of elementary matrices with the sign fixed to +; linear_inv and products of unimodular matrices",
      ex .unwrap "linear . map ( | e | e as f64 ) . try_inverse ( ) . unwrap ( )" 1
        (.checkedByGuard "if det != 1 { panic!(..) } just before")
        "an integer matrix whose rounded f64 determinant is 1 has a non-zero computed determinant (small integer entries: the f64 determinant is exact)"
    ]⟩,
    ⟨"Transformation::new", 274754182329960, [
      ex .unwrap "linear . map ( | e | e as f64 ) . try_inverse ( ) . unwrap ( )" 1
        (.callerValidated "HallSymbol / MagneticHallSymbol (centering.linear()), operations_in_cell, magnetic_operations_in_magnetic_cell, primitive_cell_from_transformation, standardize_and_symmetrize_cell, standardize_monoclinic_conv_cell")
        "every caller passes a matrix of determinant >= 1: Centering::linear (det 1,2,2,2,2,3,4), prim_cell.linear (unimodular x trans_mat x unimodular with det trans_mat == number of translations, checked in transformation_matrix_from_translations), products unimodular x centering x unimodular",
      ex .panic "panic ! ( \"Determinant of transformation matrix should be positive.\" )" 1
        (.callerValidated "same callers as the unwrap above")
        "determinant >= 1 at every call site (see the record above)"
    ]⟩,
    ⟨"Transformation::transform_cell", 195037505928051, [
      ex .unwrap "snf . l . map ( | e | e as f64 ) . try_inverse ( ) . unwrap ( )" 1 (.invariant "Moyo.C15.snf_unimodular_l")
        "L of the Smith normal form is a product of row swaps and row additions, determinant +-1, hence invertible",
      ex .index "snf . d [ ( 0 , 0 ) ]" 1 .matrixLiteralIndex "snf = SNF::new(&self.linear) with linear : Matrix3<i32>, so d is 3x3",
      ex .index "snf . d [ ( 1 , 1 ) ]" 1 .matrixLiteralIndex "d is 3x3",
      ex .index "snf . d [ ( 2 , 2 ) ]" 1 .matrixLiteralIndex "d is 3x3"
    ]⟩,
    ⟨"Transformation::transform_magnetic_cell", 128809554265345, [
      ex .index "magnetic_cell . magnetic_moments [ i ]" 1
        (.loopBounded "i ranges over site_mapping, whose entries are the enumerate() indices of cell.positions pushed by transform_cell")
        "entries of site_mapping are < cell.num_atoms() = magnetic_moments.len() (MagneticCell keeps the lengths equal)"
    ]⟩
  ]⟩
]

def tData : List FileTable := [
  ⟨"data/centering.rs", [
    ⟨"Centering::inverse", 255741343803029, [
      ex .unwrap "self . linear ( ) . map ( | e | e as f64 ) . try_inverse ( ) . unwrap ( )" 1 .tableDerived
        "Centering::linear returns one of seven constant matrices with determinant 1, 2, 2, 2, 2, 3, 4 (P, A, B, C, I, R, F); none is singular"
    ]⟩
  ]⟩,
  ⟨"data/hall_symbol.rs", [
    ⟨"HallSymbol::new", 142164069481022, [
      ex .call "e . rem_euclid ( 1.0 )" 1 (.notAPanic "f64::rem_euclid") "float remainder (entries of a Vector3<f64>)"
    ]⟩,
    ⟨"HallSymbol::traverse", 99132202202245, [
      ex .unwrap "queue . pop_front ( ) . unwrap ( )" 1 (.checkedByGuard "while !queue.is_empty()") "first statement of the loop body"
    ]⟩,
    ⟨"MagneticHallSymbol::new", 89382264247001, [
      ex .call "e . rem_euclid ( 1.0 )" 1 (.notAPanic "f64::rem_euclid") "float remainder"
    ]⟩,
    ⟨"MagneticHallSymbol::traverse", 16534862466919, [
      ex .unwrap "queue . pop_front ( ) . unwrap ( )" 1 (.checkedByGuard "while !queue.is_empty()") "first statement of the loop body"
    ]⟩,
    ⟨"parse", 273066413399593, [
      ex .index "tokens [ 0 ]" 1 (.knownFinding "panic:hall_symbol.rs:parse:index-oob")
        "tokens = split_whitespace of the user's string: empty for \"\" or an all-blank string; HallSymbol::new(\"\") and MagneticHallSymbol::new(\"\") panic (index out of bounds)",
      ex .index "tokens [ cursor ]" 2 (.loopBounded "for cursor in 1..tokens.len()") "both uses are inside that loop; tokens is not modified"
    ]⟩,
    ⟨"parse_lattice", 157716604200391, [
      ex .unwrap "token . chars ( ) . nth ( pos ) . unwrap ( )" 2 (.knownFinding "panic:hall_symbol.rs:parse_lattice:unwrap-none")
        "two textually identical sites: the first (pos = 0) is safe because split_whitespace yields non-empty tokens; the second runs with pos = 1 after a leading '-' and panics on the token \"-\" (HallSymbol::new(\"-\"), \"- 2\")"
    ]⟩,
    ⟨"parse_origin_shift", 98069336361831, [
      ex .sub "s . len ( ) - 1" 2 (.constNonempty) "s is a token produced by split_whitespace, never empty, so len() >= 1",
      ex .sub "s . len ( ) - 1" 1 (.constNonempty) "(form after the proposed parser fix, which tests `s.ends_with(')')` instead of `nth(s.len() - 1)`) s is a token produced by split_whitespace, never empty, so len() >= 1",
      ex .unwrap "s . chars ( ) . nth ( s . len ( ) - 1 ) . unwrap ( )" 1 (.knownFinding "panic:hall_symbol.rs:parse_origin_shift:unwrap-none")
        "nth takes a char index but s.len() is the byte length: for a token with a multi-byte character (\"P 1 (0 0 \\u{e9}\") there are fewer chars than bytes and nth returns None",
      ex .index "s [ .. s . len ( ) - 1 ]" 1 (.checkedByGuard "s.chars().nth(s.len() - 1).unwrap() == ')'")
        "reached only when the char with index len()-1 exists, which forces chars == bytes (all ASCII), so len()-1 is a char boundary",
      ex .index "tokens [ 0 ]" 1 (.checkedByGuard "if tokens.len() != 3 { return None; }") "literal below 3",
      ex .index "tokens [ 1 ]" 1 (.checkedByGuard "if tokens.len() != 3 { return None; }") "literal below 3",
      ex .index "tokens [ 2 ]" 1 (.checkedByGuard "if tokens.len() != 3 { return None; }") "literal below 3",
      ex .unwrap "tokens [ 0 ] . parse :: < f64 > ( ) . unwrap ( )" 1 (.knownFinding "panic:hall_symbol.rs:parse_origin_shift:unwrap-err")
        "the three components of \"(vx vy vz)\" are not validated: HallSymbol::new(\"P 2 (a b c)\") panics in f64 parsing",
      ex .unwrap "tokens [ 1 ] . parse :: < f64 > ( ) . unwrap ( )" 1 (.knownFinding "panic:hall_symbol.rs:parse_origin_shift:unwrap-err")
        "as for tokens[0] (\"P 2 (0 b 0)\")",
      ex .unwrap "tokens [ 2 ] . parse :: < f64 > ( ) . unwrap ( )" 1 (.knownFinding "panic:hall_symbol.rs:parse_origin_shift:unwrap-err")
        "as for tokens[0] (\"P 2 (0 0 c)\"; also \"P 2 (0 0 (0)\" style leftovers of the parenthesis trimming)"
    ]⟩,
    ⟨"parse_operation", 142949255151752, [
      ex .unwrap "token . chars ( ) . nth ( pos ) . unwrap ( )" 6 (.knownFinding "panic:hall_symbol.rs:parse_operation:unwrap-none")
        "six textually identical sites. pos = 0 is safe (non-empty token). The read of <nfold> runs with pos = 1 after a leading '-' and panics on the token \"-\" (\"P -\"). The later reads are guarded by pos < token.len(), but that is the byte length while nth counts chars: after a multi-byte first character (\"P \\u{e9}\") the guard passes and nth returns None",
      ex .unwrap "c . to_string ( ) . parse :: < f64 > ( ) . unwrap ( )" 1 (.checkedByGuard "if \"123456\".contains(c)") "c is one ASCII digit 1..6",
      ex .unwrap "nfold . parse :: < f64 > ( ) . unwrap ( )" 1 (.checkedByGuard "parse_rotation_matrix(format!(\"{}{}\", nfold, axis))? returned Some")
        "nfold is a one-character string and every pattern of parse_rotation_matrix starts with one of the digits 1, 2, 3, 4, 6, so nfold is that digit",
      ex .assert "assert_eq ! ( pos , token . len ( ) )" 1 (.knownFinding "panic:hall_symbol.rs:parse_operation:assert")
        "the scanning loop breaks at the first character it does not know and the assertion then fails: HallSymbol::new(\"P 2q\"), \"P 2x!\""
    ]⟩,
    ⟨"purify_translation_mod1", 43512193624281, [
      ex .call "eint . rem_euclid ( MAX_DENOMINATOR )" 1 (.checkedByGuard "const MAX_DENOMINATOR: i32 = 12")
        "i32::rem_euclid panics only for a divisor 0 (or MIN % -1); the divisor is the constant 12"
    ]⟩
  ]⟩,
  ⟨"data/magnetic_hall_symbol_database.rs", [
    ⟨"MagneticHallSymbolEntry::construct_type", 173222104288482, [
      ex .unwrap "get_magnetic_space_group_type ( self . uni_number ) . unwrap ( )" 1 .tableDerived
        "entries come from MAGNETIC_HALL_SYMBOL_DATABASE (private const fn new; magnetic_hall_symbol_entry clones table rows) whose uni_number fields are 1..=1651, the index range of MAGNETIC_SPACE_GROUP_TYPES (LOW CONFIDENCE as a public method: the fields are pub, a hand-built entry with another uni_number panics)"
    ]⟩,
    ⟨"MagneticHallSymbolEntry::reference_hall_number", 261949365317727, [
      ex .unwrap "get_magnetic_space_group_type ( self . uni_number ) . unwrap ( )" 1 .tableDerived
        "as in construct_type: uni_number of a table row is in 1..=1651",
      ex .unwrap "Setting :: Standard . hall_number ( number ) . unwrap ( )" 1 .tableDerived
        "number is the `number` field of a MAGNETIC_SPACE_GROUP_TYPES row, an ITA number 1..=230, the index range of STANDARD_HALL_NUMBERS"
    ]⟩
  ]⟩,
  ⟨"data/magnetic_space_group.rs", [
    ⟨"<static ITA_NUMBER_TO_UNI_NUMBERS>", 236736337436651, [
      ex .index "MAGNETIC_SPACE_GROUP_TYPES [ uni_number - 1 ]" 1 (.loopBounded "for uni_number in 1..=NUM_MAGNETIC_SPACE_GROUP_TYPES")
        "the table is declared [MagneticSpaceGroupType; NUM_MAGNETIC_SPACE_GROUP_TYPES]; index 0..=1650",
      ex .index "MAGNETIC_SPACE_GROUP_TYPES [ uni_number ]" 1 (.checkedByGuard "(uni_number == NUM_MAGNETIC_SPACE_GROUP_TYPES) || ..")
        "the disjunction short-circuits for the last value, so the index is at most 1650",
      ex .assert "assert_eq ! ( ret . len ( ) , 230 )" 1 .tableDerived
        "a computation on constants only: the `number` column of the table runs through 1..=230 in ascending blocks; evaluated once per process by every magnetic analysis and by moyo's own tests"
    ]⟩
  ]⟩,
  ⟨"data/point_group.rs", [
    ⟨"PointGroupRepresentative::from_geometric_crystal_class", 176356989887091, [
      ex .unwrap "HallSymbol :: from_hall_number ( hall_number ) . unwrap ( )" 1 .tableDerived
        "hall_number is one of 32 literals in 1..=530 and every Hall symbol string of HALL_SYMBOL_DATABASE parses (dead code outside tests)"
    ]⟩,
    ⟨"PointGroupRepresentative::from_arithmetic_crystal_class", 131958982843972, [
      ex .panic "panic ! ( \"Invalid arithmetic number\" )" 1
        (.callerValidated "correction_transformation_matrices, match_with_cubic_point_group, match_with_point_group")
        "callers pass the arithmetic_number field of a HALL_SYMBOL_DATABASE / ARITHMETIC_CRYSTAL_CLASS_DATABASE row (1..=73), all of which have an arm; the type is crate-private",
      ex .unwrap "HallSymbol :: from_hall_number ( hall_number ) . unwrap ( )" 1 .tableDerived
        "hall_number is one of 73 literals in 1..=530 and every Hall symbol string of HALL_SYMBOL_DATABASE parses"
    ]⟩
  ]⟩,
  ⟨"data/wyckoff.rs", [
    ⟨"WyckoffPositionSpace::new", 20745372023989, [
      ex .assert "assert_eq ! ( terms . len ( ) , 3 )" 1 .tableDerived
        "crate-private; the only caller (assign_wyckoff_position) passes the `coordinates` field of WYCKOFF_DATABASE rows; all 3467 strings have three comma-separated terms matching the EBNF in the source (checked mechanically when this record was written)",
      ex .assert "assert ! ( ! token . is_empty ( ) )" 1 .tableDerived
        "no table string has a '+' at the start of a term or after another sign",
      ex .unwrap "token . chars ( ) . last ( ) . unwrap ( )" 2 (.checkedByGuard "tokens are pushed only under !token.is_empty() (assert / if)")
        "every element of tokens_with_sign is a non-empty string",
      ex .index "origin [ i ]" 2 (.loopBounded "for (i, term) in terms.iter().enumerate() with terms.len() == 3 asserted") "origin : Vector3",
      ex .unwrap "token . parse :: < f64 > ( ) . unwrap ( )" 1 .tableDerived "a translation token without '/' is a digit string in every table row",
      ex .index "nums [ 0 ]" 1 .constNonempty "str::split always yields at least one piece",
      ex .index "nums [ 1 ]" 1 (.checkedByGuard "else-branch of if nums.len() == 1") "len is at least 1, so here at least 2",
      ex .unwrap "nums [ 0 ] . parse :: < f64 > ( ) . unwrap ( )" 1 .tableDerived "numerators in the table are digit strings",
      ex .unwrap "nums [ 1 ] . parse :: < f64 > ( ) . unwrap ( )" 1 .tableDerived "denominators in the table are digit strings",
      ex .div "numerator / denominator" 1 (.notAPanic "f64 / f64") "both are results of parse::<f64>()",
      ex .sub "token . chars ( ) . count ( ) - 1" 1 (.checkedByGuard "tokens are non-empty") "count() >= 1",
      ex .index "token [ .. token . len ( ) - 1 ]" 1 .tableDerived "table strings are ASCII, so len()-1 is a char boundary; the token is non-empty",
      ex .sub "token . len ( ) - 1" 1 (.checkedByGuard "tokens are non-empty") "len() >= 1",
      ex .unwrap "token [ .. token . len ( ) - 1 ] . parse :: < i32 > ( ) . unwrap ( )" 1 .tableDerived
        "reached when the token has more than one char: in the table that is an integer coefficient followed by x, y or z (\"2x\")",
      ex .index "linear [ ( i , j ) ]" 1 (.loopBounded "i enumerates the 3 terms, for j in 0..3") "linear : Matrix3"
    ]⟩
  ]⟩
]

def tIdentify : List FileTable := [
  ⟨"identify/magnetic_space_group.rs", [
    ⟨"MagneticSpaceGroup::new", 136183573241736, [
      ex .unwrap "get_magnetic_space_group_type ( uni_number ) . unwrap ( )" 1 .tableDerived
        "uni_number iterates a range of ITA_NUMBER_TO_UNI_NUMBERS, all of whose bounds are in 1..=1651",
      ex .unwrap "magnetic_hall_symbol_entry ( uni_number ) . unwrap ( )" 1 .tableDerived
        "same uni_number; MAGNETIC_HALL_SYMBOL_DATABASE has NUM_MAGNETIC_SPACE_GROUP_TYPES rows",
      ex .unwrap "prim_mag_operations . iter ( ) . filter_map ( | mops | { if … identity ) & & mops . time_reversal { Some ( mops ) } else { None } } ) . nth ( 0 ) . unwrap ( )" 1
        (.checkedByGuard "construct_type == Type4 was decided by prim_mag_operations.iter().any(|mops| mops.time_reversal && mops.operation.rotation == identity)")
        "identify_reference_space_group returns Type4 only when such an anti-translation exists in the same list",
      ex .unwrap "db_prim_mag_operations . iter ( ) . filter_map ( | mops | { … identity ) & & mops . time_reversal { Some ( mops ) } else { None } } ) . nth ( 0 ) . unwrap ( )" 1
        (.invariant "antitranslation_exists_type4")
        "the entry's construct type is Type4 (filter above) and the magnetic Hall symbol of a type-IV entry spells out its anti-translation generator (1a', 1c', ...), which survives primitive_traverse as an operation with identity rotation and time reversal",
      ex .unreachable "unreachable ! ( )" 1 (.checkedByGuard "Type1 / Type2 returned a few lines above; ConstructType has four variants")
        "only Type3 and Type4 reach the match"
    ]⟩,
    ⟨"MagneticSpaceGroup::reference_space_group", 262235916213267, [
      ex .unwrap "magnetic_hall_symbol_entry ( self . uni_number ) . unwrap ( )" 1 .tableDerived
        "self is built only by MagneticSpaceGroup::new with a uni_number taken from uni_number_range (crate-private type)",
      ex .unwrap "SpaceGroup :: from_hall_number_and_transformation ( ref_hall_number , self . transformation . clone ( ) , ) . unwrap ( )" 1 .tableDerived
        "ref_hall_number is an entry of STANDARD_HALL_NUMBERS (1..=530), for which hall_symbol_entry is Some"
    ]⟩,
    ⟨"MagneticSpaceGroup::match_prim_mag_operations", 249141233939428, [
      ex .call "hm_translation . insert ( ( mops1 . operation . rotation . clone ( ) , mops1 . time_reversal ) , mops1 . operation . translation , )" 1
        (.notAPanic "HashMap::insert") "hm_translation = HashMap::new()"
    ]⟩,
    ⟨"identify_reference_space_group", 195245217465983, [
      ex .div "prim_mag_operations . len ( ) % prim_xsg . len ( )" 1 (.checkedByGuard "if prim_xsg.is_empty() || fsg.is_empty() { return None; }")
        "the guard added by the fix (fix5) returns before the remainder is taken; PrimitiveMagneticSymmetrySearch::new also refuses an empty operation list now",
      ex .div "prim_mag_operations . len ( ) % fsg . len ( )" 1 (.checkedByGuard "prim_mag_operations.len() % prim_xsg.len() evaluated first (short-circuit ||)")
        "fsg receives the first element of prim_mag_operations unconditionally, so it is non-empty whenever prim_mag_operations is; for an empty list the left operand of || has already panicked (same finding)",
      ex .div "prim_mag_operations . len ( ) / prim_xsg . len ( )" 2 (.checkedByGuard "prim_mag_operations.len() % prim_xsg.len() evaluated first")
        "same divisor as the remainder above",
      ex .div "fsg . len ( ) / prim_xsg . len ( )" 1 (.checkedByGuard "prim_mag_operations.len() % prim_xsg.len() evaluated first") "same divisor"
    ]⟩,
    ⟨"primitive_maximal_space_subgroup_from_magnetic_space_group", 194182770453901, [
      ex .index "contained [ i ]" 1 (.loopBounded "for (i, mops) in prim_mag_operations.iter().enumerate(); contained = vec![false; prim_mag_operations.len()]") "same length"
    ]⟩,
    ⟨"family_space_group_from_magnetic_space_group", 21931305225513, [
      ex .call "hm_translation . insert ( mops . operation . rotation . clone ( ) , mops . operation . translation )" 1 (.notAPanic "HashMap::insert") "hm_translation = HashMap::new()",
      ex .index "contained [ i ]" 1 (.loopBounded "for (i, mops) in prim_mag_operations.iter().enumerate(); contained = vec![false; prim_mag_operations.len()]") "same length"
    ]⟩,
    ⟨"db_reference_space_group_primitive", 85039341237514, [
      ex .unwrap "hall_symbol_entry ( entry . reference_hall_number ( ) ) . unwrap ( )" 1 .tableDerived "reference_hall_number returns an entry of STANDARD_HALL_NUMBERS (1..=530)",
      ex .unwrap "HallSymbol :: new ( & ref_hall_entry . hall_symbol ) . unwrap ( )" 1 .tableDerived "every Hall symbol string of HALL_SYMBOL_DATABASE parses"
    ]⟩
  ]⟩,
  ⟨"identify/point_group.rs", [
    ⟨"PointGroup::new", 4256794606524, [
      ex .unreachable "unreachable ! ( )" 1 (.checkedByGuard "CrystalSystem::from_geometric_crystal_class maps exactly C1 and Ci to Triclinic")
        "the inner match is entered only for CrystalSystem::Triclinic and has arms for C1 and Ci"
    ]⟩,
    ⟨"match_with_cubic_point_group", 253472337332771, [
      ex .unwrap "arithmetic_crystal_class_candidates . iter ( ) . find ( | ( _ , point_group_db ) | point_group_db . centering = = Centering :: P ) . unwrap ( )" 1 .tableDerived
        "each cubic geometric class T, Th, O, Td, Oh has a P arithmetic class in ARITHMETIC_CRYSTAL_CLASS_DATABASE (59 23P, 62 m-3P, 65 432P, 68 -43mP, 71 m-3mP) whose representative Hall symbol is P-centred",
      ex .assert "assert_eq ! ( trans_mat_basis . len ( ) , 1 )" 1 (.invariant "cubic_intertwiner_dimension_one")
        "sylvester3 returns a basis of { P : A_i P = P B_i } when that space is non-zero; the B_i generate a cubic point group, which acts absolutely irreducibly on C^3, so a non-zero P is invertible and the space is End(B) = scalars (Schur): dimension 1",
      ex .index "trans_mat_basis [ 0 ]" 1 (.checkedByGuard "assert_eq!(trans_mat_basis.len(), 1)") "literal below 1"
    ]⟩,
    ⟨"iter_trans_mat_basis", 210917677640536, [
      ex .index "rotation_types [ i ]" 1 (.callerValidated "PointGroup::new (via match_with_*), integral_normalizer, find_conjugator_type4")
        "i < order = prim_rotations.len() and every caller computes rotation_types by mapping identify_rotation_type over the same prim_rotations",
      ex .index "prim_rotations [ i ]" 1 (.loopBounded "pivot entries are drawn from candidates, filtered out of 0..order with order = prim_rotations.len()") "index below the length"
    ]⟩,
    ⟨"iter_unimodular_trans_mat", 187631815251694, [
      ex .index "comb [ i ]" 1 (.loopBounded "comb comes from (0..trans_mat_basis.len()).map(..).multi_cartesian_product(); i enumerates trans_mat_basis")
        "each comb has exactly trans_mat_basis.len() entries"
    ]⟩
  ]⟩,
  ⟨"identify/rotation_type.rs", [
    ⟨"identify_rotation_type", 89003444043332, [
      ex .unreachable "unreachable ! ( \"Unknown rotation type\" )" 1 (.invariant "finite_order_rotation_type")
        "every rotation that reaches this fn is an element of a finite subgroup of GL3(Z): the Bravais group accepted by search_bravais_group (traverse returned exactly the candidate set, so it is closed), subsets / conjugates of it, or a group generated by a database Hall symbol; an integer matrix of finite order has order 1,2,3,4,6 and (trace, det) is one of the ten listed pairs"
    ]⟩
  ]⟩,
  ⟨"identify/space_group.rs", [
    ⟨"correction_transformation_matrices", 221683953252040, [
      ex .unwrap "arithmetic_crystal_class_entry ( arithmetic_number ) . unwrap ( )" 1 .tableDerived
        "the only caller passes entry.arithmetic_number of a HALL_SYMBOL_DATABASE row (1..=73)"
    ]⟩,
    ⟨"match_origin_shift", 165394737350341, [
      ex .call "hm_translations . insert ( operation . rotation , operation . translation )" 1 (.notAPanic "HashMap::insert") "hm_translations = HashMap::new()",
      ex .index "a [ ( 3 * k + i , j ) ]" 1 (.loopBounded "k enumerates db_prim_generators, i and j in 0..3; a = zeros(3 * db_prim_generators.len()) x 3") "3k+i < 3 len, j < 3",
      ex .index "ak [ ( i , j ) ]" 1 (.loopBounded "i, j in 0..3") "ak = rotation - Matrix3::identity() : Matrix3<i32>",
      ex .index "b [ 3 * k + i ]" 1 (.loopBounded "k enumerates db_prim_generators, i in 0..3; b = zeros(3 * db_prim_generators.len())") "3k+i < 3 len",
      ex .index "bk [ i ]" 1 (.loopBounded "i in 0..3") "bk is a difference of Translation = Vector3<f64>"
    ]⟩,
    ⟨"solve_mod1", 38069551885426, [
      ex .index "snf . d [ ( i , i ) ]" 2 (.callerValidated "match_origin_shift (from SpaceGroup::new, integral_normalizer, find_conjugator_type4)")
        "i in 0..3 and d has the shape of a, 3k x 3 with k = number of generators; every caller passes k >= 1 (table Hall symbols have at least one N symbol; db_reference_space_group_primitive pushes the identity when the list is empty), so d has at least 3 rows",
      ex .index "lb [ i ]" 3 (.callerValidated "match_origin_shift") "lb = L b has 3k >= 3 entries (see above)",
      ex .index "y [ i ]" 1 (.loopBounded "for i in 0..3") "y = Vector3::<f64>::zeros()"
    ]⟩
  ]⟩
]

def tLib : List FileTable := [
  ⟨"lib.rs", [
    ⟨"MoyoDataset::new", 28014643990842, [
      ex .index "std_cell . site_mapping [ i ]" 1 (.loopBounded "i enumerates std_cell.wyckoffs")
        "assign_wyckoffs returns one Wyckoff position per site of std_cell.cell and site_mapping has one entry per site of the same cell (Transformation::transform_cell)",
      ex .index "std_prim_wyckoffs [ j ]" 2 (.loopBounded "j = std_cell.site_mapping[i], an index into the primitive standardized cell")
        "std_prim_wyckoffs has prim_cell.cell.num_atoms() entries and the primitive standardized cell has the same sites as prim_cell.cell (unimodular transformation)",
      ex .index "std_prim_wyckoffs [ i ]" 1 (.loopBounded "i ranges over prim_cell.site_mapping")
        "site_mapping_from_orbits numbers the orbit representatives 0..n_prim, the sites of the primitive cell",
      ex .unwrap "prim_cell . linear . map ( | e | e as f64 ) . try_inverse ( ) . unwrap ( )" 1 (.invariant "primitive_linear_det_is_number_of_translations")
        "linear = round(unimodular^-1 * trans_mat * unimodular^-1) with det trans_mat == translations.len() >= 1 checked in transformation_matrix_from_translations; operations_in_cell already built Transformation::from_linear of the same matrix",
      ex .unwrap "hall_symbol_entry ( space_group . hall_number ) . unwrap ( )" 1 (.checkedByGuard "hall_symbol_entry(hall_number).ok_or(MoyoError::UnknownHallNumberError)? in SpaceGroup::new")
        "space_group.hall_number passed the same look-up when the SpaceGroup was built",
      ex .unwrap "arithmetic_crystal_class_entry ( hall_symbol . arithmetic_number ) . unwrap ( )" 1 .tableDerived
        "arithmetic_number of a HALL_SYMBOL_DATABASE row is in 1..=73"
    ]⟩,
    ⟨"MoyoMagneticDataset::new", 256648912627864, [
      ex .unwrap "prim_mag_cell . linear . map ( | e | e as f64 ) . try_inverse ( ) . unwrap ( )" 1 (.invariant "primitive_linear_det_is_number_of_translations")
        "linear = unimodular^-1 * trans_mat with det trans_mat == translations.len() >= 1 (PrimitiveMagneticCell::new)"
    ]⟩
  ]⟩
]

def tMath : List FileTable := [
  ⟨"math/delaunay.rs", [
    ⟨"delaunay_reduce", 221651433623815, [
      ex .index "superbase [ i ]" 1 (.loopBounded "for i in 0..3") "superbase() pushes the 3 columns and their negated sum: 4 entries",
      ex .index "superbase [ j ]" 1 (.loopBounded "for j in i + 1..4") "4 entries",
      ex .index "norms [ i ]" 1 (.loopBounded "i, j are elements of argsort = (0..7)") "norms is collected from the 7-element array basis_candidates",
      ex .index "norms [ j ]" 1 (.loopBounded "i, j are elements of argsort = (0..7)") "norms has 7 entries",
      ex .unwrap "norms [ i ] . partial_cmp ( & norms [ j ] ) . unwrap ( )" 1 pFinite
        "norms are Euclidean norms of reduced_basis times small integer vectors: NaN only from non-finite input (LOW CONFIDENCE at extreme scales)",
      ex .call "Matrix3 :: < i32 > :: from_columns ( & [ basis_candidates [ argsort [ a ] ] , basis_candidates [ argsort [ b ] ] , basis_candidates [ argsort [ c ] ] , ] )" 1
        (.fixedSize "array of 3 column vectors for a Matrix3") "from_columns panics only on a column-count mismatch",
      ex .index "basis_candidates [ argsort [ a ] ]" 1 (.fixedSize "argsort is a permutation of 0..7 (sort_by of (0..7)); basis_candidates has 7 entries") "entry below 7",
      ex .index "basis_candidates [ argsort [ b ] ]" 1 (.fixedSize "argsort is a permutation of 0..7; basis_candidates has 7 entries") "entry below 7",
      ex .index "basis_candidates [ argsort [ c ] ]" 1 (.fixedSize "argsort is a permutation of 0..7; basis_candidates has 7 entries") "entry below 7",
      ex .index "argsort [ a ]" 1 (.loopBounded "for a in 0..7") "argsort has 7 entries",
      ex .index "argsort [ b ]" 1 (.loopBounded "for b in (a + 1)..7") "argsort has 7 entries",
      ex .index "argsort [ c ]" 1 (.loopBounded "for c in (b + 1)..7") "argsort has 7 entries"
    ]⟩
  ]⟩,
  ⟨"math/elementary.rs", [
    ⟨"swapping_column_matrix", 146565882374424, [
      ex .index "trans_mat [ ( col1 , col2 ) ]" 1 (.callerValidated "minkowski_reduce_greedy (j, j+1 <= rank-1 <= 2, dim U3), HNF::new (s, pivot < n)")
        "crate-private; both arguments are below dim at every call site; trans_mat is dim x dim",
      ex .index "trans_mat [ ( col2 , col1 ) ]" 1 (.callerValidated "minkowski_reduce_greedy, HNF::new") "as above",
      ex .index "trans_mat [ ( i , i ) ]" 1 (.loopBounded "for i in 0..dim.value()") "trans_mat is dim x dim"
    ]⟩,
    ⟨"adding_column_matrix", 91020518493404, [
      ex .index "trans_mat [ ( col1 , col2 ) ]" 1 (.callerValidated "delaunay_reduce (i, k in 0..3, dim U3), HNF::new (s, j < n)")
        "the write happens for i == col1 inside 0..dim, so col1 < dim; col2 < dim at both call sites"
    ]⟩,
    ⟨"changing_column_sign_matrix", 50133224267615, [
      ex .index "trans_mat [ ( col , col ) ]" 1 (.callerValidated "delaunay_reduce (i in 0..3, dim U3), HNF::new (s < n)") "col < dim at both call sites"
    ]⟩
  ]⟩,
  ⟨"math/hnf.rs", [
    ⟨"HNF::new", 56250396960938, [
      ex .index "h [ ( s , j ) ]" 4 (.loopBounded "s in 0..m; j in s..n (closures) or 0..n (for)") "h has the shape (m, n) of basis",
      ex .unwrap "( s .. n . value ( ) ) . filter ( | & j | h [ ( s , j ) ] ! = 0 ) . min_by_key ( | & j | h [ ( s , j ) ] . abs ( ) ) . unwrap ( )" 1
        (.checkedByGuard "if (s..n.value()).all(|j| h[(s, j)] == 0) { break; }") "the row has a non-zero entry among the columns s..n, so the filtered range is non-empty",
      ex .call "h . swap_columns ( s , pivot )" 1 (.loopBounded "pivot is an element of s..n, hence s <= pivot < n") "both column indices are below n",
      ex .index "h [ ( s , s ) ]" 3 (.checkedByGuard "a pivot in s..n exists, so s < n; s < m by the outer loop") "in range",
      ex .index "h [ ( i , s ) ]" 2 (.loopBounded "for i in 0..m.value(); s < n as above") "in range",
      ex .assert "assert_ne ! ( h [ ( s , s ) ] , 0 )" 1 (.checkedByGuard "pivot was chosen by filter(|&j| h[(s, j)] != 0) and swapped into column s")
        "the sign change keeps it non-zero",
      ex .call "h [ ( s , j ) ] . div_euclid ( h [ ( s , s ) ] )" 1 (.checkedByGuard "assert_ne!(h[(s, s)], 0) and the sign normalisation")
        "div_euclid panics for a divisor 0 or for MIN / -1; the divisor is non-zero and was made positive (it stays MIN only if it was MIN, which is not -1)",
      ex .index "h [ ( i , j ) ]" 1 (.loopBounded "for i in 0..m.value(), for j in 0..n.value()") "in range",
      ex .assert "assert_eq ! ( h , basis * r . clone ( ) )" 1 (.invariant "Moyo.C15.hnf_decomp")
        "every column operation applied to h is applied to r; in release builds i32 arithmetic wraps on both sides alike (ring homomorphism mod 2^32), in overflow-checking builds an overflow is reported by C15/C20"
    ]⟩
  ]⟩,
  ⟨"math/integer_system.rs", [
    ⟨"IntegerLinearSystem::new", 253585074181263, [
      ex .index "lb [ ( i , 0 ) ]" 2 (.loopBounded "for i in 0..rank with rank <= min(m, n)") "lb = L b has m rows",
      ex .index "snf . d [ ( i , i ) ]" 2 (.loopBounded "for i in 0..rank with rank <= min(m, n)") "d is m x n",
      ex .div "lb [ ( i , 0 ) ] % snf . d [ ( i , i ) ]" 1 (.invariant "snf_nonzero_diagonal_is_prefix")
        "rank counts the non-zero diagonal entries and SNF::new produces them as a prefix (once no pivot is found the rest of the matrix is zero), positive by the sign normalisation: the divisor is > 0",
      ex .div "lb [ ( i , 0 ) ] / snf . d [ ( i , i ) ]" 1 (.invariant "snf_nonzero_diagonal_is_prefix") "same divisor, > 0",
      ex .index "y [ i ]" 1 (.loopBounded "for i in 0..rank, rank < n after the early return for rank == n") "y has n entries",
      ex .call "snf . r . columns ( rank , n . value ( ) - rank )" 1 (.loopBounded "rank <= min(m, n) <= n") "r is n x n: first column rank, count n - rank",
      ex .sub "n . value ( ) - rank" 1 (.invariant "Moyo.C15.snf_rank") "rank = number of non-zero diagonal entries of an m x n matrix <= n"
    ]⟩,
    ⟨"sylvester3", 10439475926787, [
      ex .assert "assert_eq ! ( size , b . len ( ) )" 1 (.callerValidated "iter_trans_mat_basis")
        "a = pivot.iter().map(..).collect() has one entry per element of candidates, which has one entry per generator in b",
      ex .index "a [ k ]" 1 (.loopBounded "for k in 0..size, size = a.len()") "in range",
      ex .index "b [ k ]" 1 (.checkedByGuard "assert_eq!(size, b.len())") "k < size = b.len()",
      ex .index "coeffs [ ( 9 * k + i , j ) ]" 1 (.loopBounded "k < size, i and j in 0..9; coeffs = zeros(9 * size) x 9") "in range",
      ex .index "adj [ ( i , j ) ]" 1 (.loopBounded "i, j in 0..9") "adj is a difference of Kronecker products of 3x3 matrices: 9 x 9",
      ex .index "e [ 0 ]" 1 (.fixedSize "e is a row of nullspace : OMatrix<i32, Dyn, U9>") "9 entries",
      ex .index "e [ 1 ]" 1 (.fixedSize "row of a matrix with 9 columns") "9 entries",
      ex .index "e [ 2 ]" 1 (.fixedSize "row of a matrix with 9 columns") "9 entries",
      ex .index "e [ 3 ]" 1 (.fixedSize "row of a matrix with 9 columns") "9 entries",
      ex .index "e [ 4 ]" 1 (.fixedSize "row of a matrix with 9 columns") "9 entries",
      ex .index "e [ 5 ]" 1 (.fixedSize "row of a matrix with 9 columns") "9 entries",
      ex .index "e [ 6 ]" 1 (.fixedSize "row of a matrix with 9 columns") "9 entries",
      ex .index "e [ 7 ]" 1 (.fixedSize "row of a matrix with 9 columns") "9 entries",
      ex .index "e [ 8 ]" 1 (.fixedSize "row of a matrix with 9 columns") "9 entries"
    ]⟩
  ]⟩,
  ⟨"math/minkowski.rs", [
    ⟨"minkowski_reduce_greedy", 140217623608217, [
      ex .sub "rank - 1" 16 (.callerValidated "minkowski_reduce (rank = 3) and the recursion (rank - 1 after the early return for rank == 1)")
        "rank is 3 or 2 whenever the subtraction is evaluated",
      ex .sub "rank - 2" 1 (.callerValidated "minkowski_reduce (rank = 3) and the recursion") "rank >= 2 past the early return",
      ex .index "lengths [ j ]" 1 (.loopBounded "for j in 0..(rank - 1 - i), rank <= 3") "lengths has one entry per column of the 3x3 basis",
      ex .index "lengths [ j + 1 ]" 1 (.loopBounded "j + 1 <= rank - 1 <= 2") "3 entries",
      ex .call "basis . swap_columns ( j , j + 1 )" 1 (.loopBounded "j + 1 <= rank - 1 <= 2") "basis is N x N with N = U3 (only instantiation)",
      ex .call "basis . column ( i )" 4 (.loopBounded "i < rank - 1 <= 2 (from_fn closures of DMatrix / DVector of size rank - 1)") "3 columns",
      ex .call "basis . column ( j )" 1 (.loopBounded "j < rank - 1 <= 2") "3 columns",
      ex .call "basis . column ( rank - 1 )" 3 (.callerValidated "rank in {2, 3}") "3 columns",
      ex .call "basis . column ( rank - 2 )" 1 (.callerValidated "rank in {2, 3}") "3 columns",
      ex .unwrap "h . try_inverse ( ) . unwrap ( )" 1 (.invariant "minkowski_prefix_reduced_nonparallel")
        "rank 2: h = [1]. rank 3: det h = 1 - cos^2 of the angle between the first two columns, which the recursive call left Minkowski-reduced (|b0.b1| <= |b0|^2/2 and |b1| >= |b0| - EPS), so det h >= ~3/4; a zero column gives NaN, for which try_inverse still returns Some (LOW CONFIDENCE for lattices whose lengths are below the absolute EPS = 1e-8)",
      ex .index "gs_coeffs [ ( i , 0 ) ]" 1 (.loopBounded "from_fn(rank - 1, ..): i < rank - 1") "gs_coeffs = h^-1 u has rank - 1 rows",
      ex .call "DVector :: from_iterator ( rank - 1 , voronoi_vector )" 1 (.fixedSize "voronoi_vector is an item of (0..rank - 1).map(..).multi_cartesian_product(): rank - 1 entries")
        "from_iterator panics only when the iterator is too short",
      ex .call "basis . columns ( 0 , rank - 1 )" 1 (.callerValidated "rank in {2, 3}") "rank - 1 <= 3 columns from 0",
      ex .index "basis [ ( j , rank - 1 ) ]" 1 (.loopBounded "for j in 0..3; rank - 1 <= 2") "basis is 3x3 (N = U3 is the only instantiation)",
      ex .index "c_argmin [ j ]" 1 (.loopBounded "for j in 0..3") "c_argmin : OVector<f64, N>, N = U3",
      ex .index "add_mat [ ( i , rank - 1 ) ]" 1 (.loopBounded "for i in 0..(rank - 1)") "add_mat is 3x3",
      ex .index "coeffs_argmin [ i ]" 1 (.loopBounded "for i in 0..(rank - 1)") "coeffs_argmin has rank - 1 entries (zeros(rank - 1) or a clone of coeffs)"
    ]⟩,
    ⟨"is_minkowski_reduced", 204773205298832, [
      ex .index "norms [ 0 ]" 1 (.fixedSize "norms = basis.column_iter().map(..).collect_vec() of a Matrix3: 3 entries") "literal below 3",
      ex .index "norms [ 1 ]" 3 (.fixedSize "norms has 3 entries") "literal below 3",
      ex .index "norms [ 2 ]" 2 (.fixedSize "norms has 3 entries") "literal below 3",
      ex .index "coeffs [ 0 ]" 2 (.fixedSize "coeffs iterates array literals whose elements are 3-element arrays") "literal below 3",
      ex .index "coeffs [ 1 ]" 2 (.fixedSize "3-element arrays") "literal below 3",
      ex .index "coeffs [ 2 ]" 2 (.fixedSize "3-element arrays") "literal below 3"
    ]⟩
  ]⟩,
  ⟨"math/niggli.rs", [
    ⟨"niggli_reduce", 266337810000508, [
      ex .unreachable "unreachable ! ( )" 1 (.checkedByGuard "while step <= 8, step starts at 1 and is only incremented or reset to 1") "the match has arms 1..=8"
    ]⟩,
    ⟨"step4", 280719829293095, [
      ex .unreachable "unreachable ! ( )" 1 (.invariant "niggli_step4_p_assigned")
        "the match runs only when i*j*k == -1 under sign_xi*sign_eta*sign_zeta <= 0; if no sign were 0 (p still -1) an odd number of signs is negative, so 0 or 2 are positive and i*j*k = +1; hence some sign is 0 and p is 0, 1 or 2"
    ]⟩,
    ⟨"NiggliParameters::new", 184292582804019, [
      ex .index "metric_tensor [ ( 1 , 2 ) ]" 1 .matrixLiteralIndex "metric_tensor = basis.transpose() * basis with basis : &Matrix3<f64>",
      ex .index "metric_tensor [ ( 2 , 0 ) ]" 1 .matrixLiteralIndex "3x3",
      ex .index "metric_tensor [ ( 0 , 1 ) ]" 1 .matrixLiteralIndex "3x3",
      ex .index "metric_tensor [ ( 0 , 0 ) ]" 1 .matrixLiteralIndex "3x3",
      ex .index "metric_tensor [ ( 1 , 1 ) ]" 1 .matrixLiteralIndex "3x3",
      ex .index "metric_tensor [ ( 2 , 2 ) ]" 1 .matrixLiteralIndex "3x3"
    ]⟩
  ]⟩,
  ⟨"math/snf.rs", [
    ⟨"SNF::new", 273154246934141, [
      ex .index "d [ ( i , j ) ]" 4 (.loopBounded "i in s..m or 0..m, j in s..n or 0..n") "d has the shape (m, n) of basis",
      ex .call "d . swap_rows ( s , pivot . 0 )" 1 (.loopBounded "pivot.0 in s..m, s < min(m, n)") "d has m rows",
      ex .call "l . swap_rows ( s , pivot . 0 )" 1 (.loopBounded "pivot.0 in s..m, s < min(m, n)") "l is m x m",
      ex .call "d . swap_columns ( s , pivot . 1 )" 1 (.loopBounded "pivot.1 in s..n, s < min(m, n)") "d has n columns",
      ex .call "r . swap_columns ( s , pivot . 1 )" 1 (.loopBounded "pivot.1 in s..n, s < min(m, n)") "r is n x n",
      ex .index "d [ ( s , s ) ]" 4 (.loopBounded "for s in 0..m.min(n).value()") "in range",
      ex .index "d [ ( i , s ) ]" 3 (.loopBounded "i in 0..m or s+1..m; s < n") "in range",
      ex .index "r [ ( i , s ) ]" 2 (.loopBounded "for i in 0..n.value(); s < n") "r is n x n",
      ex .assert "assert_ne ! ( d [ ( s , s ) ] , 0 )" 1 (.checkedByGuard "pivot was chosen by filter(|&(i, j)| d[(i, j)] != 0) and swapped to (s, s)") "the sign change keeps it non-zero",
      ex .div "d [ ( i , s ) ] / d [ ( s , s ) ]" 1 (.checkedByGuard "assert_ne!(d[(s, s)], 0) after the sign normalisation")
        "integer division panics for a divisor 0 or MIN / -1; the divisor is non-zero and not negative unless it is MIN, so never -1",
      ex .div "d [ ( s , j ) ] / d [ ( s , s ) ]" 1 (.checkedByGuard "assert_ne!(d[(s, s)], 0) after the sign normalisation") "as above",
      ex .index "d [ ( s , j ) ]" 2 (.loopBounded "j in 0..n or s+1..n; s < m") "in range",
      ex .index "l [ ( i , j ) ]" 1 (.loopBounded "i in s+1..m, for j in 0..m.value()") "l is m x m",
      ex .index "l [ ( s , j ) ]" 1 (.loopBounded "for j in 0..m.value(); s < m") "l is m x m",
      ex .index "r [ ( i , j ) ]" 1 (.loopBounded "for i in 0..n.value(), j in s+1..n") "r is n x n",
      ex .assert "assert_eq ! ( d , l . clone ( ) * basis * r . clone ( ) )" 1 (.invariant "Moyo.C15.snf_decomp")
        "every row operation on d is applied to l and every column operation to r; wrapping i32 arithmetic preserves the identity in release builds, overflow-checking builds are C15/C20's subject"
    ]⟩,
    ⟨"SNF::rank", 28928109360368, [
      ex .index "self . d [ ( i , i ) ]" 1 (.loopBounded "(0..m.min(n).value()).filter(|&i| ..)") "d is m x n"
    ]⟩
  ]⟩
]

def tSearch : List FileTable := [
  ⟨"search/primitive_cell.rs", [
    ⟨"PrimitiveCell::new", 270307851836450, [
      ex .unwrap "reduced_lattice . basis . column_iter ( ) . map ( | v | v . norm ( ) ) . reduce ( f64 :: min ) . unwrap ( )" 1 .constNonempty
        "basis : Matrix3<f64> has three columns, so reduce sees a non-empty iterator",
      ex .index "pivot_site_indices [ 0 ]" 1 pAtoms
        "pivot_site_indices returns the positions of the rarest species among reduced_cell.numbers, which occurs at least once when there is an atom",
      ex .index "reduced_cell . positions [ * dst ]" 1 (.loopBounded "dst iterates pivot_site_indices(&reduced_cell.numbers): enumerate() indices of numbers")
        "numbers and positions have the same length (Cell::new)",
      ex .index "reduced_cell . positions [ src ]" 1 (.loopBounded "src = pivot_site_indices[0], an enumerate() index of reduced_cell.numbers") "same length as positions",
      ex .div "reduced_cell . num_atoms ( ) % ( size as usize )" 1 (.checkedByGuard "(size == 0) || ..") "short-circuit: the remainder is evaluated only for size != 0",
      ex .unwrap "prim_trans_mat . map ( | e | e as f64 ) . try_inverse ( ) . unwrap ( )" 1 (.invariant "minkowski_trans_mat_unimodular")
        "trans_mat of minkowski_reduce is a product of column swaps and column additions with the sign fixed: determinant +1 (UnimodularTransformation::from_linear accepted it two lines above)",
      ex .unwrap "reduced_trans_mat . map ( | e | e as f64 ) . try_inverse ( ) . unwrap ( )" 1 (.invariant "minkowski_trans_mat_unimodular")
        "as above; UnimodularTransformation::from_linear(reduced_trans_mat) already succeeded at the top of the fn"
    ]⟩,
    ⟨"PrimitiveMagneticCell::new", 31195674796192, [
      ex .index "magnetic_cell . magnetic_moments [ permutation . apply ( i ) ]" 1 (.loopBounded "(0..magnetic_cell.cell.num_atoms()).map(|i| ..)")
        "permutation comes from PrimitiveCell::new(&magnetic_cell.cell): entries are site indices of that cell, and magnetic_moments has one entry per site (MagneticCell::from_cell)",
      ex .div "magnetic_cell . cell . num_atoms ( ) % ( size as usize )" 1 (.checkedByGuard "(size == 0) || ..") "short-circuit",
      ex .unwrap "prim_trans_mat . map ( | e | e as f64 ) . try_inverse ( ) . unwrap ( )" 1 (.invariant "minkowski_trans_mat_unimodular")
        "UnimodularTransformation::from_linear(prim_trans_mat) succeeded just above"
    ]⟩,
    ⟨"transformation_matrix_from_translations", 190198793330198, [
      ex .call "OMatrix :: < i32 , U3 , Dyn > :: from_columns ( & columns )" 1 (.fixedSize "columns : Vec<Vector3<i32>> into a 3 x Dyn matrix")
        "with a dynamic column count from_columns accepts any number of columns",
      ex .call "Matrix3 :: < i32 > :: from_columns ( & [ hnf . h . column ( 0 ) , hnf . h . column ( 1 ) , hnf . h . column ( 2 ) ] )" 1 (.fixedSize "array of 3 columns for a Matrix3") "column count matches",
      ex .call "hnf . h . column ( 0 )" 1 (.constNonempty) "h has the 3 + translations.len() columns of `columns`, which starts with three pushed vectors",
      ex .call "hnf . h . column ( 1 )" 1 (.constNonempty) "at least 3 columns",
      ex .call "hnf . h . column ( 2 )" 1 (.constNonempty) "at least 3 columns",
      ex .unwrap "trans_mat_inv . try_inverse ( ) . unwrap ( )" 1 (.invariant "hnf_full_rank_leading_block")
        "the input contains size*I, so it has rank 3 and its column Hermite form has a lower-triangular leading 3x3 block with positive diagonal (Moyo.C15.hnf_lower / hnf_diag_nonneg + rank preservation); divided by size > 0 the determinant is a non-zero product of entries in (0, 1]"
    ]⟩,
    ⟨"primitive_cell_from_transformation", 279752974079788, [
      ex .index "orbits [ i ]" 1 (.loopBounded "(0..num_atoms).filter(|&i| ..)") "orbits_from_permutations(num_atoms, ..) returns num_atoms entries",
      ex .index "cell . positions [ inv_perm . apply ( orbit_i ) ]" 1 (.loopBounded "orbit_i < num_atoms; inverse() has entries < size")
        "permutations were computed for this cell (size num_atoms)",
      ex .index "cell . positions [ orbit_i ]" 2 (.loopBounded "orbit_i is an element of representatives, a subset of 0..num_atoms") "in range",
      ex .index "new_positions [ i ]" 1 (.loopBounded "for (i, &orbit_i) in representatives.iter().enumerate(); new_positions = vec![..; representatives.len()]") "same length",
      ex .index "new_numbers [ i ]" 1 (.loopBounded "for (i, &orbit_i) in representatives.iter().enumerate(); new_numbers = vec![0; representatives.len()]") "same length",
      ex .index "cell . numbers [ orbit_i ]" 1 (.loopBounded "orbit_i < num_atoms = positions.len() = numbers.len()") "Cell keeps the lengths equal"
    ]⟩,
    ⟨"primitive_magnetic_cell_from_transformation", 83436586659817, [
      ex .index "magnetic_cell . magnetic_moments [ i ]" 1 (.loopBounded "i ranges over representatives, a subset of 0..magnetic_cell.cell.num_atoms()") "one moment per site"
    ]⟩,
    ⟨"site_mapping_from_orbits", 29901060364451, [
      ex .unwrap "mapping . get ( & ri ) . unwrap ( )" 1 (.checkedByGuard "mapping.entry(ri).or_insert_with(..) for every ri of the same slice") "every key was inserted by the preceding loop"
    ]⟩
  ]⟩,
  ⟨"search/primitive_symmetry_search.rs", [
    ⟨"PrimitiveSymmetrySearch::new", 153707483175907, [
      ex .call "primitive_cell . lattice . basis . column ( 0 )" 1 .matrixLiteralIndex "basis : Matrix3<f64>",
      ex .index "pivot_site_indices [ 0 ]" 1 pAtoms "as in PrimitiveCell::new: non-empty when the cell has an atom",
      ex .index "primitive_cell . positions [ * dst ]" 1 (.loopBounded "dst iterates pivot_site_indices(&primitive_cell.numbers)") "numbers and positions have the same length",
      ex .index "rotated_positions [ src ]" 1 (.loopBounded "src = pivot_site_indices[0]") "rotated_positions is a map over primitive_cell.positions: same length",
      ex .unwrap "queue . pop_front ( ) . unwrap ( )" 1 (.checkedByGuard "while !queue.is_empty()") "first statement of the loop body"
    ]⟩,
    ⟨"PrimitiveSymmetrySearch::check_closure", 86906185754990, [
      ex .call "translations_map . insert ( operation . rotation , operation . translation )" 1 (.notAPanic "HashMap::insert") "translations_map = HashMap::new()",
      ex .index "translations_map [ & ops12 . rotation ]" 1 (.invariant "Moyo.C08.check_closure_key_present")
        "Lean theorem about the loop model (Moyo/Props/C08.lean): operations is the set visited by the BFS in new(): it contains E and R*g for every visited R and every generator g; being a finite subset of the (finite) Bravais group that is closed under right multiplication by the generators and contains them, its rotation set is a group, so the rotation of every product is a key"
    ]⟩,
    ⟨"PrimitiveMagneticSymmetrySearch::new", 75246001636682, [
      ex .index "primitive_magnetic_cell . magnetic_moments [ permutation . apply ( i ) ]" 1 (.loopBounded "(0..primitive_magnetic_cell.num_atoms()).map(|i| ..)")
        "permutation comes from solve_correspondence on a kd-tree of the same cell: entries are its site indices; one moment per site"
    ]⟩,
    ⟨"PrimitiveMagneticSymmetrySearch::check_closure", 81992734863630, [
      ex .call "translations_map . insert ( ( mops . operation . rotation , mops . time_reversal ) , mops . operation . translation , )" 1 (.notAPanic "HashMap::insert") "translations_map = HashMap::new()",
      ex .index "translations_map [ & ( mops12 . operation . rotation , mops12 . time_reversal ) ]" 1
        (.knownFinding "panic:primitive_symmetry_search.rs:PrimitiveMagneticSymmetrySearch::check_closure:missing-key")
        "magnetic_operations is the subset of candidates whose moments match within mag_symprec; nothing makes it closed before this look-up, so with a loose or borderline mag_symprec a product's (rotation, time_reversal) is not a key and HashMap's Index panics"
    ]⟩,
    ⟨"search_bravais_group", 146861528664499, [
      ex .index "candidate_lattice_points [ i ]" 1 (.loopBounded "for (i, &length) in lengths.iter().enumerate(); lengths has one entry per column of a Matrix3")
        "candidate_lattice_points = [vec![], vec![], vec![]]",
      ex .call "Rotation :: from_columns ( & [ Vector3 :: new ( c0 . 0 , c0 . 1 , c0 . 2 ) , Vector3 :: new ( c1 . 0 , c1 . 1 , c1 . 2 ) , Vector3 :: new ( c2 . 0 , c2 . 1 , …" 1
        (.fixedSize "array of 3 Vector3 columns for Rotation = Matrix3<i32>") "column count matches",
      ex .div "48 % rotations . len ( )" 1 (.checkedByGuard "rotations.is_empty() || ..") "short-circuit: evaluated only for a non-empty list"
    ]⟩,
    ⟨"compare_nondiagonal_matrix_tensor_element", 143806631554766, [
      ex .call "basis . column ( col1 )" 2 (.callerValidated "search_bravais_group passes (0, 1), (1, 2), (2, 0)") "basis : &Matrix3<f64>; private fn",
      ex .call "basis . column ( col2 )" 2 (.callerValidated "search_bravais_group passes (0, 1), (1, 2), (2, 0)") "basis : &Matrix3<f64>; private fn"
    ]⟩
  ]⟩,
  ⟨"search/solve.rs", [
    ⟨"PeriodicKdTree::new", 93430850478129, [
      ex .unwrap "new_lattice . basis . try_inverse ( ) . unwrap ( )" 1 pNonSingular
        "nalgebra's 3x3 try_inverse returns None only when the computed determinant is exactly 0.0; new_lattice is a rigid rotation of the Minkowski-reduced (magnetic) primitive lattice, a unimodular / index-n re-basing of the input lattice, whose inverse the callers have already taken (LOW CONFIDENCE for |entries| < ~1e-108 where the determinant underflows)",
      ex .call "reciprocal_basis . row ( i )" 1 (.loopBounded "(0..3).map(|i| ..) on a Matrix3<f64>")
        "row index below the fixed dimension 3",
      ex .index "new_position [ 0 ]" 2 .matrixLiteralIndex "new_position = *position with position : &Position = Vector3<f64>",
      ex .index "new_position [ 1 ]" 2 .matrixLiteralIndex "Vector3<f64>",
      ex .index "new_position [ 2 ]" 2 .matrixLiteralIndex "Vector3<f64>"
    ]⟩,
    ⟨"PeriodicKdTree::nearest", 210953867486276, [
      ex .unwrap "NonZero :: new ( 1 ) . unwrap ( )" 1 .constNonempty "the literal 1 is non-zero",
      ex .index "self . indices [ item ]" 1 (.invariant "kdtree_item_is_entry_index")
        "new() pushes one element to `indices` for every element of `entries`, and ImmutableKdTree::new_from_slice(&entries) reports items as positions in that slice"
    ]⟩,
    ⟨"pivot_site_indices", 119193208223916, [
      ex .unwrap "counter . iter ( ) . min_by_key ( | ( _ , count ) | * count ) . unwrap ( )" 1 pAtoms "counter has one key per species present in numbers; empty only for zero atoms"
    ]⟩,
    ⟨"solve_correspondence", 265804438420559, [
      ex .index "new_positions [ i ]" 1 (.callerValidated "PrimitiveCell::new, PrimitiveSymmetrySearch::new, PrimitiveMagneticSymmetrySearch::new")
        "i < pkdtree.num_sites and every caller builds new_positions by mapping over the positions of the cell the tree was built from (public #[doc(hidden)] helper with an unchecked precondition)",
      ex .index "reduced_cell . numbers [ i ]" 1 (.callerValidated "same callers: reduced_cell is the cell the tree was built from") "i < num_sites = numbers.len()",
      ex .index "reduced_cell . numbers [ j ]" 1 (.invariant "kdtree_item_is_entry_index") "j = neighbor.index is an element of pkdtree.indices, i.e. an enumerate() index of the cell's positions",
      ex .index "mapping [ i ]" 2 (.loopBounded "for i in 0..num_atoms; mapping = vec![None; num_atoms]") "same length",
      ex .unwrap "v . unwrap ( )" 1 (.checkedByGuard "every iteration either returns None or executes mapping[i] = Some(j)") "after the loop all entries are Some",
      ex .assert "assert_eq ! ( mapping . len ( ) , num_atoms )" 1 (.fixedSize "mapping is collected from a vec![None; num_atoms]") "length preserved by map/collect"
    ]⟩,
    ⟨"solve_correspondence_naive", 215566340403794, [
      ex .index "visited [ j ]" 2 (.loopBounded "for j in 0..num_atoms; visited = vec![false; num_atoms]") "same length",
      ex .index "reduced_cell . numbers [ i ]" 1 (.loopBounded "for i in 0..num_atoms with num_atoms = positions.len() = numbers.len()") "well-formed Cell",
      ex .index "reduced_cell . numbers [ j ]" 1 (.loopBounded "for j in 0..num_atoms") "well-formed Cell",
      ex .index "reduced_cell . positions [ j ]" 1 (.loopBounded "for j in 0..num_atoms = positions.len()") "in range",
      ex .index "new_positions [ i ]" 1 (.callerValidated "no caller inside the crate outside tests")
        "public #[doc(hidden)] benchmarking helper: requires new_positions.len() >= reduced_cell.num_atoms(), not checked; not one of C08's entry points",
      ex .index "mapping [ i ]" 1 (.loopBounded "for i in 0..num_atoms; mapping = vec![0; num_atoms]") "same length"
    ]⟩,
    ⟨"symmetrize_translation_from_permutation", 211895923250782, [
      ex .index "reduced_cell . positions [ permutation . apply ( i ) ]" 2 (.callerValidated "PrimitiveCell::new, PrimitiveSymmetrySearch::new")
        "i in 0..num_atoms and permutation was returned by solve_correspondence for the same cell: size num_atoms, entries < num_atoms",
      ex .index "reduced_cell . positions [ i ]" 2 (.loopBounded "(0..num_atoms).map(|i| ..) with num_atoms = positions.len()") "in range",
      ex .unwrap "a . partial_cmp ( b ) . unwrap ( )" 1 pFinite "the compared values are norms of lattice * (fractional differences in [-0.5, 0.5]): NaN only from non-finite input",
      ex .unwrap "( 0 .. num_atoms ) . map ( | i | { let mut frac_displacement … lacement ) . norm ( ) } ) . max_by ( | a , b | a . partial_cmp ( b ) . unwrap ( ) ) . unwrap ( )" 1 pAtoms
        "max_by over 0..num_atoms is None only for zero atoms"
    ]⟩
  ]⟩
]

def tSymmetrize : List FileTable := [
  ⟨"symmetrize/magnetic_standardize.rs", [
    ⟨"StandardizedMagneticCell::new", 44048450810653, [
      ex .index "prim_cell . positions [ inv_perm . apply ( i ) ]" 1
        (.loopBounded "i in 0..prim_cell.num_atoms(); inv_perm = inverse of a permutation of the symmetry search on the same primitive magnetic cell")
        "the permutations of PrimitiveMagneticSymmetrySearch have one entry per site of prim_mag_cell.magnetic_cell.cell (built from kd-tree site indices < n), prim_cell is a clone of that cell: size = number of sites, entries below it",
      ex .index "prim_cell . positions [ i ]" 2 (.loopBounded "(0..prim_cell.num_atoms()).map(|i| ..)")
        "index below the length of the vector whose length bounds the range"
    ]⟩,
    ⟨"StandardizedMagneticCell::reference_symmetry_operations_and_permutations", 133842852255515, [
      ex .index "contained [ i ]" 1 (.loopBounded "i enumerates magnetic_symmetry_search.permutations; contained = vec![false; magnetic_operations.len()]")
        "PrimitiveMagneticSymmetrySearch::new pushes one permutation per magnetic operation: equal lengths"
    ]⟩,
    ⟨"StandardizedMagneticCell::symmetrize_magnetic_moments", 95806452430115, [
      ex .index "magnetic_moments [ inv_perm . apply ( i ) ]" 1 (.callerValidated "new_from_ref_cell <- StandardizedMagneticCell::new")
        "i in 0..magnetic_moments.len() and the permutations are those of the symmetry search on the same primitive magnetic cell: size = number of sites = magnetic_moments.len(), entries below it"
    ]⟩
  ]⟩,
  ⟨"symmetrize/standardize.rs", [
    ⟨"StandardizedCell::standardize_and_symmetrize_cell", 159547613857577, [
      ex .unwrap "arithmetic_crystal_class_entry ( entry . arithmetic_number ) . unwrap ( )" 1 .tableDerived "arithmetic_number of a HALL_SYMBOL_DATABASE row is in 1..=73",
      ex .call "permutation_mapping . insert ( * prim_rotation , permutation . clone ( ) )" 1 (.notAPanic "HashMap::insert") "permutation_mapping = HashMap::new()",
      ex .unwrap "permutation_mapping . get ( & ops . rotation ) . unwrap ( )" 1 (.invariant "permutation_mapping_key_present")
        "space_group.transformation was accepted by match_origin_shift, which found every database generator's rotation among the transformed input rotations; the transformed rotations form a group, so they contain the whole database point group, i.e. every rotation of prim_std_operations (triclinic: the extra Niggli conjugation fixes {E} and {E, -E}). LOW CONFIDENCE on the magnetic path, where the transformation was matched against the magnetic Hall symbol and the reference Hall number is looked up separately"
    ]⟩,
    ⟨"StandardizedCell::assign_wyckoffs", 35215344789117, [
      ex .index "orbits [ i ]" 3 (.loopBounded "i in 0..std_cell.num_atoms(); orbits_in_cell returns site_mapping.len() = std_cell.num_atoms() entries") "same length",
      ex .index "mapping [ i ]" 4 (.loopBounded "i in 0..std_cell.num_atoms() or enumerating std_cell.positions; mapping = vec![0; std_cell.num_atoms()]") "same length",
      ex .index "mapping [ orbits [ i ] ]" 2 (.loopBounded "entries of orbits are earlier site indices (map.entry(key).or_insert(i))") "below num_atoms",
      ex .index "multiplicities [ mapping [ i ] ]" 1 (.invariant "assign_wyckoffs_mapping_below_num_orbits")
        "mapping[i] is a value of num_orbits taken before an increment, or a copy of such a value (orbits[i] <= i is already assigned); multiplicities = vec![0; num_orbits]",
      ex .index "representative_wyckoffs [ orbit ]" 2 (.invariant "assign_wyckoffs_mapping_below_num_orbits") "orbit = mapping[i] < num_orbits = representative_wyckoffs.len()",
      ex .index "multiplicities [ orbit ]" 1 (.invariant "assign_wyckoffs_mapping_below_num_orbits") "orbit < num_orbits",
      ex .index "multiplicities [ i ]" 1 (.loopBounded "i enumerates representative_wyckoffs, which has num_orbits entries like multiplicities") "same length",
      ex .index "std_cell . positions [ i ]" 1 (.loopBounded "i < num_orbits <= std_cell.num_atoms()") "there are at most as many orbits as sites",
      ex .index "representative_wyckoffs [ mapping [ orbits [ i ] ] ]" 1 (.invariant "assign_wyckoffs_mapping_below_num_orbits") "a value of mapping, below num_orbits"
    ]⟩,
    ⟨"orbits_in_cell", 191683424663433, [
      ex .index "site_mapping [ i ]" 1 (.loopBounded "for i in 0..num_atoms with num_atoms = site_mapping.len()") "in range",
      ex .index "prim_orbits [ site_mapping [ i ] ]" 1 (.callerValidated "assign_wyckoffs, MoyoDataset::new, MoyoMagneticDataset::new")
        "prim_orbits has prim_num_atoms entries and every caller passes a site_mapping into the primitive cell with that many sites (Transformation::transform_cell / site_mapping_from_orbits)",
      ex .unwrap "map . get ( & key ) . unwrap ( )" 1 (.checkedByGuard "map.entry(key).or_insert(i) on the previous line") "the key was just inserted"
    ]⟩,
    ⟨"<static UNIMODULAR3_RANGE1>", 234623675896250, [
      ex .index "v [ 0 ]" 1 (.fixedSize "v is an item of (0..9).map(|_| -1..=1).multi_cartesian_product(): 9 entries") "literal below 9",
      ex .index "v [ 1 ]" 1 (.fixedSize "9 entries") "literal below 9",
      ex .index "v [ 2 ]" 1 (.fixedSize "9 entries") "literal below 9",
      ex .index "v [ 3 ]" 1 (.fixedSize "9 entries") "literal below 9",
      ex .index "v [ 4 ]" 1 (.fixedSize "9 entries") "literal below 9",
      ex .index "v [ 5 ]" 1 (.fixedSize "9 entries") "literal below 9",
      ex .index "v [ 6 ]" 1 (.fixedSize "9 entries") "literal below 9",
      ex .index "v [ 7 ]" 1 (.fixedSize "9 entries") "literal below 9",
      ex .index "v [ 8 ]" 1 (.fixedSize "9 entries") "literal below 9"
    ]⟩,
    ⟨"standardize_monoclinic_conv_cell", 218096993649599, [
      ex .index "refined_conv_lattice . lattice_constant ( ) [ 3 .. ]" 1 (.fixedSize "lattice_constant returns [f64; 6]") "3 <= 6",
      ex .unwrap "skewness_lhs . partial_cmp ( skewness_rhs ) . unwrap ( )" 1 pFinite
        "skewness sums |cos| of acos(g_ij / (|a_i| |a_j|)); NaN needs |g_ij| > |a_i||a_j| by rounding (two basis vectors parallel within ~1e-8 rad) or a zero-length vector, i.e. a (numerically) singular lattice (LOW CONFIDENCE)",
      ex .unwrap "candidate_conv_transformations . into_iter ( ) . min_by ( | … skewness_rhs , _ ) | { skewness_lhs . partial_cmp ( skewness_rhs ) . unwrap ( ) } ) . unwrap ( )" 1 .constNonempty
        "UNIMODULAR3_RANGE1 contains the identity (det 1), which keeps the centering translations and the generators exactly, so at least one candidate is pushed"
    ]⟩,
    ⟨"assign_wyckoff_position", 166185624341722, [
      ex .index "snf . d [ ( i , i ) ]" 2 (.loopBounded "for i in 0..3") "snf = SNF::new(&space.linear) with linear : Matrix3<i32>: d is 3x3",
      ex .index "rinvy [ i ]" 1 (.loopBounded "for i in 0..3") "rinvy = Vector3::zeros()",
      ex .index "b [ i ]" 1 (.loopBounded "for i in 0..3") "b = (3x3 matrix) * Vector3"
    ]⟩,
    ⟨"symmetrize_positions", 224363809801316, [
      ex .index "cell . positions [ inv_perm . apply ( i ) ]" 1 (.callerValidated "standardize_and_symmetrize_cell")
        "i in 0..cell.num_atoms(); the permutations are those of the symmetry search on the primitive cell, and prim_std_cell_tmp has the same sites in the same order (unimodular transform_cell)",
      ex .index "cell . positions [ i ]" 2 (.loopBounded "(0..cell.num_atoms()).map(|i| ..)") "in range"
    ]⟩,
    ⟨"symmetrize_lattice", 255836490466642, [
      ex .unwrap "lattice . basis . try_inverse ( ) . unwrap ( )" 2 pNonSingular
        "lattice is the conventional standardized lattice = input lattice times integer matrices of non-zero determinant; None only for an exactly zero f64 determinant (LOW CONFIDENCE for |entries| < ~1e-108)",
      ex .index "r [ ( 0 , 0 ) ]" 1 .matrixLiteralIndex "r = QR::new(<Matrix3<f64>>).r() is 3x3",
      ex .index "r [ ( 1 , 1 ) ]" 1 .matrixLiteralIndex "3x3",
      ex .index "r [ ( 2 , 2 ) ]" 1 .matrixLiteralIndex "3x3"
    ]⟩
  ]⟩
]

/-- the discharge table: file → fn → records -/
def table : List FileTable := tBase ++ tData ++ tIdentify ++ tLib ++ tMath ++ tSearch ++ tSymmetrize

/-- the known-finding keys this table may refer to (everything else is claimed not to fire) -/
def allowedFindingKeys : List String := [
  "panic:hall_symbol.rs:parse:index-oob",
  "panic:hall_symbol.rs:parse_lattice:unwrap-none",
  "panic:hall_symbol.rs:parse_operation:unwrap-none",
  "panic:hall_symbol.rs:parse_operation:assert",
  "panic:hall_symbol.rs:parse_origin_shift:unwrap-err",
  "panic:hall_symbol.rs:parse_origin_shift:unwrap-none",
  "panic:primitive_symmetry_search.rs:PrimitiveMagneticSymmetrySearch::check_closure:missing-key",
  "panic:magnetic_space_group.rs:identify_reference_space_group:div-zero"
]

end Moyo.C08Inv.Table
