import Moyo.Model.StageSearchPrim
import Moyo.Model.StageSearchBravais
/-
Driver commands of the stage models S1, S2, S3 (harness/src/s13.rs, stages.rs):

`s1 <tag> ; lat .. ; n .. ; pos .. ; num .. ; symprec x ; mink T1 ; ncand k ; cperms p , p .. ; crough .. ;
   cdist .. ; cacc .. ; transmat M ; pmink T2`
  -> `ok ; plat .. ; pn .. ; ppos .. ; pnum .. ; linear .. ; sitemap .. ; ntrans .. ; trans .. ; perms .. ;
      transmat .. ; frag f ; enum e ; accm a`   |   `err <Variant> ; frag f ; enum e ; accm a`
`s3 <tag> ; lat .. ; n .. ; pos .. ; num .. ; symprec x ; angtol .. ; nbrav m ; brav .. ; ncand k ; crot .. ;
   crough .. ; cperms .. ; cdist .. ; cacc ..`
  -> `ok ; nops n ; ops .. ; perms .. ; depth .. ; hc h ; nacc k ; frag f ; enum e ; accm a`  |  `err …`
`s2 …` is answered by `SearchBravais.cmdS2`.

`frag 1`: some comparison of a computed length with a threshold was within the float uncertainty (the case
is then not compared); `enum 1`: the proposals are a subsequence of the model's own enumeration
(pivot destinations x Bravais rotations, rough translations equal to 1e-9); `accm 1`: the implementation's
accept/reject flags equal the model's on every non-fragile candidate; `bravm 1` (S3): the recorded Bravais list equals
the answer of the S2 model for the same lattice (dataflow S2 -> S3).
-/
namespace Moyo.DriverS13
open Moyo Moyo.Wire Moyo.Search

def splitComma (ts : List String) : List (List String) :=
  let rec go (cur : List String) (out : List (List String)) : List String → List (List String)
    | [] => (cur.reverse :: out).reverse
    | t :: rest => if t = "," then go [] (cur.reverse :: out) rest else go (t :: cur) out rest
  go [] [] ts

def parsePerms? (k : Nat) (ts : List String) : Option (List Perm) :=
  if k = 0 then some [] else
  let parts := splitComma ts
  if parts.length ≠ k then none else parts.mapM parseNats?

def m3s? (xs : List Int) : Option (List M3) :=
  let rec go (acc : List M3) : List Int → Option (List M3)
    | [] => some acc.reverse
    | a :: b :: c :: d :: e :: f :: g :: h :: i :: rest => go (⟨a, b, c, d, e, f, g, h, i⟩ :: acc) rest
    | _ => none
  go [] xs

def optM3? (segs : List (String × List String)) (k : String) : Option (Option M3) :=
  match seg? segs k with
  | none => some none
  | some ts => (parseInts? ts).bind M3.ofList? |>.map some

def natSeg? (segs : List (String × List String)) (k : String) : Option Nat :=
  ((seg? segs k).bind List.head?).bind String.toNat?

def q3Close (u v : Q3) : Bool :=
  let e : Rat := 1 / 1000000000
  decide (absR (u.x - v.x) ≤ e) && decide (absR (u.y - v.y) ≤ e) && decide (absR (u.z - v.z) ≤ e)

/-- Is `xs` a subsequence of `ys` (greedy, with the given matching)? -/
def isSubseq {α β : Type} (m : α → β → Bool) : List α → List β → Bool
  | [], _ => true
  | _ :: _, [] => false
  | x :: xs, y :: ys => if m x y then isSubseq m xs ys else isSubseq m (x :: xs) ys

def b01 (b : Bool) : String := if b then "1" else "0"

def permsOut (ps : List Perm) : String := " , ".intercalate (ps.map natsToString)

def cellOut (pre : String) (c : CellQ) : String :=
  s!"{pre}lat {ratsToString c.lat.toList} ; {pre}n {c.n} ; {pre}pos {ratsToString (c.pos.toList.flatMap Q3.toList)} ; {pre}num {intsToString c.num.toList}"

/-- accept flags of the implementation agree with the model's wherever the model's comparison is not fragile -/
def flagsAgree (model : List (Bool × Bool)) (impl : List Nat) : Bool :=
  model.length == impl.length &&
    (model.zip impl).all fun ((acc, frag), f) => frag || (acc == (f == 1))

/-! ### S1 -/

def cmdS1 (ts : List String) : String :=
  let segs := segments ts
  match (do
    let c ← parseCell? segs ""
    let s ← ((seg? segs "symprec").bind List.head?).bind parseRat?
    let mink1 ← optM3? segs "mink"
    let mink2 ← optM3? segs "pmink"
    let k := (natSeg? segs "ncand").getD 0
    let perms ← parsePerms? k ((seg? segs "cperms").getD [])
    let rough ← q3s? (← parseRats? ((seg? segs "crough").getD []))
    let cacc ← parseNats? ((seg? segs "cacc").getD [])
    if perms.length ≠ rough.size then none else
    pure (c, s, mink1, mink2, (perms.zip rough.toList).map fun (p, r) => (⟨p, r⟩ : TCand), cacc)) with
  | none => "bad-case"
  | some (c, s, mink1, mink2, cands, cacc) =>
    let res := primitiveModel c s mink1 cands mink2
    -- diagnostics on the reduced cell (recomputed; cheap)
    let diag : Bool × Bool × Bool :=
      match mink1.bind (fun T => (unimodInv? T).map fun Ti => transformCellU T Ti c) with
      | none => (false, true, true)
      | some red =>
        let scale := red.lat.maxAbs
        let fg := closeTo (minColNormSq red.lat) (4 * s) scale
        let per := cands.map fun cd =>
          let t := symTranslation red cd.perm M3.one cd.rough
          let md := maxDist2 red cd.perm M3.one t
          (decide (0 < s) && decide (md < s * s), closeTo md s scale)
        let frag := fg || per.any (·.2)
        let piv := pivotSiteIndices red
        let enumOk := match piv with
          | [] => cands.isEmpty
          | src :: _ =>
            isSubseq (fun (cd : TCand) (dst : Nat) => q3Close cd.rough (roughTranslation red M3.one src dst)) cands piv
        (frag, enumOk, flagsAgree per cacc)
    let tail := s!"frag {b01 diag.1} ; enum {b01 diag.2.1} ; accm {b01 diag.2.2}"
    match res with
    | .error e => s!"err {e.name} ; {tail}"
    | .ok r =>
      s!"ok ; {cellOut "p" r.cell} ; linear {intsToString r.linear.toList} ; sitemap {natsToString r.siteMapping} ; ntrans {r.translations.length} ; trans {ratsToString (r.translations.flatMap Q3.toList)} ; perms {permsOut r.perms} ; transmat {intsToString r.transMat.toList} ; {tail}"

/-! ### S3 -/

def opsOut (ops : List Elem) : String :=
  " ".intercalate (ops.map fun o => intsToString o.rot.toList ++ " " ++ ratsToString o.trans.toList)

def cmdS3 (ts : List String) : String :=
  let segs := segments ts
  match (do
    let c ← parseCell? segs ""
    let s ← ((seg? segs "symprec").bind List.head?).bind parseRat?
    let brav ← match seg? segs "brav" with
      | none => some none
      | some bs => ((parseInts? bs).bind m3s?).map some
    let k := (natSeg? segs "ncand").getD 0
    let rots ← (parseInts? ((seg? segs "crot").getD [])).bind m3s?
    let rough ← q3s? (← parseRats? ((seg? segs "crough").getD []))
    let perms ← parsePerms? k ((seg? segs "cperms").getD [])
    let cacc ← parseNats? ((seg? segs "cacc").getD [])
    let ang ← parseAngtol? ((seg? segs "angtol").getD ["default"])
    if perms.length ≠ rough.size ∨ rots.length ≠ perms.length then none else
    pure (c, s, brav, ((rots.zip rough.toList).zip perms).map fun ((r, t), p) => (⟨r, t, p⟩ : Cand), cacc, ang)) with
  | none => "bad-case"
  | some (c, s, brav, cands, cacc, ang) =>
    -- dataflow S2 -> S3: the recorded Bravais list is what the S2 model computes for this lattice (unless fragile)
    let s2 := Moyo.SearchBravais.searchBravais c.lat s ang
    let bravOk : Bool := s2.frag || (match s2.res, brav with
      | .ok g, some b => g == b
      | .ok _, none => guardTooLarge (c.lat.col 0).normSq s   -- the guard returned before the Bravais search
      | _, some _ => false
      | _, none => true)
    let res := searchModel c s brav cands
    let scale := c.lat.maxAbs
    let fg := closeTo (c.lat.col 0).normSq (4 * s) scale
    let per := cands.map fun cd =>
      let t := symTranslation c cd.perm cd.rot cd.rough
      let md := maxDist2 c cd.perm cd.rot t
      (decide (0 < s) && decide (md < s * s), closeTo md s scale)
    -- rotation parts of the accepted candidates (same decisions as `purify`)
    let accRots := (cands.zip per).filterMap fun (cd, a) => if a.1 then some cd.rot else none
    let fragClosure : Bool :=
      match res with
      | .ok ops => (allPairs ops).any fun (a, b) =>
          match lastTrans ops (a.rot.mul b.rot) with
          | none => false
          | some t => closeTo (c.lat.apply (closureDiff t a b)).normSq (2 * s) scale
      | .error _ => false
    let frag := fg || per.any (·.2) || fragClosure
    let piv := pivotSiteIndices c
    let enumOk := match piv, brav with
      | src :: _, some bs =>
        let all := bs.flatMap fun R => piv.map fun dst => (R, roughTranslation c R src dst)
        isSubseq (fun (cd : Cand) (e : M3 × Q3) => cd.rot == e.1 && q3Close cd.rough e.2) cands all
      | _, _ => cands.isEmpty
    let tail := s!"hc {b01 (decide accRots.Nodup)} ; nacc {accRots.length} ; frag {b01 frag} ; enum {b01 enumOk} ; accm {b01 (flagsAgree per cacc)} ; bravm {b01 bravOk}"
    match res with
    | .error e => s!"err {e.name} ; {tail}"
    | .ok ops =>
      s!"ok ; nops {ops.length} ; ops {opsOut ops} ; perms {permsOut (ops.map (·.perm))} ; depth {natsToString (ops.map (·.depth))} ; {tail}"

def step? (line : String) : Option String :=
  match tokens line with
  | "s1" :: _tag :: rest => some (cmdS1 rest)
  | "s3" :: _tag :: rest => some (cmdS3 rest)
  | "s2" :: _tag :: rest => some (Moyo.SearchBravais.cmdS2 rest)
  | _ => none

end Moyo.DriverS13
