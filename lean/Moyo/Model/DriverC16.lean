import Moyo.Model.Wire
import Moyo.Model.TableSpec
import Moyo.Generated.HallTable
import Moyo.Generated.ArithTable
import Moyo.Generated.MagTable
import Moyo.Generated.PointGroupTable
/-
Driver commands of C16 / C17 (import-free).  They evaluate the row checkers of
`Moyo/Model/TableSpec.lean` natively, one row per request, and name the failing clauses; the
searched certificates travel on the request line (the driver does not import the certificate
modules, because those are produced with the help of this very executable).

  c16row <h> <opsC> <primC> <mulC> <parC> <arithP> <arithPerm> <settingConj> <settingPerm>
  c16arith <k> <inv_0> … <inv_53>
  c17row <u> <opsC> <primC> <mulC> <parC> <refConj> <refPerm> <setC>
  c17range <n>
      -> `ok` or `fails: clause, clause, …`   (cross-row data such as the representative group of an
         arithmetic class is recomputed from the model, not taken from certificates)
  georep <Name> | arithrep <k> | pgident <h> | unirange <n>
      -> the translated match-arm tables / the range model, in the format of harness `c16-gen`
-/
namespace Moyo.DriverC16
open Moyo Moyo.Wire Moyo.Generated Moyo.TableSpec

def verdict (vs : List String) : String :=
  if vs.isEmpty then "ok" else "fails: " ++ ", ".intercalate vs

def hallSym (h : Nat) : Option HallSymbol :=
  if h = 0 then none else (hallTable[h - 1]?).bind fun e => HallSymbol.new e.hallSymbol

/-- Primitive operations (translations modulo 1) of Hall number `h`, from the model. -/
def hallPrimModel (h : Nat) : List HOp := ((hallSym h).bind primitiveMod).getD []

def geoIdx (name : String) : Nat := (geoNames.idxOf? name).getD 99

def bravaisAllowed (bravais : String) : List String :=
  if bravais == "aP" || bravais == "mP" || bravais == "oP" || bravais == "tP" || bravais == "hP" || bravais == "cP" then ["P"]
  else if bravais == "mC" then ["A", "B", "C", "I"]
  else if bravais == "oS" then ["A", "B", "C"]
  else if bravais == "oF" || bravais == "cF" then ["F"]
  else if bravais == "oI" || bravais == "tI" || bravais == "cI" then ["I"]
  else if bravais == "hR" then ["R", "P"]
  else []

def arithRepRots (k : Nat) : List M3 :=
  if k = 0 then [] else (hallPrimModel ((arithRepHall[k - 1]?).getD 0)).map (·.rot)

def cmdRow16 (args : List Nat) : String :=
  match args with
  | [h, opsC, primC, mulC, parC, arithP, arithPerm, settingConj, settingPerm] =>
    if h = 0 then "fails: row" else
    match hallTable[h - 1]? with
    | none => "fails: row"
    | some e =>
      let k := e.arithmeticNumber
      match (if k = 0 then none else arithTable[k - 1]?) with
      | none => "fails: arithmetic-number"
      | some a =>
        let hist := (geoHist[geoIdx a.geometricClass]?).getD []
        let r : HallRowIn := {
          symbol := e.hallSymbol, centering := e.centering, opsC := opsC, primC := primC, mulC := mulC, parC := parC
          geoOrder := sumList hist, geoHist := hist, rep := arithRepRots k
          arithP := m3OfList (intsOfNat 9 arithP), arithPerm := arithPerm
          allowedCentering := bravaisAllowed a.bravaisClass
          first := hallPrimModel ((if e.number = 0 then none else spglibHallNumbers[e.number - 1]?).getD 0)
          aff := affOfList (intsOfNat 13 settingConj), affPerm := settingPerm }
        verdict (failing (hallRowClauses rotTypes r))
  | _ => "bad-op"

def cmdArith16 (args : List Nat) : String :=
  match args with
  | k :: inv =>
    if k = 0 then "fails: row" else
    match arithTable[k - 1]? with
    | none => "fails: row"
    | some a =>
      let gi := geoIdx a.geometricClass
      let bi := (bravaisNames.idxOf? a.bravaisClass).getD 99
      let hrep := (arithRepHall[k - 1]?).getD 0
      let rep := arithRepRots k
      verdict (failing [
        ("number", a.arithmeticNumber == k),
        ("geometric-class-name", gi < 32),
        ("bravais-class-name", bi < 14),
        ("family", (geoFamily[gi]?).isSome && geoFamily[gi]? == bravaisFamily[bi]?),
        ("representative", hrep != 0 && (hallTable[hrep - 1]?.map (·.arithmeticNumber)) == some k),
        ("distinct", natsNodup (rep.map M3.key)),
        ("invariants", invVec rotTypes rep == inv)])
  | _ => "bad-op"

def cmdRow17 (args : List Nat) : String :=
  match args with
  | [u, opsC, primC, mulC, parC, refConj, refPerm, setC] =>
    if u = 0 then "fails: row" else
    match magHallTable[u - 1]?, magTypeTable[u - 1]? with
    | some mh, some mt =>
      let hstd := (if mt.number = 0 then none else standardHallNumbers[mt.number - 1]?).getD 0
      let r : MagRowIn := {
        symbol := mh.symbol, uni := u, uniHall := mh.uniNumber, uniType := mt.uniNumber, bns := mt.bnsNumber
        number := mt.number, ct := mt.constructType, opsC := opsC, primC := primC, mulC := mulC, parC := parC
        refCentering := (if hstd = 0 then none else hallTable[hstd - 1]?.map (·.centering)).getD ""
        ref := hallPrimModel hstd
        aff := affOfList (intsOfNat 13 refConj), affPerm := refPerm, setC := setC }
      verdict (failing (magRowClauses r))
    | _, _ => "fails: row"
  | _ => "bad-op"

def magSetModel (u : Nat) : Nat :=
  match (if u = 0 then none else magHallTable[u - 1]?) with
  | none => 0
  | some mh => (((HallSymbol.newMagnetic mh.symbol).bind primitiveMod).map setCode).getD 0

def natsDistinct : List Nat → Bool
  | [] => true
  | x :: rest => !rest.contains x && natsDistinct rest

def cmdRange17 (n : Nat) : String :=
  let ranges := uniRanges (magTypeTableList.map (·.number))
  match (if n = 0 then none else ranges[n - 1]?) with
  | none => "fails: range"
  | some (lo, hi) =>
    let us := List.range' lo (hi + 1 - lo)
    let rows := us.map fun u => (magTypeTable[u - 1]?, magSetModel u)
    verdict (failing [
      ("bounds", lo ≤ hi),
      ("number", rows.all fun x => (x.1.map (·.number)) == some n),
      ("unique-type-1", (rows.filter fun x => (x.1.map (·.constructType)) == some 1).length == 1),
      ("unique-type-2", (rows.filter fun x => (x.1.map (·.constructType)) == some 2).length == 1),
      ("distinct-operation-sets", natsDistinct (rows.map (·.2)))])

def rotsToString (rs : List M3) : String := " | ".intercalate (rs.map fun r => intsToString r.toList)

def cmdGeoRep (name : String) : String :=
  match geoNames.idxOf? name with
  | none => "none"
  | some gi =>
    match (geoRepHall[gi]?).bind hallSym with
    | none => "none"
    | some hs =>
      match hs.traverse with
      | none => "none"
      | some ops => s!"{name} {hs.centering.toString} {ops.length} ; {rotsToString (hs.generators.map (·.rot))}"

def cmdArithRep (k : Nat) : String :=
  if k = 0 then "none" else
  match (arithRepHall[k - 1]?).bind hallSym with
  | none => "none"
  | some hs => s!"{hs.centering.toString} ; {rotsToString (hs.primitiveGenerators.map (·.rot))}"

def step? (line : String) : Option String :=
  match tokens line with
  | "c16row" :: args => some (match parseNats? args with | some v => cmdRow16 v | none => "bad-op")
  | "c16arith" :: args => some (match parseNats? args with | some v => cmdArith16 v | none => "bad-op")
  | "c17row" :: args => some (match parseNats? args with | some v => cmdRow17 v | none => "bad-op")
  | ["c17range", n] => some (match n.toNat? with | some v => cmdRange17 v | none => "bad-op")
  | ["georep", name] => some (cmdGeoRep name)
  | ["arithrep", k] => some (match k.toNat? with | some v => cmdArithRep v | none => "bad-op")
  | ["pgident", h] =>
    some (match h.toNat? with
      | some v => if v = 0 then "none" else ((hallTable[v - 1]?).map fun e => toString e.arithmeticNumber).getD "none"
      | none => "bad-op")
  | ["unirange", n] =>
    some (match n.toInt? with
      | some v =>
        match uniNumberRange (uniRanges (magTypeTableList.map (·.number))) v with
        | some (lo, hi) => s!"{lo} {hi}"
        | none => "none"
      | none => "bad-op")
  | _ => none

end Moyo.DriverC16
