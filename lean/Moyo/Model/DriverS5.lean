import Moyo.Model.StageIdentify
/-
Driver command for stage S5 (space-group identification):
  `s5 <tag> ; nops k ; ops <k × (9 ints + 3 exact floats)> ; setting spglib|standard|hall h ; epsilon e`
answers
  `ok ; number n ; hallnum h ; ulinear <9 ints> ; ushift <3 rationals> ; fragile 0|1`   or
  `err <MoyoError variant> ; fragile 0|1`   or   `PANIC <site> ; fragile 0|1`.
With a trailing request segment `; row h` (exhaustive table run: the operations are the tabulated primitive
operations of Hall number `h`) the answer ends with `; row 1|0`: 1 iff the model's answer is
`hallTable[h-1].number` with the convention's Hall number (`h` itself for `hall h`) — the row checker of the
table theorem `identify_tables`, evaluated by the compiled model on every run.

Fragility (DESIGN §2.3): the only comparisons of computed real quantities against a threshold are the
`> epsilon` tests of `solve_mod1`.  The model is evaluated at `epsilon` and at the two thresholds
`epsilon·(1 ± 1e-9) ± 4e-15`; the tests are monotone in the threshold, so if a compared quantity lies
within the band of `epsilon` that decides the answer, the three answers differ — such a case is
reported `fragile 1` and its verdict is not compared by the check.
-/
namespace Moyo.DriverS5
open Moyo Moyo.Wire Moyo.S5

def parseSetting? (vs : List String) : Option SettingQ :=
  match vs with
  | ["spglib"] => some .spglib
  | ["standard"] => some .standard
  | ["hall", h] => h.toInt?.map .hall
  | _ => none

def outString : Except Err SpaceGroup → String
  | .ok sg => s!"ok ; number {sg.number} ; hallnum {sg.hall} ; ulinear {intsToString sg.linear.toList} ; ushift {ratsToString sg.shift.toList}"
  | .error (.panic site) => s!"PANIC {site}"
  | .error e => s!"err {e.name}"

/-- Same verdict and same transformation (origin shift to 1e-9 modulo 1). -/
def sameOut (a b : Except Err SpaceGroup) : Bool :=
  match a, b with
  | .ok x, .ok y =>
    x.number == y.number && x.hall == y.hall && x.linear == y.linear &&
      (List.range 3).all fun i =>
        let dlt := qget x.shift i - qget y.shift i
        decide (ratAbs (ratWrap dlt) ≤ 1 / 1000000000)
  | .error e, .error f => e == f
  | _, _ => false

def band (eps : Rat) (sign : Rat) : Rat :=
  eps * (1 + sign / 1000000000) + sign * 4 / 1000000000000000

def cmdS5 (ts : List String) : String :=
  let segs := segments ts
  match (do
    let nops ← ((← seg? segs "nops").head?).bind String.toNat?
    let ops ← parseOps? nops (← seg? segs "ops")
    let setting ← parseSetting? (← seg? segs "setting")
    let eps ← ((← seg? segs "epsilon").head?).bind parseRat?
    pure (ops, setting, eps)) with
  | none => "bad-case"
  | some (ops, setting, eps) =>
    -- `PointGroup::new` does not depend on epsilon: evaluated once (`identify = identifyFrom … (pointGroupNew …)`)
    let pgr := pointGroupNew (ops.toList.map (·.rot))
    let r := identifyFrom ops.toList setting eps pgr
    let fragile :=
      !(sameOut r (identifyFrom ops.toList setting (band eps 1) pgr) && sameOut r (identifyFrom ops.toList setting (band eps (-1)) pgr))
    -- table rows (`; row h`): the answer must be the tabulated number with the Hall number of the convention
    let row := match (seg? segs "row").bind (·.head?) |>.bind String.toNat? with
      | none => ""
      | some h =>
        let ok := match hallEntry? h, r with
          | some e, .ok sg =>
            sg.number == e.number && sg.hall == (match setting with
              | .spglib => Moyo.Generated.spglibHallNumbers.getD (e.number - 1) 0
              | .standard => Moyo.Generated.standardHallNumbers.getD (e.number - 1) 0
              | .hall k => k.toNat)
          | _, _ => false
        s!" ; row {if ok then 1 else 0}"
    s!"{outString r} ; fragile {if fragile then 1 else 0}{row}"

/-- `s5pg <tag> ; nrot k ; rots <k × 9 ints>`: `PointGroup::new` alone. -/
def cmdS5pg (ts : List String) : String :=
  let segs := segments ts
  let rec mats (fuel : Nat) (xs : List Int) (acc : List M3) : Option (List M3) :=
    match fuel, xs with
    | _, [] => some acc.reverse
    | 0, _ => none
    | fuel + 1, a :: b :: c :: d :: e :: f :: g :: h :: i :: rest => mats fuel rest (⟨a, b, c, d, e, f, g, h, i⟩ :: acc)
    | _, _ => none
  match (do
    let n ← ((← seg? segs "nrot").head?).bind String.toNat?
    let xs ← parseInts? (← seg? segs "rots")
    let ms ← mats (n + 1) xs []
    if ms.length = n then pure ms else none) with
  | none => "bad-case"
  | some rots =>
    match pointGroupNew rots with
    | .ok pg => s!"ok ; arith {pg.arith} ; ptm {intsToString pg.primTransMat.toList}"
    | .error (.panic site) => s!"PANIC {site}"
    | .error e => s!"err {e.name}"

def step? (line : String) : Option String :=
  match tokens line with
  | "s5" :: _tag :: rest => some (cmdS5 rest)
  | "s5pg" :: _tag :: rest => some (cmdS5pg rest)
  | _ => none

end Moyo.DriverS5
