import Moyo.Model.Reduce
/-
C14 — executable oracles (Bool checkers over exact rationals) that are run on the *implementation's*
outputs: `T` integer with determinant +1, `reduced = basis·T`, exact and complete shortest-vector
decision by box enumeration (Cauchy–Schwarz bound `n_i² ≤ r²·(G⁻¹)_ii`), Niggli conditions, equality of
Niggli metric tensors, near-idempotence.  Import-free.
-/
namespace Moyo.Reduce
open Moyo

/-- Gram matrix `BᵀB`. -/
def gram (B : QM3) : QM3 := B.transpose.mul B

/-- Quadratic form `nᵀ G n`. -/
def qform (G : QM3) (n : Z3) : Rat :=
  let v : Q3 := ⟨n.x, n.y, n.z⟩
  v.dot (G.apply v)

/-- Largest `k : Nat` with `k² ≤ x` (0 for negative `x`): bound on `|n|` from `n² ≤ x`. -/
def isqrtFloor (x : Rat) : Nat := if x < 0 then 0 else Nat.sqrt x.floor.toNat

/-- An integer `s` with `√x < s` (for `x ≥ 0`). -/
def isqrtUp (x : Rat) : Nat := if x < 0 then 0 else Nat.sqrt x.ceil.toNat + 1

/-- All integers `t` with `(t - c)² ≤ w` are in `intsNear c w` (the interval is enlarged to
`[c - s, c + s]` with an integer `s > √w`). -/
def intsNear (c w : Rat) : List Int :=
  if w < 0 then [] else
  let s : Rat := (isqrtUp w : Nat)
  let lo := (c - s).ceil
  let hi := (c + s).floor
  if hi < lo then [] else (List.range (hi - lo + 1).toNat).map fun (k : Nat) => lo + Int.ofNat k

/-- Lagrange (Cholesky) decomposition of a positive definite ternary form:
`Q(x,y,z) = G₁₁·X² + (m/G₁₁)·Y² + (det/m)·z²` with `X = x + (G₁₂y + G₁₃z)/G₁₁`, `Y = y + (h/m)·z`,
`m = G₁₁G₂₂ - G₁₂²`, `h = G₁₁G₂₃ - G₁₂G₁₃` (`lagrange3` in Props/C14.lean).  Hence for `Q(n) ≤ r²`:
`z² ≤ r²·m/det`, then `(y + (h/m)z)² ≤ (r² - (det/m)z²)·G₁₁/m`, then
`(x + (G₁₂y + G₁₃z)/G₁₁)² ≤ (r² - (det/m)z² - (m/G₁₁)Y²)/G₁₁`. -/
structure Lagrange where
  g11 : Rat
  g12 : Rat
  g13 : Rat
  m : Rat
  h : Rat
  dt : Rat

def Lagrange.ofGram (G : QM3) : Lagrange :=
  ⟨G.a, G.b, G.c, G.a * G.e - G.b * G.b, G.a * G.f - G.b * G.c, G.det⟩

def zBound (L : Lagrange) (r2 : Rat) : Nat := isqrtFloor (r2 * L.m / L.dt)

def rangeSym (n : Nat) : List Int := (List.range (2 * n + 1)).map fun (k : Nat) => Int.ofNat k - Int.ofNat n

def yRange (L : Lagrange) (r2 : Rat) (z : Int) : List Int :=
  intsNear (-(L.h / L.m) * z) ((r2 - L.dt / L.m * z * z) * L.g11 / L.m)

def xRange (L : Lagrange) (r2 : Rat) (y z : Int) : List Int :=
  let Y : Rat := y + L.h / L.m * z
  intsNear (-(L.g12 * y + L.g13 * z) / L.g11) ((r2 - L.dt / L.m * z * z - L.m / L.g11 * Y * Y) / L.g11)

/-- Every integer vector with `Q(n) ≤ r2` and `okyz n.y n.z` is in this list
(restricting `(y, z)` early keeps the enumeration small for elongated cells). -/
def candidates (G : QM3) (r2 : Rat) (okyz : Int → Int → Bool) : List Z3 :=
  let L := Lagrange.ofGram G
  (rangeSym (zBound L r2)).flatMap fun z => (yRange L r2 z).flatMap fun y =>
    if okyz y z then (xRange L r2 y z).map fun x => ⟨x, y, z⟩ else []

/-- Number of `(y, z)` pairs the enumeration visits (guard against runaway enumeration on a
far-from-reduced output). -/
def enumSize (G : QM3) (r2 : Rat) : Nat :=
  let L := Lagrange.ofGram G
  ((rangeSym (zBound L r2)).map fun z => (yRange L r2 z).length).sum

/-- Fold of `boxMin`: running minimum `(argmin, min)` of `Q` over the admissible vectors seen so far. -/
def boxMin.go (G : QM3) (ok : Z3 → Bool) (l : List Z3) (acc : Option (Z3 × Rat)) : Option (Z3 × Rat) :=
  l.foldl (fun acc n =>
    if ok n then
      match acc with
      | none => some (n, qform G n)
      | some (_, m) => if qform G n < m then some (n, qform G n) else acc
    else acc) acc

/-- Minimum of `Q` over the candidates that satisfy `ok` (`none` if there is none). -/
def boxMin (G : QM3) (cands : List Z3) (ok : Z3 → Bool) : Option (Z3 × Rat) := boxMin.go G ok cands none

/-- Lower end of the enclosure of `(√p - τ)²` for the comparison "`|v| ≥ |b| - τ`": `p - 2τ·√p`
(dropping `τ²` only makes the test more lenient). -/
def sqMinusTol (p τ : Rat) : Rat := p - 2 * τ * (sqrtLoHi p).2

def radiusSq (G : QM3) (k : Nat) : Rat := match k with | 0 => G.a | 1 => G.e | _ => G.i

/-- `(y, z)`-part of the side condition of successive minimum `k`. -/
def okYZ (k : Nat) (y z : Int) : Bool := match k with | 0 => true | 1 => y ≠ 0 || z ≠ 0 | _ => z ≠ 0

def okVec (k : Nat) (n : Z3) : Bool :=
  match k with
  | 0 => n.x ≠ 0 || n.y ≠ 0 || n.z ≠ 0
  | 1 => n.y ≠ 0 || n.z ≠ 0
  | _ => n.z ≠ 0

/-- Successive-minimum check number `k` (0,1,2) on a basis with Gram matrix `G`:
no integer vector `n` with `(n_k, …, n_2) ≠ 0` is shorter than `b_k` by more than `τ`.
Returns the offending vector if there is one.  Complete: every integer vector with `Q(n) ≤ |b_k|²`
that satisfies the side condition is enumerated. -/
def minimumViolation (G : QM3) (k : Nat) (τ : Rat) : Option Z3 :=
  let r2 := radiusSq G k
  match boxMin G (candidates G r2 (okYZ k)) (okVec k) with
  | some (n, q) => if q < sqMinusTol r2 τ then some n else none
  | none => none

def maxBox : Nat := 200000

/-- Tolerance on lengths for the minimality clauses: 100·EPS. -/
def tauLen : Rat := 100 * EPS

def z3ToString (n : Z3) : String := s!"({n.x},{n.y},{n.z})"

/-- `T` has determinant +1 and `R = B0·T` within `1e-12·scale` (scale = magnitude bound of the
products formed). -/
def commonViolations (B0 : QM3) (T : M3) (R : QM3) : List String :=
  let d := T.det
  let E := (cur B0 T).sub R
  (if d = 1 then [] else [s!"det-T={d}"]) ++
  (if E.maxAbs ≤ e12 * scaleOf B0 T then [] else ["reduced-ne-basis-T"])

/-- Minkowski clause: ordered by length within `τ`, and the three successive-minimum checks
(`first`, `second` are the property's clauses; `third` is the 3-D Minkowski theorem). -/
def minkowskiViolations (R : QM3) : List String :=
  let G := gram R
  if G.det ≤ 0 then ["degenerate"] else
  if G.a ≤ 0 ∨ G.a * G.e - G.b * G.b ≤ 0 then ["degenerate"] else
  let sizes := [0, 1, 2].map fun k => enumSize G (radiusSq G k)
  if sizes.any (· > maxBox) then ["enumeration-too-large"] else
  let ord (p q : Rat) : Bool := klenGt p q tauLen 0 = some true
  (if ord G.a G.e then ["order-01"] else []) ++
  (if ord G.e G.i then ["order-12"] else []) ++
  ([(0, "first"), (1, "second"), (2, "third")].filterMap fun (k, name) =>
    (minimumViolation G k tauLen).map fun n => s!"{name}-minimum:{z3ToString n}")

/-- Uncertainty used by the Niggli oracles: `10·EPS + 1e-9·max|G|`. -/
def niggliTol (G : QM3) : Rat := 10 * EPS + G.maxAbs / ((10 ^ 9 : Nat) : Rat)

/-- Integer-valued with moderate entries: every f64 operation on the metric tensor is exact. -/
def isExactBasis (B : QM3) : Bool := B.toList.all fun x => x.den = 1 && absR x ≤ 1048576

/-- Niggli clause: the output satisfies the model of moyo's own predicate (`niggli-conditions`) and the
Niggli conditions proper (`niggli-spec`, see `niggliSpecK`).  For integer-valued outputs the metric is exact
(`d = 0`, so every tie/special condition is decided exactly); otherwise `d = niggliTol`. -/
def niggliViolations (R : QM3) : List String :=
  let G := gram R
  if G.det ≤ 0 then ["degenerate"] else
  let d := if isExactBasis R then 0 else niggliTol G
  (if isNiggliK R d = some false then ["niggli-conditions"] else []) ++
  (if niggliSpecK R d = some false then ["niggli-spec"] else [])

/-- Delaunay clause checked here: ordered by length (the selection takes the three shortest in order). -/
def delaunayViolations (R : QM3) : List String :=
  let G := gram R
  if G.det ≤ 0 then ["degenerate"] else
  let ord (p q : Rat) : Bool := klenGt p q tauLen 0 = some true
  (if ord G.a G.e then ["order-01"] else []) ++ (if ord G.e G.i then ["order-12"] else [])

/-- Entry-wise `|G1 - G2| ≤ rel·max|G|`. -/
def metricClose (G1 G2 : QM3) (rel abs : Rat) : Bool :=
  (G1.sub G2).maxAbs ≤ abs + rel * maxR G1.maxAbs G2.maxAbs

/-- Two Niggli-reduced bases of one lattice: same metric tensor to 1e-6 relative. -/
def niggliPairViolations (R1 R2 : QM3) : List String :=
  if metricClose (gram R1) (gram R2) ((1 : Rat) / 1000000) 0 then [] else ["niggli-metric-differs"]

def lengthsSq (R : QM3) : List Rat := [colsq R 0, colsq R 1, colsq R 2]

/-- Re-reducing a reduced basis: Niggli — metric tensor unchanged within `10·EPS + 1e-9·max|G|`;
Minkowski/Delaunay — the three lengths (lattice invariants) unchanged within `τ = 100·EPS` (+1e-9 relative). -/
def idemViolations (kind : String) (R R' : QM3) : List String :=
  if kind = "nig" then
    let G := gram R
    if metricClose G (gram R') ((1 : Rat) / ((10 ^ 9 : Nat) : Rat)) (10 * EPS) then [] else ["idempotence-metric"]
  else
    let bad := (List.zip (lengthsSq R) (lengthsSq R')).any fun (p, q) =>
      let τ := tauLen + (sqrtLoHi (maxR p q)).2 / ((10 ^ 9 : Nat) : Rat)
      klenGt p q τ 0 = some true || klenGt q p τ 0 = some true
    if bad then ["idempotence-lengths"] else []

end Moyo.Reduce
