import Moyo.Model.MagDataset
import Moyo.Model.Oracle
import Moyo.Generated.MagTable
/-
Executable statements of the magnetic pipeline properties C11, C12, C13 on a returned
`MoyoMagneticDataset`, in exact rational arithmetic (moments are exact dyadics).  Each failing clause
yields a string tagged with its property and a clause code (`C13[std-mom]: …`).

Magnetic operations are handled through the verified non-magnetic machinery of `Oracle.lean`:
the list is split into its time-reversal-free half and its primed half (`opsWith`), and each half is
searched with `groupByRot`/`hasOpG`; sites are searched with `SiteIndex.findSel`, whose selector
carries the species *and* the moment test, so that the verdict "there is an atom of the same species
within 4·symprec whose moment equals the transformed moment within 4·mag_symprec" is one exact search.
-/
namespace Moyo.MagOracle
open Moyo Moyo.Oracle Moyo.Generated

/-! ### moment action -/

/-- Cartesian form of a fractional rotation: `A R A⁻¹` (`Operation::cartesian_rotation`). -/
def cartRot (A : QM3) (R : M3) : QM3 := (A.mul (QM3.ofM3 R)).mul A.inv

/-- Model of `MagneticMoment::act_rotation` for `Collinear` (`m = (m,0,0)`) and `NonCollinear`:
polar `m ↦ Q m` (collinear: `m`), axial `m ↦ round(det Q)·Q m` (collinear: `round(det Q)·m`). -/
def actRotation (collinear axial : Bool) (cart : QM3) (m : Q3) : Q3 :=
  let v := if collinear then m else cart.apply m
  if axial then v.smul (ratRound cart.det : Rat) else v

/-- Model of `MagneticMoment::act_time_reversal`. -/
def actTimeReversal (tr : Bool) (m : Q3) : Q3 := if tr then m.neg else m

/-- Model of `MagneticMoment::act_magnetic_operation`. -/
def actMagneticOperation (collinear axial : Bool) (cart : QM3) (tr : Bool) (m : Q3) : Q3 :=
  actTimeReversal tr (actRotation collinear axial cart m)

/-- The moment action of the property statement: `m' = θ · (det R)^{[axial]} · (A R A⁻¹) m`
(collinear: the scalar rule `m' = θ · (det R)^{[axial]} · m`), `θ = −1` for time reversal. -/
def momentAct (collinear axial : Bool) (cart : QM3) (det : Int) (tr : Bool) (m : Q3) : Q3 :=
  let s : Rat := (if tr then -1 else 1) * (if axial then (det : Rat) else 1)
  (if collinear then m else cart.apply m).smul s

/-- moments equal within `√mr2` (non-collinear: Euclidean norm; collinear `(m,0,0)`: absolute value) -/
def momClose (a b : Q3) (mr2 : Rat) : Bool := decide ((a.sub b).normSq ≤ mr2)

/-! ### magnetic operations through the non-magnetic machinery -/

/-- `(R₁,t₁,θ₁)(R₂,t₂,θ₂) = (R₁R₂, R₁t₂+t₁, θ₁ xor θ₂)` -/
def mopMul (p q : MOpQ) : MOpQ := ⟨p.rot.mul q.rot, (p.rot.applyQ q.trans).add p.trans, p.tr != q.tr⟩

def mopAct (o : MOpQ) (x : Q3) : Q3 := (o.rot.applyQ x).add o.trans

/-- The space-group parts of the operations whose time-reversal flag is `tr`. -/
def opsWith (ops : Array MOpQ) (tr : Bool) : Array OpQ :=
  ((ops.toList.filter fun o => o.tr == tr).map MOpQ.op).toArray

structure MGroups where
  g0 : Array (M3 × Array Q3)
  g1 : Array (M3 × Array Q3)

def MGroups.build (ops : Array MOpQ) : MGroups := ⟨groupByRot (opsWith ops false), groupByRot (opsWith ops true)⟩

def MGroups.side (g : MGroups) (tr : Bool) : Array (M3 × Array Q3) := if tr then g.g1 else g.g0

/-- `o` is one of the listed magnetic operations modulo lattice translations within `r2`. -/
def hasMOp (A : QM3) (gi : Q3) (g : MGroups) (o : MOpQ) (r2 : Rat) : Bool :=
  hasOpG A gi (g.side o.tr) o.op r2

/-! ### the generating magnetic group, conjugated by the recorded re-description -/

/-- Conventional magnetic operations of UNI number `u` from the regenerated table and the parser model
(`traverse` × centering translations, time-reversal flags included). -/
def magConvOpsOfUni (u : Nat) : Option (List HOp) :=
  if u = 0 then none else
  match magHallTable[u - 1]? with
  | none => none
  | some e => (HallSymbol.newMagnetic e.symbol).bind HallSymbol.conventionalOps

/-- The grey group of the family group: forget the time-reversal flags, drop repetitions, then take
every operation with and without time reversal. -/
def greyOps (conv : List HOp) : List HOp :=
  let plain : List HOp := (conv.map fun o => ({ o with tr := false } : HOp)).eraseDups
  plain ++ plain.map fun o => { o with tr := true }

/-- The group the generated structure has: the generating group, or — when all moments are zero — the
grey group of its family group. -/
def truthConvOps (t : MagTruthQ) : Option (List HOp) :=
  (magConvOpsOfUni t.uni).map fun conv => if t.variant == "zero" || t.forcedZero then greyOps conv else conv

/-- The elements of that group which preserve the input lattice, expressed in the input cell
(`Oracle.expectedOps` with the time-reversal flag carried along). -/
def expectedMagOps (t : MagTruthQ) : Option (List MOpQ) :=
  match truthConvOps t with
  | none => none
  | some conv =>
    let P := t.p
    let dt := P.det
    if dt ≤ 0 then none else
    let Pinv : QM3 := QM3.smul (1 / (dt : Rat)) (QM3.ofM3 P.adj)
    let m := dt.toNat
    let cosets : List Q3 := cosetReps Pinv m
    let base := conv.filterMap fun o =>
      let num := (P.adj.mul o.rot).mul P
      if num.divisibleBy dt then
        let N := num.divExact dt
        let tq := o.trans.toQ 12
        let s := Pinv.apply (((o.rot.applyQ t.shift).add tq).sub t.shift)
        some (⟨N, s, o.tr⟩ : MOpQ)
      else none
    some (cosets.flatMap fun c => base.map fun o => ⟨o.rot, o.trans.add c, o.tr⟩)

/-- The first failure message among `f 0, …, f (n-1)` (at most one; stops at the first). -/
def firstFail (n : Nat) (f : Nat → Option String) : List String :=
  match (List.range n).findSome? f with
  | some s => [s]
  | none => []

/-! ### C11 -/

/-- Two-stage exact site search: a site accepted by `sel` within `r2` of `y` that also passes
`extra`.  The cheap selector is tried first (float-guided, exactly validated); only if the site it
finds fails `extra` is the search repeated with the conjunction.  `none` iff no site passes all three
tests (`MagP.findSel2_sound` / `findSel2_complete`). -/
def findSel2 (ix : SiteIndex) (y : Q3) (sel extra : Nat → Bool) (r2 : Rat) : Option Nat :=
  match ix.findSel y sel r2 with
  | none => none
  | some j => if extra j then some j else ix.findSel y (fun k => sel k && extra k) r2

/-- The site test of C11: an atom of species `sp` within `r2` of `y` whose moment is within `mr2` of `m'`. -/
def findMagSite (ix : SiteIndex) (mom : Array Q3) (y : Q3) (sp : Int) (m' : Q3) (r2 mr2 : Rat) : Option Nat :=
  findSel2 ix y (fun j => ix.cell.num[j]! == sp) (fun j => momClose mom[j]! m' mr2) r2

/-- C11, clause (a): every reported operation is a symmetry of the magnetic structure. -/
def checkC11sym (cs : MagCaseQ) (d : MagDatasetQ) : List String :=
  let c := cs.mc.cell
  let A := c.lat
  let ix := SiteIndex.build c
  let r := 4 * d.symprec
  let r2 := r * r
  let mr := 4 * d.magSymprec
  let mr2 := mr * mr
  let ops := d.ops
  firstFail ops.size fun n =>
    let o := ops[n]!
    let dt := o.rot.det
    if !(dt == 1 || dt == -1) then some s!"C11[det]: operation {n} has determinant {dt}" else
    let cart := cartRot A o.rot
    match (List.range c.n).find? (fun i =>
        (findMagSite ix cs.mc.mom (mopAct o c.pos[i]!) c.num[i]!
          (momentAct cs.collinear cs.axial cart dt o.tr cs.mc.mom[i]!) r2 mr2).isNone) with
    | some i =>
      if (ix.find (mopAct o c.pos[i]!) c.num[i]! r2).isNone then
        some s!"C11[pos]: operation {n} moves atom {i} onto no atom of its species within 4*symprec"
      else
        some s!"C11[mom]: operation {n} (time reversal {o.tr}) carries atom {i} onto an atom whose moment differs from the transformed moment by more than 4*mag_symprec"
    | none => none

/-- C11, clauses (b)-(d): group axioms modulo lattice translations (time reversal composing by xor),
index of the time-reversal-free elements, equality with the generating group.  Float-free. -/
def checkC11alg (cs : MagCaseQ) (d : MagDatasetQ) : List String :=
  let A := cs.mc.cell.lat
  let gi := ginvDiag A
  let r := 4 * d.symprec
  let r2 := r * r
  let ops := d.ops
  let k := ops.size
  let g := MGroups.build ops
  let idOp : MOpQ := ⟨M3.one, Q3.zero, false⟩
  let tiny : Rat := 1 / 1000000
  let f0 := if hasMOp A gi g idOp r2 then [] else ["C11[identity]: the identity without time reversal is missing"]
  let f1 := firstFail k fun i =>
    let o := ops[i]!
    if (List.range i).any fun j =>
        let p := ops[j]!
        p.tr == o.tr && p.rot == o.rot &&
          (let w := (p.trans.sub o.trans).wrap; rabs w.x < tiny && rabs w.y < tiny && rabs w.z < tiny)
    then some s!"C11[dup]: operation {i} duplicates an earlier one modulo lattice translations" else none
  let f2 := firstFail k fun i =>
    let a := ops[i]!
    match (List.range k).find? (fun j => !(hasMOp A gi g (mopMul a ops[j]!) r2)) with
    | some j => some s!"C11[closure]: the product of operations {i} and {j} is not reported"
    | none => none
  let f3 := firstFail k fun i =>
    let a := ops[i]!
    if (g.side a.tr).any fun e => a.rot.mul e.1 == M3.one && e.2.any fun t =>
        transClose A gi ((a.rot.applyQ t).add a.trans) Q3.zero r2
    then none else some s!"C11[inverse]: operation {i} has no inverse in the list"
  -- (c) the time-reversal-free elements have index 1 or 2
  let n0 := (opsWith ops false).size
  let f4 := if n0 == k || 2 * n0 == k then [] else
    [s!"C11[index]: {n0} of {k} operations are free of time reversal (index neither 1 nor 2)"]
  -- (d) equality with the generating group conjugated by the recorded re-description
  let f5 := match expectedMagOps cs.truth with
    | none => ["C11[expected]: oracle could not construct the expected magnetic group"]
    | some exp =>
      let ge := MGroups.build exp.toArray
      let missed := exp.filter fun e => !(hasMOp A gi g e r2)
      let invented := ops.toList.filter fun o => !(hasMOp A gi ge o r2)
      (if missed.isEmpty then [] else [s!"C11[missed]: {missed.length} of {exp.length} operations of the generating group are missed"]) ++
      (if invented.isEmpty then [] else [s!"C11[invented]: {invented.length} of {k} reported operations are not elements of the generating group"]) ++
      (if exp.length == k then [] else [s!"C11[count]: {k} operations reported, {exp.length} expected"])
  f0 ++ f1 ++ f2 ++ f3 ++ f4 ++ f5

def checkC11 (cs : MagCaseQ) (d : MagDatasetQ) : List String := checkC11sym cs d ++ checkC11alg cs d

/-! ### C12 -/

/-- First component of an OG number `"5.5.23"`: the ITA number of the family space group. -/
def ogFamily (s : String) : Option Nat :=
  Hall.parseNat? (s.toList.takeWhile fun c => (Hall.digitVal? c).isSome)

/-- UNI numbers of the construct-type-2 (grey) entries whose BNS reference space group is ITA number `n`. -/
def greyEntries (n : Nat) : List Nat :=
  (magTypeTableList.filter fun e => e.number == n && e.constructType == 2).map (·.uniNumber)

/-- The grey group of ITA number `n` (unique: `Moyo.C12.grey_unique`). -/
def greyOfNumber (n : Nat) : Option Nat := (greyEntries n).head?

/-- UNI number the property demands: the generating one; for all-zero moments the grey group of the
non-magnetic space group, i.e. of the family group, whose ITA number is the first component of the OG
number of the generating entry. -/
def expectedUni (t : MagTruthQ) : Option Nat :=
  if t.variant == "zero" then
    (magTypeTable[t.uni - 1]?).bind fun e => (ogFamily e.ogNumber).bind greyOfNumber
  else some t.uni

def checkC12 (cs : MagCaseQ) (d : MagDatasetQ) : List String :=
  match expectedUni cs.truth with
  | none => ["C12[truth]: oracle could not determine the expected UNI number"]
  | some u =>
    if d.uni = (u : Int) then [] else
      [s!"C12[uni]: UNI number {d.uni} returned, {u} expected (generated from UNI {cs.truth.uni}, variant {cs.truth.variant})"]

/-! ### C13 -/

def magTypeOf (u : Int) : Option MagTypeEntry := if u < 1 then none else magTypeTable[u.toNat - 1]?

/-- Tabulated operations of the reference space-group setting: Standard setting of the entry's ITA number. -/
def refConvOps (number : Nat) : Option (List HOp) :=
  (standardHallNumbers[number - 1]?).bind convOpsOfHall

/-- Conjugate the fractional operation `(R, t)` of the input cell into the cell reached by `(L, s)`:
`(L,s)⁻¹ (R,t) (L,s) = (L⁻¹ R L, L⁻¹ (R s + t − s))` (rational linear part). -/
def carryOp (L Li : QM3) (s : Q3) (R : M3) (t : Q3) : QM3 × Q3 :=
  ((Li.mul (QM3.ofM3 R)).mul L, Li.apply (((R.applyQ s).add t).sub s))

/-- Is site `i` of the magnetic cell carried by `(W, w, θ)` onto a site of its species within `e2`
(and, when `moments`, carrying the transformed moment within `me2`)?  `cart` is the Cartesian form of
`W` in the cell's own frame, `det` its determinant. -/
def siteCarried (mc : MagCellQ) (ix : SiteIndex) (collinear axial : Bool) (W : QM3) (w : Q3) (cart : QM3)
    (det : Int) (tr : Bool) (e2 me2 : Rat) (moments : Bool) (i : Nat) : Bool :=
  let y := (W.apply mc.cell.pos[i]!).add w
  if moments then
    (findMagSite ix mc.mom y mc.cell.num[i]! (momentAct collinear axial cart det tr mc.mom[i]!) e2 me2).isSome
  else (ix.find y mc.cell.num[i]! e2).isSome

/-- Cartesian form of the (rational) linear part `W` acting in a cell with basis `S`. -/
def cartOf (S W : QM3) : QM3 := (S.mul W).mul S.inv

/-- Exact-symmetry test of one operation `(W, w, θ)` on a magnetic cell: the first site that is not
carried onto a site. -/
def symFail (mc : MagCellQ) (ix : SiteIndex) (collinear axial : Bool) (W : QM3) (w : Q3) (det : Int) (tr : Bool)
    (e2 me2 : Rat) (moments : Bool) : Option Nat :=
  (List.range mc.cell.n).find? fun i =>
    !(siteCarried mc ix collinear axial W w (cartOf mc.cell.lat W) det tr e2 me2 moments i)

/-- For the failure message: does the image of site `i` at least land on a site of its species? -/
def posLands (mc : MagCellQ) (ix : SiteIndex) (W : QM3) (w : Q3) (e2 : Rat) (i : Nat) : Bool :=
  (ix.find ((W.apply mc.cell.pos[i]!).add w) mc.cell.num[i]! e2).isSome

/-- The documented exception: type-IV groups of the triclinic and monoclinic systems. -/
def exceptedEntry (e : MagTypeEntry) : Bool := e.constructType == 4 && decide (e.number ≤ 15)

/-- The input moment in the standardized frame: rotated by `Q = std_rotation_matrix` (a proper rotation,
so polar and axial moments rotate alike); collinear moments are frame independent. -/
def rotMoment (collinear : Bool) (Q : QM3) (m : Q3) : Q3 := if collinear then m else Q.apply m

/-- The clauses of C13 on the values as reported. -/
def checkC13core (cs : MagCaseQ) (d : MagDatasetQ) : List String :=
  let c := cs.mc.cell
  let A := c.lat
  let n := c.n
  let r := 4 * d.symprec
  let r2 := r * r
  let mr := 4 * d.magSymprec
  let mr2 := mr * mr
  let Q := d.stdRot
  let tol : Rat := 1 / 1000000000
  let eps : Rat := 1 / 100000000
  let e2 := eps * eps
  let rotMom (m : Q3) : Q3 := rotMoment cs.collinear Q m
  let S := d.std
  let P := d.prim
  -- lattice relations (as C05)
  let f1 := if matClose (Q.transpose.mul Q) QM3.one tol && Q.det > 0 then [] else ["C13[rot]: std_rotation_matrix is not a proper rotation"]
  let f2 := if matClose ((Q.mul A).mul d.stdLinear) S.cell.lat tol then [] else
    ["C13[std-lat]: std_rotation_matrix * A * std_linear differs from the lattice of std_mag_cell"]
  let f3 := if matClose ((Q.mul A).mul d.primLinear) P.cell.lat tol then [] else
    ["C13[prim-lat]: std_rotation_matrix * A * prim_std_linear differs from the lattice of prim_std_mag_cell"]
  let ixS := SiteIndex.build S.cell
  let ixP := SiteIndex.build P.cell
  let ixI := SiteIndex.build c
  let Li := d.stdLinear.inv
  let Pi := d.primLinear.inv
  -- every input atom lands on a std_mag_cell site of its species carrying the rotated moment
  let f4 := firstFail n fun i =>
    let y := Li.apply (c.pos[i]!.sub d.stdShift)
    if (findMagSite ixS S.mom y c.num[i]! (rotMom cs.mc.mom[i]!) r2 mr2).isSome then none
    else if (ixS.find y c.num[i]! r2).isNone then
      some s!"C13[std-pos]: input atom {i} is not carried onto a std_mag_cell site of its species within 4*symprec"
    else some s!"C13[std-mom]: input atom {i} lands on a std_mag_cell site whose moment differs from the rotated input moment by more than 4*mag_symprec"
  -- every std_mag_cell site is the image of an input atom carrying the same (rotated) moment
  let f5 := firstFail S.cell.n fun j =>
    let y := (d.stdLinear.apply S.cell.pos[j]!).add d.stdShift
    if (findSel2 ixI y (fun i => c.num[i]! == S.cell.num[j]!) (fun i => momClose (rotMom cs.mc.mom[i]!) S.mom[j]! mr2) r2).isSome then none
    else if (ixI.find y S.cell.num[j]! r2).isNone then
      some s!"C13[std-onto-pos]: std_mag_cell site {j} is not the image of any input atom"
    else some s!"C13[std-onto-mom]: std_mag_cell site {j} is the image of an input atom with a different moment"
  let detL := rabs d.stdLinear.det
  let f6 := if rabs ((S.cell.n : Rat) - (n : Rat) * detL) ≤ 1 / 1000 then [] else
    [s!"C13[std-count]: std_mag_cell has {S.cell.n} atoms, N*|det std_linear| = {Wire.ratToString ((n : Rat) * detL)}"]
  -- primitive cell through mapping_std_prim
  let f7 := firstFail n fun i =>
    let y := Pi.apply (c.pos[i]!.sub d.primShift)
    match d.mapping[i]? with
    | none => some s!"C13[prim-map]: mapping_std_prim has no entry for atom {i}"
    | some j =>
      if !(decide (j < P.cell.n) && P.cell.num[j]! == c.num[i]! &&
           withinPeriodic P.cell.lat ixP.gi (y.sub P.cell.pos[j]!) r2) then
        some s!"C13[prim-pos]: input atom {i} is not carried onto prim_std_mag_cell site mapping_std_prim[{i}] = {j}"
      else if !(momClose P.mom[j]! (rotMom cs.mc.mom[i]!) mr2) then
        some s!"C13[prim-mom]: prim_std_mag_cell site mapping_std_prim[{i}] = {j} carries a moment that differs from the rotated moment of input atom {i} by more than 4*mag_symprec"
      else none
  -- exact symmetry of std_mag_cell: reported operations carried by the reported transformation
  let L := d.stdLinear
  let f8 := firstFail d.ops.size fun k =>
    let o := d.ops[k]!
    let Ww := carryOp L Li d.stdShift o.rot o.trans
    match symFail S ixS cs.collinear cs.axial Ww.1 Ww.2 o.rot.det o.tr e2 e2 true with
    | none => none
    | some i =>
      if posLands S ixS Ww.1 Ww.2 e2 i then some s!"C13[sym-rep-mom]: reported operation {k}, carried into std_mag_cell, maps site {i} onto a site whose moment is not the transformed moment (1e-8)"
      else some s!"C13[sym-rep-pos]: reported operation {k}, carried into std_mag_cell, maps site {i} onto no site (1e-8 A)"
  -- tabulated operations
  let f9 := match magTypeOf d.uni with
    | none => [s!"C13[uni]: UNI number {d.uni} has no table entry"]
    | some e =>
      let fref := match refConvOps e.number with
        | none => [s!"C13[ref]: no tabulated operations for the reference setting of ITA number {e.number}"]
        | some conv =>
          firstFail conv.length fun k =>
            let o : HOp := conv[k]!
            match symFail S ixS cs.collinear cs.axial (QM3.ofM3 o.rot) (o.trans.toQ 12) o.rot.det false e2 e2 false with
            | none => none
            | some i => some s!"C13[sym-ref]: tabulated operation {k} of the reference setting (ITA {e.number}) maps std_mag_cell site {i} onto no site (1e-8 A)"
      let ftab := if exceptedEntry e then [] else
        match magConvOpsOfUni d.uni.toNat with
        | none => [s!"C13[tab]: no tabulated magnetic operations for UNI {d.uni}"]
        | some conv =>
          firstFail conv.length fun k =>
            let o : HOp := conv[k]!
            match symFail S ixS cs.collinear cs.axial (QM3.ofM3 o.rot) (o.trans.toQ 12) o.rot.det o.tr e2 e2 true with
            | none => none
            | some i =>
              if posLands S ixS (QM3.ofM3 o.rot) (o.trans.toQ 12) e2 i then some s!"C13[sym-tab-mom]: tabulated magnetic operation {k} of UNI {d.uni} maps std_mag_cell site {i} onto a site whose moment is not the transformed moment (1e-8)"
              else some s!"C13[sym-tab-pos]: tabulated magnetic operation {k} of UNI {d.uni} maps std_mag_cell site {i} onto no site (1e-8 A)"
      fref ++ ftab
  f1 ++ f2 ++ f3 ++ f4 ++ f5 ++ f6 ++ f7 ++ f8 ++ f9

/-- Diagnostic line appended to a non-empty failure list (used only to key known findings): which
trigger conditions of the three known defect sites are present in this dataset.
`rot`: std_rotation_matrix differs from the identity; `centred`: std_mag_cell is a multiple cell of
prim_std_mag_cell; `shift`: the origin shift is not a lattice vector of std_mag_cell;
`shiftdropped`: with the origin shift replaced by zero every input atom lands on a std_mag_cell site of
its species and every site is reached (the signature of the shift being dropped when the conventional
magnetic cell is built). -/
def diagC13 (cs : MagCaseQ) (d : MagDatasetQ) : String :=
  let c := cs.mc.cell
  let r := 4 * d.symprec
  let r2 := r * r
  let tol : Rat := 1 / 1000000000
  let b (x : Bool) : String := if x then "1" else "0"
  let rot := !(matClose d.stdRot QM3.one tol)
  let M := d.primLinear.inv.mul d.stdLinear
  let centred := decide (rabs M.det > 3 / 2)
  let ls := d.stdLinear.inv.apply d.stdShift
  let w := ls.wrap
  let shift := !(decide (rabs w.x ≤ tol) && decide (rabs w.y ≤ tol) && decide (rabs w.z ≤ tol))
  let ixS := SiteIndex.build d.std.cell
  let ixI := SiteIndex.build c
  let Li := d.stdLinear.inv
  let dropped := shift &&
    ((List.range c.n).all fun i => (ixS.find (Li.apply c.pos[i]!) c.num[i]! r2).isSome) &&
    ((List.range d.std.cell.n).all fun j => (ixI.find (d.stdLinear.apply d.std.cell.pos[j]!) d.std.cell.num[j]! r2).isSome)
  s!"C13[diag]: rot={b rot} centred={b centred} shift={b shift} shiftdropped={b dropped}"

def checkC13 (cs : MagCaseQ) (d : MagDatasetQ) : List String :=
  let core := checkC13core cs d
  if core.isEmpty then [] else core ++ [diagC13 cs d]

/-! ### all three -/

def checkAllMag (cs : MagCaseQ) : List String :=
  match cs.out with
  | .panic msg => [s!"C08: panic {msg}"]
  | .err name =>
    -- C12 requires an answer on premise-satisfying inputs; C11 and C13 speak about returned datasets only
    [s!"C12[err]: error {name} on a magnetic structure generated from a tabulated magnetic space group"]
  | .ok d => checkC11 cs d ++ checkC12 cs d ++ checkC13 cs d

/-- `uni nops n0 | natoms-std natoms-prim` (for evidence and twin comparison) -/
def magSummary (d : MagDatasetQ) : String :=
  s!"{d.uni} {d.ops.size} {(opsWith d.ops false).size} ; {d.std.cell.n} {d.prim.cell.n}"

end Moyo.MagOracle
