/-
3×3 integer matrices, integer/rational 3-vectors and rational 3×3 matrices as plain structures
(component-wise definitions: `ring`/`omega`/`decide` friendly, fast in the kernel and compiled).
Row-major: `⟨a,b,c, d,e,f, g,h,i⟩` is the matrix with rows `(a b c)`, `(d e f)`, `(g h i)`.
Import-free.
-/
namespace Moyo

structure M3 where
  a : Int
  b : Int
  c : Int
  d : Int
  e : Int
  f : Int
  g : Int
  h : Int
  i : Int
deriving DecidableEq, Repr, Inhabited

structure Z3 where
  x : Int
  y : Int
  z : Int
deriving DecidableEq, Repr, Inhabited

structure Q3 where
  x : Rat
  y : Rat
  z : Rat
deriving DecidableEq, Repr, Inhabited

/-- Rational 3×3 matrix (lattice bases, metric tensors, Cartesian rotations). -/
structure QM3 where
  a : Rat
  b : Rat
  c : Rat
  d : Rat
  e : Rat
  f : Rat
  g : Rat
  h : Rat
  i : Rat
deriving DecidableEq, Repr, Inhabited

namespace M3

def one : M3 := ⟨1, 0, 0, 0, 1, 0, 0, 0, 1⟩
def zero : M3 := ⟨0, 0, 0, 0, 0, 0, 0, 0, 0⟩

def mul (p q : M3) : M3 :=
  ⟨p.a * q.a + p.b * q.d + p.c * q.g, p.a * q.b + p.b * q.e + p.c * q.h, p.a * q.c + p.b * q.f + p.c * q.i,
   p.d * q.a + p.e * q.d + p.f * q.g, p.d * q.b + p.e * q.e + p.f * q.h, p.d * q.c + p.e * q.f + p.f * q.i,
   p.g * q.a + p.h * q.d + p.i * q.g, p.g * q.b + p.h * q.e + p.i * q.h, p.g * q.c + p.h * q.f + p.i * q.i⟩

def add (p q : M3) : M3 :=
  ⟨p.a + q.a, p.b + q.b, p.c + q.c, p.d + q.d, p.e + q.e, p.f + q.f, p.g + q.g, p.h + q.h, p.i + q.i⟩

def sub (p q : M3) : M3 :=
  ⟨p.a - q.a, p.b - q.b, p.c - q.c, p.d - q.d, p.e - q.e, p.f - q.f, p.g - q.g, p.h - q.h, p.i - q.i⟩

def smul (k : Int) (p : M3) : M3 :=
  ⟨k * p.a, k * p.b, k * p.c, k * p.d, k * p.e, k * p.f, k * p.g, k * p.h, k * p.i⟩

def neg (p : M3) : M3 := smul (-1) p

def transpose (p : M3) : M3 := ⟨p.a, p.d, p.g, p.b, p.e, p.h, p.c, p.f, p.i⟩

def det (p : M3) : Int :=
  p.a * (p.e * p.i - p.f * p.h) - p.b * (p.d * p.i - p.f * p.g) + p.c * (p.d * p.h - p.e * p.g)

def trace (p : M3) : Int := p.a + p.e + p.i

/-- Adjugate: `p.mul p.adj = p.det • 1`. -/
def adj (p : M3) : M3 :=
  ⟨p.e * p.i - p.f * p.h, p.c * p.h - p.b * p.i, p.b * p.f - p.c * p.e,
   p.f * p.g - p.d * p.i, p.a * p.i - p.c * p.g, p.c * p.d - p.a * p.f,
   p.d * p.h - p.e * p.g, p.b * p.g - p.a * p.h, p.a * p.e - p.b * p.d⟩

def apply (p : M3) (v : Z3) : Z3 :=
  ⟨p.a * v.x + p.b * v.y + p.c * v.z, p.d * v.x + p.e * v.y + p.f * v.z, p.g * v.x + p.h * v.y + p.i * v.z⟩

def applyQ (p : M3) (v : Q3) : Q3 :=
  ⟨p.a * v.x + p.b * v.y + p.c * v.z, p.d * v.x + p.e * v.y + p.f * v.z, p.g * v.x + p.h * v.y + p.i * v.z⟩

def toList (p : M3) : List Int := [p.a, p.b, p.c, p.d, p.e, p.f, p.g, p.h, p.i]

def ofList? : List Int → Option M3
  | [a, b, c, d, e, f, g, h, i] => some ⟨a, b, c, d, e, f, g, h, i⟩
  | _ => none

/-- All entries divisible by `k`. -/
def divisibleBy (p : M3) (k : Int) : Bool := p.toList.all fun x => x % k == 0

/-- Entry-wise exact division (callers check `divisibleBy`). -/
def divExact (p : M3) (k : Int) : M3 :=
  ⟨p.a / k, p.b / k, p.c / k, p.d / k, p.e / k, p.f / k, p.g / k, p.h / k, p.i / k⟩

def d3 (x : Int) : Nat := (x + 1).toNat

/-- Injective `Nat` key on matrices with entries in {-1,0,1} (used for bitset visited sets). -/
def key (m : M3) : Nat :=
  d3 m.a + 3 * (d3 m.b + 3 * (d3 m.c + 3 * (d3 m.d + 3 * (d3 m.e + 3 * (d3 m.f + 3 * (d3 m.g + 3 * (d3 m.h + 3 * d3 m.i)))))))

/-- All entries in {-1,0,1}. -/
def small (m : M3) : Bool := m.toList.all fun x => x.natAbs ≤ 1

end M3

namespace Z3
def zero : Z3 := ⟨0, 0, 0⟩
def add (u v : Z3) : Z3 := ⟨u.x + v.x, u.y + v.y, u.z + v.z⟩
def sub (u v : Z3) : Z3 := ⟨u.x - v.x, u.y - v.y, u.z - v.z⟩
def neg (u : Z3) : Z3 := ⟨-u.x, -u.y, -u.z⟩
def smul (k : Int) (u : Z3) : Z3 := ⟨k * u.x, k * u.y, k * u.z⟩
/-- Component-wise Euclidean remainder (`rem_euclid`). -/
def mod (u : Z3) (n : Int) : Z3 := ⟨u.x % n, u.y % n, u.z % n⟩
def toList (u : Z3) : List Int := [u.x, u.y, u.z]
def toQ (u : Z3) (den : Int) : Q3 := ⟨(u.x : Rat) / den, (u.y : Rat) / den, (u.z : Rat) / den⟩
end Z3

namespace Q3
def zero : Q3 := ⟨0, 0, 0⟩
def add (u v : Q3) : Q3 := ⟨u.x + v.x, u.y + v.y, u.z + v.z⟩
def sub (u v : Q3) : Q3 := ⟨u.x - v.x, u.y - v.y, u.z - v.z⟩
def neg (u : Q3) : Q3 := ⟨-u.x, -u.y, -u.z⟩
def smul (k : Rat) (u : Q3) : Q3 := ⟨k * u.x, k * u.y, k * u.z⟩
def dot (u v : Q3) : Rat := u.x * v.x + u.y * v.y + u.z * v.z
def normSq (u : Q3) : Rat := dot u u
def toList (u : Q3) : List Rat := [u.x, u.y, u.z]
def map (f : Rat → Rat) (u : Q3) : Q3 := ⟨f u.x, f u.y, f u.z⟩
def ofList? : List Rat → Option Q3
  | [x, y, z] => some ⟨x, y, z⟩
  | _ => none
end Q3

namespace QM3
def one : QM3 := ⟨1, 0, 0, 0, 1, 0, 0, 0, 1⟩
def ofM3 (p : M3) : QM3 := ⟨p.a, p.b, p.c, p.d, p.e, p.f, p.g, p.h, p.i⟩
def mul (p q : QM3) : QM3 :=
  ⟨p.a * q.a + p.b * q.d + p.c * q.g, p.a * q.b + p.b * q.e + p.c * q.h, p.a * q.c + p.b * q.f + p.c * q.i,
   p.d * q.a + p.e * q.d + p.f * q.g, p.d * q.b + p.e * q.e + p.f * q.h, p.d * q.c + p.e * q.f + p.f * q.i,
   p.g * q.a + p.h * q.d + p.i * q.g, p.g * q.b + p.h * q.e + p.i * q.h, p.g * q.c + p.h * q.f + p.i * q.i⟩
def sub (p q : QM3) : QM3 :=
  ⟨p.a - q.a, p.b - q.b, p.c - q.c, p.d - q.d, p.e - q.e, p.f - q.f, p.g - q.g, p.h - q.h, p.i - q.i⟩
def smul (k : Rat) (p : QM3) : QM3 :=
  ⟨k * p.a, k * p.b, k * p.c, k * p.d, k * p.e, k * p.f, k * p.g, k * p.h, k * p.i⟩
def transpose (p : QM3) : QM3 := ⟨p.a, p.d, p.g, p.b, p.e, p.h, p.c, p.f, p.i⟩
def det (p : QM3) : Rat :=
  p.a * (p.e * p.i - p.f * p.h) - p.b * (p.d * p.i - p.f * p.g) + p.c * (p.d * p.h - p.e * p.g)
def adj (p : QM3) : QM3 :=
  ⟨p.e * p.i - p.f * p.h, p.c * p.h - p.b * p.i, p.b * p.f - p.c * p.e,
   p.f * p.g - p.d * p.i, p.a * p.i - p.c * p.g, p.c * p.d - p.a * p.f,
   p.d * p.h - p.e * p.g, p.b * p.g - p.a * p.h, p.a * p.e - p.b * p.d⟩
/-- Inverse (adjugate over determinant); meaningful when `det ≠ 0`. -/
def inv (p : QM3) : QM3 := smul (1 / p.det) p.adj
def apply (p : QM3) (v : Q3) : Q3 :=
  ⟨p.a * v.x + p.b * v.y + p.c * v.z, p.d * v.x + p.e * v.y + p.f * v.z, p.g * v.x + p.h * v.y + p.i * v.z⟩
def toList (p : QM3) : List Rat := [p.a, p.b, p.c, p.d, p.e, p.f, p.g, p.h, p.i]
def ofList? : List Rat → Option QM3
  | [a, b, c, d, e, f, g, h, i] => some ⟨a, b, c, d, e, f, g, h, i⟩
  | _ => none
/-- Largest absolute entry. -/
def maxAbs (p : QM3) : Rat := p.toList.foldl (fun m x => let ax := if x < 0 then -x else x; if m < ax then ax else m) 0
/-- Column `k` (0,1,2). -/
def col (p : QM3) (k : Nat) : Q3 :=
  match k with
  | 0 => ⟨p.a, p.d, p.g⟩
  | 1 => ⟨p.b, p.e, p.h⟩
  | _ => ⟨p.c, p.f, p.i⟩
end QM3

/-! Rounding conventions of Rust's f64 methods on exact rationals. -/

/-- `f64::round`: nearest integer, ties away from zero. -/
def ratRound (q : Rat) : Int :=
  if q ≥ 0 then (q + 1 / 2).floor else -((-q + 1 / 2).floor)

/-- `x - x.round()` : representative in [-1/2, 1/2]. -/
def ratWrap (q : Rat) : Rat := q - ratRound q

/-- `x.rem_euclid(1.0)` : representative in [0,1). -/
def ratFrac (q : Rat) : Rat := q - q.floor

/-- `x % 1.0` on f64: truncated remainder, result in (-1,1) with the sign of `x`. -/
def ratTruncFrac (q : Rat) : Rat := if q ≥ 0 then q - q.floor else q - q.ceil

def Q3.wrap (u : Q3) : Q3 := u.map ratWrap
def Q3.frac (u : Q3) : Q3 := u.map ratFrac

end Moyo
