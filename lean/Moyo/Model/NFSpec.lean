import Moyo.Model.IMat
/-
Executable statement of property C15 on *given* outputs (used as the oracle when the model and
the implementation disagree): `H = A·R`, shape of `H`, `D = L·A·R`, shape of `D`, unimodularity
(certified by exhibiting an integer inverse), and `rank D = rank A` over ℚ.
The inverse / rank *finders* are plain Gaussian elimination over `Rat`; a positive unimodularity
verdict is certified by multiplying back, the rank finder is trusted (see DESIGN §2.7).
-/
namespace Moyo
open IMat

abbrev QArr := Array (Array Rat)

def IMat.toQArr {m n : Nat} (A : IMat m n) : QArr :=
  A.rows.toArray.map fun r => r.toArray.map fun (x : Int) => (x : Rat)

/-- Gauss–Jordan elimination on an `r × c` rational array; returns the reduced array and the rank. -/
def gaussJordan (a : QArr) (r c : Nat) : QArr × Nat := Id.run do
  let mut a := a
  let mut rank := 0
  for col in [0:c] do
    if rank < r then
      -- find pivot row
      let mut piv : Option Nat := none
      for i in [rank:r] do
        if piv.isNone && (a[i]!)[col]! != 0 then piv := some i
      match piv with
      | none => pure ()
      | some p =>
        let rowp := a[p]!
        let rowr := a[rank]!
        a := (a.set! p rowr).set! rank rowp
        let pv := (a[rank]!)[col]!
        a := a.set! rank ((a[rank]!).map (· / pv))
        for i in [0:r] do
          if i != rank then
            let f := (a[i]!)[col]!
            if f != 0 then
              let rr := a[rank]!
              a := a.set! i ((a[i]!).zipWith (fun x y => x - f * y) rr)
        rank := rank + 1
  return (a, rank)

def ratRank {m n : Nat} (A : IMat m n) : Nat := (gaussJordan A.toQArr m n).2

/-- Integer inverse of a square integer matrix, if Gauss–Jordan finds one. -/
def intInverse? {n : Nat} (A : IMat n n) : Option (IMat n n) :=
  let aug : QArr := (Array.range n).map fun i =>
    ((A.toQArr)[i]!) ++ ((Array.range n).map fun j => if i = j then (1 : Rat) else 0)
  let (red, rank) := gaussJordan aug n (2 * n)
  if rank != n then none else
  -- left block must be the identity
  let okLeft := (List.range n).all fun i => (List.range n).all fun j =>
    ((red[i]!)[j]!) == (if i = j then 1 else 0)
  if !okLeft then none else
  let integral := (List.range n).all fun i => (List.range n).all fun j => ((red[i]!)[n + j]!).den == 1
  if !integral then none else
  some (IMat.ofFn fun i j => ((red[i.val]!)[n + j.val]!).num)

/-- `R` has a two-sided integer inverse (certificate checked by multiplication). -/
def unimodularB {n : Nat} (R : IMat n n) : Bool :=
  match intInverse? R with
  | none => false
  | some R' => decide (R.mul R' = IMat.one n) && decide (R'.mul R = IMat.one n)

/-- C15 for an HNF output. Returns the list of violated clauses (empty = holds). -/
def hnfSpecViolations {m n : Nat} (A H : IMat m n) (R : IMat n n) : List String :=
  let v1 := if H = A.mul R then [] else ["H != A*R"]
  let v2 := if unimodularB R then [] else ["R not unimodular"]
  let v3 := if (List.finRange m).all fun i => (List.finRange n).all fun j =>
      !(decide (i.val < j.val)) || (H.get i j == 0) then [] else ["H not lower triangular"]
  let v4 := if (List.finRange m).all fun i =>
      if h : i.val < n then
        let p := H.get i ⟨i.val, h⟩
        decide (0 ≤ p) && (p == 0 || (List.finRange n).all fun j =>
          !(decide (j.val < i.val)) || (decide (0 ≤ H.get i j) && decide (H.get i j < p)))
      else true
    then [] else ["pivot negative or entries left of a pivot not reduced"]
  let v5 := if m ≤ n && ratRank A == m then
      if (List.finRange m).all fun i =>
        if h : i.val < n then decide (0 < H.get i ⟨i.val, h⟩) else true
      then [] else ["non-positive pivot for a matrix of full row rank"]
    else []
  v1 ++ v2 ++ v3 ++ v4 ++ v5

/-- C15 for an SNF output (with the reported rank). -/
def snfSpecViolations {m n : Nat} (A D : IMat m n) (L : IMat m m) (R : IMat n n) (rank : Nat) :
    List String :=
  let v1 := if D = (L.mul A).mul R then [] else ["D != L*A*R"]
  let v2 := if unimodularB L then [] else ["L not unimodular"]
  let v3 := if unimodularB R then [] else ["R not unimodular"]
  let v4 := if (List.finRange m).all fun i => (List.finRange n).all fun j =>
      decide (0 ≤ D.get i j) && (i.val == j.val || D.get i j == 0) then [] else ["D not diagonal non-negative"]
  let v5 := if rank == ratRank A then [] else [s!"rank {rank} != rank over Q {ratRank A}"]
  v1 ++ v2 ++ v3 ++ v4 ++ v5

end Moyo
