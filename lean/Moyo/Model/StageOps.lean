import Moyo.Model.Dataset
/-
Stage S4: model of `search::primitive_symmetry_search::operations_in_cell` and of
`base::transformation::Transformation::transform_operation` (with zero origin shift):
operations found in the primitive cell are conjugated into the input cell by the integer matrix
`linear` (primitive -> input, `det > 0`), kept only when the conjugate is integral, and combined with
the pure translations of the input cell.  Exact rational arithmetic.
-/
namespace Moyo.Stage

/-- `Transformation::from_linear(L).transform_operation((R, t))`: `(L⁻¹ R L, L⁻¹ t)` if the rotation
is integral, else `none` (the code's test `L N = R L` on the rounded matrix is, for integer `L`, `R`,
exactly integrality of `L⁻¹ R L`). -/
def transformOp (L : M3) (o : OpQ) : Option OpQ :=
  let dt := L.det
  let num := (L.adj.mul o.rot).mul L
  if dt ≠ 0 ∧ num.divisibleBy dt then
    let Linv : QM3 := QM3.smul (1 / (dt : Rat)) (QM3.ofM3 L.adj)
    some ⟨num.divExact dt, Linv.apply o.trans⟩
  else none

/-- `x % 1.0` on each component (truncated remainder). -/
def truncFrac3 (v : Q3) : Q3 := v.map ratTruncFrac

/-- `operations_in_cell`: translations-major order, as the two nested loops of the code. -/
def operationsInCell (L : M3) (translations : List Q3) (primOps : List OpQ) : List OpQ :=
  let inputOps := primOps.filterMap (transformOp L)
  translations.flatMap fun t1 => inputOps.map fun o2 => ⟨o2.rot, truncFrac3 (t1.add o2.trans)⟩

end Moyo.Stage
