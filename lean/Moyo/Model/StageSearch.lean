import Moyo.Model.Dataset
/-
Stages S1 and S3, common part and S3: model of `search::solve::symmetrize_translation_from_permutation`,
`search::solve::pivot_site_indices`, and of `PrimitiveSymmetrySearch::new` / `check_closure`
(moyo/src/search/primitive_symmetry_search.rs, moyo/src/base/{permutation,operation}.rs).

Oracle-parameterised (DESIGN §2.1): the float heuristics only *propose* —
  * `brav`  : the rotation list returned by `search_bravais_group` (`none` = it returned an error),
  * `cands` : the `(rotation, rough translation, permutation)` triples that came back from the kd-tree
              (`solve_correspondence`),
and everything the code does after a proposal is computed here in exact rational arithmetic:
range/species check of a proposed permutation (the exact part of `solve_correspondence`), the least-squares
translation with the `- rough, - round, + rough` trick, the acceptance test `distance < symprec`
(on squares), the breadth-first closure, the size test and `check_closure`.
`norm(v) < r` is modelled as `v·v < r²` together with `0 < r` (`norm ≥ 0`).  Import-free.
-/
namespace Moyo.Search

/-! ### Permutations (`base/permutation.rs`) -/

/-- `Permutation { mapping }` -/
abbrev Perm := List Nat

/-- `Permutation::apply` (Rust indexes and would panic out of range; proposals are range-checked by
`permOk` before anything is applied). -/
def papply (p : Perm) (i : Nat) : Nat := p.getD i 0

/-- `Permutation::identity(n)` -/
def pid (n : Nat) : Perm := List.range n

/-- `lhs * rhs` = `(0..lhs.size()).map(|i| lhs.apply(rhs.apply(i)))` : `i ↦ lhs(rhs(i))`. -/
def pmul (l r : Perm) : Perm := (List.range l.length).map fun i => papply l (papply r i)

/-- `Permutation::inverse`: `inv[j] = i` for `i` ascending — for a non-injective mapping the last `i`
wins, positions that are never hit keep the initial `0`. -/
def pinv (p : Perm) : Perm :=
  (List.range p.length).map fun j =>
    (((List.range p.length).reverse.find? fun i => papply p i == j)).getD 0

/-! ### Cells -/

def posAt (c : CellQ) (i : Nat) : Q3 := c.pos.getD i Q3.zero
def numAt (c : CellQ) (i : Nat) : Int := c.num.getD i 0

def Q3.roundV (v : Q3) : Q3 := ⟨(ratRound v.x : Rat), (ratRound v.y : Rat), (ratRound v.z : Rat)⟩

def sumQ3 (l : List Q3) : Q3 := l.foldl Q3.add Q3.zero

def maxR (x y : Rat) : Rat := if x < y then y else x
def absR (x : Rat) : Rat := if x < 0 then -x else x

/-- The exact part of `solve_correspondence`: the mapping has one entry per site, every entry is a site
index, and sites are mapped onto sites of the same species.  (Injectivity is *not* established by the
code: its test `if let Some(_) = mapping[i]` looks at the entry that is about to be written.) -/
def permOk (c : CellQ) (p : Perm) : Bool :=
  p.length == c.n && (List.range c.n).all fun i =>
    decide (papply p i < c.n) && (numAt c (papply p i) == numAt c i)

/-! ### `pivot_site_indices` -/

def insertSorted (x : Int) : List Int → List Int
  | [] => [x]
  | y :: ys => if x < y then x :: y :: ys else if x = y then y :: ys else y :: insertSorted x ys

/-- Keys of the `BTreeMap` counter in iteration (ascending) order. -/
def speciesKeys (nums : List Int) : List Int := nums.foldl (fun acc x => insertSorted x acc) []

/-- `counter.iter().min_by_key(count)`: first minimum in key order. -/
def pivotSpecies (nums : List Int) : Option Int :=
  (speciesKeys nums).foldl (fun best k =>
    match best with
    | none => some k
    | some b => if nums.count k < nums.count b then some k else some b) none

/-- `pivot_site_indices(&cell.numbers)`; `[]` stands for the panic on a cell without atoms. -/
def pivotSiteIndices (c : CellQ) : List Nat :=
  match pivotSpecies c.num.toList with
  | none => []
  | some sp => (List.range c.n).filter fun i => numAt c i == sp

/-- The rough translation tried for destination `dst`: `positions[dst] - R * positions[src]`. -/
def roughTranslation (c : CellQ) (R : M3) (src dst : Nat) : Q3 :=
  (posAt c dst).sub (R.applyQ (posAt c src))

/-! ### `symmetrize_translation_from_permutation` -/

/-- Summand of the least-squares translation: `x_{π(i)} - R x_i`, minus `rough`, minus its rounding, plus `rough`. -/
def symDisp (c : CellQ) (p : Perm) (R : M3) (rough : Q3) (i : Nat) : Q3 :=
  let d := ((posAt c (papply p i)).sub (R.applyQ (posAt c i))).sub rough
  (d.sub (Q3.roundV d)).add rough

def symTranslation (c : CellQ) (p : Perm) (R : M3) (rough : Q3) : Q3 :=
  Q3.smul (1 / (c.n : Rat)) (sumQ3 ((List.range c.n).map (symDisp c p R rough)))

/-- `R x_i + t - x_{π(i)}` with every component wrapped by `e - e.round()`. -/
def residual (c : CellQ) (p : Perm) (R : M3) (t : Q3) (i : Nat) : Q3 :=
  let d := ((R.applyQ (posAt c i)).add t).sub (posAt c (papply p i))
  d.sub (Q3.roundV d)

/-- squared Cartesian length of the residual of atom `i` -/
def dist2 (c : CellQ) (p : Perm) (R : M3) (t : Q3) (i : Nat) : Rat :=
  (c.lat.apply (residual c p R t i)).normSq

/-- square of the returned `distance` (maximum over the atoms; there is at least one atom). -/
def maxDist2 (c : CellQ) (p : Perm) (R : M3) (t : Q3) : Rat :=
  (List.range c.n).foldl (fun m i => maxR m (dist2 c p R t i)) 0

/-- `distance < symprec` -/
def accept (c : CellQ) (symprec : Rat) (p : Perm) (R : M3) (t : Q3) : Bool :=
  decide (0 < symprec) && decide (maxDist2 c p R t < symprec * symprec)

/-- `rough_symprec > minimum_basis_norm / 2` with `rough_symprec = 2 symprec`, on squares. -/
def guardTooLarge (minNormSq symprec : Rat) : Bool :=
  decide (0 < symprec) && decide (minNormSq < 16 * symprec * symprec)

/-! ### Proposals and operations -/

/-- A proposal of the kd-tree. -/
structure Cand where
  rot : M3
  rough : Q3
  perm : Perm
deriving Repr, Inhabited

/-- An operation with its permutation; `depth` = number of accepted candidates multiplied together
(bookkeeping only, not present in the code). -/
structure Elem where
  rot : M3
  trans : Q3
  perm : Perm
  depth : Nat
deriving DecidableEq, Repr, Inhabited

/-- `(Operation::identity(), Permutation::identity(n))` -/
def Elem.one (n : Nat) : Elem := ⟨M3.one, Q3.zero, pid n, 0⟩

/-- translation of `lhs * rhs`: `R_l t_r + t_l` -/
def mulTrans (l g : Elem) : Q3 := (l.rot.applyQ g.trans).add l.trans

/-- One enqueued product: `ops_lhs * ops_rhs`, `translation -= translation.round()`,
`permutation_lhs * permutation_rhs`. -/
def Elem.step (l g : Elem) : Elem :=
  let t := mulTrans l g
  ⟨l.rot.mul g.rot, t.sub (Q3.roundV t), pmul l.perm g.perm, l.depth + 1⟩

/-- "Purify symmetry operations by permutations": the accepted candidates, in order. -/
def purify (c : CellQ) (symprec : Rat) (cands : List Cand) : List Elem :=
  cands.filterMap fun cd =>
    let t := symTranslation c cd.perm cd.rot cd.rough
    if accept c symprec cd.perm cd.rot t then some ⟨cd.rot, t, cd.perm, 1⟩ else none

/-- The closure loop: `queue` (front first), `out` = operations found so far in chronological order
(`visited` is the set of their rotation parts).  `none` = fuel exhausted. -/
def bfs (gens : List Elem) : Nat → List Elem → List Elem → Option (List Elem)
  | _, [], out => some out
  | 0, _ :: _, _ => none
  | fuel + 1, e :: q, out =>
    if out.any (fun o => o.rot == e.rot) then bfs gens fuel q out
    else bfs gens fuel (q ++ gens.map e.step) (out ++ [e])

/-- Fuel that suffices whenever the loop ends with at most 48 operations. -/
def bfsFuel (gens : List Elem) : Nat := 2 + 48 * gens.length

/-! ### `check_closure` -/

/-- `translations_map[&R]` after inserting all operations in order (`HashMap::insert`: last write wins). -/
def lastTrans (ops : List Elem) (R : M3) : Option Q3 :=
  (ops.reverse.find? fun o => o.rot == R).map (·.trans)

/-- The vector whose length is tested for the pair `(a, b)`: stored translation of the product rotation
minus the product translation, every component wrapped by `e - e.round()`. -/
def closureDiff (t : Q3) (a b : Elem) : Q3 :=
  let d := t.sub (mulTrans a b)
  d.sub (Q3.roundV d)

/-- The double loop with its early `return false`; `none` = the indexing `translations_map[&rot]` panics. -/
def closureGo (ops : List Elem) (A : QM3) (r2 : Rat) : List (Elem × Elem) → Option Bool
  | [] => some true
  | (a, b) :: rest =>
    match lastTrans ops (a.rot.mul b.rot) with
    | none => none
    | some t =>
      if r2 < (A.apply (closureDiff t a b)).normSq then some false else closureGo ops A r2 rest

def allPairs (ops : List Elem) : List (Elem × Elem) := ops.flatMap fun a => ops.map fun b => (a, b)

/-- `check_closure(operations, lattice, rough_symprec)` with `r2 = rough_symprec²`. -/
def checkClosure (ops : List Elem) (A : QM3) (r2 : Rat) : Option Bool := closureGo ops A r2 (allPairs ops)

/-! ### `PrimitiveSymmetrySearch::new` -/

inductive Err
  | tooLarge | tooSmall | minkowski
  | panic (what : String)
  /-- a proposed permutation violates what `solve_correspondence` guarantees by construction -/
  | badProposal
  /-- the closure loop did not end within the fuel -/
  | diverged
deriving Repr, DecidableEq

def Err.name : Err → String
  | .tooLarge => "TooLargeToleranceError"
  | .tooSmall => "TooSmallToleranceError"
  | .minkowski => "MinkowskiReductionError"
  | .panic w => "PANIC " ++ w
  | .badProposal => "BadProposal"
  | .diverged => "Diverged"

/-- Model of `PrimitiveSymmetrySearch::new(primitive_cell, symprec, _)` given the proposals. -/
def searchModel (c : CellQ) (symprec : Rat) (brav : Option (List M3)) (cands : List Cand) :
    Except Err (List Elem) :=
  if guardTooLarge (c.lat.col 0).normSq symprec then .error .tooLarge else
  match brav with
  | none => .error .tooLarge
  | some _ =>
    if c.n = 0 then .error (.panic "pivot_site_indices") else
    if !(cands.all fun cd => permOk c cd.perm) then .error .badProposal else
    let acc := purify c symprec cands
    if acc.isEmpty then .error .tooSmall else
    match bfs acc (bfsFuel acc) [Elem.one c.n] [] with
    | none => .error .diverged
    | some ops =>
      if ops.length ≠ acc.length then .error .tooLarge else
      match checkClosure ops c.lat (4 * symprec * symprec) with
      | none => .error (.panic "check_closure")
      | some false => .error .tooLarge
      | some true => .ok ops

/-- (H-c): the accepted candidates have pairwise distinct rotation parts. -/
def distinctRots (acc : List Elem) : Bool := decide (acc.map (·.rot)).Nodup

/-! ### Fragility (used by the driver only: which comparisons were too close to call in f64) -/

def relTol : Rat := 4 / 1000000000
def absTol : Rat := 1 / 10000000000000

/-- The comparison `lhs < r²` of a squared length with a squared threshold is within the float uncertainty:
relative `4e-9` on the squares, plus `2·r·ε` with `ε = 1e-13·scale` the absolute error of a computed length
(`scale` = largest lattice entry). -/
def closeTo (lhs r scale : Rat) : Bool :=
  decide (absR (lhs - r * r) ≤ relTol * r * r + 2 * absR r * absTol * scale)

end Moyo.Search
